CHECKS = {
  "C18": dict(pkg="crash", level="fault_enumeration", parallel=4,
              technique="fault injection by complete enumeration + property-based sampling: a follower node (real vm.VM in snow.VM on pebble) is killed by os.Exit inside each verif-tagged hook point of the accept pipeline at every block k with every backlog d (and by SIGKILL at generated delays), a fresh process restarts on the same directory, and what it recovered is compared with a producer node that never crashed",
              level_text="the finite grid (7 crash points x block k in 1..8 x backlog d, follower in normal operation / bootstrapping / with the last Accept call still in progress) is enumerated completely in the thorough tier; the quick tier samples it by seed. Second-order crashes (the first restart dies inside the re-accept of a backlog block) and SIGKILL at wall-clock delays are sampled, not enumerated",
              level_note="crash = process death between durable writes (os.Exit in a hook / SIGKILL); torn single writes, fsync lies and disk corruption are out of scope; node directories are on tmpfs when available because the page cache survives a process death; one producer chain (10 blocks, chaintest actions incl. a failing one and an empty block) per test process; a child that exceeds its watchdog is inconclusive, never a violation",
              essential_labels=["side:consensus-thread", "side:accepter-thread", "backlog>=1", "backlog=0",
                                "index-state>=2", "index-state<=1"],
              exhaustive_all=True,
              stages=[rapid("TestC18SnowRestart", 400, 5000, pkg="snowlife", timeout_quick=600),
                      rapid("TestC18", 5, 20, quick_shards=4, shards=6, shrink_s=60, timeout_quick=1500, timeout_thorough=7200),
                      plain("TestC18Exhaustive", tiers=("thorough",), timeout_thorough=10800),
                      rapid("TestC18Kill", 1, 20, tiers=("thorough",), shards=6, shrink_s=30, timeout_thorough=7200)]),
}
