CHECKS = {
  "C22": dict(pkg="backfill", level="exploration",
              technique="property-based testing (rapid) with injected peer faults: the real Syncer + BlockFetcherClient + P2PBlockFetcher + TimeValidityWindow + BlockFetcherHandler wired to a scripted p2p client / node sampler / block store; history oracles computed from the generated true chain (safety of every SaveHistorical call, exact tracked set via IsRepeat, completion, content-based bounded liveness)",
              level_text="randomised exploration of chains x windows x local suffixes x scripts of 17 peer behaviours x optional failing save x optional cancellation of the Start context at a drawn round; every case runs the real goroutines with the real 500 ms back-off (64 cases concurrently per rapid check), so the number of cases is in the hundreds (quick) to tens of thousands (thorough), not exhaustive",
              level_note="block type / parser / store / network are harness fakes (the code under test is generic over them); constant validity-window rule; no UpdateSyncTarget during backfill (no forward completion: after a cancelled Start context Wait()==nil is accepted only if the recorded ancestry really is complete); liveness is judged from the content of the delivered responses, a wall-clock timeout is INCONCLUSIVE (exit 2), never a violation; chains younger than the window are in the domain (genesis stop demanded, repaired by fix F22; VERIF_C22_STRICT_GENESIS=0 only labels it)",
              essential_labels=["unlinked-wellformed-block-delivered", "good-prefix-then-bad-tail", "ran:forged", "ran:foreign",
                                "ran:reordered", "ran:shifted", "ran:dup-inside", "ran:truncated", "ran:garbage-blocks",
                                "ran:partial-store", "ran:prefix", "ran:overlong", "ran:honest", "script-exhausted",
                                "block-ts==oldest-allowed", "equal-ts-run-at-oldest-allowed", "equal-ts-run-below-window",
                                "boundary-is-genesis", "honest-needs>=2-rounds", "suffix-partial", "suffix-none",
                                "save-failure-hit", "fetched>=4", "young-chain", "old-chain",
                                "cancel-start:fired", "cancel-start:window-incomplete"],
              # one rapid check = one batch of 64 concurrent cases (~4-5 s of sleeping per batch)
              stages=[rapid("TestC22", 5, 60, timeout_quick=600, timeout_thorough=3000, shrink_s=30)]),
}
