# props/storage: C19 (chain index window), C31 (indexer window)
CHECKS = {
    "C19": dict(pkg="storage", level="exploration",
                technique="property-based testing (rapid): generated op-list histories (consecutive accepts, accepts after height gaps, "
                          "historical saves, restarts with the same or another window) against the real chainindex over one memdb, "
                          "history invariants from a window reference model evaluated after every operation",
                level_text="randomised exploration of short histories (<= ~60 index operations, windows 0..8); every accept/save/restart is "
                           "followed by a full sweep of all lookups over every height ever written, so a violation inside the explored "
                           "space is observed at the operation that causes it; no exhaustiveness claim",
                level_note="memdb stands for a healthy database (batch writes atomic, a crash point = a restart between operations); one block "
                           "per height; historical saves stay below the accepted tip; background compaction is a no-op on memdb; window 0 = pruning disabled",
                essential_labels=["accept-prune-target-missing", "restart-smaller-window", "restart-finds-blocks-older-than-window",
                                  "hist-below-window", "hist-in-window", "gap>=window", "bound-tight"],
                stages=[rapid("TestC19", 3000, 100000)]),
    "C31": dict(pkg="storage", level="exploration",
                technique="property-based testing (rapid): generated op-list histories (consecutive notifications, notifications after height "
                          "gaps, re-delivery, Close + reopen on the same pebble directory with the same or another window) against the real "
                          "indexer, every answer compared with a window reference model after every operation and across restarts",
                level_text="randomised exploration of short histories (<= ~45 notifications, windows 1..6, 0..3 transactions per block) on a real "
                           "pebble store; all heights / block ids / transaction ids ever notified and some never notified are queried after "
                           "every operation; no exhaustiveness claim",
                level_note="restart = clean Close then NewIndexer on the same directory (no torn writes); notified heights strictly increase apart "
                           "from re-delivery of the last block; executed blocks are built from chaintest actions with hand-made results",
                essential_labels=["notify-expires-more-than-the-one-block", "restart-with-blocks", "gap>=window", "redeliver",
                                  "restart-same-window", "block-with-txs"],
                stages=[rapid("TestC31", 300, 2500, shrink_s=15)]),
}
