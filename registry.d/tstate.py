CHECKS = {
  "C04": dict(pkg="tstate", level="exploration",
              technique="property-based testing (rapid) of op-list histories against a map+undo-stack reference model, plus exhaustive small-scope enumeration of all op sequences",
              level_text="Every generated history (parent state x block-level pending changes x get/insert/remove/checkpoint/rollback/commit (non-terminal: the view stays in use)/commit+fresh view/drop over up to three interleaved live views on one TState) is executed on the real TStateView/TState and on an independent map model; after every op every live view, a fresh probe view and TState.ChangedKeys()/PendingChanges() are read back and compared (uncommitted changes visible only through their view; block-level state = parent + the commits so far), and at every commit ChangedKeys() must grow by exactly the view's differing keys. The exhaustive sub-run covers every sequence up to length 6 (thorough) / 4 (quick) over 2 keys x 2 values on one view slot for all 144 initial configurations. Exploration, not proof: longer histories and larger universes are only sampled.",
              level_note="all views are driven from one goroutine; two generator rules (implicit preconditions of tstate) are excluded by construction and counted: a key is written by at most one live view at a time; a view is not rolled back below its own Commit onto a write that equalled the underlying value when it was made; full permissions (scope is C05); storage is an in-memory map (state.ImmutableStorage) that never fails",
              # percentages are taken over ALL evaluations, which the exhaustive enumeration dominates (its short
              # sequences rarely contain delete-create-delete (21 % of the random cases), a rollback across a
              # create+delete (7.7 %) or past an own commit (5.8 %), several live views (38 %)), so those are reported
              # as labels but not listed as essential
              essential_labels=["write-on-view-after-its-commit", "second-commit-of-same-view",
                                "write-returns-key-to-underlying", "block-pending-tombstone", "several-committed-views"],
              stages=[rapid("TestC04", 80000, 200000),
                      plain("TestC04Exhaustive", timeout_quick=600, timeout_thorough=7200)]),
  "C05": dict(pkg="tstate", level="exploration",
              technique="exhaustive permission-byte x key-state x operation table, plus property-based testing (rapid) of random transactions through chain.Transaction against a reference model with the permission lattice",
              level_text="The table enumerates {not declared, 0..7}^2 united by Keys.Add x 6 underlying key states x 4 operations x sibling-suffix decoy (3564 cells, always in full). The random part runs 1..3 transactions of programmable actions through the real Transaction.StateKeys/PreExecute/Execute and TStateView.Commit, compares success, what each action observed and the exact published key set with the model, and probes every key of the universe for read and write access per transaction.",
              level_note="raw permission bytes without the read bit (2,4,6) only bound the expected answer; fee/balance admission is followed, not judged; the custom action never parses its own bytes (codec is out of scope here)",
              essential_labels=["denied-one-bit-short", "denied-though-sibling-suffix-declared", "denied-undeclared-key",
                                "probe-allowed-only-by-union-of-declarations", "denial-ignored-action-continues",
                                "failing-tx-reverted-after-write", "tx-succeeded"],
              stages=[rapid("TestC05", 10000, 50000),
                      plain("TestC05Exhaustive")]),
}
