CHECKS = {
  "C36": dict(pkg="dsmr1", level="exploration",
              technique="property-based testing (rapid): metamorphic twin run (same op list on a never-reopened and a reopened ChunkStorage) compared through the exported API after every op",
              level_text="explores generated op histories (local/remote adds, certs, SetMin saving some chunks and expiring others, reopens at any op boundary); a reopen must be unobservable; holds on everything explored, says nothing about unexplored histories or torn writes",
              level_note="restart = NewChunkStorage with a brand-new verifier on the same memdb handle at an op boundary; chunks are unsigned (BLS chunk signatures out of scope); the stored minimumExpiry field has no reader, so the minimum is observed through what the storage hands its (real) ChunkVerifier, and directly only if the verif-tagged accessor of fixes/H-dsmr-minexpiry.diff is present",
              essential_labels=["reopen-after-save-unexpired", "reopen-with-pending", "mid-history-reopen", "chunk-expired"],
              stages=[rapid("TestC36", 2000, 20000, timeout_quick=300, timeout_thorough=1500)]),
  "C38": dict(pkg="dsmr1", level="exploration",
              technique="property-based testing (rapid): op-list histories on fdsmr.Node + the real Bonder against a set-of-bonded-transactions reference model, checked after every op and after a final settling block",
              level_text="explores generated histories of max-balance changes, chunk builds with repeated transactions and boundary fee rates, block accepts with built/foreign chunks and advancing timestamps; balance = sum of outstanding bonds, <= max when it grows, Bond's verdict, zero after settlement; holds on everything explored only",
              level_note="inner DSMR is scripted (no real chunk building); pending balances are read from the Bonder's memdb records; Bond's return value for a resubmission that would be refused as a new transaction is left unconstrained",
              essential_labels=["resubmit-in-same-chunk", "resubmit-in-later-chunk", "released-by-accept", "released-by-expiry", "refused-over-max", "bond-exactly-at-max", "rebond-after-accept"],
              stages=[rapid("TestC38", 3000, 100000, timeout_quick=300, timeout_thorough=1500)]),
}
