#!/usr/bin/env python3
"""Regenerates MANIFEST.json from registry.py (single source of truth for what is claimed)."""
import json, os, subprocess, sys
ROOT = os.path.dirname(os.path.abspath(__file__))
sys.path.insert(0, ROOT)
from registry import CHECKS, HOOK_COMMITS, NOT_APPLICABLE  # noqa

props = [json.loads(l) for l in open(os.path.join(ROOT, "properties.jsonl"))]
ids = [p["id"] for p in props]
checks = []
for pid in ids:
    if pid not in CHECKS:
        continue
    s = CHECKS[pid]
    checks.append({
        "property_id": pid,
        "quick_cmd": "python3 check.py %s --tier quick" % pid,
        "thorough_cmd": "python3 check.py %s --tier thorough" % pid,
        "evidence_file": "/verif/evidence/%s.json" % pid,
        "replay_cmd_template": "python3 check.py %s --replay {path}" % pid,
        "engine": "rapid-harness",
        "level_claimed": {
            "category": s.get("level", "exploration"),
            "text": s.get("level_text", "generated-input search (rapid) against an explicit oracle; evidence reports cases, distinct non-trivial cases and samples"),
            "design_ref": "DESIGN.md section 4, " + pid,
        },
        "level_note": s.get("level_note", "trusts the Go toolchain, rapid v1.3.0 and the harness oracle; absence of violations is not established beyond the explored cases"),
        "technique": s.get("technique", "property-based testing (rapid) against an explicit oracle"),
    })
na = []
for pid in ids:
    if pid not in CHECKS:
        na.append({"property_id": pid, "reason": NOT_APPLICABLE.get(pid, "no check built yet in this session (planned in DESIGN.md section 4); not claimed")})
m = {
    "version": 1,
    "setup_cmd": "python3 check.py --setup",
    "hooks": {
        "guard": "verif",
        "enable": "go build tag: go test -tags verif (set by check.py for every build of the harness against /repo)",
        "baseline_off_cmd": "cd /repo && GOFLAGS=-mod=mod go test -vet=off -count=1 -timeout 25m ./...",
        "source_commits": HOOK_COMMITS,
        "add_only": True,
    },
    "engines": [{
        "name": "rapid-harness",
        "path": "/verif/harness",
        "serves_properties": [c["property_id"] for c in checks],
        "kind_free_text": "Go module nested under hypersdk's module path (replace => /repo) with pgregory.net/rapid v1.3.0 property tests, reference models and native go fuzz targets; driven by /verif/check.py",
    }],
    "checks": checks,
    "not_applicable": na,
    "notes": "All checks are decided by property-based testing / fuzzing. check.py exit codes: 0 held, 1 VIOLATION, 2 infrastructure trouble (never a verdict). VERIF_SEED selects the rapid seeds.",
}
json.dump(m, open(os.path.join(ROOT, "MANIFEST.json"), "w"), indent=1)
sys.path.insert(0, ROOT)
from check import validate_json  # noqa
msg = validate_json(os.path.join(ROOT, "MANIFEST.json"), "/root/.vp/MANIFEST.schema.json")
print("MANIFEST.json %s: %d checks, %d not claimed" % ("INVALID " + msg if msg else "valid", len(checks), len(na)))
