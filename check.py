#!/usr/bin/env python3
"""Driver for the /verif property checks (property-based testing + fuzzing).

  python3 check.py <ID> --tier quick|thorough
  python3 check.py <ID> --replay <file>
  python3 check.py --setup

exit 0  property held on everything explored (KNOWN-FINDING lines may be printed)
exit 1  "VIOLATION property=<ID> replay=<path>" printed
exit 2  infrastructure trouble (tree does not compile against the harness, timeout, ...)
"""
import argparse
import glob
import json
import os
import re
import shutil
import signal
import subprocess
import sys
import time

ROOT = os.path.dirname(os.path.abspath(__file__))
HARNESS = os.path.join(ROOT, "harness")
BUILD = os.path.join(ROOT, ".build")
EVID = os.path.join(ROOT, "evidence")
REPLAYS = os.path.join(ROOT, "replays")
NCPU = os.cpu_count() or 4

sys.path.insert(0, ROOT)
from registry import CHECKS  # noqa: E402


def goenv():
    e = dict(os.environ)
    e["GOFLAGS"] = "-mod=mod"
    e["GOPROXY"] = "off"
    e.pop("GOSUMDB", None)
    e["GOTOOLCHAIN"] = "auto"
    e.setdefault("GOMAXPROCS", str(NCPU))
    return e


def ensure_gosum():
    """go.sum of the harness = /repo's sums + what the harness adds (rapid)."""
    dst = os.path.join(HARNESS, "go.sum")
    lines = set()
    if os.path.exists(dst):
        lines.update(open(dst).read().splitlines())
    for src in ("/repo/go.sum", "/repo/examples/morpheusvm/go.sum"):
        if os.path.exists(src):
            lines.update(open(src).read().splitlines())
    lines.discard("")
    new = "\n".join(sorted(lines)) + "\n"
    if not os.path.exists(dst) or open(dst).read() != new:
        tmp = "%s.%d.tmp" % (dst, os.getpid())
        with open(tmp, "w") as f:
            f.write(new)
        os.replace(tmp, dst)


def alt_modfile():
    """VERIF_REPO=<dir> (development only: mutants / proposed fixes in a scratch worktree)
    builds the harness against <dir> instead of /repo through an alternate go.mod."""
    alt = os.environ.get("VERIF_REPO")
    if not alt or os.path.abspath(alt) == "/repo":
        return []
    alt = os.path.abspath(alt)
    tag = re.sub(r"[^A-Za-z0-9]", "_", alt)
    d = os.path.join(BUILD, "altmod")
    os.makedirs(d, exist_ok=True)
    mod = os.path.join(d, tag + ".mod")
    src = open(os.path.join(HARNESS, "go.mod")).read().replace("=> /repo", "=> " + alt)
    with open(mod, "w") as f:
        f.write(src)
    shutil.copy(os.path.join(HARNESS, "go.sum"), os.path.join(d, tag + ".sum"))
    return ["-modfile=" + mod]


def build(pkg, out, race=False, timeout=1500):
    os.makedirs(os.path.dirname(out), exist_ok=True)
    ensure_gosum()
    cmd = ["go", "test", "-c", "-tags", "verif", "-vet=off", "-o", out] + alt_modfile()
    if race:
        cmd.append("-race")
    cmd.append("./props/" + pkg)
    t0 = time.time()
    try:
        p = subprocess.run(cmd, cwd=HARNESS, env=goenv(), stdout=subprocess.PIPE,
                           stderr=subprocess.STDOUT, text=True, timeout=timeout)
    except subprocess.TimeoutExpired:
        return False, "build timed out", time.time() - t0
    return p.returncode == 0, p.stdout, time.time() - t0


def seed_for(verif_seed, k):
    s = 1 + ((verif_seed * 1000003 + k * 7919) % (2 ** 62))
    return s


class Proc:
    def __init__(self, name, cmd, env, cwd, timeout, replay_file, stats_file, log_file, requested):
        self.name, self.cmd, self.env, self.cwd = name, cmd, env, cwd
        self.timeout, self.replay_file, self.stats_file = timeout, replay_file, stats_file
        self.log_file, self.requested = log_file, requested
        self.p = None
        self.t0 = None
        self.rc = None
        self.timed_out = False

    def start(self):
        for f in (self.replay_file, self.stats_file):
            if f and os.path.exists(f):
                os.remove(f)
        self.t0 = time.time()
        self.logf = open(self.log_file, "w")
        self.p = subprocess.Popen(self.cmd, cwd=self.cwd, env=self.env, stdout=self.logf,
                                  stderr=subprocess.STDOUT, start_new_session=True)

    def poll(self):
        if self.rc is not None:
            return True
        rc = self.p.poll()
        if rc is None:
            if time.time() - self.t0 > self.timeout + 30:
                self.timed_out = True
                try:
                    os.killpg(self.p.pid, signal.SIGKILL)
                except ProcessLookupError:
                    pass
                self.p.wait()
                rc = self.p.returncode
            else:
                return False
        self.rc = rc
        self.logf.close()
        self.wall = time.time() - self.t0
        return True

    def output(self):
        try:
            return open(self.log_file, errors="replace").read()
        except OSError:
            return ""


def run_procs(procs, parallel):
    pending = list(procs)
    running = []
    while pending or running:
        while pending and len(running) < parallel:
            pr = pending.pop(0)
            pr.start()
            running.append(pr)
        time.sleep(0.05)
        running = [r for r in running if not r.poll()]


def load_known(pid):
    path = os.path.join(ROOT, "known_findings.json")
    if not os.path.exists(path):
        return []
    data = json.load(open(path))
    return [f for f in data.get("findings", []) if f.get("property") == pid]


def merge_stats(files):
    agg = dict(evaluations=0, nontrivial_total=0, hashes=set(), overflow=False, labels={}, excluded={},
               skipped={}, samples=[], assumptions=[], exhaustive_parts=[], extra={}, rules=[])
    for f in files:
        if not os.path.exists(f):
            continue
        try:
            d = json.load(open(f))
        except Exception:
            continue
        agg["evaluations"] += d.get("evaluations", 0)
        agg["nontrivial_total"] += d.get("nontrivial_total", 0)
        agg["hashes"].update(d.get("hashes") or [])
        agg["overflow"] |= bool(d.get("hash_overflow"))
        for key in ("labels", "excluded", "skipped"):
            for k, v in (d.get(key) or {}).items():
                agg[key][k] = agg[key].get(k, 0) + v
        for s in d.get("samples") or []:
            if len(agg["samples"]) < 12:
                agg["samples"].append(s)
        for a in d.get("assumptions") or []:
            if a not in agg["assumptions"]:
                agg["assumptions"].append(a)
        if d.get("rule") and d["rule"] not in agg["rules"]:
            agg["rules"].append(d["rule"])
        if d.get("exhaustive"):
            agg["exhaustive_parts"].append(d.get("rule", ""))
        for k, v in (d.get("extra") or {}).items():
            if isinstance(v, (int, float)) and isinstance(agg["extra"].get(k), (int, float)):
                agg["extra"][k] += v
            else:
                agg["extra"][k] = v
    return agg


def write_evidence(pid, spec, tier, seed, agg, stages_info, wall, violations, known_lines, extra_assume):
    os.makedirs(EVID, exist_ok=True)
    ev_total = max(agg["evaluations"], 0)
    labels = agg["labels"]
    degenerate = []
    for lbl in spec.get("essential_labels", []):
        if ev_total and labels.get(lbl, 0) < 0.02 * ev_total:
            degenerate.append(lbl)
    cov = {
        "evaluations": ev_total,
        "distinct_nontrivial": len(agg["hashes"]),
        "nontrivial_total_including_duplicates": agg["nontrivial_total"],
        "rule": " || ".join(agg["rules"]) if agg["rules"] else spec.get("rule", ""),
        "samples": agg["samples"] if agg["samples"] else ["(no sample recorded)"],
        "labels": labels,
        "excluded_known_findings": agg["excluded"],
        "skipped_ops": agg["skipped"],
        "stages": stages_info,
        "exhaustive": bool(spec.get("exhaustive_all")) and bool(agg["exhaustive_parts"]),
        "exhaustive_subruns": agg["exhaustive_parts"],
        "hash_set_capped": agg["overflow"],
        "degenerate_labels": degenerate,
        "known_findings_reproduced": known_lines,
        "technique": spec.get("technique", "property-based testing (rapid) against an explicit oracle"),
    }
    if agg["extra"]:
        cov["extra"] = agg["extra"]
    ev = {
        "property_id": pid,
        "tier": tier,
        "seed": seed,
        "level": spec.get("level", "exploration"),
        "coverage": cov,
        "assumptions": agg["assumptions"] + extra_assume,
        "wall_s": round(wall, 2),
        "violations": violations,
    }
    path = os.path.join(EVID, pid + ".json")
    tmp = path + ".tmp"
    with open(tmp, "w") as f:
        json.dump(ev, f, indent=1, default=str)
    os.replace(tmp, path)
    # keep a per-tier copy too (evidence/<id>.json is rewritten by whichever tier ran last)
    try:
        os.makedirs(os.path.join(EVID, tier), exist_ok=True)
        shutil.copy(path, os.path.join(EVID, tier, pid + ".json"))
    except OSError:
        pass
    msg = validate_json(path, "/root/.vp/EVIDENCE.schema.json")
    if msg:
        print("evidence does not validate: %s" % msg[:500])
        return False
    return True


def validate_json(path, schema_path):
    """returns '' if valid or not checkable, else the message"""
    if not os.path.exists(schema_path):
        return ""
    code = ("import json,sys,jsonschema\n"
            "jsonschema.validate(json.load(open(sys.argv[1])), json.load(open(sys.argv[2])))\n")
    for py in (sys.executable, "python3-vt", "/opt/veriftools/pyvenv/bin/python3"):
        try:
            p = subprocess.run([py, "-c", code, path, schema_path], stdout=subprocess.PIPE,
                               stderr=subprocess.STDOUT, text=True, timeout=60)
        except (OSError, subprocess.TimeoutExpired):
            continue
        if p.returncode == 0:
            return ""
        if "No module named" in p.stdout:
            continue
        return p.stdout.strip().splitlines()[-1] if p.stdout.strip() else "invalid"
    return ""


def race_in_code_under_test(out):
    """a race report whose stacks contain a hypersdk frame outside the harness"""
    idx = out.find("WARNING: DATA RACE")
    if idx < 0:
        return False
    rep = out[idx:idx + 20000]
    rep = rep.split("==================", 1)[0] if "==================" in rep else rep
    frames = re.findall(r"github\.com/ava-labs/hypersdk/[^\s(]+", rep)
    return any("verifharness" not in f for f in frames)


def crash_in_code_under_test(out):
    """True if the output shows a Go panic / fatal error whose goroutine trace has a hypersdk frame
    outside the harness (so a harness bug or an OOM kill is not turned into a verdict)."""
    idx = max(out.find("\npanic:"), out.find("fatal error:"))
    if idx < 0:
        return False
    if "test timed out" in out or "out of memory" in out or "cannot allocate memory" in out:
        return False
    trace = out[idx:idx + 20000]
    first_goroutine = trace.split("\n\n")[1] if "\n\n" in trace else trace
    frames = re.findall(r"github\.com/ava-labs/hypersdk/[^\s(]+", first_goroutine)
    return any("verifharness" not in f for f in frames)


PASSED_RE = re.compile(r"OK, passed (\d+) tests")


def main():
    ap = argparse.ArgumentParser()
    ap.add_argument("id", nargs="?")
    ap.add_argument("--tier", default=os.environ.get("VERIF_TIER", "quick"))
    ap.add_argument("--replay")
    ap.add_argument("--setup", action="store_true")
    ap.add_argument("--scale", type=float, default=float(os.environ.get("VERIF_SCALE", "1")))
    ap.add_argument("--keep-logs", action="store_true")
    a = ap.parse_args()

    if a.setup:
        return setup()
    pid = a.id
    if pid not in CHECKS:
        print("unknown property %s" % pid)
        return 2
    spec = CHECKS[pid]
    tier = a.tier if a.tier in ("quick", "thorough") else "quick"
    try:
        vseed = int(os.environ.get("VERIF_SEED", "1"))
    except ValueError:
        vseed = 1
    t_start = time.time()

    work = os.path.join(BUILD, "run", "%s-%s-%d" % (pid, tier, os.getpid()))
    shutil.rmtree(work, ignore_errors=True)
    os.makedirs(work)
    binpath = os.path.join(work, "props.test")
    need_race = any(st.get("race") and tier in st.get("tiers", ("quick", "thorough")) for st in spec["stages"])
    ok, out, bt = build(spec["pkg"], binpath)
    if not ok:
        print(out[-6000:])
        print("INFRA property=%s: the tree does not compile against the harness (not a verdict)" % pid)
        return 2
    extra_bins = {}
    for st in spec["stages"]:
        xp = st.get("pkg")
        if xp and xp != spec["pkg"] and xp not in extra_bins and tier in st.get("tiers", ("quick", "thorough")):
            xb = os.path.join(work, "props.%s.test" % xp)
            ok, out, _ = build(xp, xb)
            if not ok:
                print(out[-6000:])
                print("INFRA property=%s: the tree does not compile against the harness (not a verdict)" % pid)
                return 2
            extra_bins[xp] = xb
    racebin = None
    if need_race:
        racebin = os.path.join(work, "props.race.test")
        ok, out, _ = build(spec["pkg"], racebin, race=True)
        if not ok:
            print(out[-6000:])
            print("INFRA property=%s: race build failed" % pid)
            return 2

    os.makedirs(os.path.join(REPLAYS, pid), exist_ok=True)
    base_env = goenv()
    known = load_known(pid)
    known_open = [k for k in known if k.get("status") == "known"]
    base_env["VERIF_KNOWN"] = ",".join(k["id"] for k in known_open)
    base_env["VERIF_TIER"] = tier
    base_env["VERIF_ROOT"] = ROOT
    pkgdir = os.path.join(HARNESS, "props", spec["pkg"])
    # rapid replays testdata/rapid/** first: never wanted here
    shutil.rmtree(os.path.join(pkgdir, "testdata", "rapid"), ignore_errors=True)

    # ---- replay mode
    if a.replay:
        env = dict(base_env)
        env["VERIF_REPLAY_INPUT"] = os.path.abspath(a.replay)
        test = spec.get("replay_test", "Test%sReplay" % pid)
        rbin, rdir = binpath, pkgdir
        # a replay file written by a stage that lives in another package (its name carries the
        # stage's test name) is replayed by that package's "<StageTest>Replay"
        mm = re.search(r"(Test[A-Za-z0-9_]+?)(-\d+)?\.json$", os.path.basename(a.replay))
        if mm:
            for st in spec["stages"]:
                xp = st.get("pkg")
                if st.get("test") == mm.group(1) and xp and xp != spec["pkg"] and xp in extra_bins:
                    rbin, rdir = extra_bins[xp], os.path.join(HARNESS, "props", xp)
                    test = st.get("replay_test", mm.group(1) + "Replay")
        p = subprocess.run([rbin, "-test.run", "^%s$" % test, "-test.count=1", "-test.v", "-test.timeout=600s"],
                           cwd=rdir, env=env, stdout=subprocess.PIPE, stderr=subprocess.STDOUT, text=True)
        print(p.stdout[-4000:])
        shutil.rmtree(work, ignore_errors=True)
        if "REPLAY-PASS" in p.stdout and p.returncode == 0:
            return 0
        if "REPLAY-FAIL" in p.stdout:
            print("VIOLATION property=%s replay=%s" % (pid, os.path.abspath(a.replay)))
            return 1
        return 2

    # ---- known findings: replay each seed case, report if it still reproduces
    known_lines = []
    for k in known_open:
        sc = k.get("seed_case")
        if not sc:
            continue
        env = dict(base_env)
        env["VERIF_REPLAY_INPUT"] = os.path.join(ROOT, sc)
        env["VERIF_KNOWN"] = ""
        test = k.get("replay_test", spec.get("replay_test", "Test%sReplay" % pid))
        p = subprocess.run([binpath, "-test.run", "^%s$" % test, "-test.count=1", "-test.v", "-test.timeout=600s"],
                           cwd=pkgdir, env=env, stdout=subprocess.PIPE, stderr=subprocess.STDOUT, text=True)
        if "REPLAY-FAIL" in p.stdout:
            line = "KNOWN-FINDING: property=%s %s [%s]" % (pid, k.get("what", ""), k["id"])
            print(line)
            known_lines.append(line)
        elif "REPLAY-PASS" in p.stdout:
            print("note: listed finding %s no longer reproduces on this tree" % k["id"])
        else:
            print(p.stdout[-3000:])
            print("INFRA property=%s: could not replay known finding %s" % (pid, k["id"]))
            return 2

    # ---- stages
    procs = []
    stages_info = []
    for si, st in enumerate(spec["stages"]):
        if tier not in st.get("tiers", ("quick", "thorough")):
            continue
        if st.get("fuzz"):
            continue
        n = st.get(tier)
        shards = st.get("shards", NCPU) if tier == "thorough" else st.get("quick_shards", 1)
        if st.get("plain"):
            shards = 1 if not st.get("plain_shards") else shards
        tmo = st.get("timeout_" + tier, 900 if tier == "quick" else 3 * 3600)
        for sh in range(shards):
            name = "%s-%d" % (st["test"], sh) if not st.get("race") else "%s-race-%d" % (st["test"], sh)
            seed = seed_for(vseed, si * 64 + sh)
            stats_file = os.path.join(work, name + ".stats.json")
            replay_file = os.path.join(work, name + ".replay.json")
            b = racebin if st.get("race") else extra_bins.get(st.get("pkg"), binpath)
            stage_dir = os.path.join(HARNESS, "props", st.get("pkg") or spec["pkg"])
            cmd = [b, "-test.run", "^%s$" % st["test"], "-test.count=1", "-test.timeout=%ds" % tmo]
            requested = None
            if not st.get("plain"):
                requested = max(1, int(n * a.scale))
                cmd += ["-test.v", "-rapid.checks=%d" % requested, "-rapid.seed=%d" % seed,
                        "-rapid.shrinktime=%ds" % st.get("shrink_s", 20), "-rapid.nofailfile"]
            env = dict(base_env)
            env["VERIF_STATS_FILE"] = stats_file
            env["VERIF_REPLAY_FILE"] = replay_file
            env["VERIF_SHARD"] = str(sh)
            env["VERIF_NSHARDS"] = str(shards)
            env["VERIF_CASE_SEED"] = str(seed)
            env["VERIF_WORK"] = work
            if st.get("gomaxprocs"):
                env["GOMAXPROCS"] = str(st["gomaxprocs"])
            if st.get("plain") and n:
                env["VERIF_N"] = str(max(1, int(n * a.scale)))
            procs.append((si, st, Proc(name, cmd, env, stage_dir, tmo, replay_file, stats_file,
                                       os.path.join(work, name + ".log"), requested)))
    par = spec.get("parallel", NCPU if tier == "thorough" else 4)
    run_procs([p for _, _, p in procs], par)

    violations = []
    infra = []
    for si, st, pr in procs:
        out = pr.output()
        info = {"stage": pr.name, "rc": pr.rc, "wall_s": round(pr.wall, 1)}
        m = PASSED_RE.search(out)
        if pr.requested is not None:
            info["requested_cases"] = pr.requested
            if m:
                info["passed_cases"] = int(m.group(1))
        stages_info.append(info)
        if pr.rc == 0 and not pr.timed_out:
            if pr.requested is not None and m and int(m.group(1)) < pr.requested / 2:
                infra.append("%s: only %s of %d cases ran before the deadline" % (pr.name, m.group(1), pr.requested))
            continue
        if os.path.exists(pr.replay_file) and "VERIF-FAIL" in out:
            dst = os.path.join(REPLAYS, pid, "%s-seed%d-%s.json" % (tier, vseed, pr.name))
            shutil.copy(pr.replay_file, dst)
            violations.append(dst)
            tail = [l for l in out.splitlines() if "VERIF-FAIL" in l][-1:]
            print("\n".join(tail)[:3000])
        elif st.get("race") and not pr.timed_out and race_in_code_under_test(out):
            dst = os.path.join(REPLAYS, pid, "%s-seed%d-%s-race.json" % (tier, vseed, pr.name))
            idx = out.find("WARNING: DATA RACE")
            with open(dst, "w") as f:
                json.dump({"property": pid, "error": "data race reported by the Go race detector: " + out[idx:idx + 6000], "case": None,
                           "note": "schedule dependent; re-run the race stage with the same VERIF_SEED"}, f, indent=1)
            violations.append(dst)
            print(out[idx:idx + 1500])
        elif not pr.timed_out and crash_in_code_under_test(out):
            # the process died in a panic / runtime fatal error raised on a goroutine of the code
            # under test (rapid cannot recover those): a failure of the tree, not of the machinery
            dst = os.path.join(REPLAYS, pid, "%s-seed%d-%s-crash.json" % (tier, vseed, pr.name))
            idx = max(out.find("panic:"), out.find("fatal error:"))
            with open(dst, "w") as f:
                json.dump({"property": pid, "error": "process crashed: " + out[idx:idx + 6000], "case": None,
                           "note": "crash outside the test goroutine; no shrunk case (re-run the stage with the same VERIF_SEED)"}, f, indent=1)
            violations.append(dst)
            print(out[idx:idx + 1500])
        else:
            infra.append("%s: rc=%s timed_out=%s\n%s" % (pr.name, pr.rc, pr.timed_out, out[-3000:]))

    # ---- native fuzz stages (thorough only)
    fuzz_info = []
    if tier == "thorough" and not violations:
        for st in spec["stages"]:
            if not st.get("fuzz"):
                continue
            res = run_fuzz(pid, spec, st, base_env, work, a.scale)
            fuzz_info.append(res["info"])
            violations += res["violations"]
            infra += res["infra"]
    stages_info += fuzz_info

    agg = merge_stats([p.stats_file for _, _, p in procs])
    for fi in fuzz_info:
        agg["evaluations"] += fi.get("execs", 0)
    wall = time.time() - t_start
    extra_assume = ["evidence written by /verif/check.py from per-process counters of the harness (vstat)"]
    evid_ok = write_evidence(pid, spec, tier, vseed, agg, stages_info, wall, len(violations), known_lines, extra_assume)
    if not a.keep_logs and not violations and not infra:
        shutil.rmtree(work, ignore_errors=True)

    if violations:
        for v in violations:
            print("VIOLATION property=%s replay=%s" % (pid, v))
        return 1
    if infra:
        for i in infra:
            print("INFRA property=%s: %s" % (pid, i))
        return 2
    if not evid_ok:
        return 2
    print("OK property=%s tier=%s evaluations=%d distinct_nontrivial=%d wall=%.1fs" % (
        pid, tier, agg["evaluations"], len(agg["hashes"]), wall))
    return 0


FUZZ_EXECS_RE = re.compile(r"execs: (\d+)")


def run_fuzz(pid, spec, st, base_env, work, scale):
    """go test -fuzz on one target; new crashers under testdata/fuzz are violations."""
    pkgdir = os.path.join(HARNESS, "props", spec["pkg"])
    target = st["fuzz"]
    secs = max(5, int(st.get("fuzztime", 60) * scale))
    corpus_dir = os.path.join(pkgdir, "testdata", "fuzz", target)
    before = set(os.listdir(corpus_dir)) if os.path.isdir(corpus_dir) else set()
    env = dict(base_env)
    env["VERIF_STATS_FILE"] = ""
    env["GOCACHE"] = subprocess.run(["go", "env", "GOCACHE"], env=base_env, stdout=subprocess.PIPE, text=True).stdout.strip()
    cmd = ["go", "test", "-tags", "verif", "-vet=off"] + alt_modfile() + ["-run", "^$", "-fuzz", "^%s$" % target,
           "-fuzztime", "%ds" % secs, "-timeout", "%ds" % (secs + 900), "./props/" + spec["pkg"]]
    t0 = time.time()
    try:
        p = subprocess.run(cmd, cwd=HARNESS, env=env, stdout=subprocess.PIPE, stderr=subprocess.STDOUT,
                           text=True, timeout=secs + 1200)
        out, rc = p.stdout, p.returncode
    except subprocess.TimeoutExpired as e:
        out, rc = (e.stdout or b"").decode(errors="replace") if isinstance(e.stdout, bytes) else (e.stdout or ""), -9
    execs = [int(x) for x in FUZZ_EXECS_RE.findall(out)]
    info = {"stage": "fuzz:" + target, "rc": rc, "wall_s": round(time.time() - t0, 1),
            "execs": max(execs) if execs else 0, "fuzztime_s": secs}
    res = {"info": info, "violations": [], "infra": []}
    after = set(os.listdir(corpus_dir)) if os.path.isdir(corpus_dir) else set()
    new = sorted(after - before)
    if rc != 0:
        if new:
            for f in new:
                dst = os.path.join(REPLAYS, pid, "fuzz-%s-%s" % (target, f))
                shutil.move(os.path.join(corpus_dir, f), dst)
                res["violations"].append(dst)
            print(out[-3000:])
        else:
            res["infra"].append("fuzz %s rc=%s\n%s" % (target, rc, out[-3000:]))
    return res


def setup():
    ensure_gosum()
    os.makedirs(BUILD, exist_ok=True)
    pkgs = sorted(set(s["pkg"] for s in CHECKS.values()) | set(st["pkg"] for s in CHECKS.values() for st in s["stages"] if st.get("pkg")))
    rc = 0
    for pkg in pkgs:
        out = os.path.join(BUILD, "setup", pkg + ".test")
        ok, log, bt = build(pkg, out)
        print("setup: build props/%s %s (%.0fs)" % (pkg, "ok" if ok else "FAILED", bt))
        if not ok:
            print(log[-4000:])
            rc = 2
        race = any(st.get("race") for s in CHECKS.values() if s["pkg"] == pkg for st in s["stages"])
        if ok and race:
            ok2, log2, bt2 = build(pkg, out + ".race", race=True)
            print("setup: race build props/%s %s (%.0fs)" % (pkg, "ok" if ok2 else "FAILED", bt2))
    shutil.rmtree(os.path.join(BUILD, "setup"), ignore_errors=True)
    return rc


if __name__ == "__main__":
    sys.exit(main())
