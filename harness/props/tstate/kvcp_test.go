package tstateprops

// kvcp: the reference model for C04/C05 — a key-value map with checkpoints.
//
// Three layers, exactly as the property words them: the parent ("base") state,
// the block's pending changes (values and tombstones published by earlier
// views), and the views. A view layer is a plain map of the entries
// written in that view plus an undo stack; a checkpoint is the height of the
// undo stack. Nothing here is derived from the implementation: there is no
// allocate/write bookkeeping and no "unchanged" short cut, visible values are
// simply looked up layer by layer and the published set is computed at commit
// time by comparing visible and underlying values.

// mval is an optional value: Ok=false means "absent" (V is then "").
type mval struct {
	Ok bool
	V  string
}

type kvcpUndo struct {
	k        string
	had      bool
	prev     mval
	prevRest bool
}

type kvcp struct {
	base  map[string]mval // parent state: present keys only
	block map[string]mval // block-level pending changes: entry present = changed; Ok=false = tombstone
	cur   *kvView         // the "current" view of the single-view convenience API below (C05)
}

// kvView is one transaction view over the shared base/block layers. Any number
// of views may exist; a view's uncommitted entries are visible only through it.
// Commit is not terminal: the view keeps its entries and its undo stack, so it
// can be used further, rolled back to checkpoints taken before the commit
// (which never un-publishes anything) and committed again.
type kvView struct {
	m    *kvcp
	ent  map[string]mval // entries written in this view (may equal the underlying value)
	rest map[string]bool // bookkeeping for a generator rule only: the entry equalled the underlying value when it was written
	undo []kvcpUndo
}

func newKvcp(base map[string]mval) *kvcp {
	m := &kvcp{base: base, block: map[string]mval{}}
	m.cur = m.newView()
	return m
}

func (m *kvcp) newView() *kvView {
	return &kvView{m: m, ent: map[string]mval{}, rest: map[string]bool{}}
}

// underlying is what a fresh view would read: block-level pending change, else parent state.
func (m *kvcp) underlying(k string) mval {
	if e, ok := m.block[k]; ok {
		return e
	}
	if e, ok := m.base[k]; ok {
		return e
	}
	return mval{}
}

// get: the value most recently written in this view, else block pending, else parent.
func (v *kvView) get(k string) mval {
	if e, ok := v.ent[k]; ok {
		return e
	}
	return v.m.underlying(k)
}

func (v *kvView) set(k string, nv mval) {
	prev, had := v.ent[k]
	v.undo = append(v.undo, kvcpUndo{k: k, had: had, prev: prev, prevRest: v.rest[k]})
	v.ent[k] = nv
	v.rest[k] = nv == v.m.underlying(k)
}

func (v *kvView) insert(k, val string) { v.set(k, mval{Ok: true, V: val}) }
func (v *kvView) remove(k string)      { v.set(k, mval{}) }
func (v *kvView) checkpoint() int      { return len(v.undo) }

func (v *kvView) rollback(cp int) {
	for len(v.undo) > cp {
		u := v.undo[len(v.undo)-1]
		v.undo = v.undo[:len(v.undo)-1]
		if u.had {
			v.ent[u.k] = u.prev
			v.rest[u.k] = u.prevRest
		} else {
			delete(v.ent, u.k)
			delete(v.rest, u.k)
		}
	}
}

// clone copies the view (for look-ahead on the model only).
func (v *kvView) clone() *kvView {
	c := &kvView{m: v.m, ent: map[string]mval{}, rest: map[string]bool{}, undo: append([]kvcpUndo(nil), v.undo...)}
	for k, e := range v.ent {
		c.ent[k] = e
	}
	for k, r := range v.rest {
		c.rest[k] = r
	}
	return c
}

// staleRestoring reports whether the view holds an entry that equalled the
// underlying value when it was written and differs from the underlying value
// now (the underlying value changed under the view). C04's generator uses it to
// exclude rollbacks below a view's own Commit that land on such an entry; the
// model's reads, rollbacks and commits do not use it.
func (v *kvView) staleRestoring() bool {
	for k, e := range v.ent {
		if v.rest[k] && e != v.m.underlying(k) {
			return true
		}
	}
	return false
}

// diff is the set the property says a commit must publish: exactly the keys
// whose visible value differs from the underlying state, with those values.
func (v *kvView) diff() map[string]mval {
	out := map[string]mval{}
	for k, e := range v.ent {
		if e != v.m.underlying(k) {
			out[k] = e
		}
	}
	return out
}

// commit publishes diff() into the block layer; the view stays usable.
func (v *kvView) commit() map[string]mval {
	d := v.diff()
	for k, e := range d {
		v.m.block[k] = e
	}
	return d
}

// single-view convenience API (one view at a time, commit/abandon start a fresh one)
func (m *kvcp) get(k string) mval  { return m.cur.get(k) }
func (m *kvcp) insert(k, v string) { m.cur.insert(k, v) }
func (m *kvcp) remove(k string)    { m.cur.remove(k) }
func (m *kvcp) checkpoint() int    { return m.cur.checkpoint() }
func (m *kvcp) rollback(cp int)    { m.cur.rollback(cp) }
func (m *kvcp) commit() map[string]mval {
	d := m.cur.commit()
	m.cur = m.newView()
	return d
}
func (m *kvcp) abandon() { m.cur = m.newView() }

// Permission lattice of C05, from the property text: reading needs the read
// bit; modifying (overwrite or delete of a visible key, and any attempt to
// write) needs write permission, which includes read; creating a key that is
// not visible additionally needs allocate permission (which includes read).
//
// A permission is a byte; the exported constants are Read=1, Allocate=2|Read,
// Write=4|Read. Every value an author can build from those constants
// (0,1,3,5,7) has the read bit whenever it is non-zero. For those the lattice
// is unambiguous and the oracle is exact (must == may). The raw bytes 2, 4 and
// 6 (allocate/write bit without the read bit) can also be put into a
// state.Keys map; the property text does not say whether such a byte "is" a
// write permission, so for them the oracle only bounds the answer:
//
//	must*: the declaration contains the whole exported constant  -> op has to be allowed
//	may*:  the declaration contains at least the op's own bit(s) -> op may be allowed
//
// An op outside may* has to be denied; between must* and may* either answer is
// accepted, but a denial must still leave the state untouched and an allowed
// op must still behave like the map.
const (
	permReadBit  = 1
	permAllocBit = 2
	permWriteBit = 4
)

func permMustRead(p byte) bool   { return p&permReadBit != 0 }
func permMustModify(p byte) bool { return p&(permWriteBit|permReadBit) == permWriteBit|permReadBit }
func permMustCreate(p byte) bool { return p&7 == 7 }

func permMayRead(p byte) bool   { return p&7 != 0 }
func permMayModify(p byte) bool { return p&permWriteBit != 0 }
func permMayCreate(p byte) bool { return p&permWriteBit != 0 && p&permAllocBit != 0 }

// permCanonical: the values expressible with None/Read/Allocate/Write and unions.
func permCanonical(p byte) bool { return p&7 == 0 || p&permReadBit != 0 }
