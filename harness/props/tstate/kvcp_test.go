package tstateprops

// kvcp: the reference model for C04/C05 — a key-value map with checkpoints.
//
// Three layers, exactly as the property words them: the parent ("base") state,
// the block's pending changes (values and tombstones published by earlier
// views), and the current view. The view layer is a plain map of the entries
// written in this view plus an undo stack; a checkpoint is the height of the
// undo stack. Nothing here is derived from the implementation: there is no
// allocate/write bookkeeping and no "unchanged" short cut, visible values are
// simply looked up layer by layer and the published set is computed at commit
// time by comparing visible and underlying values.

// mval is an optional value: Ok=false means "absent" (V is then "").
type mval struct {
	Ok bool
	V  string
}

type kvcpUndo struct {
	k    string
	had  bool
	prev mval
}

type kvcp struct {
	base  map[string]mval // parent state: present keys only
	block map[string]mval // block-level pending changes: entry present = changed; Ok=false = tombstone
	view  map[string]mval // entries written in the current view (may equal the underlying value)
	undo  []kvcpUndo
}

func newKvcp(base map[string]mval) *kvcp {
	return &kvcp{base: base, block: map[string]mval{}, view: map[string]mval{}}
}

// underlying is what a fresh view would read: block-level pending change, else parent state.
func (m *kvcp) underlying(k string) mval {
	if e, ok := m.block[k]; ok {
		return e
	}
	if e, ok := m.base[k]; ok {
		return e
	}
	return mval{}
}

// get is what the current view must read.
func (m *kvcp) get(k string) mval {
	if e, ok := m.view[k]; ok {
		return e
	}
	return m.underlying(k)
}

func (m *kvcp) set(k string, v mval) {
	prev, had := m.view[k]
	m.undo = append(m.undo, kvcpUndo{k: k, had: had, prev: prev})
	m.view[k] = v
}

func (m *kvcp) insert(k, v string) { m.set(k, mval{Ok: true, V: v}) }
func (m *kvcp) remove(k string)    { m.set(k, mval{}) }
func (m *kvcp) checkpoint() int    { return len(m.undo) }

func (m *kvcp) rollback(cp int) {
	for len(m.undo) > cp {
		u := m.undo[len(m.undo)-1]
		m.undo = m.undo[:len(m.undo)-1]
		if u.had {
			m.view[u.k] = u.prev
		} else {
			delete(m.view, u.k)
		}
	}
}

// diff is the set the property says a commit must publish: exactly the keys
// whose visible value differs from the underlying state, with those values.
func (m *kvcp) diff() map[string]mval {
	out := map[string]mval{}
	for k, e := range m.view {
		if e != m.underlying(k) {
			out[k] = e
		}
	}
	return out
}

// commit publishes diff() into the block layer and starts a fresh view.
func (m *kvcp) commit() map[string]mval {
	d := m.diff()
	for k, e := range d {
		m.block[k] = e
	}
	m.abandon()
	return d
}

// abandon drops the view without publishing anything.
func (m *kvcp) abandon() {
	m.view = map[string]mval{}
	m.undo = m.undo[:0]
}

// Permission lattice of C05, from the property text: reading needs the read
// bit; modifying (overwrite or delete of a visible key, and any attempt to
// write) needs write permission, which includes read; creating a key that is
// not visible additionally needs allocate permission (which includes read).
//
// A permission is a byte; the exported constants are Read=1, Allocate=2|Read,
// Write=4|Read. Every value an author can build from those constants
// (0,1,3,5,7) has the read bit whenever it is non-zero. For those the lattice
// is unambiguous and the oracle is exact (must == may). The raw bytes 2, 4 and
// 6 (allocate/write bit without the read bit) can also be put into a
// state.Keys map; the property text does not say whether such a byte "is" a
// write permission, so for them the oracle only bounds the answer:
//
//	must*: the declaration contains the whole exported constant  -> op has to be allowed
//	may*:  the declaration contains at least the op's own bit(s) -> op may be allowed
//
// An op outside may* has to be denied; between must* and may* either answer is
// accepted, but a denial must still leave the state untouched and an allowed
// op must still behave like the map.
const (
	permReadBit  = 1
	permAllocBit = 2
	permWriteBit = 4
)

func permMustRead(p byte) bool   { return p&permReadBit != 0 }
func permMustModify(p byte) bool { return p&(permWriteBit|permReadBit) == permWriteBit|permReadBit }
func permMustCreate(p byte) bool { return p&7 == 7 }

func permMayRead(p byte) bool   { return p&7 != 0 }
func permMayModify(p byte) bool { return p&permWriteBit != 0 }
func permMayCreate(p byte) bool { return p&permWriteBit != 0 && p&permAllocBit != 0 }

// permCanonical: the values expressible with None/Read/Allocate/Write and unions.
func permCanonical(p byte) bool { return p&7 == 0 || p&permReadBit != 0 }
