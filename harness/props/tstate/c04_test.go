package tstateprops

import (
	"context"
	"encoding/json"
	"errors"
	"fmt"
	"os"
	"runtime"
	"runtime/debug"
	"sort"
	"strconv"
	"strings"
	"sync"
	"testing"

	"github.com/ava-labs/avalanchego/database"
	"pgregory.net/rapid"

	"github.com/ava-labs/hypersdk/keys"
	"github.com/ava-labs/hypersdk/state"
	"github.com/ava-labs/hypersdk/state/tstate"
	"github.com/ava-labs/hypersdk/verifharness/vstat"
)

// C04: within a transaction view every read returns the value most recently
// written (or absence if most recently deleted), falling back to the block's
// pending changes and then the parent state; rolling back to a checkpoint
// restores exactly the values visible at that checkpoint; committing publishes
// exactly the keys whose visible value differs from the underlying state, with
// those values.
//
// A case is: a parent state, block-level pending changes (values and
// tombstones) and an op list run over a sequence of views on ONE TState. The
// real TStateView/TState and the kvcp model are driven in lock step; after
// every op every key of the universe is read back from the real view and
// compared with the model, and at every commit TState.ChangedKeys() is
// compared with the model's block layer (old entries untouched + exactly the
// differing keys of the view).

var (
	c04Keys = [][]byte{
		keys.EncodeChunks([]byte("a"), 1),
		keys.EncodeChunks([]byte("b"), 1),
		keys.EncodeChunks([]byte("a"), 2), // same name as key 0, other size suffix
		keys.EncodeChunks([]byte("c"), 3),
	}
	c04KeyStr = func() []string {
		out := make([]string, len(c04Keys))
		for i, k := range c04Keys {
			out[i] = string(k)
		}
		return out
	}()
	c04Vals = []string{"A", "B", "C", ""} // "" = present but empty (differs from absent)
	c04Ctx  = context.Background()
)

type c04Op struct {
	Op string `json:"op"`          // get | ins | rem | cp | rb | commit | cnew | renew
	W  int    `json:"w,omitempty"` // view slot the op is addressed to
	K  int    `json:"k,omitempty"` // key index (get/ins/rem)
	V  int    `json:"v,omitempty"` // value index (ins)
	I  int    `json:"i,omitempty"` // rb: index into the slot's currently valid checkpoints (negative: from the newest)
}

// commit: Commit() and keep using the same view (Commit is not terminal).
// cnew:   Commit() and replace the slot's view by a fresh one (one-shot view).
// renew:  drop the slot's view without committing (or fill an empty slot) with a fresh view.
type c04Case struct {
	NKeys  int     `json:"nkeys"`
	NViews int     `json:"nviews,omitempty"` // view slots (1..3); slot 0 holds a view from the start, the others are filled by renew/cnew
	Base   []int   `json:"base"`             // per key: 0 absent, i>0 value i-1
	Block  []int   `json:"block"`            // per key: 0 no entry, 1 tombstone, i>=2 value i-2
	Ops    []c04Op `json:"ops"`
}

type c04Info struct {
	dcdUnderlying, rbAcrossCD, noopWrite, returnToUnderlying     bool
	blockTomb, blockValEqBase, blockTombOverAbsent               bool
	multiView, publishDelete, publishNothingAfterWrites, abandon bool
	emptyValue, writeAfterRollback                               bool
	writeAfterCommit, rbPastCommit, secondCommit, reuseAfterFirst bool
	severalLive, liveShareKey, uncommittedWhileSibling            bool
	ops, skipped, excluded                                       int
}

func (i c04Info) nontrivial() bool {
	return i.dcdUnderlying || i.rbAcrossCD || i.writeAfterCommit || i.rbPastCommit
}

func (i c04Info) labels() []string {
	var l []string
	add := func(b bool, s string) {
		if b {
			l = append(l, s)
		}
	}
	add(i.dcdUnderlying, "delete-create-delete-of-underlying-key")
	add(i.rbAcrossCD, "rollback-across-create-delete")
	add(i.noopWrite, "noop-write")
	add(i.returnToUnderlying, "write-returns-key-to-underlying")
	add(i.blockTomb, "block-pending-tombstone")
	add(i.blockTombOverAbsent, "block-pending-tombstone-over-absent-base")
	add(i.blockValEqBase, "block-pending-value-equals-base")
	add(i.multiView, "several-committed-views")
	add(i.publishDelete, "commit-publishes-delete")
	add(i.publishNothingAfterWrites, "commit-publishes-nothing-after-writes")
	add(i.abandon, "view-abandoned")
	add(i.emptyValue, "empty-value-written")
	add(i.writeAfterRollback, "write-after-rollback")
	add(i.writeAfterCommit, "write-on-view-after-its-commit")
	add(i.rbPastCommit, "rollback-to-checkpoint-before-own-commit")
	add(i.secondCommit, "second-commit-of-same-view")
	add(i.reuseAfterFirst, "view-reused-after-first-commit-of-block")
	add(i.severalLive, "several-live-views")
	add(i.liveShareKey, "live-views-wrote-same-key")
	add(i.uncommittedWhileSibling, "uncommitted-write-while-sibling-view-live")
	return l
}

func c04RealGet(view *tstate.TStateView, k []byte) (mval, error) {
	v, err := view.GetValue(c04Ctx, k)
	switch {
	case err == nil:
		return mval{Ok: true, V: string(v)}, nil
	case errors.Is(err, database.ErrNotFound):
		return mval{}, nil
	default:
		return mval{}, err
	}
}

func c04Changed(ts *tstate.TState) map[string]mval {
	out := map[string]mval{}
	for k, v := range ts.ChangedKeys() {
		if v.IsNothing() {
			out[k] = mval{}
		} else {
			out[k] = mval{Ok: true, V: string(v.Value())}
		}
	}
	return out
}

// c04ChangedEq compares TState.ChangedKeys() with the model's block layer without copying.
func c04ChangedEq(ts *tstate.TState, want map[string]mval) bool {
	got := ts.ChangedKeys()
	if len(got) != len(want) {
		return false
	}
	for k, v := range got {
		w, ok := want[k]
		if !ok || w.Ok != v.HasValue() || (w.Ok && w.V != string(v.Value())) {
			return false
		}
	}
	return true
}

func c04ShowVal(v mval) string {
	if !v.Ok {
		return "absent"
	}
	return strconv.Quote(v.V)
}

func c04ShowMap(m map[string]mval) string {
	ks := make([]string, 0, len(m))
	for k := range m {
		ks = append(ks, k)
	}
	sort.Strings(ks)
	var sb strings.Builder
	sb.WriteString("{")
	for i, k := range ks {
		if i > 0 {
			sb.WriteString(", ")
		}
		fmt.Fprintf(&sb, "%q: %s", k, c04ShowVal(m[k]))
	}
	sb.WriteString("}")
	return sb.String()
}

func c04SameMap(a, b map[string]mval) bool {
	if len(a) != len(b) {
		return false
	}
	for k, v := range a {
		if w, ok := b[k]; !ok || w != v {
			return false
		}
	}
	return true
}

type c04Checkpoint struct {
	real, model, ev, commits int
}

type c04Event struct {
	k          int
	create     bool
	undPresent bool // the key existed in the underlying state when the event happened
}

type c04Slot struct {
	real       *tstate.TStateView
	mv         *kvView
	cps        []c04Checkpoint
	events     []c04Event
	writes     int // effective writes since creation / last commit (incl. rolled back ones)
	commits    int // Commit() calls on this view object
	rolledBack bool
	firstOfBlk bool // one of its commits published into a still empty block-level change set
	wrote      [len4]bool // keys this view object tried to write (incl. no-op writes) since its creation
}

// Two generator rules (implicit preconditions every caller of tstate respects;
// ops that would break them are not executed and are counted through exclude):
//
//	c04ExclOwner: a key is written by at most one live view at a time (the
//	  executor never overlaps tasks with conflicting key sets; builder, chaintest,
//	  genesis and jsonrpc are sequential).
//	c04ExclBelowCommit: a view is not rolled back below its own Commit onto a
//	  write that equalled the underlying value when it was made (every caller
//	  commits a view as its last operation; Commit publishes and cannot be undone,
//	  so "the values visible at that checkpoint" are not defined across it). Only
//	  the rollbacks (and, defensively, commits) that would leave a live view with
//	  such an entry differing from the current underlying value are excluded,
//	  decided on the model alone; other rollbacks below a Commit stay active.
const (
	c04ExclOwner       = "write-to-key-written-by-another-live-view"
	c04ExclBelowCommit = "rollback-below-own-commit-onto-restoring-write"
)

// c04Exec runs one case against the real code and the model.
func c04Exec(c *c04Case, skip func(string), exclude func(string)) (info c04Info, err error) {
	n := c.NKeys
	nv := c.NViews
	if nv == 0 {
		nv = 1
	}
	if n < 1 || n > len(c04Keys) || len(c.Base) != n || len(c.Block) != n || nv < 1 || nv > 3 {
		return info, fmt.Errorf("malformed case: nkeys=%d nviews=%d base=%v block=%v", n, nv, c.Base, c.Block)
	}
	base := map[string]mval{}
	storage := map[string][]byte{}
	for i := 0; i < n; i++ {
		if b := c.Base[i]; b > 0 {
			base[c04KeyStr[i]] = mval{Ok: true, V: c04Vals[b-1]}
			storage[c04KeyStr[i]] = []byte(c04Vals[b-1])
		}
	}
	m := newKvcp(base)
	ts := tstate.New(0)
	newView := func() *tstate.TStateView {
		return ts.NewView(state.CompletePermissions, state.ImmutableStorage(storage), 0)
	}

	// Seed the block-level pending changes through one-op views (the only way a
	// caller can produce them) and verify that the real TState now holds exactly
	// the intended entries; the model is set directly.
	for i := 0; i < n; i++ {
		e := c.Block[i]
		if e == 0 {
			continue
		}
		k := c04Keys[i]
		bv := base[c04KeyStr[i]]
		var steps []mval
		if e == 1 { // tombstone
			info.blockTomb = true
			if !bv.Ok {
				info.blockTombOverAbsent = true
				steps = []mval{{Ok: true, V: "seed"}, {}}
			} else {
				steps = []mval{{}}
			}
			m.block[c04KeyStr[i]] = mval{}
		} else {
			want := mval{Ok: true, V: c04Vals[e-2]}
			if bv == want {
				info.blockValEqBase = true
				steps = []mval{{}, want}
			} else {
				steps = []mval{want}
			}
			m.block[c04KeyStr[i]] = want
		}
		for _, s := range steps {
			v := newView()
			var serr error
			if s.Ok {
				serr = v.Insert(c04Ctx, k, []byte(s.V))
			} else {
				serr = v.Remove(c04Ctx, k)
			}
			if serr != nil {
				return info, fmt.Errorf("seeding block-level change of key %d: %v", i, serr)
			}
			v.Commit()
		}
	}
	if !c04ChangedEq(ts, m.block) {
		got := c04Changed(ts)
		return info, fmt.Errorf("seeding block-level changes through one-op views: TState.ChangedKeys()=%s, want %s (base %s)",
			c04ShowMap(got), c04ShowMap(m.block), c04ShowMap(base))
	}

	slots := make([]*c04Slot, nv)
	fresh := func() *c04Slot { return &c04Slot{real: newView(), mv: m.newView()} }
	slots[0] = fresh()
	commitsWithOps := 0

	// observe: after every op
	//  - every live view reads every key as its own model view says (its uncommitted
	//    changes are visible through it and only through it),
	//  - a fresh full-scope probe view reads every key as block pending (+) parent,
	//  - TState.ChangedKeys()/PendingChanges() are exactly the model's block layer:
	//    parent + the effects of the Commit calls so far, nothing else.
	observe := func(when fmt.Stringer) error {
		for si, sl := range slots {
			if sl == nil {
				continue
			}
			for i := 0; i < n; i++ {
				got, gerr := c04RealGet(sl.real, c04Keys[i])
				if gerr != nil {
					return fmt.Errorf("%s: view %d GetValue(key %d) failed: %v", when, si, i, gerr)
				}
				if want := sl.mv.get(c04KeyStr[i]); got != want {
					return fmt.Errorf("%s: view %d GetValue(key %d)=%s, model says %s (underlying %s)", when, si, i,
						c04ShowVal(got), c04ShowVal(want), c04ShowVal(m.underlying(c04KeyStr[i])))
				}
			}
		}
		if !c04ChangedEq(ts, m.block) {
			return fmt.Errorf("%s: TState.ChangedKeys()=%s, but the commits so far published exactly %s", when, c04ShowMap(c04Changed(ts)), c04ShowMap(m.block))
		}
		if got := ts.PendingChanges(); got != len(m.block) {
			return fmt.Errorf("%s: TState.PendingChanges()=%d, model %d", when, got, len(m.block))
		}
		probe := newView()
		for i := 0; i < n; i++ {
			got, gerr := c04RealGet(probe, c04Keys[i])
			if gerr != nil {
				return fmt.Errorf("%s: probe view GetValue(key %d) failed: %v", when, i, gerr)
			}
			if want := m.underlying(c04KeyStr[i]); got != want {
				return fmt.Errorf("%s: a fresh view reads key %d as %s, but block-level state (parent + commits so far) is %s", when, i, c04ShowVal(got), c04ShowVal(want))
			}
		}
		return nil
	}
	commit := func(sl *c04Slot, when fmt.Stringer) error {
		before := map[string]mval{}
		for k, v := range m.block {
			before[k] = v
		}
		published := sl.mv.commit()
		sl.real.Commit()
		if !c04ChangedEq(ts, m.block) {
			after := c04Changed(ts)
			return fmt.Errorf("%s: after Commit TState.ChangedKeys()=%s; before it was %s and the view differed from the underlying state exactly on %s, so it must be %s",
				when, c04ShowMap(after), c04ShowMap(before), c04ShowMap(published), c04ShowMap(m.block))
		}
		for _, e := range published {
			if !e.Ok {
				info.publishDelete = true
			}
		}
		if sl.commits >= 1 && sl.writes > 0 {
			info.secondCommit = true
		}
		if len(before) == 0 && len(published) > 0 {
			sl.firstOfBlk = true
		}
		if sl.writes > 0 {
			commitsWithOps++
			if len(published) == 0 {
				info.publishNothingAfterWrites = true
			}
		}
		if commitsWithOps >= 2 {
			info.multiView = true
		}
		sl.commits++
		sl.writes = 0
		return nil
	}
	// look-ahead on the model only: would a Commit of sl (dropping it afterwards if
	// drop) leave some live view with a stale restoring entry?
	commitExcluded := func(sl *c04Slot, drop bool) bool {
		d := sl.mv.diff()
		saved := map[string]*mval{}
		for k, e := range d {
			if old, ok := m.block[k]; ok {
				o := old
				saved[k] = &o
			} else {
				saved[k] = nil
			}
			m.block[k] = e
		}
		bad := false
		for _, o := range slots {
			if o == nil || (drop && o == sl) {
				continue
			}
			bad = bad || o.mv.staleRestoring()
		}
		for k, o := range saved {
			if o == nil {
				delete(m.block, k)
			} else {
				m.block[k] = *o
			}
		}
		return bad
	}
	noteWrite := func(w int, k int) {
		sl := slots[w]
		sl.writes++
		if sl.rolledBack {
			info.writeAfterRollback = true
		}
		if sl.commits > 0 {
			info.writeAfterCommit = true
			if sl.firstOfBlk {
				info.reuseAfterFirst = true
			}
		}
		for oi, o := range slots {
			if o == nil || oi == w {
				continue
			}
			info.uncommittedWhileSibling = true
			if _, ok := o.mv.ent[c04KeyStr[k]]; ok {
				info.liveShareKey = true
			}
		}
	}
	// delete, create, delete of a key that exists underneath, within one view
	dcd := func(sl *c04Slot, k int) bool {
		var ev []c04Event
		for _, e := range sl.events {
			if e.k == k {
				ev = append(ev, e)
			}
		}
		l := len(ev)
		return l >= 3 && !ev[l-1].create && ev[l-1].undPresent && ev[l-2].create && !ev[l-3].create && ev[l-3].undPresent
	}

	for oi, op := range c.Ops {
		when := c04When{oi, op}
		if op.W < 0 || op.W >= nv {
			skip("view-slot-out-of-range")
			info.skipped++
			continue
		}
		sl := slots[op.W]
		if sl == nil && op.Op != "renew" {
			// the view of a slot is created at the drawn point where the slot is first addressed
			sl = fresh()
			slots[op.W] = sl
		}
		if (op.Op == "get" || op.Op == "ins" || op.Op == "rem") && (op.K < 0 || op.K >= n) {
			skip("key-out-of-range")
			info.skipped++
			continue
		}
		if op.Op == "ins" || op.Op == "rem" {
			held := false
			for w2, o := range slots {
				if o != nil && w2 != op.W && o.wrote[op.K] {
					held = true
				}
			}
			if held {
				exclude(c04ExclOwner)
				info.excluded++
				continue
			}
			sl.wrote[op.K] = true
		}
		switch op.Op {
		case "get":
			got, gerr := c04RealGet(sl.real, c04Keys[op.K])
			if gerr != nil {
				return info, fmt.Errorf("%s: GetValue failed: %v", when, gerr)
			}
			if want := sl.mv.get(c04KeyStr[op.K]); got != want {
				return info, fmt.Errorf("%s: GetValue=%s, model says %s", when, c04ShowVal(got), c04ShowVal(want))
			}
		case "ins":
			if op.V < 0 || op.V >= len(c04Vals) {
				skip("value-out-of-range")
				info.skipped++
				continue
			}
			ks := c04KeyStr[op.K]
			prev := sl.mv.get(ks)
			nval := mval{Ok: true, V: c04Vals[op.V]}
			if ierr := sl.real.Insert(c04Ctx, c04Keys[op.K], []byte(nval.V)); ierr != nil {
				return info, fmt.Errorf("%s: Insert failed: %v", when, ierr)
			}
			sl.mv.insert(ks, nval.V)
			if nval.V == "" {
				info.emptyValue = true
			}
			if prev == nval {
				info.noopWrite = true
			} else {
				noteWrite(op.W, op.K)
				und := m.underlying(ks)
				if !prev.Ok {
					sl.events = append(sl.events, c04Event{k: op.K, create: true, undPresent: und.Ok})
				}
				if nval == und {
					info.returnToUnderlying = true
				}
			}
		case "rem":
			ks := c04KeyStr[op.K]
			prev := sl.mv.get(ks)
			if rerr := sl.real.Remove(c04Ctx, c04Keys[op.K]); rerr != nil {
				return info, fmt.Errorf("%s: Remove failed: %v", when, rerr)
			}
			sl.mv.remove(ks)
			if !prev.Ok {
				info.noopWrite = true
			} else {
				noteWrite(op.W, op.K)
				und := m.underlying(ks)
				sl.events = append(sl.events, c04Event{k: op.K, create: false, undPresent: und.Ok})
				if !und.Ok {
					info.returnToUnderlying = true
				} else if dcd(sl, op.K) {
					info.dcdUnderlying = true
				}
			}
		case "cp":
			sl.cps = append(sl.cps, c04Checkpoint{real: sl.real.OpIndex(), model: sl.mv.checkpoint(), ev: len(sl.events), commits: sl.commits})
		case "rb":
			if len(sl.cps) == 0 {
				skip("rollback-without-checkpoint")
				info.skipped++
				continue
			}
			idx := op.I
			if idx < 0 {
				idx = len(sl.cps) + idx
				if idx < 0 {
					idx = 0
				}
			} else {
				idx %= len(sl.cps)
			}
			cp := sl.cps[idx]
			if cp.real > sl.real.OpIndex() {
				return info, fmt.Errorf("%s: harness error: checkpoint %d beyond OpIndex %d", when, cp.real, sl.real.OpIndex())
			}
			if la := sl.mv.clone(); true {
				la.rollback(cp.model)
				if la.staleRestoring() {
					exclude(c04ExclBelowCommit)
					info.excluded++
					continue
				}
			}
			// label: does the undone segment contain a create and a delete of one key?
			var sawC, sawD [len4]bool
			for _, e := range sl.events[cp.ev:] {
				if e.create {
					sawC[e.k] = true
				} else {
					sawD[e.k] = true
				}
			}
			for k := 0; k < n; k++ {
				if sawC[k] && sawD[k] {
					info.rbAcrossCD = true
				}
			}
			if cp.commits < sl.commits && cp.model < sl.mv.checkpoint() {
				info.rbPastCommit = true
				if sl.firstOfBlk {
					info.reuseAfterFirst = true
				}
			}
			sl.real.Rollback(c04Ctx, cp.real)
			sl.mv.rollback(cp.model)
			sl.events = sl.events[:cp.ev]
			sl.cps = sl.cps[:idx+1]
			sl.rolledBack = true
			if got := sl.real.OpIndex(); got != cp.real {
				return info, fmt.Errorf("%s: OpIndex()=%d after Rollback(%d)", when, got, cp.real)
			}
		case "commit":
			if commitExcluded(sl, false) {
				exclude(c04ExclBelowCommit)
				info.excluded++
				continue
			}
			if cerr := commit(sl, when); cerr != nil {
				return info, cerr
			}
		case "cnew":
			if commitExcluded(sl, true) {
				exclude(c04ExclBelowCommit)
				info.excluded++
				continue
			}
			if cerr := commit(sl, when); cerr != nil {
				return info, cerr
			}
			slots[op.W] = fresh()
		case "renew":
			if sl != nil {
				info.abandon = true
			}
			slots[op.W] = fresh()
		default:
			return info, fmt.Errorf("malformed case: unknown op %q", op.Op)
		}
		info.ops++
		live := 0
		for _, o := range slots {
			if o != nil {
				live++
			}
		}
		if live >= 2 {
			info.severalLive = true
		}
		if oerr := observe(when); oerr != nil {
			return info, oerr
		}
	}
	// every history ends with a commit of every live view (in slot order) so that
	// the publish rule is always exercised
	for si, sl := range slots {
		if sl == nil {
			continue
		}
		when := c04Str(fmt.Sprintf("final commit of view %d", si))
		if commitExcluded(sl, false) {
			exclude(c04ExclBelowCommit)
			info.excluded++
			continue
		}
		if cerr := commit(sl, when); cerr != nil {
			return info, cerr
		}
		if oerr := observe(when); oerr != nil {
			return info, oerr
		}
	}
	return info, nil
}

const len4 = 4

// lazily rendered positions for error messages (rendering per op is the
// dominant cost of the exhaustive run otherwise)
type c04When struct {
	i  int
	op c04Op
}

func (w c04When) String() string { return fmt.Sprintf("op %d %+v", w.i, w.op) }

type c04Str string

func (s c04Str) String() string { return string(s) }

func c04Canon(c *c04Case) string {
	var sb strings.Builder
	fmt.Fprintf(&sb, "%d|%d|%v|%v|", c.NKeys, c.NViews, c.Base, c.Block)
	for _, o := range c.Ops {
		fmt.Fprintf(&sb, "%s.%d.%d.%d.%d;", o.Op, o.W, o.K, o.V, o.I)
	}
	return sb.String()
}

func c04Render(c *c04Case) string {
	var sb strings.Builder
	fmt.Fprintf(&sb, "base=%v block=%v views=%d:", c.Base, c.Block, c.NViews)
	for _, o := range c.Ops {
		w := ""
		if c.NViews > 1 {
			w = fmt.Sprintf("v%d.", o.W)
		}
		switch o.Op {
		case "get", "rem":
			fmt.Fprintf(&sb, " %s%s(k%d)", w, o.Op, o.K)
		case "ins":
			fmt.Fprintf(&sb, " %sins(k%d,%q)", w, o.K, c04Vals[o.V%len(c04Vals)])
		case "rb":
			fmt.Fprintf(&sb, " %srb(%d)", w, o.I)
		default:
			sb.WriteString(" " + w + o.Op)
		}
	}
	return sb.String()
}

func c04Run(c c04Case, st *vstat.Stats) error {
	info, err := c04Exec(&c, st.Skip, st.Exclude)
	nt := info.nontrivial()
	st.Case(nt, c04Canon(&c), info.labels()...)
	st.Sample(nt, c04Render(&c))
	return err
}

const c04Rule = "parent state x block-level pending changes (values, tombstones, tombstone over an absent parent key, value equal to the parent value) x op list (<=40 ops over 1..3 view slots on one TState, interleaved sequentially: get/insert/remove/checkpoint/rollback(i)/commit (view stays in use: more ops, rollback to checkpoints taken before the commit, further commits)/commit+fresh view/drop+fresh view; every live view is committed at the end; excluded by construction: a write to a key another live view has written, a rollback below the view's own commit onto a write that equalled the underlying value) over 2..4 keys and 4 values (incl. the empty value), compared op by op with a map+undo-stack model: after every op every live view, a fresh probe view and TState.ChangedKeys/PendingChanges are read back; non-trivial = the history deletes, re-creates and deletes again a key that exists in the underlying state, or rolls back across a create and a delete of one key, or writes on / rolls back a view past one of its own commits; distinct by the whole case"

func c04Gen(rt *rapid.T) c04Case {
	n := rapid.IntRange(2, 4).Draw(rt, "nkeys")
	nv := rapid.SampledFrom([]int{1, 1, 1, 2, 2, 3}).Draw(rt, "nviews")
	c := c04Case{NKeys: n, NViews: nv}
	for i := 0; i < n; i++ {
		c.Base = append(c.Base, rapid.SampledFrom([]int{0, 1, 1, 2, 3, 4}).Draw(rt, "base"))
		c.Block = append(c.Block, rapid.SampledFrom([]int{0, 0, 0, 1, 1, 2, 3, 4, 5}).Draw(rt, "block"))
	}
	if rapid.IntRange(0, 2).Draw(rt, "emptyblock") == 0 {
		// the first commit of a block goes into an empty change set
		for i := range c.Block {
			c.Block[i] = 0
		}
	}
	kinds := []string{"ins", "ins", "ins", "ins", "ins", "rem", "rem", "rem", "rem", "rem", "get", "cp", "cp", "cp", "rb", "rb", "rb", "commit", "commit", "cnew", "cnew", "renew"}
	keyBias := []int{0, 0, 0, 0, 1, 1, 2, 3}
	slotBias := []int{0, 0, 0, 1, 1, 2}
	// a slice of custom ops (not a drawn count + loop) so that rapid shrinks by removing ops
	opGen := rapid.Custom(func(rt *rapid.T) c04Op {
		op := c04Op{Op: rapid.SampledFrom(kinds).Draw(rt, "op")}
		if nv > 1 {
			op.W = rapid.SampledFrom(slotBias).Draw(rt, "w") % nv
		}
		// each slot prefers another key, so that the one-writer-per-key rule excludes few writes
		switch op.Op {
		case "get":
			op.K = rapid.SampledFrom(keyBias).Draw(rt, "k") % n
		case "rem":
			op.K = (rapid.SampledFrom(keyBias).Draw(rt, "k") + op.W) % n
		case "ins":
			op.K = (rapid.SampledFrom(keyBias).Draw(rt, "k") + op.W) % n
			op.V = rapid.IntRange(0, len(c04Vals)-1).Draw(rt, "v")
		case "rb":
			op.I = rapid.IntRange(-2, 3).Draw(rt, "i")
		}
		return op
	})
	// rapid's slices are short on average; a drawn lower bound keeps long histories frequent
	minOps := rapid.IntRange(0, 32).Draw(rt, "minops")
	c.Ops = rapid.SliceOfN(opGen, minOps, 40).Draw(rt, "ops")
	return c
}

func TestC04(t *testing.T) {
	st := vstat.New(t, "C04", c04Rule)
	st.Assumption("up to three views on one TState are driven from one goroutine, interleaved at drawn points; full permissions (scope is C05)")
	st.Assumption("a key is written by at most one live view at a time; a view is not rolled back below its own Commit onto a write that equalled the underlying value when it was made (both excluded by construction and counted)")
	st.Assumption("block-level pending changes are seeded through one-op views and verified against TState.ChangedKeys() before the history starts")
	rapid.Check(t, func(rt *rapid.T) {
		c := c04Gen(rt)
		vstat.Run(rt, st, c, func() error { return c04Run(c, st) })
	})
}

// TestC04Exhaustive enumerates every op sequence up to a fixed length over
// 2 keys x 2 values (ins(k,v) x4, rem(k) x2, checkpoint, rollback to the oldest
// / newest valid checkpoint, commit+new view; every sequence ends with a
// commit) for every parent state {absent,A,B}^2 and every block-level pending
// change {none,tombstone,A,B}^2. Sequences that contain an inapplicable
// rollback, or a rollback(oldest) when only one checkpoint is valid, are
// duplicates of enumerated ones and are pruned statically. Length: 6 in the
// thorough tier (and by default when run by hand), 4 in the quick tier,
// VERIF_C04_DEPTH overrides.
func TestC04Exhaustive(t *testing.T) {
	depth := 6
	if os.Getenv("VERIF_TIER") == "quick" {
		depth = 4
	}
	if s := os.Getenv("VERIF_C04_DEPTH"); s != "" {
		if d, err := strconv.Atoi(s); err == nil && d >= 0 && d <= 8 {
			depth = d
		}
	}
	st := vstat.New(t, "C04", fmt.Sprintf("exhaustive: every op sequence of length <=%d over 2 keys x 2 values on one view slot (insert, remove, checkpoint, rollback to oldest/newest checkpoint, commit with the view kept in use, commit+fresh view; final commit appended; probe view + ChangedKeys/PendingChanges read back after every op) x every parent state {absent,A,B}^2 x every block-level pending change {none,tombstone,A,B}^2", depth))
	st.Exhaustive = true
	st.Assumption("a view is not rolled back below its own Commit onto a write that equalled the underlying value when it was made (excluded by construction and counted)")
	defer debug.SetGCPercent(debug.SetGCPercent(400)) // allocation-bound; trade memory for time
	shard, nshards := 0, 1
	if s, err := strconv.Atoi(os.Getenv("VERIF_SHARD")); err == nil {
		if ns, err := strconv.Atoi(os.Getenv("VERIF_NSHARDS")); err == nil && ns > 0 && s >= 0 && s < ns {
			shard, nshards = s, ns
		}
	}

	alphabet := []c04Op{
		{Op: "ins", K: 0, V: 0}, {Op: "ins", K: 0, V: 1}, {Op: "ins", K: 1, V: 0}, {Op: "ins", K: 1, V: 1},
		{Op: "rem", K: 0}, {Op: "rem", K: 1},
		{Op: "cp"}, {Op: "rb", I: 0}, {Op: "rb", I: -1}, {Op: "commit"}, {Op: "cnew"},
	}
	type cfg struct{ base, block [2]int }
	var cfgs []cfg
	idx := 0
	for b0 := 0; b0 <= 2; b0++ {
		for b1 := 0; b1 <= 2; b1++ {
			for e0 := 0; e0 <= 3; e0++ {
				for e1 := 0; e1 <= 3; e1++ {
					if idx%nshards == shard {
						cfgs = append(cfgs, cfg{[2]int{b0, b1}, [2]int{e0, e1}})
					}
					idx++
				}
			}
		}
	}

	exclFn := func(string) {} // exclusions of the exhaustive run are counted per worker (info.excluded)
	type agg struct {
		evals, nt, excluded int64
		labels    map[string]int64
		fail      *c04Case
		failErr   error
	}
	var (
		mu      sync.Mutex
		total   = agg{labels: map[string]int64{}}
		hashCap = int64(200000)
		hashed  int64
		work    = make(chan cfg)
		wg      sync.WaitGroup
		stop    bool
	)
	worker := func() {
		defer wg.Done()
		loc := agg{labels: map[string]int64{}}
		nop := func(string) {}
		for cf := range work {
			mu.Lock()
			s := stop
			mu.Unlock()
			if s {
				continue
			}
			c := c04Case{NKeys: 2, NViews: 1, Base: cf.base[:], Block: cf.block[:]}
			seq := make([]c04Op, 0, depth)
			var rec func(left, ncp int) bool
			rec = func(left, ncp int) bool {
				if left == 0 {
					c.Ops = seq
					info, err := c04Exec(&c, nop, exclFn)
					loc.excluded += int64(info.excluded)
					loc.evals++
					nt := info.nontrivial()
					if nt {
						loc.nt++
					}
					for _, l := range info.labels() {
						loc.labels[l]++
					}
					if err != nil {
						cp := c
						cp.Base = append([]int(nil), c.Base...)
						cp.Block = append([]int(nil), c.Block...)
						cp.Ops = append([]c04Op(nil), seq...)
						loc.fail, loc.failErr = &cp, err
						return false
					}
					if nt {
						mu.Lock()
						doHash := hashed < hashCap
						if doHash {
							hashed++
						}
						mu.Unlock()
						if doHash {
							// goes through the shared collector so that distinct cases are hashed
							st.Case(true, c04Canon(&c))
							st.Sample(true, c04Render(&c))
							loc.evals--
							loc.nt--
						}
					}
					return true
				}
				for _, op := range alphabet {
					n2 := ncp
					switch {
					case op.Op == "cp":
						n2 = ncp + 1
					case op.Op == "rb" && op.I == 0:
						if ncp < 2 {
							continue
						}
						n2 = 1
					case op.Op == "rb":
						if ncp < 1 {
							continue
						}
					case op.Op == "cnew":
						n2 = 0 // a fresh view has no checkpoints; a plain commit keeps them
					}
					seq = append(seq, op)
					ok := rec(left-1, n2)
					seq = seq[:len(seq)-1]
					if !ok {
						return false
					}
				}
				return true
			}
			for l := 0; l <= depth; l++ {
				if !rec(l, 0) {
					break
				}
			}
			if loc.fail != nil {
				mu.Lock()
				stop = true
				mu.Unlock()
				break
			}
		}
		for range work { // drain
		}
		mu.Lock()
		total.evals += loc.evals
		total.nt += loc.nt
		total.excluded += loc.excluded
		for l, n := range loc.labels {
			total.labels[l] += n
		}
		if loc.fail != nil && (total.fail == nil || len(loc.fail.Ops) < len(total.fail.Ops)) {
			total.fail, total.failErr = loc.fail, loc.failErr
		}
		mu.Unlock()
	}
	nw := runtime.GOMAXPROCS(0)
	if nw > len(cfgs) {
		nw = len(cfgs)
	}
	for i := 0; i < nw; i++ {
		wg.Add(1)
		go worker()
	}
	for _, cf := range cfgs {
		work <- cf
	}
	close(work)
	wg.Wait()

	// fold the per-worker counters into the collector (cases hashed above were
	// already counted by st.Case; their labels are added here)
	st.Evals += total.evals
	st.NonTrivial += total.nt
	if total.excluded > 0 {
		st.Excluded[c04ExclBelowCommit] += total.excluded // one view slot: the ownership rule cannot fire
	}
	for l, n := range total.labels {
		st.LabelN(l, n)
	}
	st.SetExtra("exhaustive_depth", depth)
	st.SetExtra("exhaustive_configs", len(cfgs))
	if total.fail != nil {
		c := *total.fail
		vstat.Run(t, st, c, func() error {
			_, err := c04Exec(&c, func(string) {}, exclFn)
			if err == nil {
				err = fmt.Errorf("not reproducible on re-execution: %v", total.failErr)
			}
			return err
		})
	}
}

func TestC04Replay(t *testing.T) {
	vstat.Replay(t, "C04", func(raw []byte) error {
		var c c04Case
		if err := json.Unmarshal(raw, &c); err != nil {
			return err
		}
		return c04Run(c, vstat.New(nil, "C04", ""))
	})
}
