package tstateprops

import (
	"bytes"
	"context"
	"encoding/binary"
	"encoding/json"
	"errors"
	"fmt"
	"strings"
	"testing"

	"github.com/ava-labs/avalanchego/database"
	"github.com/ava-labs/avalanchego/ids"
	"pgregory.net/rapid"

	"github.com/ava-labs/hypersdk/chain"
	"github.com/ava-labs/hypersdk/chain/chaintest"
	"github.com/ava-labs/hypersdk/codec"
	"github.com/ava-labs/hypersdk/fees"
	"github.com/ava-labs/hypersdk/genesis"
	"github.com/ava-labs/hypersdk/keys"
	"github.com/ava-labs/hypersdk/state"
	"github.com/ava-labs/hypersdk/state/balance"
	"github.com/ava-labs/hypersdk/state/tstate"
	"github.com/ava-labs/hypersdk/verifharness/vstat"

	internalfees "github.com/ava-labs/hypersdk/internal/fees"
)

// C05: a transaction can read only keys it declared with read permission,
// modify only keys declared with write permission, and create a key only if it
// also declared allocate permission. Any undeclared access fails without
// changing state, so the failing action is reverted and cannot observe or
// alter other keys.
//
// Two parts.
//  1. TestC05Exhaustive: the full table {not declared, 0..7}^2 (two
//     declarations of the key united through state.Keys.Add) x 6 underlying
//     states of the key x {get, insert new value, insert same/restoring value,
//     remove} x {sibling key with another size suffix declared with All or not},
//     one op per fresh view, against the lattice of kvcp_test.go.
//  2. TestC05: random transactions of ProgActions (programs of get/put/del/fail
//     whose denied ops may be ignored by the action) run through the real
//     chain.Transaction (StateKeys union incl. the sponsor, PreExecute, Execute,
//     Commit) against the model; plus, per transaction, a read probe of every
//     key of the universe on the transaction's own view and a write probe on a
//     throw-away view with the same scope.

// ---------------------------------------------------------------------------
// universe

var (
	c05Names    = []string{"a", "b", "c"}
	c05Suffixes = []uint16{1, 2}
	c05Addrs    = []codec.Address{{1}, {2}}
	c05BH       = balance.NewPrefixBalanceHandler([]byte{0x00})
	// generic keys 0..5 = name x suffix; 6,7 = balance keys of the two sponsors
	c05Keys = func() [][]byte {
		var out [][]byte
		for _, n := range c05Names {
			for _, s := range c05Suffixes {
				out = append(out, keys.EncodeChunks([]byte(n), s))
			}
		}
		for _, a := range c05Addrs {
			out = append(out, c05BH.BalanceKey(a))
		}
		return out
	}()
	c05KeyStr = func() []string {
		out := make([]string, len(c05Keys))
		for i, k := range c05Keys {
			out[i] = string(k)
		}
		return out
	}()
	c05Vals = []string{"A", "B", "C", "", string(database.PackUInt64(7)), string(database.PackUInt64(1_000_000_000))}
	c05Ctx  = context.Background()
)

const (
	c05NGeneric   = 6
	c05BlockTime  = int64(1_000_000)
	c05TxTime     = int64(1_010_000)
	c05RichAmount = uint64(1_000_000_000_000)
)

func c05KeyName(i int) string {
	if i < c05NGeneric {
		return fmt.Sprintf("%s:%d", c05Names[i/len(c05Suffixes)], c05Suffixes[i%len(c05Suffixes)])
	}
	return fmt.Sprintf("bal%d", i-c05NGeneric)
}

// sibling: same name, other size suffix (generic keys only)
func c05Sibling(i int) int {
	if i >= c05NGeneric {
		return -1
	}
	return i ^ 1
}

// ---------------------------------------------------------------------------
// ProgAction: a chain.Action whose behaviour is a small program.

type progOp struct {
	Op     string `json:"op"` // get | put | del | fail
	K      int    `json:"k,omitempty"`
	V      int    `json:"v,omitempty"`
	Ignore bool   `json:"ignore,omitempty"` // the action swallows an error of this op and goes on
}

type progDecl struct {
	K int  `json:"k"`
	P byte `json:"p"`
}

type progRec struct {
	denied  bool // the state access returned an error (other than not-found on a read)
	errText string
}

type progAction struct {
	Decl  []progDecl
	Prog  []progOp
	trace *[]progRec // harness-side observation of what each executed op returned
}

const progActionTypeID = 0x50

var errProgFail = errors.New("prog: explicit failure")

func (*progAction) GetTypeID() uint8                        { return progActionTypeID }
func (*progAction) ValidRange(chain.Rules) (int64, int64)   { return -1, -1 }
func (*progAction) ComputeUnits(chain.Rules) uint64         { return 1 }
func (a *progAction) StateKeys(codec.Address, ids.ID) state.Keys {
	// Built with plain map writes in declaration order, as an action author
	// would; a key declared twice inside ONE action keeps the union so that the
	// action's own declaration is well defined independently of map semantics.
	out := state.Keys{}
	for _, d := range a.Decl {
		out[c05KeyStr[d.K]] |= state.Permissions(d.P)
	}
	return out
}

// Bytes: canonical, length-prefixed, no optional fields.
func (a *progAction) Bytes() []byte {
	b := []byte{progActionTypeID, byte(len(a.Decl))}
	for _, d := range a.Decl {
		b = binary.BigEndian.AppendUint16(b, uint16(len(c05Keys[d.K])))
		b = append(b, c05Keys[d.K]...)
		b = append(b, d.P)
	}
	b = append(b, byte(len(a.Prog)))
	for _, o := range a.Prog {
		code := map[string]byte{"get": 0, "put": 1, "del": 2, "fail": 3}[o.Op]
		b = append(b, code)
		if o.Op == "fail" {
			continue
		}
		b = binary.BigEndian.AppendUint16(b, uint16(len(c05Keys[o.K])))
		b = append(b, c05Keys[o.K]...)
		if o.Op == "put" {
			b = binary.BigEndian.AppendUint16(b, uint16(len(c05Vals[o.V])))
			b = append(b, c05Vals[o.V]...)
		}
		if o.Ignore {
			b = append(b, 1)
		} else {
			b = append(b, 0)
		}
	}
	return b
}

// output format (also produced independently by the model):
// get: 'G' found(1) len(2) value ; ignored error: 'E'
func progOutGet(b []byte, v mval) []byte {
	b = append(b, 'G')
	if !v.Ok {
		return append(b, 0, 0, 0)
	}
	b = append(b, 1)
	b = binary.BigEndian.AppendUint16(b, uint16(len(v.V)))
	return append(b, v.V...)
}

func (a *progAction) Execute(ctx context.Context, _ chain.Rules, mu state.Mutable, _ int64, _ codec.Address, _ ids.ID) ([]byte, error) {
	out := []byte{}
	for i, o := range a.Prog {
		var err error
		rec := progRec{}
		switch o.Op {
		case "fail":
			if a.trace != nil {
				*a.trace = append(*a.trace, rec)
			}
			return nil, errProgFail
		case "get":
			var v []byte
			v, err = mu.GetValue(ctx, c05Keys[o.K])
			switch {
			case err == nil:
				out = progOutGet(out, mval{Ok: true, V: string(v)})
			case errors.Is(err, database.ErrNotFound):
				out = progOutGet(out, mval{})
				err = nil
			}
		case "put":
			err = mu.Insert(ctx, c05Keys[o.K], []byte(c05Vals[o.V]))
		case "del":
			err = mu.Remove(ctx, c05Keys[o.K])
		}
		if err != nil {
			// any failure of a state access counts as a denial (values always fit
			// their key, storage never fails, so nothing else can fail here)
			rec.denied = true
			rec.errText = err.Error()
		}
		if a.trace != nil {
			*a.trace = append(*a.trace, rec)
		}
		if err != nil {
			if o.Ignore {
				out = append(out, 'E')
				continue
			}
			return nil, fmt.Errorf("prog op %d: %w", i, err)
		}
	}
	return out, nil
}

var _ chain.Action = (*progAction)(nil)

// ---------------------------------------------------------------------------
// case types

type c05Cell struct {
	P1    int    `json:"p1"` // -1: not declared, else permission byte
	P2    int    `json:"p2"`
	State int    `json:"state"` // 0 absent | 1 base | 2 base+block tombstone | 3 block value | 4 base+block other value | 5 block tombstone over absent base
	Op    string `json:"op"`    // get | insnew | inssame | rem
	Decoy bool   `json:"decoy"` // sibling key (other suffix) declared with All
}

type c05Action struct {
	Decl []progDecl `json:"decl"`
	Prog []progOp   `json:"prog"`
}

type c05Tx struct {
	Sponsor int         `json:"sponsor"`
	Actor   int         `json:"actor"`
	Actions []c05Action `json:"actions"`
}

type c05TxCase struct {
	Base    []int    `json:"base"`    // generic keys: 0 absent, i>0 value i-1
	Balance []uint64 `json:"balance"` // per sponsor; 0 = no balance key
	Txs     []c05Tx  `json:"txs"`
}

type c05Case struct {
	Cell *c05Cell   `json:"cell,omitempty"`
	Tx   *c05TxCase `json:"tx,omitempty"`
}

// ---------------------------------------------------------------------------
// part 1: the table

var c05StateNames = []string{"absent", "in-base", "base+block-tombstone", "block-value", "base+block-other-value", "block-tombstone-over-absent"}

func c05CellRun(c c05Cell, st *vstat.Stats) error {
	target, decoy := c05Keys[0], c05Keys[1] // a:1 and a:2
	tk, dk := c05KeyStr[0], c05KeyStr[1]
	base := map[string]mval{dk: {Ok: true, V: "D"}}
	var blockT *mval
	switch c.State {
	case 0:
	case 1:
		base[tk] = mval{Ok: true, V: "A"}
	case 2:
		base[tk] = mval{Ok: true, V: "A"}
		blockT = &mval{}
	case 3:
		blockT = &mval{Ok: true, V: "B"}
	case 4:
		base[tk] = mval{Ok: true, V: "A"}
		blockT = &mval{Ok: true, V: "B"}
	case 5:
		blockT = &mval{}
	default:
		return fmt.Errorf("malformed cell: state %d", c.State)
	}
	storage := map[string][]byte{}
	for k, v := range base {
		storage[k] = []byte(v.V)
	}
	m := newKvcp(base)
	ts := tstate.New(0)
	full := func() *tstate.TStateView {
		return ts.NewView(state.CompletePermissions, state.ImmutableStorage(storage), 0)
	}
	if blockT != nil {
		if !blockT.Ok && !base[tk].Ok {
			v := full()
			if err := v.Insert(c05Ctx, target, []byte("seed")); err != nil {
				return err
			}
			v.Commit()
		}
		v := full()
		var err error
		if blockT.Ok {
			err = v.Insert(c05Ctx, target, []byte(blockT.V))
		} else {
			err = v.Remove(c05Ctx, target)
		}
		if err != nil {
			return err
		}
		v.Commit()
		m.block[tk] = *blockT
		if !c04ChangedEq(ts, m.block) {
			return fmt.Errorf("seeding: ChangedKeys=%s want %s", c04ShowMap(c04Changed(ts)), c04ShowMap(m.block))
		}
	}

	// the declaration: united by state.Keys.Add exactly as Transaction.StateKeys does
	scope := state.Keys{}
	var p byte
	declared := false
	for _, d := range []int{c.P1, c.P2} {
		if d >= 0 {
			if !scope.Add(tk, state.Permissions(d)) {
				return fmt.Errorf("Keys.Add rejected a well-formed key")
			}
			p |= byte(d)
			declared = true
		}
	}
	if c.Decoy {
		scope.Add(dk, state.All)
	}
	view := ts.NewView(scope, state.ImmutableStorage(storage), len(scope))

	visible := m.get(tk)
	var (
		must, may bool
		need      string
		newVal    mval
	)
	switch c.Op {
	case "get":
		need, must, may = "read", permMustRead(p), permMayRead(p)
	case "insnew", "inssame":
		newVal = mval{Ok: true, V: "N"}
		if c.Op == "inssame" {
			switch {
			case visible.Ok:
				newVal = visible
			case base[tk].Ok:
				newVal = base[tk] // restore the parent value under a tombstone
			default:
				st.Skip("inssame-without-any-value")
				return nil // same cell as insnew
			}
		}
		if visible.Ok {
			need, must, may = "modify", permMustModify(p), permMayModify(p)
		} else {
			need, must, may = "create", permMustCreate(p), permMayCreate(p)
		}
	case "rem":
		need, must, may = "modify", permMustModify(p), permMayModify(p)
	default:
		return fmt.Errorf("malformed cell: op %q", c.Op)
	}

	var (
		err error
		got []byte
	)
	switch c.Op {
	case "get":
		got, err = view.GetValue(c05Ctx, target)
	case "insnew", "inssame":
		err = view.Insert(c05Ctx, target, []byte(newVal.V))
	case "rem":
		err = view.Remove(c05Ctx, target)
	}
	allowed := err == nil || (c.Op == "get" && errors.Is(err, database.ErrNotFound))

	oneBit := false
	for _, b := range []byte{1, 2, 4} {
		if p&b == 0 {
			q := p | b
			switch need {
			case "read":
				oneBit = oneBit || permMustRead(q)
			case "modify":
				oneBit = oneBit || permMustModify(q)
			case "create":
				oneBit = oneBit || permMustCreate(q)
			}
		}
	}
	nt := !may && (oneBit || c.Decoy)
	lbl := []string{"table:" + need}
	if !declared {
		lbl = append(lbl, "table:not-declared")
	}
	if !may {
		lbl = append(lbl, "table:must-deny")
		if oneBit {
			lbl = append(lbl, "table:denied-one-bit-short")
		}
		if c.Decoy {
			lbl = append(lbl, "table:denied-though-sibling-suffix-declared")
		}
	} else if must {
		lbl = append(lbl, "table:must-allow")
	} else {
		lbl = append(lbl, "table:either (raw byte without read bit)")
	}
	if c.P1 >= 0 && c.P2 >= 0 && must && !cellSingleSuffices(need, byte(c.P1), byte(c.P2)) {
		lbl = append(lbl, "table:allowed-only-by-union")
	}
	st.Case(nt, fmt.Sprintf("cell|%+v", c), lbl...)
	st.Sample(nt, fmt.Sprintf("decl=%d|%d state=%s op=%s decoy=%v -> need %s, must=%v may=%v, real allowed=%v", c.P1, c.P2, c05StateNames[c.State], c.Op, c.Decoy, need, must, may, allowed))

	if allowed && !may {
		return fmt.Errorf("%s of key declared as %08b (declared=%v) in state %s was ALLOWED (err=%v) although %s permission is missing", c.Op, p, declared, c05StateNames[c.State], err, need)
	}
	if !allowed && must {
		return fmt.Errorf("%s of key declared as %08b in state %s was denied (%v) although the declaration contains %s permission", c.Op, p, c05StateNames[c.State], err, need)
	}
	if allowed {
		switch c.Op {
		case "get":
			g := mval{}
			if err == nil {
				g = mval{Ok: true, V: string(got)}
			}
			if g != visible {
				return fmt.Errorf("get returned %s, model %s", c04ShowVal(g), c04ShowVal(visible))
			}
		case "insnew", "inssame":
			m.insert(tk, newVal.V)
		case "rem":
			m.remove(tk)
		}
	} else if view.PendingChanges() != 0 || view.OpIndex() != 0 {
		return fmt.Errorf("denied %s left traces in the view: PendingChanges=%d OpIndex=%d", c.Op, view.PendingChanges(), view.OpIndex())
	}
	m.commit()
	view.Commit()
	if !c04ChangedEq(ts, m.block) {
		return fmt.Errorf("after %s (allowed=%v) and Commit: ChangedKeys=%s, model %s", c.Op, allowed, c04ShowMap(c04Changed(ts)), c04ShowMap(m.block))
	}
	chk := full()
	for _, k := range [][]byte{target, decoy} {
		g, gerr := c04RealGet(chk, k)
		if gerr != nil {
			return gerr
		}
		if w := m.get(string(k)); g != w {
			return fmt.Errorf("after %s (allowed=%v): key %q reads %s, model %s", c.Op, allowed, k, c04ShowVal(g), c04ShowVal(w))
		}
	}
	return nil
}

func cellSingleSuffices(need string, ps ...byte) bool {
	for _, p := range ps {
		switch need {
		case "read":
			if permMustRead(p) {
				return true
			}
		case "modify":
			if permMustModify(p) {
				return true
			}
		case "create":
			if permMustCreate(p) {
				return true
			}
		}
	}
	return false
}

func TestC05Exhaustive(t *testing.T) {
	st := vstat.New(t, "C05", "exhaustive table: {not declared, permission byte 0..7}^2 united by Keys.Add x 6 underlying states of the key (absent, in parent, parent+block tombstone, block value, parent+other block value, block tombstone over absent parent) x {get, insert new value, insert same/restoring value, remove} x {sibling key with other size suffix declared All, or not}; one op on a fresh view, then commit and read back; non-trivial = a denial where one more bit would have sufficed or where the sibling key was fully declared")
	st.Exhaustive = true
	st.Assumption("raw permission bytes 2,4,6 (allocate/write bit without the read bit) are not expressible with the exported constants; for them the table only bounds the answer (see kvcp_test.go)")
	for p1 := -1; p1 <= 7; p1++ {
		for p2 := -1; p2 <= 7; p2++ {
			for s := 0; s < len(c05StateNames); s++ {
				for _, op := range []string{"get", "insnew", "inssame", "rem"} {
					for _, decoy := range []bool{false, true} {
						cell := c05Cell{P1: p1, P2: p2, State: s, Op: op, Decoy: decoy}
						c := c05Case{Cell: &cell}
						vstat.Run(t, st, c, func() error { return c05CellRun(cell, st) })
					}
				}
			}
		}
	}
}

// ---------------------------------------------------------------------------
// part 2: random transactions through chain.Transaction

type c05Info struct {
	labels map[string]bool
	nt     bool
}

func (i *c05Info) add(l string) { i.labels[l] = true }

func c05ParseBalance(v mval) (uint64, bool) {
	if !v.Ok {
		return 0, true
	}
	if len(v.V) != 8 {
		return 0, false
	}
	return binary.BigEndian.Uint64([]byte(v.V)), true
}

func c05TxRun(c c05TxCase, st *vstat.Stats) error {
	info := &c05Info{labels: map[string]bool{}}
	err := c05TxExec(c, st, info)
	var lbl []string
	for l := range info.labels {
		lbl = append(lbl, l)
	}
	raw, _ := json.Marshal(c)
	st.Case(info.nt, string(raw), lbl...)
	st.Sample(info.nt, c05Render(c))
	return err
}

func c05Render(c c05TxCase) string {
	var sb strings.Builder
	fmt.Fprintf(&sb, "base=%v bal=%v", c.Base, c.Balance)
	for _, tx := range c.Txs {
		fmt.Fprintf(&sb, " | tx(sponsor %d):", tx.Sponsor)
		for _, a := range tx.Actions {
			sb.WriteString(" [decl")
			for _, d := range a.Decl {
				fmt.Fprintf(&sb, " %s=%03b", c05KeyName(d.K), d.P)
			}
			sb.WriteString(";")
			for _, o := range a.Prog {
				switch o.Op {
				case "fail":
					sb.WriteString(" fail")
				case "put":
					fmt.Fprintf(&sb, " put(%s,%d)", c05KeyName(o.K), o.V)
				default:
					fmt.Fprintf(&sb, " %s(%s)", o.Op, c05KeyName(o.K))
				}
				if o.Ignore {
					sb.WriteString("?")
				}
			}
			sb.WriteString("]")
		}
	}
	return sb.String()
}

func c05TxExec(c c05TxCase, st *vstat.Stats, info *c05Info) error {
	if len(c.Base) != c05NGeneric || len(c.Balance) != len(c05Addrs) {
		return fmt.Errorf("malformed case")
	}
	base := map[string]mval{}
	storage := map[string][]byte{}
	for i, b := range c.Base {
		if b > 0 {
			if b > len(c05Vals) {
				return fmt.Errorf("malformed case: base value %d", b)
			}
			base[c05KeyStr[i]] = mval{Ok: true, V: c05Vals[b-1]}
		}
	}
	for i, b := range c.Balance {
		if b > 0 {
			base[c05KeyStr[c05NGeneric+i]] = mval{Ok: true, V: string(database.PackUInt64(b))}
		}
	}
	for k, v := range base {
		storage[k] = []byte(v.V)
	}
	m := newKvcp(base)
	ts := tstate.New(0)
	rules := genesis.NewDefaultRules()
	fm := internalfees.NewManager(nil)
	for d := 0; d < 5; d++ {
		fm.SetUnitPrice(fees.Dimension(d), 1)
	}
	executed := 0

	for ti, txc := range c.Txs {
		if txc.Sponsor < 0 || txc.Sponsor >= len(c05Addrs) || txc.Actor < 0 || txc.Actor >= len(c05Addrs) {
			return fmt.Errorf("malformed case: sponsor/actor")
		}
		// --- the real transaction
		traces := make([][]progRec, len(txc.Actions))
		actions := make([]chain.Action, len(txc.Actions))
		decls := map[int][]byte{} // key -> every single declaration (one entry per action that declares it, + sponsor)
		for ai, ac := range txc.Actions {
			perAction := map[int]byte{}
			for _, d := range ac.Decl {
				if d.K < 0 || d.K >= len(c05Keys) {
					return fmt.Errorf("malformed case: decl key")
				}
				perAction[d.K] |= d.P
			}
			for k, p := range perAction {
				decls[k] = append(decls[k], p)
			}
			for _, o := range ac.Prog {
				if o.Op != "fail" && (o.K < 0 || o.K >= len(c05Keys) || o.V < 0 || o.V >= len(c05Vals)) {
					return fmt.Errorf("malformed case: prog operand")
				}
			}
			actions[ai] = &progAction{Decl: ac.Decl, Prog: ac.Prog, trace: &traces[ai]}
		}
		sponsorKey := c05NGeneric + txc.Sponsor
		decls[sponsorKey] = append(decls[sponsorKey], byte(state.Read|state.Write)) // what the balance handler declares, per its documentation
		union := map[int]byte{}
		for k, ps := range decls {
			for _, p := range ps {
				union[k] |= p
			}
		}
		perm := func(k int) byte { return union[k] }

		auth := &chaintest.TestAuth{NumComputeUnits: 1, ActorAddress: c05Addrs[txc.Actor], SponsorAddress: c05Addrs[txc.Sponsor], Start: -1, End: -1}
		tx, err := chain.NewTransaction(chain.Base{Timestamp: c05TxTime, ChainID: rules.GetChainID(), MaxFee: 1 << 40}, actions, auth)
		if err != nil {
			return fmt.Errorf("tx %d: NewTransaction: %v", ti, err)
		}
		stateKeys, err := tx.StateKeys(c05BH)
		if err != nil {
			return fmt.Errorf("tx %d: StateKeys: %v", ti, err)
		}
		units, err := tx.Units(c05BH, rules)
		if err != nil {
			return fmt.Errorf("tx %d: Units: %v", ti, err)
		}
		fee, err := fm.Fee(units)
		if err != nil {
			return fmt.Errorf("tx %d: Fee: %v", ti, err)
		}
		view := ts.NewView(stateKeys, state.ImmutableStorage(storage), len(stateKeys))
		if perr := tx.PreExecute(c05Ctx, fm, c05BH, rules, view, c05BlockTime); perr != nil {
			// not this property's business (fee/balance admission): follow the code, drop the view
			bal, ok := c05ParseBalance(m.get(c05KeyStr[sponsorKey]))
			if ok && bal >= fee {
				return fmt.Errorf("tx %d: PreExecute failed (%v) although the sponsor holds %d >= fee %d (harness expectation)", ti, perr, bal, fee)
			}
			info.add("tx-rejected-before-execution")
			m.abandon()
			continue
		}
		bal, ok := c05ParseBalance(m.get(c05KeyStr[sponsorKey]))
		if !ok || bal < fee {
			return fmt.Errorf("tx %d: PreExecute passed although the model's sponsor balance cannot pay (harness expectation)", ti)
		}
		res, xerr := tx.Execute(c05Ctx, fm, c05BH, rules, view, c05BlockTime)
		if xerr != nil {
			return fmt.Errorf("tx %d: Execute returned an error after PreExecute passed: %v", ti, xerr)
		}
		executed++

		// --- the model transaction
		m.insert(c05KeyStr[sponsorKey], string(database.PackUInt64(bal-fee)))
		cp := m.checkpoint()
		wantSuccess := true
		var wantOutputs [][]byte
		wroteInTx := false
		for ai, ac := range txc.Actions {
			out := []byte{}
			failed := false
			tr := traces[ai]
			for oi, o := range ac.Prog {
				if oi >= len(tr) {
					return fmt.Errorf("tx %d action %d: the real action stopped before op %d (%+v) which the model reaches; result error %q", ti, ai, oi, o, res.Error)
				}
				rec := tr[oi]
				if o.Op == "fail" {
					failed = true
					info.add("explicit-failure")
				} else {
					ks := c05KeyStr[o.K]
					p := perm(o.K)
					vis := m.get(ks)
					var must, may bool
					need := ""
					switch {
					case o.Op == "get":
						need, must, may = "read", permMustRead(p), permMayRead(p)
					case o.Op == "put" && !vis.Ok:
						need, must, may = "create", permMustCreate(p), permMayCreate(p)
					default:
						need, must, may = "modify", permMustModify(p), permMayModify(p)
					}
					if !rec.denied && !may {
						return fmt.Errorf("tx %d action %d op %d: %s(%s) was ALLOWED although the transaction's declarations of that key unite to %03b (single declarations %v): %s permission missing",
							ti, ai, oi, o.Op, c05KeyName(o.K), p, decls[o.K], need)
					}
					if rec.denied && must {
						return fmt.Errorf("tx %d action %d op %d: %s(%s) was denied (%q) although the declarations unite to %03b (single declarations %v), which contains %s permission",
							ti, ai, oi, o.Op, c05KeyName(o.K), rec.errText, p, decls[o.K], need)
					}
					if must != may {
						info.add("raw-byte-without-read-bit-decides")
					}
					if rec.denied {
						info.add("denied-" + need)
						if _, dec := union[o.K]; !dec {
							info.add("denied-undeclared-key")
						}
						if sib := c05Sibling(o.K); sib >= 0 {
							sp := perm(sib)
							if (need == "read" && permMustRead(sp)) || (need == "modify" && permMustModify(sp)) || (need == "create" && permMustCreate(sp)) {
								info.add("denied-though-sibling-suffix-declared")
								info.nt = true
							}
						}
						for _, b := range []byte{1, 2, 4} {
							q := p | b
							if p&b == 0 && ((need == "read" && permMustRead(q)) || (need == "modify" && permMustModify(q)) || (need == "create" && permMustCreate(q))) {
								info.add("denied-one-bit-short")
								info.nt = true
							}
						}
						if wroteInTx {
							info.add("denial-after-effective-write")
						}
						if o.Ignore {
							info.add("denial-ignored-action-continues")
							out = append(out, 'E')
						} else {
							failed = true
						}
					} else {
						if must && !cellSingleSuffices(need, decls[o.K]...) {
							info.add("allowed-only-by-union-of-declarations")
						}
						if o.K == sponsorKey && must && !cellSingleSuffices(need, decls[o.K][:len(decls[o.K])-1]...) {
							info.add("allowed-thanks-to-sponsor-declaration")
						}
						switch o.Op {
						case "get":
							out = progOutGet(out, vis)
						case "put":
							if nv := (mval{Ok: true, V: c05Vals[o.V]}); nv != vis {
								wroteInTx = true
							}
							m.insert(ks, c05Vals[o.V])
							if need == "create" {
								info.add("create-allowed")
							}
						case "del":
							if vis.Ok {
								wroteInTx = true
							}
							m.remove(ks)
						}
					}
				}
				if failed {
					if oi+1 != len(tr) {
						return fmt.Errorf("tx %d action %d: the real action went on after op %d, where the model stops", ti, ai, oi)
					}
					break
				}
			}
			if failed {
				wantSuccess = false
				if wroteInTx {
					info.add("failing-tx-reverted-after-write")
				}
				m.rollback(cp)
				break
			}
			if len(tr) != len(ac.Prog) {
				return fmt.Errorf("tx %d action %d: the real action executed %d ops, the model %d", ti, ai, len(tr), len(ac.Prog))
			}
			wantOutputs = append(wantOutputs, out)
		}

		// --- compare what the transaction reported
		if res.Success != wantSuccess {
			return fmt.Errorf("tx %d: Result.Success=%v (error %q), model %v", ti, res.Success, res.Error, wantSuccess)
		}
		if len(res.Outputs) != len(wantOutputs) {
			return fmt.Errorf("tx %d: %d action outputs, model %d", ti, len(res.Outputs), len(wantOutputs))
		}
		for i := range wantOutputs {
			if !bytes.Equal(res.Outputs[i], wantOutputs[i]) {
				return fmt.Errorf("tx %d action %d: output (what the action observed) %q, model %q", ti, i, res.Outputs[i], wantOutputs[i])
			}
		}
		if wantSuccess {
			info.add("tx-succeeded")
		} else {
			info.add("tx-failed-and-reverted")
		}

		// --- read probe on the transaction's own view: every key of the universe
		for k := range c05Keys {
			g, gerr := view.GetValue(c05Ctx, c05Keys[k])
			p := perm(k)
			allowed := gerr == nil || errors.Is(gerr, database.ErrNotFound)
			if allowed && !permMayRead(p) {
				return fmt.Errorf("tx %d read probe: %s readable although declared %03b", ti, c05KeyName(k), p)
			}
			if !allowed && permMustRead(p) {
				return fmt.Errorf("tx %d read probe: %s not readable (%v) although declared %03b", ti, c05KeyName(k), gerr, p)
			}
			if allowed {
				gv := mval{}
				if gerr == nil {
					gv = mval{Ok: true, V: string(g)}
				}
				if w := m.get(c05KeyStr[k]); gv != w {
					return fmt.Errorf("tx %d read probe: %s reads %s, model %s", ti, c05KeyName(k), c04ShowVal(gv), c04ShowVal(w))
				}
			}
		}

		// --- commit: exactly the model's differing keys; and directly: every changed key was declared writable
		before := map[string]mval{}
		for k, v := range m.block {
			before[k] = v
		}
		preVisible := map[int]mval{}
		for k := range c05Keys {
			preVisible[k] = m.underlying(c05KeyStr[k])
		}
		published := m.commit()
		view.Commit()
		if !c04ChangedEq(ts, m.block) {
			return fmt.Errorf("tx %d: after Commit ChangedKeys=%s; before %s; the model publishes %s", ti, c04ShowMap(c04Changed(ts)), c04ShowMap(before), c04ShowMap(published))
		}
		after := c04Changed(ts)
		for k := range c05Keys {
			ks := c05KeyStr[k]
			a, aok := after[ks]
			b, bok := before[ks]
			if aok == bok && a == b {
				continue
			}
			p := perm(k)
			if !permMayModify(p) {
				return fmt.Errorf("tx %d: key %s changed in the block-level state although declared %03b", ti, c05KeyName(k), p)
			}
			if aok && a.Ok && !preVisible[k].Ok && !permMayCreate(p) {
				return fmt.Errorf("tx %d: key %s was created although declared %03b", ti, c05KeyName(k), p)
			}
		}
		for ks := range after {
			known := false
			for _, u := range c05KeyStr {
				known = known || u == ks
			}
			if !known {
				return fmt.Errorf("tx %d: foreign key %q in ChangedKeys", ti, ks)
			}
		}

		// --- write probe on a throw-away view with the same scope (never committed)
		for k := range c05Keys {
			p := perm(k)
			vis := m.get(c05KeyStr[k])
			probe := ts.NewView(stateKeys, state.ImmutableStorage(storage), 0)
			ierr := probe.Insert(c05Ctx, c05Keys[k], []byte("P"))
			must, may := permMustModify(p), permMayModify(p)
			if !vis.Ok {
				must, may = permMustCreate(p), permMayCreate(p)
			}
			needW := "modify"
			if !vis.Ok {
				needW = "create"
			}
			if must && len(decls[k]) > 1 && !cellSingleSuffices(needW, decls[k]...) {
				info.add("probe-allowed-only-by-union-of-declarations")
			}
			if ierr == nil && !may {
				return fmt.Errorf("tx %d write probe: insert into %s (visible=%v) allowed although declared %03b", ti, c05KeyName(k), vis.Ok, p)
			}
			if ierr != nil && must {
				return fmt.Errorf("tx %d write probe: insert into %s (visible=%v) denied (%v) although declared %03b", ti, c05KeyName(k), vis.Ok, ierr, p)
			}
			if ierr != nil && probe.PendingChanges() != 0 {
				return fmt.Errorf("tx %d write probe: denied insert left a pending change", ti)
			}
			probe = ts.NewView(stateKeys, state.ImmutableStorage(storage), 0)
			rerr := probe.Remove(c05Ctx, c05Keys[k])
			if rerr == nil && !permMayModify(p) {
				return fmt.Errorf("tx %d write probe: remove of %s allowed although declared %03b", ti, c05KeyName(k), p)
			}
			if rerr != nil && permMustModify(p) {
				return fmt.Errorf("tx %d write probe: remove of %s denied (%v) although declared %03b", ti, c05KeyName(k), rerr, p)
			}
			if rerr != nil && probe.PendingChanges() != 0 {
				return fmt.Errorf("tx %d write probe: denied remove left a pending change", ti)
			}
		}
		if !c04ChangedEq(ts, m.block) {
			return fmt.Errorf("tx %d: uncommitted probe views changed the block-level state", ti)
		}
	}
	if executed >= 2 {
		info.add("several-executed-txs")
	}
	if executed >= 1 {
		info.add("tx-executed")
	}
	return nil
}

const c05Rule = "1..3 transactions on one TState, each of 1..4 ProgActions (declared keys with permission bytes incl. duplicates across actions, the sponsor's balance key and raw bytes; programs of get/put/del/fail over 6 generic keys (3 names x 2 size suffixes) and both sponsors' balance keys; a denied op may be ignored by the action), executed through chain.Transaction StateKeys/PreExecute/Execute/Commit and compared with the map model under the permission lattice, plus a read probe and a write probe of every key per transaction; non-trivial = some op was denied for lack of exactly one bit, or denied while the key with the same name and another size suffix was sufficiently declared; distinct by the whole case"

func c05Gen(rt *rapid.T) c05TxCase {
	c := c05TxCase{}
	for i := 0; i < c05NGeneric; i++ {
		c.Base = append(c.Base, rapid.SampledFrom([]int{0, 0, 1, 2, 3, 4}).Draw(rt, "base"))
	}
	for range c05Addrs {
		c.Balance = append(c.Balance, rapid.SampledFrom([]uint64{c05RichAmount, c05RichAmount, c05RichAmount, c05RichAmount, c05RichAmount, 0, 10, 1 << 62}).Draw(rt, "balance"))
	}
	perms := []byte{0, 1, 1, 1, 3, 3, 3, 5, 5, 5, 5, 7, 7, 2, 4, 6, 0x81, 0x0d}
	// slices of custom values (not drawn counts + loops) so that rapid shrinks by removing elements
	txGen := rapid.Custom(func(rt *rapid.T) c05Tx {
		tx := c05Tx{Sponsor: rapid.IntRange(0, 1).Draw(rt, "sponsor"), Actor: rapid.IntRange(0, 1).Draw(rt, "actor")}
		var declared []int
		declGen := rapid.Custom(func(rt *rapid.T) progDecl {
			k := rapid.IntRange(0, len(c05Keys)-1).Draw(rt, "declkey")
			if len(declared) > 0 && rapid.IntRange(0, 1).Draw(rt, "redeclare") == 0 {
				// same key again with a partial permission: only the union may suffice
				k = rapid.SampledFrom(declared).Draw(rt, "declkey2")
				declared = append(declared, k)
				return progDecl{K: k, P: rapid.SampledFrom([]byte{1, 3, 3, 5, 5, 2, 4}).Draw(rt, "perm2")}
			}
			declared = append(declared, k)
			return progDecl{K: k, P: rapid.SampledFrom(perms).Draw(rt, "perm")}
		})
		actGen := rapid.Custom(func(rt *rapid.T) c05Action {
			return c05Action{Decl: rapid.SliceOfN(declGen, 0, 4).Draw(rt, "decl")}
		})
		tx.Actions = rapid.SliceOfN(actGen, 1, 4).Draw(rt, "actions")
		// key choice of the programs is biased to what the transaction really declares
		declared = declared[:0]
		for _, a := range tx.Actions {
			for _, d := range a.Decl {
				declared = append(declared, d.K)
			}
		}
		declared = append(declared, c05NGeneric+tx.Sponsor)
		opGen := rapid.Custom(func(rt *rapid.T) progOp {
			op := progOp{Op: rapid.SampledFrom([]string{"get", "get", "get", "put", "put", "put", "put", "del", "del", "del", "fail"}).Draw(rt, "op")}
			if op.Op == "fail" {
				return op
			}
			switch rapid.IntRange(0, 5).Draw(rt, "keyclass") {
			case 0: // anything
				op.K = rapid.IntRange(0, len(c05Keys)-1).Draw(rt, "k")
			case 1: // sibling of a declared key
				op.K = rapid.SampledFrom(declared).Draw(rt, "k")
				if s := c05Sibling(op.K); s >= 0 {
					op.K = s
				}
			default:
				op.K = rapid.SampledFrom(declared).Draw(rt, "k")
			}
			if op.Op == "put" {
				op.V = rapid.IntRange(0, len(c05Vals)-1).Draw(rt, "v")
			}
			op.Ignore = rapid.IntRange(0, 1).Draw(rt, "ignore") == 0
			return op
		})
		for a := range tx.Actions {
			tx.Actions[a].Prog = rapid.SliceOfN(opGen, 0, 6).Draw(rt, "prog")
		}
		return tx
	})
	c.Txs = rapid.SliceOfN(txGen, 1, 3).Draw(rt, "txs")
	return c
}

func TestC05(t *testing.T) {
	st := vstat.New(t, "C05", c05Rule)
	st.Assumption("fee and balance admission (PreExecute) is followed, not judged: a transaction the code rejects before execution is dropped in the model too (only an inconsistency with the model's own balance is reported)")
	st.Assumption("raw permission bytes 2,4,6 (no read bit) only bound the answer; bits above the third are ignored")
	st.Assumption("views are given the whole parent state as storage (builder path), so a read that slipped through the scope check would return real data")
	rapid.Check(t, func(rt *rapid.T) {
		tc := c05Gen(rt)
		c := c05Case{Tx: &tc}
		vstat.Run(rt, st, c, func() error { return c05TxRun(tc, st) })
	})
}

func TestC05Replay(t *testing.T) {
	vstat.Replay(t, "C05", func(raw []byte) error {
		var c c05Case
		if err := json.Unmarshal(raw, &c); err != nil {
			return err
		}
		st := vstat.New(nil, "C05", "")
		switch {
		case c.Cell != nil:
			return c05CellRun(*c.Cell, st)
		case c.Tx != nil:
			return c05TxRun(*c.Tx, st)
		}
		return fmt.Errorf("empty case")
	})
}
