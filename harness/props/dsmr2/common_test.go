package dsmr2

import (
	"context"
	"encoding/json"
	"errors"
	"fmt"
	"os"
	"sync"
	"time"

	"github.com/ava-labs/avalanchego/database"
	"github.com/ava-labs/avalanchego/ids"
	"github.com/ava-labs/avalanchego/network/p2p"
	"github.com/ava-labs/avalanchego/snow/engine/common"
	"github.com/ava-labs/avalanchego/snow/validators"
	"github.com/ava-labs/avalanchego/utils/crypto/bls"
	"github.com/ava-labs/avalanchego/utils/crypto/bls/signer/localsigner"
	"github.com/ava-labs/avalanchego/utils/logging"
	"github.com/ava-labs/avalanchego/utils/set"
	"github.com/ava-labs/avalanchego/utils/wrappers"
	"github.com/ava-labs/avalanchego/vms/platformvm/warp"
	"github.com/prometheus/client_golang/prometheus"

	"github.com/ava-labs/hypersdk/codec"
	"github.com/ava-labs/hypersdk/consts"
	"github.com/ava-labs/hypersdk/internal/validitywindow"
	"github.com/ava-labs/hypersdk/utils"
	"github.com/ava-labs/hypersdk/x/dsmr"
	"github.com/ava-labs/hypersdk/x/dsmr/dsmrtest"
)

// Shared fixture of the dsmr2 checks (C35, C37): everything a dsmr.Node needs is
// assembled from OUTSIDE the package through exported API (plus the add-only,
// verif-tagged x/dsmr/verif_export.go), the way x/dsmr/node_test.go does it from
// inside: validators with real BLS keys, chunks with a real producer signature,
// chunk certificates with a real single-signer warp BitSetSignature.

const (
	fxNetworkID = uint32(123)
	fxMaxKeys   = 5
)

var fxChainID = ids.Empty

type tx = dsmrtest.Tx

// ---- validators with fixed (reproducible) BLS keys ---------------------------------

type fxValidator struct {
	nodeID ids.NodeID
	sk     *localsigner.LocalSigner
	pk     *bls.PublicKey
	pkComp [bls.PublicKeyLen]byte
	signer warp.Signer
}

var (
	fxKeysOnce sync.Once
	fxKeys     []*fxValidator
)

// fxKey returns the i-th fixed identity. Secret keys are the scalars 1001+i, so a
// replayed case signs with the same keys and (BLS signatures being deterministic)
// obtains the same chunk ids.
func fxKey(i int) *fxValidator {
	fxKeysOnce.Do(func() {
		for k := 0; k < fxMaxKeys; k++ {
			var skb [32]byte
			skb[30] = byte((1001 + k) >> 8)
			skb[31] = byte(1001 + k)
			sk, err := localsigner.FromBytes(skb[:])
			if err != nil {
				panic(err)
			}
			v := &fxValidator{sk: sk, pk: sk.PublicKey()}
			copy(v.pkComp[:], bls.PublicKeyToCompressedBytes(v.pk))
			for j := range v.nodeID {
				v.nodeID[j] = byte(0xA0 + k)
			}
			v.signer = warp.NewSigner(sk, fxNetworkID, fxChainID)
			fxKeys = append(fxKeys, v)
		}
	})
	return fxKeys[i]
}

// ---- ChainState ---------------------------------------------------------------------

type fxChainState struct {
	vals      []*fxValidator
	canonical warp.CanonicalValidatorSet
	index     map[ids.NodeID]int // position in the canonical ordering
	quorumNum uint64
	quorumDen uint64
}

func newFxChainState(vals []*fxValidator, quorumNum, quorumDen uint64) *fxChainState {
	m := make(map[ids.NodeID]*validators.GetValidatorOutput, len(vals))
	for _, v := range vals {
		m[v.nodeID] = &validators.GetValidatorOutput{NodeID: v.nodeID, PublicKey: v.pk, Weight: 1}
	}
	canonical, err := warp.FlattenValidatorSet(m)
	if err != nil {
		panic(err)
	}
	cs := &fxChainState{vals: vals, canonical: canonical, index: map[ids.NodeID]int{}, quorumNum: quorumNum, quorumDen: quorumDen}
	for i, v := range canonical.Validators {
		for _, n := range v.NodeIDs {
			cs.index[n] = i
		}
	}
	return cs
}

func (*fxChainState) GetNetworkID() uint32 { return fxNetworkID }
func (*fxChainState) GetSubnetID() ids.ID  { return ids.Empty }
func (*fxChainState) GetChainID() ids.ID   { return fxChainID }
func (c *fxChainState) GetCanonicalValidatorSet(context.Context) (warp.CanonicalValidatorSet, error) {
	return c.canonical, nil
}

func (c *fxChainState) IsNodeValidator(_ context.Context, n ids.NodeID, _ uint64) (bool, error) {
	_, ok := c.index[n]
	return ok, nil
}
func (c *fxChainState) GetQuorumNum() uint64 { return c.quorumNum }
func (c *fxChainState) GetQuorumDen() uint64 { return c.quorumDen }

// ---- Rules --------------------------------------------------------------------------

type fxRules struct{ window int64 }

func (r fxRules) GetValidityWindow() int64                   { return r.window }
func (fxRules) GetMaxAccumulatedProducerChunkWeight() uint64 { return 1 << 40 }
func (r fxRules) GetRules(int64) dsmr.Rules                  { return r }

// ---- chunks and certificates ----------------------------------------------------------

type fxChunk struct {
	chunk dsmr.Chunk[tx]
	bytes []byte
	id    ids.ID
}

func fxMarshalChunk(c dsmr.Chunk[tx]) ([]byte, error) {
	packer := wrappers.Packer{Bytes: make([]byte, 0, 512), MaxSize: consts.NetworkSizeLimit}
	if err := codec.LinearCodec.MarshalInto(c, &packer); err != nil {
		return nil, err
	}
	return packer.Bytes, nil
}

// fxSignChunk mirrors the unexported dsmr.signChunk: the producer signs the warp
// message over the marshalled UnsignedChunk. declaredProducer may differ from the
// signer's node id (used to fabricate chunks of a non-validator).
func fxSignChunk(signer *fxValidator, declaredProducer ids.NodeID, expiry int64, seed uint64, ntx int) (*fxChunk, error) {
	txs := make([]tx, ntx)
	for i := range txs {
		var b [40]byte
		copy(b[:], fmt.Sprintf("tx-%d-%d", seed, i))
		txs[i] = tx{ID: utils.ToID(b[:]), Expiry: expiry, Sponsor: codec.Address{byte(seed), byte(i)}}
	}
	unsigned := dsmr.UnsignedChunk[tx]{
		Producer:    declaredProducer,
		Beneficiary: codec.Address{byte(seed >> 8), byte(seed)},
		Expiry:      expiry,
		Txs:         txs,
	}
	packer := wrappers.Packer{Bytes: make([]byte, 0, 512), MaxSize: consts.NetworkSizeLimit}
	if err := codec.LinearCodec.MarshalInto(unsigned, &packer); err != nil {
		return nil, err
	}
	msg, err := warp.NewUnsignedMessage(fxNetworkID, fxChainID, packer.Bytes)
	if err != nil {
		return nil, err
	}
	sig, err := signer.signer.Sign(msg)
	if err != nil {
		return nil, err
	}
	c := dsmr.Chunk[tx]{UnsignedChunk: unsigned, Signer: signer.pkComp}
	copy(c.Signature[:], sig)
	return fxFinishChunk(c)
}

// fxFinishChunk marshals the chunk and re-parses it with the exported ParseChunk so
// that the unexported id/bytes are set exactly as the package sets them.
func fxFinishChunk(c dsmr.Chunk[tx]) (*fxChunk, error) {
	b, err := fxMarshalChunk(c)
	if err != nil {
		return nil, err
	}
	parsed, err := dsmr.ParseChunk[tx](b)
	if err != nil {
		return nil, err
	}
	return &fxChunk{chunk: parsed, bytes: b, id: utils.ToID(b)}, nil
}

// fxCert builds a chunk certificate whose BitSetSignature is a real signature of
// the single validator `signer` over the chunk reference (as Node.BuildChunk's
// aggregation would produce with one signer).
func fxCert(cs *fxChainState, signer *fxValidator, ref dsmr.ChunkReference) (*dsmr.ChunkCertificate, error) {
	packer := wrappers.Packer{MaxSize: dsmr.MaxMessageSize}
	if err := codec.LinearCodec.MarshalInto(ref, &packer); err != nil {
		return nil, err
	}
	msg, err := warp.NewUnsignedMessage(fxNetworkID, fxChainID, packer.Bytes)
	if err != nil {
		return nil, err
	}
	sig, err := signer.signer.Sign(msg)
	if err != nil {
		return nil, err
	}
	idx, ok := cs.index[signer.nodeID]
	if !ok {
		return nil, errors.New("certificate signer is not a validator")
	}
	bs := &warp.BitSetSignature{Signers: set.NewBits(idx).Bytes()}
	copy(bs.Signature[:], sig)
	return &dsmr.ChunkCertificate{ChunkReference: ref, Signature: bs}, nil
}

// ---- chain index for the real TimeValidityWindow ------------------------------------------

type fxItem = *dsmr.EmapChunkCertificate

type fxChainIndex struct {
	blocks map[ids.ID]validitywindow.ExecutionBlock[fxItem]
	// lookups counts GetExecutionBlock calls since the harness last reset it; with
	// maxLookups > 0 a walk that needs more lookups than that is cut off (error) and
	// flagged: with a few dozen blocks in the index it can only be a cycle.
	lookups    int
	maxLookups int
	cycled     bool
}

func newFxChainIndex() *fxChainIndex {
	return &fxChainIndex{blocks: map[ids.ID]validitywindow.ExecutionBlock[fxItem]{}}
}

func (ci *fxChainIndex) add(b dsmr.Block) { ci.blocks[b.GetID()] = dsmr.NewValidityWindowBlock(b) }

func (ci *fxChainIndex) GetExecutionBlock(_ context.Context, id ids.ID) (validitywindow.ExecutionBlock[fxItem], error) {
	ci.lookups++
	if ci.maxLookups > 0 && ci.lookups > ci.maxLookups {
		ci.cycled = true
		return nil, errFxIndexCycle
	}
	if b, ok := ci.blocks[id]; ok {
		return b, nil
	}
	return nil, database.ErrNotFound
}

var errFxIndexCycle = errors.New("harness chain index: lookup budget of one call exhausted (cyclic ancestry)")

// ---- owned p2p transport ------------------------------------------------------------------
//
// Same wiring as avalanchego's p2ptest.NewClientWithPeers (one real p2p.Network per
// node, requests and responses routed between them on fresh goroutines), but the
// harness owns the senders so that it can (a) observe every request, (b) cap the
// number of requests (bounded liveness without a wall clock), and (c) turn a panic
// inside the client's response callback into recorded evidence instead of a dead
// test binary.

type fxSender struct {
	request  func(ctx context.Context, to ids.NodeID, requestID uint32, b []byte) error
	response func(ctx context.Context, to ids.NodeID, requestID uint32, b []byte) error
	apperr   func(ctx context.Context, to ids.NodeID, requestID uint32, code int32, msg string) error
}

func (s *fxSender) SendAppRequest(ctx context.Context, nodeIDs set.Set[ids.NodeID], requestID uint32, b []byte) error {
	for n := range nodeIDs {
		if s.request == nil {
			return errors.New("fxSender: requests not wired")
		}
		if err := s.request(ctx, n, requestID, b); err != nil {
			return err
		}
	}
	return nil
}

func (s *fxSender) SendAppResponse(ctx context.Context, n ids.NodeID, requestID uint32, b []byte) error {
	if s.response == nil {
		return errors.New("fxSender: responses not wired")
	}
	return s.response(ctx, n, requestID, b)
}

func (s *fxSender) SendAppError(ctx context.Context, n ids.NodeID, requestID uint32, code int32, msg string) error {
	if s.apperr == nil {
		return errors.New("fxSender: errors not wired")
	}
	return s.apperr(ctx, n, requestID, code, msg)
}

func (*fxSender) SendAppGossip(context.Context, common.SendConfig, []byte) error { return nil }

type fxNet struct {
	mu       sync.Mutex
	panics   []string
	requests int
	maxReq   int
	capHit   bool
	wg       sync.WaitGroup
}

func (n *fxNet) notePanic(where string, r any) {
	n.mu.Lock()
	n.panics = append(n.panics, fmt.Sprintf("%s: %v", where, r))
	n.mu.Unlock()
}

func (n *fxNet) panicked() []string {
	n.mu.Lock()
	defer n.mu.Unlock()
	return append([]string(nil), n.panics...)
}

// newFxClient returns a real p2p.Client (handler id 0) of node `self` whose requests
// are delivered to the p2p.Handler registered for the addressed peer. onPanic is
// invoked (after recording) when the client's response callback panics, so that the
// caller blocked on that callback can be released.
func newFxClient(net *fxNet, self ids.NodeID, peers map[ids.NodeID]p2p.Handler, onPanic func()) (*p2p.Client, error) {
	clientSender := &fxSender{}
	clientNet, err := p2p.NewNetwork(logging.NoLog{}, clientSender, prometheus.NewRegistry(), "")
	if err != nil {
		return nil, err
	}
	ctx := context.Background()
	deliver := func(where string, f func() error) {
		defer net.wg.Done()
		defer func() {
			if r := recover(); r != nil {
				net.notePanic(where, r)
				if onPanic != nil {
					onPanic()
				}
			}
		}()
		_ = f()
	}
	peerNets := map[ids.NodeID]*p2p.Network{}
	for nodeID, h := range peers {
		nodeID := nodeID
		ps := &fxSender{
			response: func(ctx context.Context, _ ids.NodeID, requestID uint32, b []byte) error {
				return clientNet.AppResponse(ctx, nodeID, requestID, b)
			},
			apperr: func(ctx context.Context, _ ids.NodeID, requestID uint32, code int32, msg string) error {
				return clientNet.AppRequestFailed(ctx, nodeID, requestID, &common.AppError{Code: code, Message: msg})
			},
		}
		pn, err := p2p.NewNetwork(logging.NoLog{}, ps, prometheus.NewRegistry(), "")
		if err != nil {
			return nil, err
		}
		if err := errors.Join(
			pn.Connected(ctx, self, nil),
			pn.Connected(ctx, nodeID, nil),
			pn.AddHandler(0, h),
			clientNet.Connected(ctx, nodeID, nil),
		); err != nil {
			return nil, err
		}
		peerNets[nodeID] = pn
	}
	clientSender.request = func(ctx context.Context, to ids.NodeID, requestID uint32, b []byte) error {
		pn, ok := peerNets[to]
		if !ok {
			return fmt.Errorf("%s is not connected", to)
		}
		net.mu.Lock()
		net.requests++
		over := net.maxReq > 0 && net.requests > net.maxReq
		if over {
			net.capHit = true
		}
		net.mu.Unlock()
		if over {
			return errFxRequestCap
		}
		// asynchronously, as a real network would: the client holds its router
		// lock while sending.
		net.wg.Add(1)
		go deliver("response to "+self.String(), func() error {
			return pn.AppRequest(ctx, self, requestID, fxNoDeadline, b)
		})
		return nil
	}
	return clientNet.NewClient(0), nil
}

var (
	errFxRequestCap = errors.New("harness request cap reached")
	fxNoDeadline    = time.Time{}
)

func idOfBytes(b []byte) ids.ID { return utils.ToID(b) }

// fxTraceCase writes the case about to run to $VERIF_TRACE_CASE (if set), so that a
// case on which the code under test never returns can be identified afterwards.
func fxTraceCase(c any) {
	if p := os.Getenv("VERIF_TRACE_CASE"); p != "" {
		if b, err := json.Marshal(c); err == nil {
			_ = os.WriteFile(p, b, 0o644)
		}
	}
}
