package dsmr2

import (
	"context"
	"encoding/json"
	"errors"
	"fmt"
	"math"
	"sort"
	"strings"
	"sync"
	"testing"

	"github.com/ava-labs/avalanchego/database/memdb"
	"github.com/ava-labs/avalanchego/ids"
	"github.com/ava-labs/avalanchego/network/p2p"
	"github.com/ava-labs/avalanchego/trace"
	"github.com/ava-labs/avalanchego/utils/logging"
	"pgregory.net/rapid"

	"github.com/ava-labs/hypersdk/internal/validitywindow"
	"github.com/ava-labs/hypersdk/verifharness/vstat"
	"github.com/ava-labs/hypersdk/x/dsmr"
)

// C37: DSMR block verification rejects a block that references the same chunk
// twice, a chunk already referenced by an ancestor, or a chunk whose expiry is
// before the block timestamp; the DSMR builder never produces such a block; hence
// no chunk is delivered twice on an accepted chain.
//
// One case = one dsmr.Node over a real validitywindow.TimeValidityWindow (harness
// chain index), a real ChunkStorage, and a single validator whose BLS key the
// harness holds: every certificate carries a real single-signer warp signature, so
// signature validity is constant and Verify's verdict can only depend on what the
// property talks about. An op list grows a tree of blocks:
//   verify  build a block (H2 constructor: id/bytes exactly as BuildBlock derives
//           them) on a live parent (the last accepted block or a verified
//           descendant of it) with generated timestamp and certificates - fresh,
//           re-used from an ancestor, duplicated inside the block - and call
//           Node.Verify; a block that verifies joins the tree and the chain index
//   accept  Node.Accept on a verified child of the last accepted block
//   store   put pool chunks with their certificates into the node's storage
//   build   Node.BuildBlock on a live parent, then Node.Verify on the result
// Oracle (reference model: the tree with, per block, the set of pool indices it
// references; ancestors are walked to genesis without any window):
//   must reject  <=> a certificate id occurs twice in the block, or occurs in any
//                    ancestor, or has expiry < block timestamp
//   must accept  <=> none of these and every expiry <= timestamp + validity window
//   (a block whose only peculiarity is an expiry beyond timestamp + window is
//    unconstrained by the property; the model follows the implementation)
//   BuildBlock's output never meets a "must reject" condition
//   executed chunk ids over all accepted blocks are pairwise distinct

type c37Ref struct {
	Anc   bool `json:"anc,omitempty"`   // I-th certificate (mod) among those referenced by the parent's ancestors-or-self
	Fresh bool `json:"fresh,omitempty"` // I-th pool certificate (mod) that is includable here: not in an ancestor, not yet in this block, expiry in [timestamp, timestamp+window]
	I     int  `json:"i"`               // neither: pool index (mod)
}

type c37Op struct {
	Kind   string   `json:"k"`            // verify | accept | store | build
	Parent int      `json:"p,omitempty"`  // verify/build: distance from the newest live block (mod number of live blocks)
	Delta  int64    `json:"d,omitempty"`  // timestamp = parent timestamp + Delta ...
	AtExp  int      `json:"at,omitempty"` // ... unless AtExp>0 and the expiry of pool cert AtExp-1 is a legal timestamp: then exactly that expiry
	Certs  []c37Ref `json:"c,omitempty"`
	CopyOf int      `json:"copy,omitempty"` // verify: if >0, take the exact certificate list of the (CopyOf-1)-th block (mod) ever inserted, whatever its fork
	Store  []int    `json:"s,omitempty"`
	Which  int      `json:"w,omitempty"` // accept: which verified child of the last accepted block
}

type c37Case struct {
	Window int64   `json:"window"`
	Base   int64   `json:"base"` // genesis timestamp
	Pool   []int64 `json:"pool"` // absolute expiries of the certificate pool
	Ops    []c37Op `json:"ops"`
}

// c37FindingBlockID: Block embeds BlockHeader without a `serialize` tag, so block
// bytes and id cover only the certificate list.
const c37FindingBlockID = "dsmr-block-id-omits-header"

const (
	c37MaxDelta     = 64 // far below x/dsmr's maxTimeSkew (30e9)
	c37MaxAtExpJump = 10
)

func c37Gen(rt *rapid.T) c37Case {
	c := c37Case{
		Window: rapid.SampledFrom([]int64{3, 5, 10, 10, 20, 40}).Draw(rt, "window"),
		Base:   rapid.SampledFrom([]int64{0, 0, 0, 1_700_000_000_000}).Draw(rt, "base"),
	}
	k := rapid.IntRange(4, 10).Draw(rt, "k")
	for i := 0; i < k; i++ {
		var e int64
		switch rapid.IntRange(0, 19).Draw(rt, "expclass") {
		case 0:
			e = rapid.SampledFrom([]int64{0, -1, math.MaxInt64}).Draw(rt, "special")
		case 1:
			e = c.Base + rapid.SampledFrom([]int64{200, 1000}).Draw(rt, "far")
		case 2, 3, 4, 5, 6, 7:
			e = c.Base + rapid.Int64Range(1, 12).Draw(rt, "expsoon")
		default:
			e = c.Base + rapid.Int64Range(1, 40).Draw(rt, "exp")
		}
		c.Pool = append(c.Pool, e)
	}
	nOps := rapid.IntRange(4, 30).Draw(rt, "nops")
	for i := 0; i < nOps; i++ {
		op := c37Op{}
		switch x := rapid.IntRange(0, 19).Draw(rt, "opclass"); {
		case x < 9:
			op.Kind = "verify"
		case x < 15:
			op.Kind = "accept"
		case x < 17:
			op.Kind = "store"
		default:
			op.Kind = "build"
		}
		switch op.Kind {
		case "verify", "build":
			op.Parent = rapid.SampledFrom([]int{0, 0, 0, 0, 0, 0, 1, 2, 3}).Draw(rt, "parent")
			op.Delta = rapid.SampledFrom([]int64{1, 1, 1, 1, 2, 2, 3, 5, 8, 13, c.Window, c.Window + 1}).Draw(rt, "delta")
			if rapid.IntRange(0, 4).Draw(rt, "atexp?") == 0 {
				op.AtExp = rapid.IntRange(1, k).Draw(rt, "atexp")
			}
			if op.Kind == "verify" && rapid.IntRange(0, 7).Draw(rt, "copy?") == 0 {
				op.CopyOf = rapid.IntRange(1, 12).Draw(rt, "copyof")
			}
			if op.Kind == "verify" {
				n := rapid.SampledFrom([]int{1, 1, 2, 2, 3, 4}).Draw(rt, "ncerts")
				for j := 0; j < n; j++ {
					switch y := rapid.IntRange(0, 19).Draw(rt, "refclass"); {
					case y == 0 && j > 0:
						op.Certs = append(op.Certs, op.Certs[j-1]) // duplicate inside the block
					case y <= 5:
						op.Certs = append(op.Certs, c37Ref{Anc: true, I: rapid.IntRange(0, 15).Draw(rt, "anc")})
					case y <= 8:
						op.Certs = append(op.Certs, c37Ref{I: rapid.IntRange(0, k-1).Draw(rt, "pool")})
					default:
						op.Certs = append(op.Certs, c37Ref{Fresh: true, I: rapid.IntRange(0, k-1).Draw(rt, "fresh")})
					}
				}
			}
		case "store":
			op.Store = rapid.SliceOfN(rapid.IntRange(0, k-1), 2, 5).Draw(rt, "store")
		case "accept":
			op.Which = rapid.IntRange(0, 3).Draw(rt, "which")
		}
		c.Ops = append(c.Ops, op)
	}
	return c
}

// ---- memoised pool material (deterministic: fixed key, deterministic BLS) -----------

type c37PoolItem struct {
	chunk *fxChunk
	cert  *dsmr.ChunkCertificate
}

var (
	c37CS    = newFxChainState([]*fxValidator{fxKey(0)}, 1, 1)
	c37Memo  = map[[2]int64]*c37PoolItem{}
	c37MemoM sync.Mutex
)

func c37Item(expiry int64, seed int) (*c37PoolItem, error) {
	key := [2]int64{expiry, int64(seed)}
	c37MemoM.Lock()
	defer c37MemoM.Unlock()
	if it, ok := c37Memo[key]; ok {
		return it, nil
	}
	v := fxKey(0)
	ch, err := fxSignChunk(v, v.nodeID, expiry, uint64(3000+seed), 1)
	if err != nil {
		return nil, err
	}
	cert, err := fxCert(c37CS, v, dsmr.ChunkReference{ChunkID: ch.id, Producer: v.nodeID, Expiry: expiry})
	if err != nil {
		return nil, err
	}
	it := &c37PoolItem{chunk: ch, cert: cert}
	if len(c37Memo) < 20000 {
		c37Memo[key] = it
	}
	return it, nil
}

// ---- reference model ---------------------------------------------------------------------

type c37Blk struct {
	blk      dsmr.Block
	parent   *c37Blk
	certs    []int // pool indices
	accepted bool
}

type c37World struct {
	c       c37Case
	pool    []*c37PoolItem
	byID    map[ids.ID]int
	node    *dsmr.Node[tx]
	storage *dsmr.ChunkStorage[tx]
	index   *fxChainIndex
	last    *c37Blk
	live    []*c37Blk // last accepted block and its verified descendants, oldest first
	all     []*c37Blk // every block that ever verified, in insertion order (genesis excluded)
	pending map[int]bool
	exec    map[ids.ID]uint64 // executed chunk id -> height
	headers map[ids.ID]dsmr.BlockHeader
	// set once two different blocks with one id are in the chain index
	collision string
	st        *vstat.Stats
	labels    map[string]bool
	nt        bool
}

func (w *c37World) label(l string) { w.labels[l] = true }

// ancestors returns pool index -> nearest block (walking up from b, inclusive) that references it.
func (w *c37World) ancestors(b *c37Blk) map[int]*c37Blk {
	m := map[int]*c37Blk{}
	for x := b; x != nil; x = x.parent {
		for _, i := range x.certs {
			if _, ok := m[i]; !ok {
				m[i] = x // nearest inclusion
			}
		}
	}
	return m
}

func (w *c37World) ancestorList(b *c37Blk) []int {
	var l []int
	for x := b; x != nil; x = x.parent {
		l = append(l, x.certs...)
	}
	return l
}

func (w *c37World) timestamp(parent *c37Blk, op c37Op) int64 {
	if op.AtExp > 0 {
		e := w.c.Pool[(op.AtExp-1)%len(w.c.Pool)]
		if e > parent.blk.Timestamp && e-parent.blk.Timestamp <= c37MaxAtExpJump {
			return e
		}
	}
	d := op.Delta
	if d < 1 {
		d = 1
	}
	if d > c37MaxDelta {
		d = c37MaxDelta
	}
	return parent.blk.Timestamp + d
}

type c37Verdict struct {
	internalDup, ancDup, expired, future bool
	why                                  []string
}

func (v c37Verdict) mustReject() bool { return v.internalDup || v.ancDup || v.expired }

// judge is the oracle for a block with the given parent, timestamp and pool indices.
func (w *c37World) judge(parent *c37Blk, ts int64, certs []int, withLabels bool) c37Verdict {
	var v c37Verdict
	anc := w.ancestors(parent)
	seen := map[int]bool{}
	for _, i := range certs {
		e := w.c.Pool[i]
		if seen[i] {
			v.internalDup = true
			v.why = append(v.why, fmt.Sprintf("cert %d twice in the block", i))
		}
		seen[i] = true
		if first, ok := anc[i]; ok {
			v.ancDup = true
			v.why = append(v.why, fmt.Sprintf("cert %d (expiry %d) already referenced at height %d (timestamp %d, accepted=%v)", i, e, first.blk.Height, first.blk.Timestamp, first.accepted))
			if withLabels {
				switch {
				case !first.accepted:
					w.label("repeat-of-unaccepted-ancestor")
				case e >= w.last.blk.Timestamp:
					w.label("repeat-of-accepted-ancestor-still-tracked")
				default:
					// expiry < last accepted timestamp: SetMin evicted it from the accepted set
					w.label("repeat-of-accepted-ancestor-after-eviction")
					w.nt = true
				}
				if e >= ts {
					w.label("repeat-not-expired")
				}
			}
		}
		switch {
		case e < ts:
			v.expired = true
			v.why = append(v.why, fmt.Sprintf("cert %d expiry %d < block timestamp %d", i, e, ts))
			if withLabels {
				if _, ok := anc[i]; !ok {
					w.label("expired-never-included")
				}
				if e == ts-1 {
					w.label("expiry==timestamp-1")
				}
			}
		case e == ts:
			if withLabels {
				w.label("expiry==timestamp")
			}
		case e > ts+w.c.Window:
			v.future = true
			if withLabels {
				w.label("expiry>timestamp+window")
			}
		case e == ts+w.c.Window:
			if withLabels {
				w.label("expiry==timestamp+window")
			}
		}
	}
	return v
}

func (w *c37World) liveParent(k int) *c37Blk {
	return w.live[len(w.live)-1-(k%len(w.live))]
}

// tryBlock runs Node.Verify on (parent, blk) against the oracle and, if it
// verifies, adds it to the tree.
func (w *c37World) tryBlock(ctx context.Context, parent *c37Blk, blk dsmr.Block, certs []int, origin string) error {
	v := w.judge(parent, blk.Timestamp, certs, true)
	if parent != w.live[len(w.live)-1] {
		w.label("fork")
	}
	w.index.lookups = 0
	err := w.node.Verify(ctx, parent.blk, blk)
	if w.index.cycled {
		return fmt.Errorf("Verify's ancestor walk does not terminate: more than %d chain-index lookups in one call with %d blocks in the index", w.index.maxLookups, len(w.index.blocks))
	}
	desc := fmt.Sprintf("%s block height %d timestamp %d parent-timestamp %d certs %v (expiries %v), window %d, last accepted height %d timestamp %d",
		origin, blk.Height, blk.Timestamp, parent.blk.Timestamp, certs, w.expiries(certs), w.c.Window, w.last.blk.Height, w.last.blk.Timestamp)
	switch {
	case v.mustReject() && err == nil:
		return fmt.Errorf("Verify accepted a block it must reject: %s; %s", strings.Join(v.why, "; "), desc)
	case !v.mustReject() && !v.future && err != nil:
		return fmt.Errorf("Verify rejected a block with no repeated, no already-included and no expired certificate (all expiries within [timestamp, timestamp+window]): %v; %s", err, desc)
	}
	if err != nil {
		w.label("verify-rejects")
		if v.mustReject() && !errors.Is(err, validitywindow.ErrDuplicateContainer) {
			w.label("rejected-by-expiry-check")
		}
		return nil
	}
	w.label("verify-accepts")
	if v.future {
		w.label("future-expiry-admitted-by-implementation")
	}
	// A chain index is keyed by block id, so ids must identify blocks. x/dsmr derives
	// the id from the marshalled Block, whose embedded BlockHeader carries no
	// `serialize` tag: blocks with equal certificate lists share an id whatever their
	// parent, height and timestamp (finding c37FindingBlockID). Verify does not look
	// at the id of the block it is given, so the verdict above is unaffected. What
	// happens next follows the known-finding protocol: while the finding is listed as
	// known, exactly the insertion of a second, different block under a taken id is
	// excluded; otherwise the block goes into the index the way any id-keyed index
	// would take it (the entry is replaced) and the run continues against the model's
	// true ancestry - a swapped ancestry then shows up as a wrong Verify verdict or as
	// an ancestor walk that never ends (cut off by the index's lookup budget).
	if prev, ok := w.headers[blk.GetID()]; ok {
		if prev == blk.BlockHeader {
			w.st.Skip("identical-block-again")
			return nil
		}
		if w.st.Known(c37FindingBlockID) {
			w.st.Exclude(c37FindingBlockID)
			w.label("excluded-insertion-block-id-collision")
			return nil
		}
		w.label("block-id-collision-inserted")
		w.collision = fmt.Sprintf("blocks (height %d, timestamp %d) and (height %d, timestamp %d) have different parents/heights/timestamps but the same id %s", prev.Height, prev.Timestamp, blk.Height, blk.Timestamp, blk.GetID())
	}
	nb := &c37Blk{blk: blk, parent: parent, certs: certs}
	w.live = append(w.live, nb)
	w.all = append(w.all, nb)
	w.index.add(blk)
	w.headers[blk.GetID()] = blk.BlockHeader
	return nil
}

func (w *c37World) expiries(certs []int) []int64 {
	out := make([]int64, len(certs))
	for i, c := range certs {
		out[i] = w.c.Pool[c]
	}
	return out
}

func c37Run(c c37Case, st *vstat.Stats) error {
	ctx := context.Background()
	w := &c37World{c: c, byID: map[ids.ID]int{}, pending: map[int]bool{}, exec: map[ids.ID]uint64{}, headers: map[ids.ID]dsmr.BlockHeader{}, st: st, labels: map[string]bool{}}
	for i, e := range c.Pool {
		it, err := c37Item(e, i)
		if err != nil {
			return fmt.Errorf("harness: %w", err)
		}
		w.pool = append(w.pool, it)
		w.byID[it.chunk.id] = i
	}
	v := fxKey(0)
	rules := fxRules{window: c.Window}
	storage, err := dsmr.NewChunkStorage[tx](dsmr.NewChunkVerifier[tx](c37CS, rules), memdb.New(), rules)
	if err != nil {
		return fmt.Errorf("harness: %w", err)
	}
	w.storage = storage
	genesis, err := dsmr.NewVerifBlock(dsmr.BlockHeader{ParentID: ids.Empty, Height: 0, Timestamp: c.Base}, nil)
	if err != nil {
		return fmt.Errorf("harness: %w", err)
	}
	w.index = newFxChainIndex()
	w.index.maxLookups = 10000
	w.index.add(genesis)
	w.headers[genesis.GetID()] = genesis.BlockHeader
	tvw, err := validitywindow.NewTimeValidityWindow[fxItem](ctx, logging.NoLog{}, trace.Noop, w.index, dsmr.NewValidityWindowBlock(genesis), func(int64) int64 { return c.Window })
	if err != nil {
		return fmt.Errorf("harness: %w", err)
	}
	client, err := newFxClient(&fxNet{maxReq: 1}, v.nodeID, map[ids.NodeID]p2p.Handler{v.nodeID: p2p.NoOpHandler{}}, nil)
	if err != nil {
		return fmt.Errorf("harness: %w", err)
	}
	w.node, err = dsmr.New[tx](logging.NoLog{}, v.nodeID, c37CS, v.pk, v.signer, storage,
		p2p.NoOpHandler{}, p2p.NoOpHandler{}, p2p.NoOpHandler{}, client, client, client, genesis, tvw, rules)
	if err != nil {
		return fmt.Errorf("harness: %w", err)
	}
	w.last = &c37Blk{blk: genesis, accepted: true}
	w.live = []*c37Blk{w.last}

	runErr := w.interpret(ctx)
	if runErr != nil && w.collision != "" {
		runErr = fmt.Errorf("%w [root cause candidate: dsmr block ids omit the header - %s]", runErr, w.collision)
	}

	labels := make([]string, 0, len(w.labels))
	for l := range w.labels {
		labels = append(labels, l)
	}
	sort.Strings(labels)
	canon, _ := json.Marshal(c)
	st.Case(w.nt, string(canon), labels...)
	st.Sample(w.nt, c37Render(c))
	return runErr
}

func (w *c37World) interpret(ctx context.Context) error {
	c := w.c
	for n, op := range c.Ops {
		switch op.Kind {
		case "verify":
			parent := w.liveParent(op.Parent)
			ts := w.timestamp(parent, op)
			ancList := w.ancestorList(parent)
			anc := w.ancestors(parent)
			var certs []int
			for _, r := range op.Certs {
				switch {
				case r.Anc && len(ancList) > 0:
					certs = append(certs, ancList[r.I%len(ancList)])
				case r.Anc:
					w.st.Skip("ancestor-ref-without-ancestor-certs")
					certs = append(certs, r.I%len(c.Pool))
				case r.Fresh:
					var ok []int
					for p, e := range c.Pool {
						_, inc := anc[p]
						if !inc && e >= ts && e-ts <= c.Window && !c37Has(certs, p) {
							ok = append(ok, p)
						}
					}
					if len(ok) == 0 {
						w.st.Skip("fresh-ref-without-includable-cert")
						certs = append(certs, r.I%len(c.Pool))
					} else {
						certs = append(certs, ok[r.I%len(ok)])
					}
				default:
					certs = append(certs, r.I%len(c.Pool))
				}
			}
			if op.CopyOf > 0 {
				if len(w.all) == 0 {
					w.st.Skip("copy-without-blocks")
				} else {
					certs = append([]int(nil), w.all[(op.CopyOf-1)%len(w.all)].certs...)
					w.label("certificate-list-copied-from-another-block")
				}
			}
			cc := make([]*dsmr.ChunkCertificate, len(certs))
			for i, p := range certs {
				cc[i] = w.pool[p].cert
			}
			blk, err := dsmr.NewVerifBlock(dsmr.BlockHeader{ParentID: parent.blk.GetID(), Height: parent.blk.Height + 1, Timestamp: ts}, cc)
			if err != nil {
				return fmt.Errorf("harness: %w", err)
			}
			if err := w.tryBlock(ctx, parent, blk, certs, fmt.Sprintf("op %d: crafted", n)); err != nil {
				return err
			}

		case "store":
			for _, p := range op.Store {
				p %= len(c.Pool)
				if err := w.storage.AddLocalChunkWithCert(w.pool[p].chunk.chunk, w.pool[p].cert); err != nil {
					return fmt.Errorf("harness: AddLocalChunkWithCert: %w", err)
				}
				w.pending[p] = true
			}

		case "build":
			parent := w.liveParent(op.Parent)
			ts := w.timestamp(parent, op)
			anc := w.ancestors(parent)
			hadExpired, hadIncluded, hadGood := false, false, false
			for p := range w.pending {
				_, inc := anc[p]
				switch {
				case inc:
					hadIncluded = true
				case c.Pool[p] < ts:
					hadExpired = true
				default:
					hadGood = true
				}
				if c.Pool[p] < ts && c.Pool[p] >= parent.blk.Timestamp {
					w.label("build-storage-has-cert-expiring-between-parent-and-block")
				}
			}
			if hadExpired {
				w.label("build-storage-has-expired")
			}
			if hadIncluded {
				w.label("build-storage-has-already-included")
			}
			w.index.lookups = 0
			blk, err := w.node.BuildBlock(ctx, parent.blk, ts)
			if w.index.cycled {
				return fmt.Errorf("op %d: BuildBlock's ancestor walk does not terminate: more than %d chain-index lookups in one call with %d blocks in the index", n, w.index.maxLookups, len(w.index.blocks))
			}
			if err != nil {
				if errors.Is(err, dsmr.ErrNoAvailableChunkCerts) {
					w.label("build-nothing-available")
					continue
				}
				return fmt.Errorf("op %d: BuildBlock failed unexpectedly: %w", n, err)
			}
			w.label("build-produces-block")
			if hadGood && (hadExpired || hadIncluded) {
				w.label("build-filters-some-keeps-some")
			}
			certs := make([]int, len(blk.ChunkCerts))
			for i, cert := range blk.ChunkCerts {
				p, ok := w.byID[cert.ChunkID]
				if !ok {
					return fmt.Errorf("op %d: BuildBlock output references chunk %s that was never stored", n, cert.ChunkID)
				}
				certs[i] = p
			}
			if blk.ParentID != parent.blk.GetID() || blk.Height != parent.blk.Height+1 || blk.Timestamp != ts {
				return fmt.Errorf("op %d: BuildBlock header does not extend the given parent at the given timestamp", n)
			}
			if v := w.judge(parent, ts, certs, false); v.mustReject() {
				return fmt.Errorf("op %d: BuildBlock produced a block at timestamp %d on parent height %d (timestamp %d) with certs %v (expiries %v): %s", n, ts, parent.blk.Height, parent.blk.Timestamp, certs, w.expiries(certs), strings.Join(v.why, "; "))
			}
			if err := w.tryBlock(ctx, parent, blk, certs, fmt.Sprintf("op %d: built", n)); err != nil {
				return err
			}

		case "accept":
			var kids []*c37Blk
			for _, b := range w.live {
				if b.parent == w.last {
					kids = append(kids, b)
				}
			}
			if len(kids) == 0 {
				w.st.Skip("accept-without-verified-child")
				continue
			}
			b := kids[op.Which%len(kids)]
			// a node accepts a block once it holds its chunks (fetching is C35's subject)
			for _, p := range b.certs {
				if err := w.storage.AddLocalChunkWithCert(w.pool[p].chunk.chunk, w.pool[p].cert); err != nil {
					return fmt.Errorf("harness: AddLocalChunkWithCert: %w", err)
				}
			}
			eb, err := w.node.Accept(ctx, b.blk)
			if err != nil {
				return fmt.Errorf("op %d: Accept of a verified child of the last accepted block whose chunks are all local failed: %w", n, err)
			}
			for _, ch := range eb.Chunks {
				raw, err := fxMarshalChunk(ch)
				if err != nil {
					return fmt.Errorf("op %d: executed chunk does not marshal: %w", n, err)
				}
				id := idOfBytes(raw)
				if h, dup := w.exec[id]; dup {
					return fmt.Errorf("op %d: chunk %s delivered twice on the accepted chain (heights %d and %d)", n, id, h, b.blk.Height)
				}
				w.exec[id] = b.blk.Height
			}
			b.accepted = true
			w.last = b
			w.label("accept")
			// live := b and its descendants
			keep := map[*c37Blk]bool{b: true}
			var nl []*c37Blk
			for _, x := range w.live {
				if x == b || (x.parent != nil && keep[x.parent]) {
					keep[x] = true
					nl = append(nl, x)
				}
			}
			if len(nl) < len(w.live)-1 {
				w.label("accept-orphans-siblings")
			}
			w.live = nl
			for _, p := range b.certs {
				delete(w.pending, p)
			}
			for p := range w.pending {
				if c.Pool[p] < b.blk.Timestamp {
					delete(w.pending, p)
				}
			}
		}
	}
	if len(w.exec) > 0 && w.last.blk.Height >= 2 {
		w.label("accepted-chain>=2")
	}
	return nil
}

func c37Has(l []int, x int) bool {
	for _, y := range l {
		if x == y {
			return true
		}
	}
	return false
}

func c37Render(c c37Case) map[string]any {
	ops := make([]string, len(c.Ops))
	for i, o := range c.Ops {
		switch o.Kind {
		case "verify":
			var cs []string
			for _, r := range o.Certs {
				if r.Anc {
					cs = append(cs, fmt.Sprintf("anc%d", r.I))
				} else if r.Fresh {
					cs = append(cs, fmt.Sprintf("fresh%d", r.I))
				} else {
					cs = append(cs, fmt.Sprint(r.I))
				}
			}
			if o.CopyOf > 0 {
				cs = []string{fmt.Sprintf("copy-of-block%d", o.CopyOf-1)}
			}
			ops[i] = fmt.Sprintf("verify(p-%d,+%d,at%d,[%s])", o.Parent, o.Delta, o.AtExp, strings.Join(cs, ","))
		case "build":
			ops[i] = fmt.Sprintf("build(p-%d,+%d,at%d)", o.Parent, o.Delta, o.AtExp)
		case "store":
			ops[i] = fmt.Sprintf("store%v", o.Store)
		default:
			ops[i] = fmt.Sprintf("accept(%d)", o.Which)
		}
	}
	return map[string]any{"window": c.Window, "base": c.Base, "pool_expiries": c.Pool, "ops": strings.Join(ops, " ")}
}

const c37Rule = "op lists (4..30 of verify / accept / store / build) growing a tree of DSMR blocks on one dsmr.Node with a real TimeValidityWindow, real ChunkStorage and one validator whose key the harness holds (every certificate really signed); pool of 4..10 certificates with expiries around the block timestamps (plus 0, -1, far future, MaxInt64), re-used from ancestors, duplicated inside a block, timestamps placed exactly on expiries, forks, windows 3..40; oracle = ancestor walk to genesis without window: Verify must reject iff repeat in block / repeat of any ancestor / expiry < timestamp, must accept otherwise when all expiries <= timestamp+window; BuildBlock output never in the reject class; executed chunk ids distinct over the accepted chain; non-trivial = a block re-using a certificate of an ACCEPTED ancestor after an accepted block's timestamp passed that certificate's expiry (evicted from the accepted set); distinct by the whole case"

func TestC37(t *testing.T) {
	st := vstat.New(t, "C37", c37Rule)
	st.Assumption("Verify is called, as by consensus, only on blocks whose parent is the last accepted block or a verified descendant of it; parent id, height, timestamp skew and signatures are always valid so that only the property's conditions decide")
	st.Assumption("a chunk id determines its expiry (the id is the hash of the chunk, which contains the expiry)")
	st.Assumption("a block whose only irregularity is a certificate expiry beyond timestamp + validity window may be accepted or rejected (the property does not say); the model follows the implementation's verdict")
	st.Assumption("storage content is set through AddLocalChunkWithCert, standing for both the local path and the sign-then-gossip path, neither of which consults the accepted set")
	rapid.Check(t, func(rt *rapid.T) {
		c := c37Gen(rt)
		fxTraceCase(c)
		vstat.Run(rt, st, c, func() error { return c37Run(c, st) })
	})
}

func TestC37Replay(t *testing.T) {
	vstat.Replay(t, "C37", func(raw []byte) error {
		var c c37Case
		if err := json.Unmarshal(raw, &c); err != nil {
			return err
		}
		return c37Run(c, vstat.New(nil, "C37", ""))
	})
}
