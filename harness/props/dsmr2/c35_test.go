package dsmr2

import (
	"bytes"
	"context"
	"encoding/json"
	"errors"
	"fmt"
	"sort"
	"strings"
	"sync"
	"testing"
	"time"

	"github.com/ava-labs/avalanchego/database/memdb"
	"github.com/ava-labs/avalanchego/ids"
	"github.com/ava-labs/avalanchego/network/p2p"
	"github.com/ava-labs/avalanchego/snow/engine/common"
	"github.com/ava-labs/avalanchego/trace"
	"github.com/ava-labs/avalanchego/utils/logging"
	"google.golang.org/protobuf/proto"
	"pgregory.net/rapid"

	"github.com/ava-labs/hypersdk/internal/validitywindow"
	pb "github.com/ava-labs/hypersdk/proto/pb/dsmr"
	"github.com/ava-labs/hypersdk/verifharness/vstat"
	"github.com/ava-labs/hypersdk/x/dsmr"
)

// C35: accepting a DSMR block yields exactly the chunks its certificates
// reference, in certificate order, whether each chunk was stored locally or had
// to be fetched from a peer; acceptance succeeds once a peer serves a valid chunk.
//
// One case = one accepting dsmr.Node (real ChunkStorage over memdb, real
// ChunkVerifier, real TimeValidityWindow, real p2p client) + 1..3 scripted peers.
// The block references 1..5 chunks; a generated subset is local (added with its
// certificate, or stored because the node signed it for its producer), every other
// chunk is held only by peers. For every (peer, chunk) the case lists the bad
// answers that peer gives to its first requests for that chunk (not available,
// other app error, undecodable bytes, truncated chunk, bad producer signature,
// producer not a validator, chunk outside the expiry window, a DIFFERENT valid
// chunk) and whether it afterwards serves the true chunk (through the real
// dsmr.GetChunkHandler over the peer's own real ChunkStorage) or keeps answering
// "not available". By construction at least one peer eventually serves each remote
// chunk. Node.Accept picks the peer with math/rand; the oracle does not depend on
// which peer is asked or how often:
//   - Accept returns nil,
//   - ExecutedBlock.Chunks, re-marshalled, equal the true chunks' bytes position by
//     position (hence ids equal the certificate ids in order, no duplicates),
//   - ExecutedBlock header and ID are the block's,
//   - no chunk is requested again after a peer answered a request for it with the
//     true chunk ("succeeds once a peer serves a valid chunk"),
//   - no panic inside the response callback.
// Liveness is bounded by a request cap owned by the harness transport, not by the
// clock: with >= 1 serving validator out of <= 4 and <= 3 bad answers per peer and
// chunk, exceeding 4000 requests has probability < 1e-100; it is reported as
// INCONCLUSIVE, never as a violation - unless the trace itself proves a steady
// state (see livelock: 1000 consecutive requests for one chunk, every validator
// answering "not held" from its final, constant state), which is a violation.

const c35RequestCap = 4000

var c35BadKinds = []string{"unavailable", "apperr", "garbage", "emptychunk", "truncated", "badsig", "nonvalidator", "forged", "expired", "future", "wrong"}

type c35Resp struct {
	Kind string `json:"k"`
	Arg  int    `json:"a,omitempty"` // wrong: which other valid chunk (index into block chunks + extras, requested one skipped)
}

type c35Hold struct {
	Bad   []c35Resp `json:"bad,omitempty"`
	Serve bool      `json:"serve"`
}

type c35ChunkSpec struct {
	Producer int       `json:"p"`   // peer index; == NPeers means the accepting node itself (only if it is a validator and holds the chunk with its certificate)
	ExpOff   int64     `json:"e"`   // expiry = block timestamp + ExpOff, at most min + window
	NTx      int       `json:"n"`   // 1..3 transactions
	Local    string    `json:"loc"` // "no" | "cert" | "signed"
	Holds    []c35Hold `json:"h"`   // one per peer
}

type c35Case struct {
	NPeers     int            `json:"peers"`
	SelfVal    bool           `json:"self_validator"`
	Window     int64          `json:"window"`
	Min        int64          `json:"min"`    // timestamp of the node's last accepted block
	Height     uint64         `json:"height"` // height of the node's last accepted block
	Delta      int64          `json:"delta"`  // block timestamp = Min + Delta
	Chunks     []c35ChunkSpec `json:"chunks"`
	ExtraExp   []int64        `json:"extra"`  // expiry offsets of valid chunks that are NOT in the block (material for "wrong" answers)
	VerifyGate bool           `json:"verify"` // call Node.Verify before Accept, as consensus does
}

func c35Gen(rt *rapid.T) c35Case {
	c := c35Case{
		NPeers:     rapid.IntRange(1, 3).Draw(rt, "peers"),
		SelfVal:    rapid.Bool().Draw(rt, "selfval"),
		Window:     rapid.SampledFrom([]int64{5, 10, 20, 50}).Draw(rt, "window"),
		Min:        rapid.SampledFrom([]int64{0, 1, 7, 100, 1_700_000_000_000}).Draw(rt, "min"),
		Height:     rapid.SampledFrom([]uint64{0, 1, 9}).Draw(rt, "height"),
		VerifyGate: rapid.IntRange(0, 3).Draw(rt, "gate") != 0,
	}
	c.Delta = rapid.Int64Range(1, c.Window).Draw(rt, "delta")
	maxOff := c.Window - c.Delta
	nChunks := rapid.SampledFrom([]int{1, 1, 2, 2, 3, 3, 4, 5}).Draw(rt, "nchunks")
	nExtra := rapid.IntRange(1, 2).Draw(rt, "nextra")
	for i := 0; i < nExtra; i++ {
		c.ExtraExp = append(c.ExtraExp, rapid.Int64Range(0, maxOff).Draw(rt, "extraexp"))
	}
	badGen := rapid.Custom(func(rt *rapid.T) c35Resp {
		k := rapid.SampledFrom(c35BadKinds).Draw(rt, "kind")
		r := c35Resp{Kind: k}
		if k == "wrong" {
			r.Arg = rapid.IntRange(0, 7).Draw(rt, "arg")
		}
		return r
	})
	for i := 0; i < nChunks; i++ {
		cs := c35ChunkSpec{
			Producer: rapid.IntRange(0, c.NPeers).Draw(rt, "producer"),
			ExpOff:   rapid.Int64Range(0, maxOff).Draw(rt, "expoff"),
			NTx:      rapid.IntRange(1, 3).Draw(rt, "ntx"),
			Local:    rapid.SampledFrom([]string{"no", "no", "no", "cert", "signed"}).Draw(rt, "local"),
		}
		for p := 0; p < c.NPeers; p++ {
			h := c35Hold{Serve: rapid.Bool().Draw(rt, "serve")}
			nBad := rapid.SampledFrom([]int{0, 1, 1, 1, 2, 2, 3}).Draw(rt, "nbad")
			for b := 0; b < nBad; b++ {
				h.Bad = append(h.Bad, badGen.Draw(rt, "bad"))
			}
			cs.Holds = append(cs.Holds, h)
		}
		// by construction: somebody eventually serves every chunk the node lacks
		must := rapid.IntRange(0, c.NPeers-1).Draw(rt, "server")
		if cs.Local == "no" {
			cs.Holds[must].Serve = true
		}
		c.Chunks = append(c.Chunks, cs)
	}
	return c
}

// ---- execution --------------------------------------------------------------------------

type c35Event struct {
	peer  int // -1 = the accepting node's own handler
	chunk int // index into the block's chunks, -1 = unknown id
	kind  string
}

type c35World struct {
	mu        sync.Mutex
	c         c35Case
	cs        *fxChainState
	vals      []*fxValidator // peers..., then self if validator
	blockTs   int64
	truth     []*fxChunk // the block's chunks
	extras    []*fxChunk
	byID      map[ids.ID]int
	remaining [][][]c35Resp // [peer][chunk] bad answers not yet given
	served    []bool        // true chunk i was handed out by some peer
	events    []c35Event
	afterOK   []string // requests that arrived for a chunk after it had been validly served
}

type c35PeerHandler struct {
	w    *c35World
	peer int
	real p2p.Handler
}

func (*c35PeerHandler) AppGossip(context.Context, ids.NodeID, []byte) {}

func c35Wrap(chunkBytes []byte) []byte {
	b, err := proto.Marshal(&pb.GetChunkResponse{Chunk: chunkBytes})
	if err != nil {
		panic(err)
	}
	return b
}

func (h *c35PeerHandler) AppRequest(ctx context.Context, from ids.NodeID, deadline time.Time, req []byte) ([]byte, *common.AppError) {
	w := h.w
	var r pb.GetChunkRequest
	idx := -1
	if err := proto.Unmarshal(req, &r); err == nil {
		if id, err := ids.ToID(r.ChunkId); err == nil {
			if i, ok := w.byID[id]; ok {
				idx = i
			}
		}
	}
	w.mu.Lock()
	if idx >= 0 && w.served[idx] {
		w.afterOK = append(w.afterOK, fmt.Sprintf("chunk #%d requested from peer %d after a peer had already answered with the true chunk", idx, h.peer))
	}
	var bad *c35Resp
	if idx >= 0 && h.peer >= 0 && len(w.remaining[h.peer][idx]) > 0 {
		b := w.remaining[h.peer][idx][0]
		w.remaining[h.peer][idx] = w.remaining[h.peer][idx][1:]
		bad = &b
	}
	w.mu.Unlock()

	if bad == nil {
		resp, appErr := h.real.AppRequest(ctx, from, deadline, req)
		kind := "served"
		if appErr != nil {
			kind = "not-held"
		}
		w.mu.Lock()
		if appErr == nil && idx >= 0 {
			w.served[idx] = true
		}
		w.events = append(w.events, c35Event{h.peer, idx, kind})
		w.mu.Unlock()
		return resp, appErr
	}
	w.mu.Lock()
	w.events = append(w.events, c35Event{h.peer, idx, bad.Kind})
	w.mu.Unlock()
	resp, appErr, err := w.craft(idx, *bad)
	if err != nil {
		panic(fmt.Sprintf("harness: crafting %s: %v", bad.Kind, err))
	}
	return resp, appErr
}

// craft builds the scripted bad answer to a request for block chunk i.
func (w *c35World) craft(i int, r c35Resp) ([]byte, *common.AppError, error) {
	tc := w.truth[i]
	producer := w.producerOf(i)
	switch r.Kind {
	case "unavailable":
		return nil, dsmr.ErrChunkNotAvailable, nil
	case "apperr":
		return nil, common.ErrTimeout, nil
	case "garbage":
		return []byte{0xff, 0xfe, 0x01, 0x02, 0x03}, nil, nil
	case "emptychunk":
		return c35Wrap(nil), nil, nil
	case "truncated":
		return c35Wrap(tc.bytes[:len(tc.bytes)/2]), nil, nil
	case "badsig":
		c := tc.chunk
		c.Signature[len(c.Signature)-1] ^= 0x01
		b, err := fxMarshalChunk(c)
		return c35Wrap(b), nil, err
	case "nonvalidator":
		// properly signed by an identity that is not in the validator set
		out := fxKey(fxMaxKeys - 1)
		fc, err := fxSignChunk(out, out.nodeID, tc.chunk.Expiry, 7000+uint64(i), 1)
		if err != nil {
			return nil, nil, err
		}
		return c35Wrap(fc.bytes), nil, nil
	case "forged":
		// declares the true producer but is signed (and self-certified through the
		// Signer field) by an outsider; whatever the verifier thinks of it, it is
		// not the requested chunk
		out := fxKey(fxMaxKeys - 1)
		fc, err := fxSignChunk(out, producer.nodeID, tc.chunk.Expiry, 7100+uint64(i), 1)
		if err != nil {
			return nil, nil, err
		}
		return c35Wrap(fc.bytes), nil, nil
	case "expired":
		fc, err := fxSignChunk(producer, producer.nodeID, w.c.Min-1, 7200+uint64(i), 1)
		if err != nil {
			return nil, nil, err
		}
		return c35Wrap(fc.bytes), nil, nil
	case "future":
		fc, err := fxSignChunk(producer, producer.nodeID, w.c.Min+w.c.Window+1, 7300+uint64(i), 1)
		if err != nil {
			return nil, nil, err
		}
		return c35Wrap(fc.bytes), nil, nil
	case "wrong":
		others := make([]*fxChunk, 0, len(w.truth)+len(w.extras))
		for j, t := range w.truth {
			if j != i {
				others = append(others, t)
			}
		}
		others = append(others, w.extras...)
		return c35Wrap(others[r.Arg%len(others)].bytes), nil, nil
	}
	return nil, nil, fmt.Errorf("unknown kind %q", r.Kind)
}

func (w *c35World) producerOf(i int) *fxValidator {
	spec := w.c.Chunks[i]
	if spec.Producer == w.c.NPeers && w.c.SelfVal && spec.Local == "cert" {
		return w.vals[len(w.vals)-1]
	}
	return w.vals[spec.Producer%w.c.NPeers]
}

var errC35Inconclusive = errors.New("INCONCLUSIVE: request cap or deadline reached without evidence")

func c35Run(c c35Case, st *vstat.Stats) error {
	ctx := context.Background()
	self := fxKey(3)
	w := &c35World{c: c, byID: map[ids.ID]int{}}
	for p := 0; p < c.NPeers; p++ {
		w.vals = append(w.vals, fxKey(p))
	}
	if c.SelfVal {
		w.vals = append(w.vals, self)
	}
	w.cs = newFxChainState(w.vals, 1, uint64(len(w.vals)))
	w.blockTs = c.Min + c.Delta
	rules := fxRules{window: c.Window}

	// the block's chunks, their certificates, the extras
	certs := make([]*dsmr.ChunkCertificate, len(c.Chunks))
	for i, spec := range c.Chunks {
		prod := w.producerOf(i)
		ch, err := fxSignChunk(prod, prod.nodeID, w.blockTs+spec.ExpOff, uint64(100+i), spec.NTx)
		if err != nil {
			return fmt.Errorf("harness: %w", err)
		}
		if _, dup := w.byID[ch.id]; dup {
			return fmt.Errorf("harness: duplicate chunk id")
		}
		w.byID[ch.id] = i
		w.truth = append(w.truth, ch)
		certs[i], err = fxCert(w.cs, prod, dsmr.ChunkReference{ChunkID: ch.id, Producer: prod.nodeID, Expiry: ch.chunk.Expiry})
		if err != nil {
			return fmt.Errorf("harness: %w", err)
		}
	}
	for k, off := range c.ExtraExp {
		prod := w.vals[k%c.NPeers]
		ch, err := fxSignChunk(prod, prod.nodeID, w.blockTs+off, uint64(900+k), 1)
		if err != nil {
			return fmt.Errorf("harness: %w", err)
		}
		w.extras = append(w.extras, ch)
	}
	w.served = make([]bool, len(c.Chunks))
	w.remaining = make([][][]c35Resp, c.NPeers)

	// peers: real storage + real GetChunkHandler behind the script
	peers := map[ids.NodeID]p2p.Handler{}
	for p := 0; p < c.NPeers; p++ {
		stg, err := dsmr.NewChunkStorage[tx](dsmr.NewChunkVerifier[tx](w.cs, rules), memdb.New(), rules)
		if err != nil {
			return fmt.Errorf("harness: %w", err)
		}
		w.remaining[p] = make([][]c35Resp, len(c.Chunks))
		for i, spec := range c.Chunks {
			w.remaining[p][i] = append([]c35Resp(nil), spec.Holds[p].Bad...)
			if spec.Holds[p].Serve {
				if err := stg.AddLocalChunkWithCert(w.truth[i].chunk, certs[i]); err != nil {
					return fmt.Errorf("harness: %w", err)
				}
			}
		}
		peers[w.vals[p].nodeID] = &c35PeerHandler{w: w, peer: p, real: dsmr.NewGetChunkHandler[tx](stg)}
	}

	// the accepting node
	verifier := dsmr.NewChunkVerifier[tx](w.cs, rules)
	storage, err := dsmr.NewChunkStorage[tx](verifier, memdb.New(), rules)
	if err != nil {
		return fmt.Errorf("harness: %w", err)
	}
	if err := storage.SetMin(c.Min, nil); err != nil {
		return fmt.Errorf("harness: %w", err)
	}
	nLocal, nRemote := 0, 0
	for i, spec := range c.Chunks {
		switch spec.Local {
		case "cert":
			nLocal++
			if err := storage.AddLocalChunkWithCert(w.truth[i].chunk, certs[i]); err != nil {
				return fmt.Errorf("harness: %w", err)
			}
		case "signed":
			nLocal++
			if _, err := storage.VerifyRemoteChunk(w.truth[i].chunk); err != nil {
				return fmt.Errorf("harness: signing path rejected an in-window chunk: %w", err)
			}
		default:
			nRemote++
		}
	}
	ownHandler := dsmr.NewGetChunkHandler[tx](storage)
	peers[self.nodeID] = &c35PeerHandler{w: w, peer: -1, real: ownHandler}

	net := &fxNet{maxReq: c35RequestCap}
	panicCh := make(chan struct{}, 8)
	client, err := newFxClient(net, self.nodeID, peers, func() {
		select {
		case panicCh <- struct{}{}:
		default:
		}
	})
	if err != nil {
		return fmt.Errorf("harness: %w", err)
	}

	last, err := dsmr.NewVerifBlock(dsmr.BlockHeader{ParentID: ids.ID{0xEE}, Height: c.Height, Timestamp: c.Min}, nil)
	if err != nil {
		return fmt.Errorf("harness: %w", err)
	}
	blk, err := dsmr.NewVerifBlock(dsmr.BlockHeader{ParentID: last.GetID(), Height: c.Height + 1, Timestamp: w.blockTs}, certs)
	if err != nil {
		return fmt.Errorf("harness: %w", err)
	}
	index := newFxChainIndex()
	index.add(last)
	tvw, err := validitywindow.NewTimeValidityWindow[fxItem](ctx, logging.NoLog{}, trace.Noop, index, dsmr.NewValidityWindowBlock(last), func(int64) int64 { return c.Window })
	if err != nil {
		return fmt.Errorf("harness: %w", err)
	}
	node, err := dsmr.New[tx](
		logging.NoLog{}, self.nodeID, w.cs, self.pk, self.signer, storage,
		ownHandler, p2p.NoOpHandler{}, p2p.NoOpHandler{},
		client, client, client,
		last, tvw, rules,
	)
	if err != nil {
		return fmt.Errorf("harness: %w", err)
	}

	// ---- statistics (structural: independent of the peer choice) ----
	ntStruct := false
	kinds := map[string]bool{}
	for _, spec := range c.Chunks {
		if spec.Local != "no" {
			continue
		}
		all := true
		for _, h := range spec.Holds {
			if len(h.Bad) == 0 {
				all = false
			}
			for _, b := range h.Bad {
				kinds[b.Kind] = true
			}
		}
		if all {
			ntStruct = true
		}
	}
	labels := []string{fmt.Sprintf("peers=%d", c.NPeers), fmt.Sprintf("remote=%s", c35Bucket(nRemote)), fmt.Sprintf("local=%s", c35Bucket(nLocal))}
	if c.SelfVal {
		labels = append(labels, "self-is-validator")
	}
	if nRemote > 0 && nLocal > 0 {
		labels = append(labels, "mixed-local-remote")
	}
	if ntStruct {
		labels = append(labels, "remote-chunk-every-peer-bad-first")
	}
	for _, spec := range c.Chunks {
		if spec.Local == "signed" {
			labels = append(labels, "local-without-cert")
			break
		}
	}
	kl := make([]string, 0, len(kinds))
	for k := range kinds {
		kl = append(kl, k)
	}
	sort.Strings(kl)
	for _, k := range kl {
		labels = append(labels, "scripted-"+k)
	}
	canon, _ := json.Marshal(c)
	st.Case(ntStruct, string(canon), labels...)
	st.Sample(ntStruct, c35Render(c))

	// ---- run: Verify (as consensus would), then Accept ----
	if c.VerifyGate {
		if err := node.Verify(ctx, last, blk); err != nil {
			return fmt.Errorf("harness precondition: Node.Verify rejects the block to be accepted: %w", err)
		}
	}
	index.add(blk)

	type acceptResult struct {
		eb  dsmr.ExecutedBlock[tx]
		err error
	}
	done := make(chan acceptResult, 1)
	go func() {
		defer func() {
			if r := recover(); r != nil {
				done <- acceptResult{err: fmt.Errorf("panic in Accept: %v", r)}
			}
		}()
		eb, err := node.Accept(ctx, blk)
		done <- acceptResult{eb, err}
	}()
	var res acceptResult
	select {
	case res = <-done:
	case <-panicCh:
		select {
		case res = <-done:
		case <-time.After(2 * time.Second):
		}
		return fmt.Errorf("panic inside the response callback of Accept: %s", strings.Join(net.panicked(), "; "))
	case <-time.After(120 * time.Second):
		return errC35Inconclusive
	}
	if p := net.panicked(); len(p) > 0 {
		return fmt.Errorf("panic inside the response callback of Accept: %s", strings.Join(p, "; "))
	}

	// runtime labels (depend on the peer choice; never on the verdict)
	w.mu.Lock()
	events := append([]c35Event(nil), w.events...)
	afterOK := append([]string(nil), w.afterOK...)
	w.mu.Unlock()
	badBefore := map[int]int{}
	sawBadThenOK := false
	for _, e := range events {
		if e.chunk < 0 {
			continue
		}
		if e.kind == "served" {
			if badBefore[e.chunk] > 0 {
				sawBadThenOK = true
			}
		} else {
			badBefore[e.chunk]++
		}
	}
	if sawBadThenOK {
		st.Label("observed-fetch-after-bad-answer")
	}
	if len(events) > 0 {
		st.Label("observed-remote-request")
	}

	if len(afterOK) > 0 {
		return fmt.Errorf("acceptance did not succeed once a peer served the valid chunk: %s (Accept err=%v)", afterOK[0], res.err)
	}
	if res.err != nil {
		net.mu.Lock()
		capHit := net.capHit
		net.mu.Unlock()
		if capHit {
			if why := w.livelock(events); why != "" {
				return fmt.Errorf("Accept cannot complete: %s (%d local, %d remote)", why, nLocal, nRemote)
			}
			return errC35Inconclusive
		}
		return fmt.Errorf("Accept failed although every referenced chunk is local or eventually served by a peer (%d local, %d remote; answers seen: %s): %w", nLocal, nRemote, c35Events(events), res.err)
	}
	eb := res.eb
	if len(eb.Chunks) != len(certs) {
		return fmt.Errorf("ExecutedBlock has %d chunks, block references %d (answers seen: %s)", len(eb.Chunks), len(certs), c35Events(events))
	}
	for i := range certs {
		got, err := fxMarshalChunk(eb.Chunks[i])
		if err != nil {
			return fmt.Errorf("executed chunk %d does not marshal: %w", i, err)
		}
		if !bytes.Equal(got, w.truth[i].bytes) {
			which := "an unknown chunk"
			gid := idOfBytes(got)
			if j, ok := w.byID[gid]; ok {
				which = fmt.Sprintf("the block's chunk #%d", j)
			}
			for k, e := range w.extras {
				if e.id == gid {
					which = fmt.Sprintf("extra chunk #%d (not referenced by the block)", k)
				}
			}
			return fmt.Errorf("ExecutedBlock.Chunks[%d] is %s, certificate %d references %s (answers seen: %s)", i, which, i, certs[i].ChunkID, c35Events(events))
		}
	}
	if eb.ID != blk.GetID() || eb.ParentID != blk.ParentID || eb.Height != blk.Height || eb.Timestamp != blk.Timestamp {
		return fmt.Errorf("ExecutedBlock header/ID differ from the accepted block")
	}
	if node.LastAccepted.GetID() != blk.GetID() {
		return fmt.Errorf("LastAccepted not advanced to the accepted block")
	}
	return nil
}

// livelock returns positive evidence that Accept can never complete: the request
// cap was reached while Accept kept asking for one chunk, and in that stretch every
// validator it can ask has answered from its terminal state (fault script
// exhausted, real handler over constant storage says "not held"). From then on
// every further answer is the same, so this is a steady state, not slowness. On a
// tree whose storage and GetChunkHandler work this cannot happen for a remote chunk
// (by construction some peer holds and serves it), and a local chunk is never asked
// for at all.
func (w *c35World) livelock(events []c35Event) string {
	if len(events) < 1000 {
		return ""
	}
	tail := events[len(events)-1000:]
	i := tail[0].chunk
	who := map[int]bool{}
	for _, e := range tail {
		if e.chunk != i || e.kind != "not-held" {
			return ""
		}
		who[e.peer] = true
	}
	want := w.c.NPeers
	if w.c.SelfVal {
		want++
	}
	if i < 0 || len(who) != want {
		return ""
	}
	return fmt.Sprintf("the last 1000 requests all asked for chunk #%d (local=%q) and every validator answered 'not held' from its final state", i, w.c.Chunks[i].Local)
}

func c35Bucket(n int) string {
	if n >= 2 {
		return "2+"
	}
	return fmt.Sprint(n)
}

func c35Events(ev []c35Event) string {
	var sb strings.Builder
	for i, e := range ev {
		if i > 0 {
			sb.WriteByte(' ')
		}
		if i >= 24 {
			fmt.Fprintf(&sb, "... (%d)", len(ev))
			break
		}
		fmt.Fprintf(&sb, "p%d/c%d:%s", e.peer, e.chunk, e.kind)
	}
	return sb.String()
}

func c35Render(c c35Case) map[string]any {
	chunks := make([]string, len(c.Chunks))
	for i, s := range c.Chunks {
		var hs []string
		for _, h := range s.Holds {
			var ks []string
			for _, b := range h.Bad {
				ks = append(ks, b.Kind)
			}
			t := "never"
			if h.Serve {
				t = "serve"
			}
			hs = append(hs, strings.Join(append(ks, t), ">"))
		}
		chunks[i] = fmt.Sprintf("%s exp+%d [%s]", s.Local, s.ExpOff, strings.Join(hs, " | "))
	}
	return map[string]any{"peers": c.NPeers, "self_validator": c.SelfVal, "window": c.Window, "min": c.Min, "delta": c.Delta, "chunks": chunks}
}

const c35Rule = "one accepting dsmr.Node (real storage, verifier, validity window, p2p client) and 1..3 scripted peers per case; the block references 1..5 chunks, each local (with certificate / signed only) or held only by peers; per peer and chunk 0..3 scripted bad answers (not available, app error, garbage, empty, truncated, bad signature, non-validator producer, forged producer, expired, too far in the future, a different valid chunk) followed by the true chunk or by 'not available' forever, at least one peer eventually serving each remote chunk; oracle independent of the math/rand peer choice: Accept succeeds and ExecutedBlock.Chunks equal the referenced chunks byte for byte in certificate order, no re-request after a valid answer; non-trivial = some remote chunk for which every peer answers badly at least once before anyone serves it (so >=1 bad answer precedes the fetch whatever peers are picked); distinct by the whole case"

func TestC35(t *testing.T) {
	st := vstat.New(t, "C35", c35Rule)
	st.Assumption("every validator in the canonical set is a connected peer; chunk expiries lie in [block timestamp, last accepted timestamp + validity window] (what signing validators enforce); block timestamp within (last accepted, last accepted + window]")
	st.Assumption("bounded liveness: more than 4000 chunk requests in one Accept without a valid answer being ignored is INCONCLUSIVE (probability < 1e-100 on a correct tree), never a violation")
	rapid.Check(t, func(rt *rapid.T) {
		c := c35Gen(rt)
		inconclusive := false
		vstat.Run(rt, st, c, func() error {
			err := c35Run(c, st)
			if errors.Is(err, errC35Inconclusive) {
				inconclusive = true
				return nil
			}
			return err
		})
		if inconclusive {
			st.Label("inconclusive")
			rt.Log("INCONCLUSIVE: request cap or deadline reached")
			rt.SkipNow()
		}
	})
}

func TestC35Replay(t *testing.T) {
	vstat.Replay(t, "C35", func(raw []byte) error {
		var c c35Case
		if err := json.Unmarshal(raw, &c); err != nil {
			return err
		}
		err := c35Run(c, vstat.New(nil, "C35", ""))
		if errors.Is(err, errC35Inconclusive) {
			fmt.Println("INCONCLUSIVE: request cap or deadline reached (not a verdict)")
			return nil
		}
		return err
	})
}
