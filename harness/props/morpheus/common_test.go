// Package morpheus holds the checks that run the reference token VM
// (examples/morpheusvm) and the genesis code through the real chain code:
// C06 (token supply conserved except burned fees) and C27 (genesis state =
// configured allocations + initial metadata).
package morpheus

import (
	"context"
	"crypto/sha256"
	"encoding/binary"
	"fmt"
	"math/big"
	"sort"

	stded25519 "crypto/ed25519"

	"github.com/ava-labs/avalanchego/database"
	"github.com/ava-labs/avalanchego/database/memdb"
	"github.com/ava-labs/avalanchego/ids"
	"github.com/ava-labs/avalanchego/trace"
	"github.com/ava-labs/avalanchego/x/merkledb"

	"github.com/ava-labs/hypersdk/auth"
	"github.com/ava-labs/hypersdk/codec"
	"github.com/ava-labs/hypersdk/crypto/ed25519"
)

// fixed, long past wall-clock anchor: no verdict depends on time.Now
const baseTime int64 = 1_700_000_000_000

var testChainID = ids.ID{0xc0, 0x6c, 0x27}

const testNetworkID uint32 = 77

var two64 = new(big.Int).Lsh(big.NewInt(1), 64)

func be64(v uint64) []byte { return binary.BigEndian.AppendUint64(nil, v) }

// newDB opens an empty merkledb over memdb with the given branch factor.
func newDB(bf merkledb.BranchFactor) (merkledb.MerkleDB, error) {
	return merkledb.New(context.Background(), memdb.New(), merkledb.Config{
		BranchFactor: bf,
		Tracer:       trace.Noop,
	})
}

// rootOf is the merkle root of a fresh database holding exactly kv.
func rootOf(bf merkledb.BranchFactor, kv map[string][]byte) (ids.ID, error) {
	db, err := newDB(bf)
	if err != nil {
		return ids.Empty, err
	}
	defer db.Close()
	keys := make([]string, 0, len(kv))
	for k := range kv {
		keys = append(keys, k)
	}
	sort.Strings(keys)
	for _, k := range keys {
		if err := db.Put([]byte(k), kv[k]); err != nil {
			return ids.Empty, err
		}
	}
	return db.GetMerkleRoot(context.Background())
}

// dumpDB returns every key/value of the database (whole key space).
func dumpDB(db database.Iteratee) (map[string][]byte, error) {
	out := map[string][]byte{}
	it := db.NewIterator()
	defer it.Release()
	for it.Next() {
		out[string(it.Key())] = append([]byte{}, it.Value()...)
	}
	return out, it.Error()
}

// keyedAccount is a pool account with a real ed25519 key (deterministic seed).
type keyedAccount struct {
	factory *auth.ED25519Factory
	pub     ed25519.PublicKey
	addr    codec.Address
}

var keyedPool = func() []keyedAccount {
	var out []keyedAccount
	for i := 0; i < 5; i++ {
		seed := sha256.Sum256([]byte(fmt.Sprintf("verif-morpheus-key-%d", i)))
		priv := stded25519.NewKeyFromSeed(seed[:])
		pk := ed25519.PrivateKey(priv)
		f := auth.NewED25519Factory(pk)
		out = append(out, keyedAccount{factory: f, pub: pk.PublicKey(), addr: f.Address()})
	}
	return out
}()

// externalAddr is an address nobody holds a key for (can only receive).
func externalAddr(i int) codec.Address {
	var a codec.Address
	a[0] = auth.ED25519ID
	a[1] = 0xEE
	a[2] = byte(i)
	a[codec.AddressLen-1] = byte(0x70 + i)
	return a
}
