package morpheus

import (
	"context"
	"encoding/binary"
	"encoding/json"
	"errors"
	"fmt"
	"math"
	"math/big"
	"sort"
	"strings"
	"testing"

	"github.com/ava-labs/avalanchego/database"
	"github.com/ava-labs/avalanchego/snow/engine/snowman/block"
	"github.com/ava-labs/avalanchego/trace"
	"github.com/ava-labs/avalanchego/utils/logging"
	"github.com/ava-labs/avalanchego/x/merkledb"
	"github.com/prometheus/client_golang/prometheus"
	"pgregory.net/rapid"

	"github.com/ava-labs/hypersdk/auth"
	"github.com/ava-labs/hypersdk/chain"
	"github.com/ava-labs/hypersdk/codec"
	"github.com/ava-labs/hypersdk/examples/morpheusvm/actions"
	"github.com/ava-labs/hypersdk/examples/morpheusvm/storage"
	"github.com/ava-labs/hypersdk/fees"
	"github.com/ava-labs/hypersdk/genesis"
	"github.com/ava-labs/hypersdk/internal/validitywindow/validitywindowtest"
	"github.com/ava-labs/hypersdk/internal/workers"
	"github.com/ava-labs/hypersdk/state/metadata"
	"github.com/ava-labs/hypersdk/verifharness/vstat"

	mvm "github.com/ava-labs/hypersdk/examples/morpheusvm/vm"
	internalfees "github.com/ava-labs/hypersdk/internal/fees"
)

// C06: in MorpheusVM, after any accepted block the sum of all balances equals the
// previous sum minus the fees charged in that block (Result.Fee).
//
// A case is a genesis allocation plus a chain of blocks of signed Transfer
// transactions written as an op list: every amount is an abstract mode ("all",
// "all but the fee", "half", "more than I have", ...) resolved against a shadow
// ledger when the block is assembled. The shadow ledger only steers the generator
// and the labels; the verdict uses nothing but the balances read back from the real
// post-state and the real Result.Fee values.

const (
	mZero     uint8 = iota // value 0 (action fails)
	mAll                   // whole current balance (deletes the sender's key)
	mLeave                 // all but Arg tokens
	mLeaveFee              // all but exactly this tx's fee (the next identical tx's fee empties the account)
	mSmall                 // 1 + Arg%1000
	mHalf                  // half of the current balance
	mOver                  // current balance + 1 + Arg%1000 (insufficient funds)
	mMax                   // 2^64-1
	mAbs                   // Arg as is
	nModes
)

var modeNames = []string{"zero", "all", "leave", "leave-fee", "small", "half", "over", "max", "abs"}

type c06Act struct {
	To   int // -1 = the sender itself; else index into the universe: 0..NKeyed-1 keyed accounts, then 2 key-less addresses
	Mode uint8
	Arg  uint64
	Memo int // memo length
}

type c06Tx struct {
	Sponsor int   // first keyed account, counting cyclically from this index, that can pay the fee
	Expiry  int64 // whole seconds after the block time (rounded up), within the validity window
	Acts    []c06Act
}

type c06Block struct {
	Dt  int64 // ms after the parent block
	Txs []c06Tx
}

type c06Alloc struct {
	Acct    int
	Balance uint64
	Rest    bool // balance = everything up to a total supply of 2^64-1
}

type c06Case struct {
	NKeyed      int
	Genesis     []c06Alloc
	Price       int // 0: MorpheusVM default rules (min price 100), 1: all 1, 2: all 0
	Blocks      []c06Block
	Cores       int
	Fetch       int
	DeferCommit bool // execute every block on its parent's uncommitted view, commit all at the end
}

const c06Externals = 2

func (c c06Case) universe() []codec.Address {
	var u []codec.Address
	for i := 0; i < c.NKeyed; i++ {
		u = append(u, keyedPool[i].addr)
	}
	for i := 0; i < c06Externals; i++ {
		u = append(u, externalAddr(i))
	}
	return u
}

// ---------------------------------------------------------------- generator

func c06GenAct(rt *rapid.T, lbl string, sponsor, nUniverse int, modes []uint8) c06Act {
	a := c06Act{Mode: rapid.SampledFrom(modes).Draw(rt, lbl+"mode")}
	if rapid.IntRange(0, 2).Draw(rt, lbl+"self") == 0 {
		a.To = -1
	} else {
		a.To = rapid.IntRange(0, nUniverse-1).Draw(rt, lbl+"to")
	}
	switch a.Mode {
	case mLeave:
		a.Arg = rapid.SampledFrom([]uint64{1, 2, 1000, 50_000, 1_000_000}).Draw(rt, lbl+"leave")
	case mAbs:
		a.Arg = rapid.SampledFrom([]uint64{1, 1 << 20, 1 << 40, 1 << 62, 1 << 63, math.MaxUint64 - 1}).Draw(rt, lbl+"abs")
	default:
		a.Arg = rapid.Uint64Range(0, 999).Draw(rt, lbl+"arg")
	}
	a.Memo = rapid.SampledFrom([]int{0, 0, 0, 1, 32, 255, 256}).Draw(rt, lbl+"memo")
	return a
}

var (
	// modes that succeed on a funded account and keep it able to continue
	c06CalmModes = []uint8{mAll, mAll, mSmall, mSmall, mHalf, mLeave, mLeaveFee}
	c06WildModes = []uint8{mZero, mAll, mAll, mLeave, mLeaveFee, mSmall, mHalf, mOver, mMax, mAbs}
)

func c06GenTx(rt *rapid.T, lbl string, nKeyed int) c06Tx {
	nU := nKeyed + c06Externals
	tx := c06Tx{
		Sponsor: rapid.IntRange(0, nKeyed-1).Draw(rt, lbl+"sponsor"),
		Expiry:  rapid.Int64Range(0, 59).Draw(rt, lbl+"expiry"),
	}
	n := rapid.SampledFrom([]int{1, 1, 2, 2, 2, 3, 3, 4, 5, 8, 12, 16}).Draw(rt, lbl+"nacts")
	switch rapid.SampledFrom([]string{"refill", "refill", "calm", "calm", "calm", "wild", "wild"}).Draw(rt, lbl+"shape") {
	case "refill":
		// k self-transfers of the whole balance (delete + re-create of the sender's own
		// key), then the whole balance leaves to someone else, then a random tail
		k := rapid.IntRange(1, 2).Draw(rt, lbl+"k")
		for i := 0; i < k; i++ {
			tx.Acts = append(tx.Acts, c06Act{To: -1, Mode: mAll, Memo: 0})
		}
		if rapid.IntRange(0, 3).Draw(rt, lbl+"out") != 0 {
			to := rapid.IntRange(0, nU-2).Draw(rt, lbl+"outTo")
			if to >= tx.Sponsor {
				to++
			}
			mode := rapid.SampledFrom([]uint8{mAll, mAll, mAll, mHalf, mLeaveFee}).Draw(rt, lbl+"outMode")
			tx.Acts = append(tx.Acts, c06Act{To: to, Mode: mode})
		}
		if rapid.IntRange(0, 2).Draw(rt, lbl+"tail") == 0 {
			for i := len(tx.Acts); i < n; i++ {
				tx.Acts = append(tx.Acts, c06GenAct(rt, fmt.Sprintf("%sa%d.", lbl, i), tx.Sponsor, nU, c06WildModes))
			}
		}
	case "calm":
		for i := 0; i < n; i++ {
			a := c06GenAct(rt, fmt.Sprintf("%sa%d.", lbl, i), tx.Sponsor, nU, c06CalmModes)
			if (a.Mode == mAll || a.Mode == mLeaveFee) && i != n-1 {
				// emptying towards someone else ends a calm tx: keep it for the last action
				a.To = -1
			}
			tx.Acts = append(tx.Acts, a)
		}
		if rapid.IntRange(0, 3).Draw(rt, lbl+"inject") == 0 {
			// one failing action somewhere: everything before it must be rolled back
			pos := rapid.IntRange(0, len(tx.Acts)-1).Draw(rt, lbl+"injectPos")
			tx.Acts[pos].Mode = rapid.SampledFrom([]uint8{mZero, mOver, mMax}).Draw(rt, lbl+"injectMode")
		}
	default:
		for i := 0; i < n; i++ {
			tx.Acts = append(tx.Acts, c06GenAct(rt, fmt.Sprintf("%sa%d.", lbl, i), tx.Sponsor, nU, c06WildModes))
		}
	}
	if len(tx.Acts) > 16 {
		tx.Acts = tx.Acts[:16]
	}
	return tx
}

func c06Gen(rt *rapid.T) c06Case {
	c := c06Case{
		NKeyed:      rapid.IntRange(3, 5).Draw(rt, "nkeyed"),
		Price:       rapid.SampledFrom([]int{0, 0, 0, 1, 1, 2}).Draw(rt, "price"),
		Cores:       rapid.SampledFrom([]int{1, 2, 4}).Draw(rt, "cores"),
		Fetch:       rapid.SampledFrom([]int{1, 4}).Draw(rt, "fetch"),
		DeferCommit: rapid.IntRange(0, 3).Draw(rt, "defer") == 0,
	}
	nU := c.NKeyed + c06Externals
	// genesis: every keyed account usually funded; amounts from "about one fee" to huge
	for i := 0; i < nU; i++ {
		k := rapid.IntRange(0, 9).Draw(rt, fmt.Sprintf("g%dkind", i))
		if i >= c.NKeyed && k < 6 {
			continue // key-less addresses are mostly absent from genesis
		}
		var b uint64
		switch k {
		case 0:
			continue // not in genesis
		case 1:
			b = 0 // zero-balance entry (creates a key holding 0)
		case 2:
			b = rapid.Uint64Range(1, 400_000).Draw(rt, fmt.Sprintf("g%dlow", i)) // around a fee
		case 3, 4, 5:
			b = rapid.Uint64Range(1_000_000, 50_000_000).Draw(rt, fmt.Sprintf("g%dmid", i))
		case 6, 7:
			b = 3_000_000_000_000_000_000 // MorpheusVM's own test allocation
		case 8:
			b = 1 << 62
		case 9:
			c.Genesis = append(c.Genesis, c06Alloc{Acct: i, Rest: true})
			continue
		}
		c.Genesis = append(c.Genesis, c06Alloc{Acct: i, Balance: b})
	}
	if rapid.IntRange(0, 3).Draw(rt, "gdup") == 0 && len(c.Genesis) > 0 {
		d := c.Genesis[rapid.IntRange(0, len(c.Genesis)-1).Draw(rt, "gdupIdx")]
		d.Rest = false
		d.Balance = rapid.Uint64Range(0, 1_000_000).Draw(rt, "gdupBal")
		c.Genesis = append(c.Genesis, d)
	}
	nb := rapid.IntRange(1, 5).Draw(rt, "nblocks")
	for b := 0; b < nb; b++ {
		blk := c06Block{Dt: rapid.SampledFrom([]int64{100, 100, 750, 1000, 5000, 30_000}).Draw(rt, fmt.Sprintf("b%ddt", b))}
		nt := rapid.IntRange(1, 5).Draw(rt, fmt.Sprintf("b%dntx", b))
		for i := 0; i < nt; i++ {
			lbl := fmt.Sprintf("b%dt%d.", b, i)
			if i > 0 && rapid.IntRange(0, 4).Draw(rt, lbl+"dup") == 0 {
				// same sponsor and same shape as the previous tx (so it pays the same fee),
				// different expiry so that it is a different transaction
				prev := blk.Txs[i-1]
				tx := c06Tx{Sponsor: prev.Sponsor, Expiry: (prev.Expiry + 1) % 60, Acts: append([]c06Act{}, prev.Acts...)}
				blk.Txs = append(blk.Txs, tx)
				continue
			}
			blk.Txs = append(blk.Txs, c06GenTx(rt, lbl, c.NKeyed))
		}
		c.Blocks = append(c.Blocks, blk)
	}
	return c
}

// ---------------------------------------------------------------- shadow ledger

type acct struct {
	exists bool
	bal    uint64
}

type ledger []acct

func (l ledger) clone() ledger { return append(ledger{}, l...) }

// keyEvents records per account what happened to its key inside one tx.
type keyEvents struct {
	existedBefore bool
	seq           []byte // 'd' delete, 'c' create
}

type shadowTx struct {
	events map[int]*keyEvents
	l      ledger
}

func (s *shadowTx) ev(i int) *keyEvents {
	e := s.events[i]
	if e == nil {
		e = &keyEvents{existedBefore: s.l[i].exists}
		s.events[i] = e
	}
	return e
}

func (s *shadowTx) sub(i int, v uint64) bool {
	if !s.l[i].exists || s.l[i].bal < v {
		return false
	}
	e := s.ev(i)
	s.l[i].bal -= v
	if s.l[i].bal == 0 {
		s.l[i].exists = false
		e.seq = append(e.seq, 'd')
	}
	return true
}

func (s *shadowTx) add(i int, v uint64) bool {
	if s.l[i].bal > math.MaxUint64-v {
		return false
	}
	e := s.ev(i)
	if !s.l[i].exists {
		e.seq = append(e.seq, 'c')
	}
	s.l[i].exists = true
	s.l[i].bal += v
	return true
}

func resolveAmount(a c06Act, bal, fee uint64) uint64 {
	switch a.Mode {
	case mZero:
		return 0
	case mAll:
		return bal
	case mLeave:
		if bal > a.Arg {
			return bal - a.Arg
		}
		return bal
	case mLeaveFee:
		if bal > fee {
			return bal - fee
		}
		return bal
	case mSmall:
		return 1 + a.Arg%1000
	case mHalf:
		return bal / 2
	case mOver:
		v := bal + 1 + a.Arg%1000
		if v < bal {
			return math.MaxUint64
		}
		return v
	case mMax:
		return math.MaxUint64
	default:
		return a.Arg
	}
}

// ---------------------------------------------------------------- chain fixture

var (
	c06Metrics = func() *chain.ChainMetrics {
		m, err := chain.NewMetrics(prometheus.NewRegistry())
		if err != nil {
			panic(err)
		}
		return m
	}()
	// key layout of MorpheusVM balances, by hand: 0x03 ‖ address ‖ be16(1)
	c06BalancePrefix = []byte{0x03}
)

func c06BalanceKey(a codec.Address) []byte {
	k := append(append([]byte{}, c06BalancePrefix...), a[:]...)
	return binary.BigEndian.AppendUint16(k, 1)
}

type valueReader interface {
	GetValue(ctx context.Context, key []byte) ([]byte, error)
}

func readBalance(ctx context.Context, r valueReader, a codec.Address) (acct, error) {
	v, err := r.GetValue(ctx, c06BalanceKey(a))
	if errors.Is(err, database.ErrNotFound) {
		return acct{}, nil
	}
	if err != nil {
		return acct{}, err
	}
	if len(v) != 8 {
		return acct{}, fmt.Errorf("balance of %s has %d bytes", a, len(v))
	}
	return acct{exists: true, bal: binary.BigEndian.Uint64(v)}, nil
}

func sumLedger(l ledger) *big.Int {
	s := new(big.Int)
	for _, a := range l {
		if a.exists {
			s.Add(s, new(big.Int).SetUint64(a.bal))
		}
	}
	return s
}

func transferAction(to codec.Address, a c06Act, value uint64) *actions.Transfer {
	memo := make([]byte, a.Memo)
	for i := range memo {
		memo[i] = byte('a' + i%26)
	}
	return &actions.Transfer{To: to, Value: value, Memo: memo}
}

type c06Stats struct {
	labels map[string]bool
	nt     bool
	blocks int
	txs    int
}

func (s *c06Stats) label(l string) { s.labels[l] = true }

// scanDB sums the whole balance prefix of the committed database and reports keys
// that belong to no touched account.
func scanDB(db merkledb.MerkleDB, u []codec.Address, touched map[int]bool) (*big.Int, error) {
	byKey := map[string]int{}
	for i, a := range u {
		byKey[string(c06BalanceKey(a))] = i
	}
	sum := new(big.Int)
	it := db.NewIteratorWithPrefix(c06BalancePrefix)
	defer it.Release()
	for it.Next() {
		i, ok := byKey[string(it.Key())]
		if !ok {
			return nil, fmt.Errorf("balance key %x = %x appeared in the database; it belongs to none of the %d accounts of this chain", it.Key(), it.Value(), len(u))
		}
		if !touched[i] {
			return nil, fmt.Errorf("balance key of account #%d (%s) = %x appeared although the account was never in genesis, never a sponsor and never a recipient", i, u[i], it.Value())
		}
		if len(it.Value()) != 8 {
			return nil, fmt.Errorf("balance key %x holds %d bytes", it.Key(), len(it.Value()))
		}
		sum.Add(sum, new(big.Int).SetUint64(binary.BigEndian.Uint64(it.Value())))
	}
	return sum, it.Error()
}

func c06Run(c c06Case, st *vstat.Stats) error {
	stats := &c06Stats{labels: map[string]bool{}}
	err := c06Exec(c, st, stats)
	labels := make([]string, 0, len(stats.labels))
	for l := range stats.labels {
		labels = append(labels, l)
	}
	sort.Strings(labels)
	raw, _ := json.Marshal(c)
	st.Case(stats.nt, string(raw), labels...)
	st.LabelN("blocks-executed", int64(stats.blocks))
	st.LabelN("txs-executed", int64(stats.txs))
	st.Sample(stats.nt, map[string]any{"genesis": c.Genesis, "price": c.Price, "blocks": len(c.Blocks), "executed_blocks": stats.blocks, "executed_txs": stats.txs, "first_tx": firstTx(c), "labels": labels})
	return err
}

func c06Exec(c c06Case, st *vstat.Stats, stats *c06Stats) error {
	ctx := context.Background()
	u := c.universe()
	touched := map[int]bool{}

	// ---- genesis through the real genesis code (JSON -> Load -> NewGenesisCommit)
	var allocs []*genesis.CustomAllocation
	supply := new(big.Int)
	maxSupply := new(big.Int).SetUint64(math.MaxUint64)
	for _, g := range c.Genesis {
		if g.Acct >= len(u) {
			continue
		}
		room := new(big.Int).Sub(maxSupply, supply).Uint64()
		b := g.Balance
		if g.Rest || b > room {
			b = room
			stats.label("genesis-supply=2^64-1")
		}
		supply.Add(supply, new(big.Int).SetUint64(b))
		allocs = append(allocs, &genesis.CustomAllocation{Address: u[g.Acct], Balance: b})
		touched[g.Acct] = true
		if b == 0 {
			stats.label("genesis-zero-entry")
		}
	}
	g := genesis.NewDefaultGenesis(allocs)
	switch c.Price {
	case 1:
		g.Rules.MinUnitPrice = fees.Dimensions{1, 1, 1, 1, 1}
		stats.label("min-price-1")
	case 2:
		g.Rules.MinUnitPrice = fees.Dimensions{}
		stats.label("min-price-0")
	default:
		stats.label("min-price-default")
	}
	gbytes, err := json.Marshal(g)
	if err != nil {
		return fmt.Errorf("harness: %w", err)
	}
	gen, rf, err := genesis.DefaultGenesisFactory{}.Load(gbytes, nil, testNetworkID, testChainID)
	if err != nil {
		return fmt.Errorf("harness: load genesis: %w", err)
	}
	rules := rf.GetRules(0)
	db, err := newDB(gen.GetStateBranchFactor())
	if err != nil {
		return fmt.Errorf("harness: %w", err)
	}
	defer db.Close()
	bh := &storage.BalanceHandler{}
	mm := metadata.NewDefaultManager()
	gblk, gview, err := chain.NewGenesisCommit(ctx, db, gen, mm, bh, rf, trace.Noop, logging.NoLog{})
	if err != nil {
		return fmt.Errorf("genesis with total supply %s rejected: %w", supply, err)
	}
	if err := gview.CommitToDB(ctx); err != nil {
		return err
	}

	// ledger = balances read back from the real state; prevSum starts at the genesis sum
	l := make(ledger, len(u))
	for i, a := range u {
		if l[i], err = readBalance(ctx, db, a); err != nil {
			return err
		}
	}
	prevSum := sumLedger(l)
	if prevSum.Cmp(supply) != 0 {
		return fmt.Errorf("genesis: sum of balances %s != configured supply %s", prevSum, supply)
	}
	if s, err := scanDB(db, u, touched); err != nil {
		return fmt.Errorf("genesis: %w", err)
	} else if s.Cmp(supply) != 0 {
		return fmt.Errorf("genesis: sum over the balance prefix %s != configured supply %s", s, supply)
	}

	cfg := chain.NewDefaultConfig()
	cfg.TransactionExecutionCores = c.Cores
	cfg.StateFetchConcurrency = c.Fetch
	w := workers.NewSerial()
	defer w.Stop()
	proc := chain.NewProcessor(trace.Noop, logging.NoLog{}, rf, w, auth.DefaultEngines(), mm, bh,
		&validitywindowtest.MockTimeValidityWindow[*chain.Transaction]{}, c06Metrics, cfg)
	parser := chain.NewBlockParser(trace.Noop, mvm.Parser)

	var (
		parent      merkledb.View = db
		parentID                  = gblk.GetID()
		height      uint64
		now         = baseTime
		pending     []merkledb.View
		lastDeleter = map[int]int{} // account -> index of the tx in the current block that deleted its key
	)

	for bi, b := range c.Blocks {
		now += b.Dt
		height++
		feeRaw, err := parent.GetValue(ctx, chain.FeeKey(mm.FeePrefix()))
		if err != nil {
			return fmt.Errorf("harness: fee key: %w", err)
		}
		feeMgr := internalfees.NewManager(append([]byte{}, feeRaw...)).ComputeNext(now, rules)
		blockUnits := fees.Dimensions{}

		var txs []*chain.Transaction
		clear(lastDeleter)
		for ti, spec := range b.Txs {
			if spec.Sponsor < 0 || spec.Sponsor >= c.NKeyed || len(spec.Acts) == 0 || len(spec.Acts) > 16 {
				st.Skip("malformed-tx")
				continue
			}
			ok := true
			for _, a := range spec.Acts {
				if a.To < -1 || a.To >= len(u) || a.Memo < 0 || a.Memo > actions.MaxMemoSize || a.Mode >= nModes {
					ok = false
				}
			}
			if !ok {
				st.Skip("malformed-tx")
				continue
			}
			expiry := ((now+999)/1000 + spec.Expiry) * 1000
			if spec.Expiry < 0 || expiry > now+rules.GetValidityWindow() {
				expiry = (now + 999) / 1000 * 1000
			}
			base := chain.Base{Timestamp: expiry, ChainID: testChainID, MaxFee: math.MaxUint64}
			// the sponsor is the first keyed account from spec.Sponsor on that can pay the fee
			// (a sponsor that cannot pay makes the whole block invalid, not the tx failed).
			// The fee depends on the tx size and key set only, not on the amounts.
			var (
				sp    = -1
				fee   uint64
				units fees.Dimensions
				acts  = make([]chain.Action, len(spec.Acts))
				tos   = make([]int, len(spec.Acts))
			)
			for k := 0; k < c.NKeyed && sp < 0; k++ {
				cand := (spec.Sponsor + k) % c.NKeyed
				for i, a := range spec.Acts {
					tos[i] = a.To
					if a.To == -1 {
						tos[i] = cand
					}
					acts[i] = transferAction(u[tos[i]], a, 0)
				}
				// same signer (hence same actor and key set) and same size as the signed tx
				probe, err := chain.NewTransaction(base, acts, &auth.ED25519{Signer: keyedPool[cand].pub})
				if err != nil {
					return fmt.Errorf("harness: %w", err)
				}
				if units, err = probe.Units(bh, rules); err != nil {
					return fmt.Errorf("harness: units: %w", err)
				}
				if fee, err = feeMgr.Fee(units); err != nil {
					return fmt.Errorf("harness: fee: %w", err)
				}
				if l[cand].exists && l[cand].bal >= fee {
					sp = cand
					if k > 0 {
						stats.label("sponsor-fallback")
					}
				}
			}
			if sp < 0 {
				st.Skip("tx-nobody-can-pay")
				continue
			}
			if !blockUnits.CanAdd(units, rules.GetMaxBlockUnits()) {
				st.Skip("tx-block-units-exhausted")
				continue
			}
			for d := range blockUnits {
				blockUnits[d] += units[d]
			}
			// ---- interpret the tx on the shadow ledger, resolving the amounts
			s := &shadowTx{events: map[int]*keyEvents{}, l: l.clone()}
			s.sub(sp, fee)
			if !s.l[sp].exists {
				stats.label("fee-empties-sponsor")
			}
			afterFee := s.l.clone()
			feeEvents := len(s.ev(sp).seq)
			failed := false
			for i, a := range spec.Acts {
				v := resolveAmount(a, s.l[sp].bal, fee)
				acts[i] = transferAction(u[tos[i]], a, v)
				touched[tos[i]] = true
				if failed {
					continue
				}
				switch {
				case v == 0:
					failed = true
				case !s.sub(sp, v):
					failed = true
				case !s.add(tos[i], v):
					failed = true
					stats.label("receiver-overflow")
				}
				if failed {
					stats.label("failing-action:" + modeNames[a.Mode])
					if i > 0 {
						stats.label("failure-after-successful-actions")
					}
				}
				if tos[i] == sp {
					stats.label("self-transfer")
				}
				if a.Memo > 0 {
					stats.label("memo")
				}
			}
			touched[sp] = true
			c06Classify(stats, s, sp, failed, feeEvents, lastDeleter, ti)
			if failed {
				l = afterFee
				stats.label("failed-tx")
			} else {
				l = s.l
				stats.label("successful-tx")
			}
			if len(spec.Acts) >= 8 {
				stats.label("actions>=8")
			}
			txData := chain.NewTxData(base, acts)
			tx, err := txData.Sign(keyedPool[sp].factory)
			if err != nil {
				return fmt.Errorf("harness: sign: %w", err)
			}
			if realUnits, err := tx.Units(bh, rules); err != nil || realUnits != units {
				return fmt.Errorf("harness: signed tx has units %v (%v), probe %v", realUnits, err, units)
			}
			txs = append(txs, tx)
		}
		if len(txs) == 0 {
			st.Skip("empty-block")
			height--
			now -= b.Dt
			continue
		}
		root, err := parent.GetMerkleRoot(ctx)
		if err != nil {
			return err
		}
		sb, err := chain.NewStatelessBlock(parentID, now, height, txs, root, &block.Context{})
		if err != nil {
			return fmt.Errorf("harness: %w", err)
		}
		// the block goes through MorpheusVM's parser (action and auth registry)
		eb, err := parser.ParseBlock(ctx, sb.GetBytes())
		if err != nil {
			return fmt.Errorf("harness: MorpheusVM parser rejected the block: %w", err)
		}
		if eb.GetID() != sb.GetID() {
			return fmt.Errorf("harness: parsed block id differs")
		}
		out, err := proc.Execute(ctx, parent, eb, true)
		if err != nil {
			// not accepted: the property says nothing; the state does not advance
			stats.label("block-rejected")
			st.SetExtra("last_rejection", err.Error())
			height--
			now -= b.Dt
			for i, a := range u { // resync the shadow ledger
				if l[i], err = readBalance(ctx, parent, a); err != nil {
					return err
				}
			}
			continue
		}
		stats.blocks++
		stats.txs += len(txs)
		if stats.blocks >= 3 {
			stats.label("chain>=3-blocks")
		}

		// ---- oracle 1: balances read back from the post-state
		feeSum := new(big.Int)
		for i, r := range out.ExecutionResults.Results {
			if r == nil {
				return fmt.Errorf("block %d: nil result for tx %d", bi, i)
			}
			feeSum.Add(feeSum, new(big.Int).SetUint64(r.Fee))
		}
		real := make(ledger, len(u))
		for i, a := range u {
			if real[i], err = readBalance(ctx, out.View, a); err != nil {
				return err
			}
		}
		gotSum := sumLedger(real)
		wantSum := new(big.Int).Sub(prevSum, feeSum)
		if gotSum.Cmp(wantSum) != 0 {
			return fmt.Errorf("block %d (height %d, %d txs): sum of balances after the block %s != previous sum %s - fees %s = %s: %s; %s",
				bi, height, len(txs), gotSum, prevSum, feeSum, wantSum, describeDelta(gotSum, wantSum), describeAccounts(u, real, l))
		}
		prevSum = gotSum
		l = real // next block's amounts are resolved against the real state

		// ---- oracle 2: after commit, the whole balance prefix
		pending = append(pending, out.View)
		if !c.DeferCommit || bi == len(c.Blocks)-1 {
			for _, v := range pending {
				if err := v.CommitToDB(ctx); err != nil {
					return fmt.Errorf("commit: %w", err)
				}
			}
			pending = nil
			dbSum, err := scanDB(db, u, touched)
			if err != nil {
				return fmt.Errorf("block %d: %w", bi, err)
			}
			if dbSum.Cmp(prevSum) != 0 {
				return fmt.Errorf("block %d: sum over the committed balance prefix %s != sum read from the view %s: %s", bi, dbSum, prevSum, describeDelta(dbSum, prevSum))
			}
			parent = db
		} else {
			parent = out.View
			stats.label("executed-on-uncommitted-parent")
		}
		parentID = eb.GetID()
	}
	if len(pending) > 0 { // trailing blocks were skipped/rejected
		for _, v := range pending {
			if err := v.CommitToDB(ctx); err != nil {
				return fmt.Errorf("commit: %w", err)
			}
		}
		dbSum, err := scanDB(db, u, touched)
		if err != nil {
			return err
		}
		if dbSum.Cmp(prevSum) != 0 {
			return fmt.Errorf("final: sum over the committed balance prefix %s != sum read from the view %s: %s", dbSum, prevSum, describeDelta(dbSum, prevSum))
		}
	}
	return nil
}

// c06Classify derives the labels of one tx from the key events of its shadow run.
func c06Classify(stats *c06Stats, s *shadowTx, sponsor int, failed bool, feeEvents int, lastDeleter map[int]int, ti int) {
	for i, e := range s.events {
		seq := string(e.seq)
		recreate := strings.Contains(seq, "dc")
		trigger := e.existedBefore && strings.Contains(seq, "dcd")
		if failed {
			// only the fee part survives
			if recreate {
				stats.label("delete-recreate-rolled-back")
			}
			if i == sponsor && feeEvents > 0 {
				lastDeleter[i] = ti
			}
			continue
		}
		if recreate {
			stats.label("delete-recreate-in-tx")
			stats.nt = true
		}
		if trigger {
			stats.label("delete-recreate-delete-of-parent-key")
		}
		if e.existedBefore && strings.HasSuffix(seq, "d") {
			stats.label("account-emptied")
		}
		if !e.existedBefore && strings.HasSuffix(seq, "c") {
			stats.label("account-created")
			if d, ok := lastDeleter[i]; ok && d != ti {
				stats.label("key-deleted-by-one-tx-recreated-by-later-tx-in-block")
			}
		}
		if strings.HasSuffix(seq, "d") {
			lastDeleter[i] = ti
		} else if len(seq) > 0 {
			delete(lastDeleter, i)
		}
	}
}

func describeDelta(got, want *big.Int) string {
	d := new(big.Int).Sub(got, want)
	if d.Sign() > 0 {
		return fmt.Sprintf("%s tokens were MINTED", d)
	}
	return fmt.Sprintf("%s tokens were DESTROYED beyond the fees", new(big.Int).Neg(d))
}

func describeAccounts(u []codec.Address, real, shadow ledger) string {
	var parts []string
	for i := range u {
		if real[i] != shadow[i] {
			parts = append(parts, fmt.Sprintf("account #%d holds %d (exists=%v), a sequential ledger gives %d (exists=%v)", i, real[i].bal, real[i].exists, shadow[i].bal, shadow[i].exists))
		}
	}
	if len(parts) == 0 {
		return "per-account balances equal the sequential ledger"
	}
	return strings.Join(parts, "; ")
}

func firstTx(c c06Case) any {
	if len(c.Blocks) == 0 || len(c.Blocks[0].Txs) == 0 {
		return nil
	}
	return c.Blocks[0].Txs[0]
}

func TestC06(t *testing.T) {
	st := vstat.New(t, "C06", "MorpheusVM chains: genesis (through DefaultGenesisFactory.Load + chain.NewGenesisCommit) over 3-5 ed25519 accounts + 2 key-less addresses with balances from 0 / about one fee up to a total supply of 2^64-1, then 1-5 blocks of 1-5 signed Transfer txs with 1-16 actions (self-transfers, whole-balance transfers, all-but-the-fee, halves, zero / over-balance / 2^64-1 amounts, memos 0..256; shapes: self-refill then empty, calm with an injected failing action, wild; repeated tx shapes), parsed by MorpheusVM's parser and executed by the real chain.Processor with MorpheusVM's balance handler and rules (min price 100 / 1 / 0) on committed or uncommitted parents; oracle: sum of balances read back from the post-state view, and after commit over the whole 0x03 prefix, = previous sum - sum of Result.Fee, and no balance key of an untouched address; non-trivial = a committed tx in which a balance key is deleted and re-created; distinct by full case")
	st.Assumption("amount modes are resolved against a sequential shadow ledger that is re-read from the real post-state after every block; it steers generation and labels only, the verdict uses the real balances and Result.Fee")
	st.Assumption("a tx is sponsored by the first keyed account (cyclically from the drawn index) whose ledger balance covers the fee; if nobody can pay the tx is skipped (an unpayable tx invalidates the block instead of failing); rejected blocks are counted (label block-rejected) and not judged")
	st.Assumption("replay protection is a no-op mock (C09); signatures are real ed25519 and verified by the real auth engine")
	rapid.Check(t, func(rt *rapid.T) {
		c := c06Gen(rt)
		vstat.Run(rt, st, c, func() error { return c06Run(c, st) })
	})
}

// TestC06Regression runs a few fixed cases on every run, independent of the seed:
// the minimal delete -> re-create -> delete patterns on a balance key that exists in
// the parent state (finding F1: TStateView.Remove resurrected the parent value).
func TestC06Regression(t *testing.T) {
	st := vstat.New(t, "C06", "fixed regression cases: self-transfer of the whole balance followed by (a) a whole-balance transfer to another account, (b) a second whole-balance self-transfer, (c) the same after a small transfer, each under min price 100 and 0, committed and uncommitted parent")
	self := c06Act{To: -1, Mode: mAll}
	shapes := [][]c06Act{
		{self, {To: 1, Mode: mAll}},
		{self, self},
		{{To: 1, Mode: mSmall}, self, self},
		{self, self, {To: 3, Mode: mLeaveFee}},
	}
	for _, acts := range shapes {
		for _, price := range []int{0, 2} {
			for _, deferCommit := range []bool{false, true} {
				c := c06Case{
					NKeyed:  3,
					Genesis: []c06Alloc{{Acct: 0, Balance: 1_000_000}, {Acct: 1, Balance: 5}},
					Price:   price, Cores: 1, Fetch: 1, DeferCommit: deferCommit,
					Blocks: []c06Block{
						{Dt: 100, Txs: []c06Tx{{Sponsor: 0, Acts: acts}}},
						{Dt: 100, Txs: []c06Tx{{Sponsor: 0, Acts: acts}, {Sponsor: 1, Acts: acts}}},
					},
				}
				vstat.Run(t, st, c, func() error { return c06Run(c, st) })
			}
		}
	}
}

func TestC06Replay(t *testing.T) {
	vstat.Replay(t, "C06", func(raw []byte) error {
		var c c06Case
		if err := json.Unmarshal(raw, &c); err != nil {
			return err
		}
		return c06Run(c, vstat.New(nil, "C06", ""))
	})
}
