package morpheus

import (
	"bytes"
	"context"
	"encoding/binary"
	"encoding/json"
	"fmt"
	"math"
	"math/big"
	"sort"
	"testing"

	"github.com/ava-labs/avalanchego/trace"
	"github.com/ava-labs/avalanchego/utils/logging"
	"github.com/ava-labs/avalanchego/x/merkledb"
	"pgregory.net/rapid"

	"github.com/ava-labs/hypersdk/chain"
	"github.com/ava-labs/hypersdk/codec"
	"github.com/ava-labs/hypersdk/examples/morpheusvm/storage"
	"github.com/ava-labs/hypersdk/fees"
	"github.com/ava-labs/hypersdk/genesis"
	"github.com/ava-labs/hypersdk/state/balance"
	"github.com/ava-labs/hypersdk/state/metadata"
	"github.com/ava-labs/hypersdk/verifharness/vstat"
)

// C27: initialising a chain from a genesis (genesis JSON -> DefaultGenesisFactory.Load
// -> chain.NewGenesisCommit -> CommitToDB, the path of vm.initGenesisAsLastAccepted)
// produces a state holding exactly the configured allocations summed per address,
// height 0, timestamp 0, unit prices = minimum prices, and its root is the genesis
// block's state root; an overflowing total is rejected.

type c27Alloc struct {
	Addr    int
	Balance uint64
}

type c27Case struct {
	Allocs   []c27Alloc
	MinPrice [5]uint64
	Handler  int    // 0 = state/balance PrefixBalanceHandler, 1 = MorpheusVM storage.BalanceHandler
	Prefix   []byte // balance prefix of handler 0
	Meta     int    // index into c27MetaPrefixes
	Branch   int    // merkledb branch factor (genesis.StateBranchFactor)
}

// metadata prefix triples (height, timestamp, fee); none conflicts with a balance prefix below
var c27MetaPrefixes = [][3][]byte{
	{{0x0}, {0x1}, {0x2}}, // metadata.NewDefaultManager()
	{{0x0a}, {0x0b}, {0x0c}},
	{{0xf0, 0x01}, {0xf0, 0x02}, {0xf0, 0x03}},
}

var c27BalancePrefixes = [][]byte{{0x10}, {0x03}, {0x42, 0x00}}

// c27Addr maps a pool index to an address: real ed25519 addresses and arbitrary ones.
func c27Addr(i int) codec.Address {
	if i < len(keyedPool) {
		return keyedPool[i].addr
	}
	return externalAddr(i)
}

func c27Gen(rt *rapid.T) c27Case {
	c := c27Case{
		Handler: rapid.IntRange(0, 1).Draw(rt, "handler"),
		Meta:    rapid.IntRange(0, len(c27MetaPrefixes)-1).Draw(rt, "meta"),
		Branch:  rapid.SampledFrom([]int{16, 16, 256}).Draw(rt, "branch"),
	}
	c.Prefix = rapid.SampledFrom(c27BalancePrefixes).Draw(rt, "prefix")
	priceRegime := rapid.SampledFrom([]string{"mixed", "mixed", "mixed", "mixed", "zeros", "default"}).Draw(rt, "priceRegime")
	for d := 0; d < 5 && priceRegime != "zeros"; d++ {
		if priceRegime == "default" {
			c.MinPrice[d] = 100
			continue
		}
		c.MinPrice[d] = rapid.SampledFrom([]uint64{0, 1, 100, 100, 7, 1 << 32, 1 << 63, math.MaxUint64}).Draw(rt, fmt.Sprintf("minprice%d", d))
		if c.MinPrice[d] == 7 {
			c.MinPrice[d] = rapid.Uint64().Draw(rt, fmt.Sprintf("minpriceR%d", d))
		}
	}
	n := rapid.SampledFrom([]int{0, 1, 2, 2, 3, 3, 4, 5, 6, 8, 10, 12}).Draw(rt, "n")
	pool := rapid.SampledFrom([]int{1, 2, 4, 4, 8, 12}).Draw(rt, "pool")
	// regime decides how close to 2^64 the total goes
	regime := rapid.SampledFrom([]string{"small", "small", "big", "big", "edge", "edge", "edge"}).Draw(rt, "regime")
	var total big.Int
	for i := 0; i < n; i++ {
		a := c27Alloc{Addr: rapid.IntRange(0, pool-1).Draw(rt, fmt.Sprintf("addr%d", i))}
		rest := new(big.Int).Sub(new(big.Int).Sub(two64, big.NewInt(1)), &total) // 2^64-1-total, may be negative
		var kinds []string
		switch regime {
		case "small":
			kinds = []string{"zero", "one", "small", "small", "2^32"}
		case "big":
			kinds = []string{"zero", "small", "2^61r", "2^61r", "2^62", "2^63", "rand"}
		default:
			kinds = []string{"zero", "one", "small", "2^61r", "2^61r", "2^62", "2^63-1", "2^63", "max", "rest", "rest+1", "rest-1", "rand"}
		}
		switch rapid.SampledFrom(kinds).Draw(rt, fmt.Sprintf("kind%d", i)) {
		case "zero":
			a.Balance = 0
		case "one":
			a.Balance = 1
		case "small":
			a.Balance = rapid.Uint64Range(2, 1_000_000).Draw(rt, fmt.Sprintf("bal%d", i))
		case "2^32":
			a.Balance = 1 << 32
		case "2^61r":
			a.Balance = rapid.Uint64Range(1<<60, 1<<61).Draw(rt, fmt.Sprintf("bal%d", i))
		case "2^62":
			a.Balance = 1 << 62
		case "2^63-1":
			a.Balance = 1<<63 - 1
		case "2^63":
			a.Balance = 1 << 63
		case "max":
			a.Balance = math.MaxUint64
		case "rand":
			a.Balance = rapid.Uint64().Draw(rt, fmt.Sprintf("bal%d", i))
		case "rest": // total becomes exactly 2^64-1 (if still possible)
			if rest.Sign() >= 0 {
				a.Balance = rest.Uint64()
			}
		case "rest+1": // total becomes exactly 2^64: overflows by one
			if rest.Sign() >= 0 && rest.Cmp(new(big.Int).SetUint64(math.MaxUint64)) < 0 {
				a.Balance = rest.Uint64() + 1
			} else {
				a.Balance = 1
			}
		case "rest-1":
			if rest.Sign() > 0 {
				a.Balance = rest.Uint64() - 1
			}
		}
		total.Add(&total, new(big.Int).SetUint64(a.Balance))
		c.Allocs = append(c.Allocs, a)
	}
	// edge regime: one more entry, at a random position, that brings a still-fitting
	// total to exactly 2^64-1, 2^64 (overflow by one) or 2^64-2
	if regime == "edge" && total.Cmp(two64) < 0 && rapid.IntRange(0, 3).Draw(rt, "finish") != 0 {
		target := rapid.SampledFrom([]int64{-1, -1, 0, 0, -2}).Draw(rt, "target")
		fin := new(big.Int).Sub(new(big.Int).Add(two64, big.NewInt(target)), &total)
		if fin.Sign() >= 0 && fin.IsUint64() {
			a := c27Alloc{Addr: rapid.IntRange(0, pool-1).Draw(rt, "finAddr"), Balance: fin.Uint64()}
			pos := rapid.IntRange(0, len(c.Allocs)).Draw(rt, "finPos")
			c.Allocs = append(c.Allocs[:pos], append([]c27Alloc{a}, c.Allocs[pos:]...)...)
		}
	}
	return c
}

func (c c27Case) metadataManager() chain.MetadataManager {
	if c.Meta == 0 {
		return metadata.NewDefaultManager()
	}
	p := c27MetaPrefixes[c.Meta]
	// NewManager(heightPrefix, feePrefix, timestampPrefix)
	return metadata.NewManager(p[0], p[2], p[1])
}

func (c c27Case) balanceHandler() chain.BalanceHandler {
	if c.Handler == 0 {
		return balance.NewPrefixBalanceHandler(c.Prefix)
	}
	return &storage.BalanceHandler{}
}

// balanceKey is the documented key layout, built by hand: prefix ‖ address ‖ be16(1 chunk).
func (c c27Case) balanceKey(a codec.Address) string {
	p := c.Prefix
	if c.Handler == 1 {
		p = []byte{0x03} // MorpheusVM: metadata.DefaultMinimumPrefix
	}
	k := append(append([]byte{}, p...), a[:]...)
	return string(binary.BigEndian.AppendUint16(k, 1))
}

func chunkKey(prefix []byte, chunks uint16) string {
	return string(binary.BigEndian.AppendUint16(append([]byte{}, prefix...), chunks))
}

// decodeFeeState decodes the documented fee-manager layout
// [timestamp(8)] then per dimension [price(8)][window(10*8)][lastConsumed(8)].
func decodeFeeState(raw []byte) (prices [5]uint64, windowZero bool, consumedZero bool, err error) {
	const dimLen = 8 + 80 + 8
	if len(raw) != 8+5*dimLen {
		return prices, false, false, fmt.Errorf("fee state has %d bytes, want %d", len(raw), 8+5*dimLen)
	}
	windowZero, consumedZero = true, true
	for d := 0; d < 5; d++ {
		s := 8 + d*dimLen
		prices[d] = binary.BigEndian.Uint64(raw[s : s+8])
		for _, b := range raw[s+8 : s+88] {
			if b != 0 {
				windowZero = false
			}
		}
		if binary.BigEndian.Uint64(raw[s+88:s+96]) != 0 {
			consumedZero = false
		}
	}
	return prices, windowZero, consumedZero, nil
}

func c27Run(c c27Case, st *vstat.Stats) error {
	ctx := context.Background()

	// --- independent expectation -------------------------------------------------
	total := new(big.Int)
	perAddr := map[codec.Address]*big.Int{}
	dup := false
	zeroBal := false
	for _, a := range c.Allocs {
		addr := c27Addr(a.Addr)
		if _, ok := perAddr[addr]; ok {
			dup = true
		} else {
			perAddr[addr] = new(big.Int)
		}
		v := new(big.Int).SetUint64(a.Balance)
		perAddr[addr].Add(perAddr[addr], v)
		total.Add(total, v)
		if a.Balance == 0 {
			zeroBal = true
		}
	}
	overflow := total.Cmp(two64) >= 0
	near := total.Cmp(new(big.Int).Lsh(big.NewInt(1), 63)) >= 0 // within 2x of 2^64

	labels := []string{fmt.Sprintf("handler-%d", c.Handler)}
	if overflow {
		labels = append(labels, "total-overflows")
		if new(big.Int).Sub(total, two64).Sign() == 0 {
			labels = append(labels, "total==2^64")
		}
		distinctOverflow := true
		for _, s := range perAddr {
			if s.Cmp(two64) >= 0 {
				distinctOverflow = false
			}
		}
		if distinctOverflow {
			labels = append(labels, "overflow-only-across-addresses")
		}
	} else {
		labels = append(labels, "total-fits")
		if near {
			labels = append(labels, "total-fits>=2^63")
		}
		if new(big.Int).Add(total, big.NewInt(1)).Cmp(two64) == 0 {
			labels = append(labels, "total==2^64-1")
		}
	}
	if dup {
		labels = append(labels, "duplicate-address")
		if !overflow {
			labels = append(labels, "duplicate-address-fits")
		}
	}
	if zeroBal {
		labels = append(labels, "zero-balance-entry")
	}
	if len(c.Allocs) == 0 {
		labels = append(labels, "no-allocations")
	}
	if c.Meta != 0 {
		labels = append(labels, "custom-metadata-prefixes")
	}
	if c.MinPrice == [5]uint64{} {
		labels = append(labels, "all-min-prices-zero")
	}
	nt := dup || near
	raw, _ := json.Marshal(c)
	st.Case(nt, string(raw), labels...)
	st.Sample(nt, map[string]any{"allocs": c.Allocs, "minprice": c.MinPrice, "handler": c.Handler, "total": total.String(), "labels": labels})

	// --- the real path: JSON genesis -> Load -> NewGenesisCommit -> CommitToDB ----
	allocs := make([]*genesis.CustomAllocation, 0, len(c.Allocs))
	for _, a := range c.Allocs {
		allocs = append(allocs, &genesis.CustomAllocation{Address: c27Addr(a.Addr), Balance: a.Balance})
	}
	g := genesis.NewDefaultGenesis(allocs)
	g.StateBranchFactor = merkledb.BranchFactor(c.Branch)
	g.Rules.MinUnitPrice = fees.Dimensions(c.MinPrice)
	gbytes, err := json.Marshal(g)
	if err != nil {
		return fmt.Errorf("harness: marshal genesis: %w", err)
	}
	gen, rf, err := genesis.DefaultGenesisFactory{}.Load(gbytes, nil, testNetworkID, testChainID)
	if err != nil {
		return fmt.Errorf("loading a genesis produced by json.Marshal(DefaultGenesis) failed: %w", err)
	}
	db, err := newDB(gen.GetStateBranchFactor())
	if err != nil {
		return fmt.Errorf("harness: db: %w", err)
	}
	defer db.Close()
	mm := c.metadataManager()
	blk, view, err := chain.NewGenesisCommit(ctx, db, gen, mm, c.balanceHandler(), rf, trace.Noop, logging.NoLog{})
	if overflow {
		if err == nil {
			return fmt.Errorf("allocations total %s >= 2^64 but genesis was accepted (state root %s)", total, blk.GetStateRoot())
		}
		return nil
	}
	if err != nil {
		return fmt.Errorf("allocations total %s < 2^64 but genesis was rejected: %v", total, err)
	}
	if blk.GetHeight() != 0 {
		return fmt.Errorf("genesis block height %d, want 0", blk.GetHeight())
	}
	viewRoot, err := view.GetMerkleRoot(ctx)
	if err != nil {
		return err
	}
	if viewRoot != blk.GetStateRoot() {
		return fmt.Errorf("genesis view root %s != genesis block StateRoot %s", viewRoot, blk.GetStateRoot())
	}
	if err := view.CommitToDB(ctx); err != nil {
		return fmt.Errorf("committing the genesis view failed: %w", err)
	}
	dbRoot, err := db.GetMerkleRoot(ctx)
	if err != nil {
		return err
	}
	if dbRoot != blk.GetStateRoot() {
		return fmt.Errorf("database root after commit %s != genesis block StateRoot %s", dbRoot, blk.GetStateRoot())
	}
	got, err := dumpDB(db)
	if err != nil {
		return err
	}

	// --- compare the whole key space ---------------------------------------------
	mp := c27MetaPrefixes[c.Meta]
	heightKey, tsKey, feeKey := chunkKey(mp[0], 1), chunkKey(mp[1], 1), chunkKey(mp[2], 8)
	want := map[string][]byte{heightKey: be64(0), tsKey: be64(0)}
	optional := map[string]bool{} // an address whose allocations sum to 0 may have a key holding 0 or no key
	for addr, s := range perAddr {
		want[c.balanceKey(addr)] = be64(s.Uint64())
		if s.Sign() == 0 {
			optional[c.balanceKey(addr)] = true
		}
	}
	var problems []string
	for k, v := range got {
		if k == feeKey {
			continue
		}
		w, ok := want[k]
		switch {
		case !ok:
			problems = append(problems, fmt.Sprintf("unexpected key %x = %x", k, v))
		case !bytes.Equal(v, w):
			problems = append(problems, fmt.Sprintf("key %x = %x, want %x", k, v, w))
		}
	}
	for k, w := range want {
		if _, ok := got[k]; !ok && !optional[k] {
			problems = append(problems, fmt.Sprintf("missing key %x (want %x)", k, w))
		}
	}
	if fv, ok := got[feeKey]; !ok {
		problems = append(problems, fmt.Sprintf("missing fee key %x", feeKey))
	} else {
		prices, wz, cz, derr := decodeFeeState(fv)
		switch {
		case derr != nil:
			problems = append(problems, derr.Error())
		case prices != c.MinPrice:
			problems = append(problems, fmt.Sprintf("unit prices %v, want the minimum prices %v", prices, c.MinPrice))
		case !wz:
			problems = append(problems, "fee window not zero")
		case !cz:
			problems = append(problems, "fee last-consumed not zero")
		}
	}
	if len(problems) > 0 {
		sort.Strings(problems)
		return fmt.Errorf("genesis state differs from the configuration: %v", problems)
	}
	// the root must be the root of exactly this content
	rebuilt, err := rootOf(gen.GetStateBranchFactor(), got)
	if err != nil {
		return err
	}
	if rebuilt != blk.GetStateRoot() {
		return fmt.Errorf("genesis block StateRoot %s is not the root of the committed content %s", blk.GetStateRoot(), rebuilt)
	}
	return nil
}

func TestC27(t *testing.T) {
	st := vstat.New(t, "C27", "genesis = 0..12 allocations over an address pool of 1..12 (duplicates common), balances biased to 0/1/2^63/2^64-1 and to totals of exactly 2^64-1, 2^64 and 2^64-2, minimum price vectors over boundary values, state/balance PrefixBalanceHandler (3 prefixes) or MorpheusVM's handler, default or custom metadata prefixes, branch factor 16/256; run through json -> DefaultGenesisFactory.Load -> chain.NewGenesisCommit -> CommitToDB on an empty merkledb and compared key by key with the configuration; non-trivial = duplicate address or total >= 2^63; distinct by full case")
	st.Assumption("the state database is empty before genesis (vm.initGenesisAsLastAccepted runs only when no block was accepted)")
	st.Assumption("balance and metadata key layouts (prefix ‖ address ‖ be16 chunks; fee state layout) are taken from the documented layouts and built by hand")
	st.Assumption("an address whose allocations sum to 0 may be represented by a key holding 0 (what the code does) or by no key; both read as balance 0")
	st.Assumption("the fee manager's own last-timestamp field is not constrained by the property and is not compared")
	rapid.Check(t, func(rt *rapid.T) {
		c := c27Gen(rt)
		vstat.Run(rt, st, c, func() error { return c27Run(c, st) })
	})
}

func TestC27Replay(t *testing.T) {
	vstat.Replay(t, "C27", func(raw []byte) error {
		var c c27Case
		if err := json.Unmarshal(raw, &c); err != nil {
			return err
		}
		return c27Run(c, vstat.New(nil, "C27", ""))
	})
}
