package dsmr1

import (
	"github.com/ava-labs/avalanchego/ids"

	"github.com/ava-labs/hypersdk/utils"
)

// idOf is how dsmr derives a chunk id from its encoding (Chunk.init).
func idOf(b []byte) ids.ID { return utils.ToID(b) }
