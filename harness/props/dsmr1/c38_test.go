package dsmr1

import (
	"context"
	"encoding/binary"
	"encoding/json"
	"errors"
	"fmt"
	"math"
	"math/bits"
	"sort"
	"strings"
	"testing"

	"github.com/ava-labs/avalanchego/database"
	"github.com/ava-labs/avalanchego/database/memdb"
	"github.com/ava-labs/avalanchego/ids"
	"pgregory.net/rapid"

	"github.com/ava-labs/hypersdk/chain"
	"github.com/ava-labs/hypersdk/codec"
	ichain "github.com/ava-labs/hypersdk/internal/chain"
	"github.com/ava-labs/hypersdk/verifharness/vstat"
	"github.com/ava-labs/hypersdk/x/dsmr"
	"github.com/ava-labs/hypersdk/x/fdsmr"
)

// C38: fee bonds are released exactly once per bonded transaction.
//
// System under test: fdsmr.Node over a scripted in-memory DSMR (records what
// BuildChunk receives, returns the executed block the op list prescribes) and the
// real internal/chain.Bonder on memdb, maxima in a map-backed state.Mutable.
//
// Oracle (reference model written from the property text): per sponsor a set of
// bonded transactions with the fee each was bonded at. A transaction enters the set
// when it is submitted while not in it and pending+fee fits under the maximum
// (fee = size x rate, no 64-bit overflow anywhere); submitting it again while it is
// in the set changes nothing; it leaves the set when a block containing it is
// accepted or a block with a timestamp beyond its expiry is accepted. After every
// op the pending balance stored in the bonder's database must equal the sum of the
// fees in the set, a balance that grew during the op must be <= the maximum, the
// transactions handed to the inner DSMR must be exactly the ones the model bonds
// (Bond's return value), and after a final block that settles everything every
// balance must be 0.

const c38NumSponsors = 3

type c38TxSpec struct {
	Sponsor int   `json:"s"`
	Expiry  int64 `json:"e"`
	Pad     int   `json:"p"`
}

type c38Op struct {
	Kind string `json:"k"` // setmax | build | accept

	// setmax
	Sponsor int    `json:"sp,omitempty"`
	MaxKind string `json:"mk,omitempty"` // abs | fit  (fit: pending + fee(tx Ref at Rate) + Off)
	Max     uint64 `json:"max,omitempty"`
	Ref     int    `json:"ref,omitempty"`
	Off     int    `json:"off,omitempty"`

	// build
	Txs      []int  `json:"txs,omitempty"`
	RateKind string `json:"rk,omitempty"` // abs | maxdiv | maxdiv+1   (relative to the size of the first tx)
	Rate     uint64 `json:"rate,omitempty"`
	Expiry   int64  `json:"exp,omitempty"`
	DSMRErr  bool   `json:"derr,omitempty"`
	Fit      *int   `json:"fit,omitempty"` // first set the first tx's sponsor maximum to pending + fee + *Fit

	// accept
	Delta   int64 `json:"d,omitempty"`
	Deliver []int `json:"del,omitempty"` // positions in the list of built, undelivered chunks (mod len)
	Foreign []int `json:"for,omitempty"` // a chunk built elsewhere containing these txs
}

type c38Case struct {
	Txs []c38TxSpec `json:"txs"`
	Ops []c38Op     `json:"ops"`
}

// ---- collaborators -----------------------------------------------------------------

type c38Auth struct {
	addr codec.Address
	pad  []byte
}

func (c38Auth) GetTypeID() uint8                      { return 0 }
func (c38Auth) ValidRange(chain.Rules) (int64, int64) { return -1, -1 }
func (a c38Auth) Bytes() []byte                       { return append(append([]byte{}, a.addr[:]...), a.pad...) }
func (c38Auth) ComputeUnits(chain.Rules) uint64       { return 0 }
func (c38Auth) Verify(context.Context, []byte) error  { return nil }
func (a c38Auth) Actor() codec.Address                { return a.addr }
func (a c38Auth) Sponsor() codec.Address              { return a.addr }

func c38Addr(s int) codec.Address {
	var a codec.Address
	a[0] = 0x77
	a[1] = byte(s + 1)
	return a
}

func c38MakeTx(idx int, sp c38TxSpec) (*chain.Transaction, error) {
	pad := make([]byte, sp.Pad)
	for i := range pad {
		pad[i] = byte(idx)
	}
	// MaxFee = idx makes every tx of the universe a different transaction
	return chain.NewTransaction(chain.Base{Timestamp: sp.Expiry, ChainID: ids.Empty, MaxFee: uint64(idx)}, nil, c38Auth{addr: c38Addr(sp.Sponsor), pad: pad})
}

type c38State map[string][]byte

func (s c38State) GetValue(_ context.Context, k []byte) ([]byte, error) {
	v, ok := s[string(k)]
	if !ok {
		return nil, database.ErrNotFound
	}
	return v, nil
}
func (s c38State) Insert(_ context.Context, k, v []byte) error {
	s[string(k)] = append([]byte{}, v...)
	return nil
}
func (s c38State) Remove(_ context.Context, k []byte) error { delete(s, string(k)); return nil }

var errC38DSMR = errors.New("harness: scripted DSMR failure")

type c38DSMR struct {
	buildErr error
	gotTxs   []*chain.Transaction
	gotExp   int64
	gotBen   codec.Address
	calls    int

	acceptErr error
	executed  dsmr.ExecutedBlock[*chain.Transaction]
}

func (d *c38DSMR) BuildChunk(_ context.Context, txs []*chain.Transaction, expiry int64, ben codec.Address) error {
	d.calls++
	d.gotTxs, d.gotExp, d.gotBen = txs, expiry, ben
	return d.buildErr
}

func (d *c38DSMR) Accept(context.Context, dsmr.Block) (dsmr.ExecutedBlock[*chain.Transaction], error) {
	if d.acceptErr != nil {
		return dsmr.ExecutedBlock[*chain.Transaction]{}, d.acceptErr
	}
	return d.executed, nil
}

// ---- model -----------------------------------------------------------------------------

type c38Sponsor struct {
	max     uint64
	pending uint64
	bonded  map[int]uint64 // tx index -> fee it was bonded at
}

func mulOvf(a, b uint64) (uint64, bool) {
	hi, lo := bits.Mul64(a, b)
	return lo, hi != 0
}

func addOvf(a, b uint64) (uint64, bool) {
	s, c := bits.Add64(a, b, 0)
	return s, c != 0
}

const (
	c38Out    = 0 // Bond must return false
	c38In     = 1 // Bond must return true
	c38Either = 2 // resubmission of a bonded tx that would be refused if it were new: return value not constrained
)

// matchIncluded reports whether got can be obtained from the occurrences by keeping
// every c38In, dropping every c38Out and keeping or dropping each c38Either.
func c38Match(occ []int, want []int, got []int) bool {
	if len(occ) == 0 {
		return len(got) == 0
	}
	switch want[0] {
	case c38Out:
		return c38Match(occ[1:], want[1:], got)
	case c38In:
		return len(got) > 0 && got[0] == occ[0] && c38Match(occ[1:], want[1:], got[1:])
	default:
		if len(got) > 0 && got[0] == occ[0] && c38Match(occ[1:], want[1:], got[1:]) {
			return true
		}
		return c38Match(occ[1:], want[1:], got)
	}
}

func c38Run(c c38Case, st *vstat.Stats) error {
	if len(c.Txs) == 0 {
		st.Case(false, "", "empty")
		st.Sample(false, "empty")
		return nil
	}
	ctx := context.Background()
	n := len(c.Txs)
	sizes := make([]uint64, n)
	idOfTx := map[ids.ID]int{}
	for i, sp := range c.Txs {
		tx, err := c38MakeTx(i, sp)
		if err != nil {
			return fmt.Errorf("harness: tx %d: %w", i, err)
		}
		sizes[i] = uint64(tx.Size())
		if j, dup := idOfTx[tx.GetID()]; dup {
			return fmt.Errorf("harness: txs %d and %d share an id", i, j)
		}
		idOfTx[tx.GetID()] = i
		if tx.GetSponsor() != c38Addr(sp.Sponsor) || tx.GetExpiry() != sp.Expiry {
			return fmt.Errorf("harness: tx %d does not carry its sponsor/expiry", i)
		}
	}
	fresh := func(i int) *chain.Transaction { // a new object every time: identity is the id
		tx, _ := c38MakeTx(i, c.Txs[i])
		return tx
	}
	norm := func(i, m int) int {
		if i < 0 {
			i = -i
		}
		return i % m
	}

	db := memdb.NewWithSize(0)
	bonder := ichain.NewBonder(db)
	mutable := c38State{}
	inner := &c38DSMR{}
	node := fdsmr.New[*c38DSMR, *chain.Transaction](inner, bonder)

	model := make([]*c38Sponsor, c38NumSponsors)
	for s := range model {
		model[s] = &c38Sponsor{bonded: map[int]uint64{}}
	}
	readPending := func(s int) (uint64, error) {
		a := c38Addr(s)
		b, err := db.Get(a[:])
		if errors.Is(err, database.ErrNotFound) {
			return 0, nil
		}
		if err != nil {
			return 0, err
		}
		if len(b) != 8 {
			return 0, fmt.Errorf("pending balance record of sponsor %d has %d bytes", s, len(b))
		}
		return binary.BigEndian.Uint64(b), nil
	}
	checkBalances := func(when string, before [c38NumSponsors]uint64) error {
		for s, m := range model {
			got, err := readPending(s)
			if err != nil {
				return fmt.Errorf("%s: %w", when, err)
			}
			if got != m.pending {
				txs := make([]string, 0, len(m.bonded))
				for i, f := range m.bonded {
					txs = append(txs, fmt.Sprintf("tx%d:%d", i, f))
				}
				sort.Strings(txs)
				return fmt.Errorf("%s: pending bond of sponsor %d is %d, but its bonded, unsettled transactions are [%s] = %d", when, s, got, strings.Join(txs, " "), m.pending)
			}
			if got > before[s] && got > m.max {
				return fmt.Errorf("%s: pending bond of sponsor %d grew from %d to %d above its maximum %d", when, s, before[s], got, m.max)
			}
		}
		return nil
	}
	snapshot := func() (b [c38NumSponsors]uint64, err error) {
		for s := range model {
			if b[s], err = readPending(s); err != nil {
				return b, err
			}
		}
		return b, nil
	}

	type builtChunk struct{ txs []int }
	var built []builtChunk
	curTs := int64(0)
	everBonded := map[int]bool{}
	settledBy := map[int]string{} // last settlement kind of a tx
	var (
		dupInChunk, dupAcross, rebondAfterAccept, rebondAfterExpiry, refusedMax, refusedOvf   int
		loweredBelow, acceptReleased, expiryReleased, foreignAccept, dsmrBuildErr, boundaryEq int
		eitherCases, bondsOK, dsmrAcceptErr                                                   int
	)

	release := func(i int, kind string) {
		m := model[c.Txs[i].Sponsor]
		fee, ok := m.bonded[i]
		if !ok {
			return
		}
		delete(m.bonded, i)
		m.pending -= fee
		settledBy[i] = kind
		if kind == "accept" {
			acceptReleased++
		} else {
			expiryReleased++
		}
	}

	accept := func(when string, ts int64, chunks [][]int, fail bool) error {
		before, err := snapshot()
		if err != nil {
			return err
		}
		inner.acceptErr = nil
		if fail {
			inner.acceptErr = errC38DSMR
		}
		ex := dsmr.ExecutedBlock[*chain.Transaction]{BlockHeader: dsmr.BlockHeader{Timestamp: ts}}
		for _, ch := range chunks {
			txs := make([]*chain.Transaction, len(ch))
			for k, i := range ch {
				txs[k] = fresh(i)
			}
			ex.Chunks = append(ex.Chunks, dsmr.Chunk[*chain.Transaction]{UnsignedChunk: dsmr.UnsignedChunk[*chain.Transaction]{Txs: txs}})
		}
		inner.executed = ex
		_, err = node.Accept(ctx, dsmr.Block{BlockHeader: dsmr.BlockHeader{Timestamp: ts}})
		if fail {
			if !errors.Is(err, errC38DSMR) {
				return fmt.Errorf("%s: Accept returned %v although the inner DSMR failed", when, err)
			}
			dsmrAcceptErr++
			return checkBalances(when, before)
		}
		if err != nil {
			return fmt.Errorf("%s: Accept: %w", when, err)
		}
		for i := range c.Txs {
			if c.Txs[i].Expiry < ts {
				release(i, "expiry")
			}
		}
		for _, ch := range chunks {
			for _, i := range ch {
				release(i, "accept")
			}
		}
		return checkBalances(when, before)
	}

	for oi, op := range c.Ops {
		when := fmt.Sprintf("after op %d %s", oi, op.Kind)
		switch op.Kind {
		case "setmax":
			s := norm(op.Sponsor, c38NumSponsors)
			m := model[s]
			v := op.Max
			if op.MaxKind == "fit" {
				ref := norm(op.Ref, n)
				fee, ovf := mulOvf(sizes[ref], op.Rate)
				if ovf {
					fee = math.MaxUint64
				}
				sum, ovf := addOvf(m.pending, fee)
				if ovf {
					sum = math.MaxUint64
				}
				switch {
				case op.Off < 0 && sum > 0:
					sum--
				case op.Off > 0 && sum < math.MaxUint64:
					sum++
				}
				v = sum
			}
			before, err := snapshot()
			if err != nil {
				return err
			}
			if err := bonder.SetMaxBalance(ctx, mutable, c38Addr(s), v); err != nil {
				return fmt.Errorf("%s: SetMaxBalance: %w", when, err)
			}
			m.max = v
			if v < m.pending {
				loweredBelow++
			}
			if err := checkBalances(when, before); err != nil {
				return err
			}
		case "build":
			occ := make([]int, len(op.Txs))
			for k, i := range op.Txs {
				occ[k] = norm(i, n)
			}
			rate := op.Rate
			if len(occ) > 0 && op.RateKind != "" && op.RateKind != "abs" {
				rate = math.MaxUint64 / sizes[occ[0]]
				if op.RateKind == "maxdiv+1" && rate < math.MaxUint64 {
					rate++
				}
			}
			if op.Fit != nil && len(occ) > 0 {
				s0 := c.Txs[occ[0]].Sponsor
				m := model[s0]
				fee, ovf := mulOvf(sizes[occ[0]], rate)
				if ovf {
					fee = math.MaxUint64
				}
				v, ovf := addOvf(m.pending, fee)
				if ovf {
					v = math.MaxUint64
				}
				switch {
				case *op.Fit < 0 && v > 0:
					v--
				case *op.Fit > 0 && v < math.MaxUint64:
					v++
				}
				if err := bonder.SetMaxBalance(ctx, mutable, c38Addr(s0), v); err != nil {
					return fmt.Errorf("%s: SetMaxBalance: %w", when, err)
				}
				m.max = v
				if v < m.pending {
					loweredBelow++
				}
			}
			before, err := snapshot()
			if err != nil {
				return err
			}
			want := make([]int, len(occ))
			seenInOp := map[int]bool{}
			for k, i := range occ {
				m := model[c.Txs[i].Sponsor]
				fee, mo := mulOvf(sizes[i], rate)
				sum, ao := addOvf(m.pending, fee)
				if _, isBonded := m.bonded[i]; isBonded {
					if seenInOp[i] {
						dupInChunk++
					} else {
						dupAcross++
					}
					if mo || ao || sum > m.max {
						// a fresh evaluation (as if the tx were new) would refuse: whether a
						// resubmission is then let through on the strength of the existing bond
						// is not fixed by the property; only the balance is.
						want[k] = c38Either
						eitherCases++
					} else {
						want[k] = c38In
					}
					seenInOp[i] = true
					continue
				}
				seenInOp[i] = true
				switch {
				case mo || ao:
					want[k] = c38Out
					refusedOvf++
				case sum > m.max:
					want[k] = c38Out
					refusedMax++
				default:
					want[k] = c38In
					bondsOK++
					if sum == m.max && fee > 0 {
						boundaryEq++
					}
					if everBonded[i] {
						if settledBy[i] == "accept" {
							rebondAfterAccept++
						} else {
							rebondAfterExpiry++
						}
					}
					everBonded[i] = true
					m.bonded[i] = fee
					m.pending = sum
				}
			}
			txs := make([]*chain.Transaction, len(occ))
			for k, i := range occ {
				txs[k] = fresh(i)
			}
			inner.buildErr = nil
			if op.DSMRErr {
				inner.buildErr = errC38DSMR
				dsmrBuildErr++
			}
			calls := inner.calls
			ben := codec.Address{9, byte(oi)}
			err = node.BuildChunk(ctx, mutable, txs, op.Expiry, ben, rate)
			if op.DSMRErr {
				if !errors.Is(err, errC38DSMR) {
					return fmt.Errorf("%s: BuildChunk returned %v although the inner DSMR failed", when, err)
				}
			} else if err != nil {
				return fmt.Errorf("%s: BuildChunk: %w", when, err)
			}
			if inner.calls != calls+1 {
				return fmt.Errorf("%s: inner DSMR BuildChunk called %d times", when, inner.calls-calls)
			}
			got := make([]int, len(inner.gotTxs))
			for k, tx := range inner.gotTxs {
				i, ok := idOfTx[tx.GetID()]
				if !ok {
					return fmt.Errorf("%s: inner DSMR received an unknown transaction %s", when, tx.GetID())
				}
				got[k] = i
			}
			if !c38Match(occ, want, got) {
				return fmt.Errorf("%s (rate %d): submitted txs %v, model bonds %v (0 refuse, 1 bond, 2 either), inner DSMR received %v", when, rate, occ, want, got)
			}
			if inner.gotExp != op.Expiry || inner.gotBen != ben {
				return fmt.Errorf("%s: expiry/beneficiary not passed through", when)
			}
			if err := checkBalances(when, before); err != nil {
				return err
			}
			if !op.DSMRErr && len(got) > 0 {
				built = append(built, builtChunk{txs: got})
			}
		case "accept":
			if op.Delta < 0 {
				st.Skip("accept-time-backwards")
				continue
			}
			ts := curTs + op.Delta
			var chunks [][]int
			if len(built) > 0 {
				picked := map[int]bool{}
				for _, d := range op.Deliver {
					picked[norm(d, len(built))] = true
				}
				var rest []builtChunk
				for k, b := range built {
					if picked[k] {
						chunks = append(chunks, b.txs)
					} else {
						rest = append(rest, b)
					}
				}
				if !op.DSMRErr {
					built = rest
				}
			}
			if len(op.Foreign) > 0 {
				f := make([]int, len(op.Foreign))
				for k, i := range op.Foreign {
					f[k] = norm(i, n)
				}
				chunks = append(chunks, f)
				foreignAccept++
			}
			if err := accept(when, ts, chunks, op.DSMRErr); err != nil {
				return err
			}
			if !op.DSMRErr {
				curTs = ts
			}
		default:
			return fmt.Errorf("harness: unknown op %q", op.Kind)
		}
	}

	// settle everything: one block beyond every expiry
	last := curTs
	for _, sp := range c.Txs {
		if sp.Expiry > last {
			last = sp.Expiry
		}
	}
	if err := accept("after the final settling block", last+1, nil, false); err != nil {
		return err
	}
	for s, m := range model {
		if len(m.bonded) != 0 || m.pending != 0 {
			return fmt.Errorf("harness: model of sponsor %d not settled", s)
		}
		got, err := readPending(s)
		if err != nil {
			return err
		}
		if got != 0 {
			return fmt.Errorf("all transactions settled but sponsor %d still has pending bond %d", s, got)
		}
	}

	nt := dupInChunk+dupAcross > 0
	labels := []string{}
	add := func(cond bool, l string) {
		if cond {
			labels = append(labels, l)
		}
	}
	add(dupInChunk > 0, "resubmit-in-same-chunk")
	add(dupAcross > 0, "resubmit-in-later-chunk")
	add(rebondAfterAccept > 0, "rebond-after-accept")
	add(rebondAfterExpiry > 0, "rebond-after-expiry")
	add(refusedMax > 0, "refused-over-max")
	add(refusedOvf > 0, "refused-overflow")
	add(boundaryEq > 0, "bond-exactly-at-max")
	add(loweredBelow > 0, "max-lowered-below-pending")
	add(acceptReleased > 0, "released-by-accept")
	add(expiryReleased > 0, "released-by-expiry")
	add(foreignAccept > 0, "foreign-chunk")
	add(dsmrBuildErr > 0, "dsmr-build-error")
	add(dsmrAcceptErr > 0, "dsmr-accept-error")
	add(eitherCases > 0, "unconstrained-resubmit")
	add(bondsOK > 0, "some-bond")
	raw, _ := json.Marshal(c)
	st.Case(nt, string(raw), labels...)
	st.Sample(nt, map[string]any{"txs": len(c.Txs), "ops": c38OpsString(c.Ops), "labels": strings.Join(labels, ",")})
	return nil
}

func c38OpsString(ops []c38Op) string {
	var sb strings.Builder
	for i, op := range ops {
		if i > 0 {
			sb.WriteByte(' ')
		}
		switch op.Kind {
		case "setmax":
			if op.MaxKind == "fit" {
				fmt.Fprintf(&sb, "setmax(s%d,fit tx%d@%d%+d)", op.Sponsor, op.Ref, op.Rate, op.Off)
			} else {
				fmt.Fprintf(&sb, "setmax(s%d,%d)", op.Sponsor, op.Max)
			}
		case "build":
			r := fmt.Sprint(op.Rate)
			if op.RateKind != "" && op.RateKind != "abs" {
				r = op.RateKind
			}
			if op.Fit != nil {
				r += fmt.Sprintf(",max=pending+fee%+d", *op.Fit)
			}
			fmt.Fprintf(&sb, "build(%v@%s)", op.Txs, r)
		case "accept":
			fmt.Fprintf(&sb, "accept(+%d,%v,foreign %v)", op.Delta, op.Deliver, op.Foreign)
		}
	}
	return sb.String()
}

// ---- generator -------------------------------------------------------------------------

func c38Gen(rt *rapid.T) c38Case {
	var c c38Case
	n := rapid.IntRange(1, 6).Draw(rt, "ntx")
	for i := 0; i < n; i++ {
		c.Txs = append(c.Txs, c38TxSpec{
			Sponsor: rapid.IntRange(0, c38NumSponsors-1).Draw(rt, "sponsor"),
			Expiry:  rapid.OneOf(rapid.Int64Range(6, 40), rapid.Int64Range(0, 12)).Draw(rt, "expiry"),
			Pad:     rapid.SampledFrom([]int{0, 0, 1, 7, 40}).Draw(rt, "pad"),
		})
	}
	smallRate := rapid.SampledFrom([]uint64{0, 1, 1, 2, 2, 3, 7})
	absMax := rapid.OneOf(
		rapid.SampledFrom([]uint64{100000, 100000, math.MaxUint64, math.MaxUint64 - 1, 1 << 63}),
		rapid.SampledFrom([]uint64{100000, 100000, math.MaxUint64, math.MaxUint64 - 1, 1 << 63}),
		rapid.Uint64Range(0, 1500),
		rapid.SampledFrom([]uint64{0, 1}),
	)
	// initial maxima (a sponsor without one can bond nothing but zero fees)
	for s := 0; s < c38NumSponsors; s++ {
		if rapid.IntRange(0, 4).Draw(rt, "hasinitmax") > 0 {
			c.Ops = append(c.Ops, c38Op{Kind: "setmax", Sponsor: s, MaxKind: "abs", Max: absMax.Draw(rt, "initmax")})
		}
	}
	nops := rapid.IntRange(1, 14).Draw(rt, "nops")
	for i := 0; i < nops; i++ {
		kind := rapid.SampledFrom([]string{"setmax", "build", "build", "build", "build", "accept", "accept", "accept"}).Draw(rt, "kind")
		op := c38Op{Kind: kind}
		switch kind {
		case "setmax":
			op.Sponsor = rapid.IntRange(0, c38NumSponsors-1).Draw(rt, "sponsor")
			op.MaxKind = rapid.SampledFrom([]string{"abs", "abs", "fit"}).Draw(rt, "maxkind")
			if op.MaxKind == "abs" {
				op.Max = absMax.Draw(rt, "max")
			} else {
				op.Ref = rapid.IntRange(0, n-1).Draw(rt, "ref")
				op.Rate = smallRate.Draw(rt, "fitrate")
				op.Off = rapid.IntRange(-1, 1).Draw(rt, "off")
			}
		case "build":
			op.Txs = rapid.OneOf(
				rapid.SliceOfN(rapid.IntRange(0, n-1), 1, 5),
				rapid.SliceOfN(rapid.IntRange(0, n-1), 1, 2),
				rapid.SliceOfN(rapid.IntRange(0, n-1), 0, 1),
			).Draw(rt, "txs")
			op.RateKind = rapid.SampledFrom([]string{"abs", "abs", "abs", "abs", "abs", "abs", "abs", "abs", "abs", "abs", "abs", "abs", "abs", "maxdiv", "maxdiv+1"}).Draw(rt, "ratekind")
			if op.RateKind == "abs" {
				op.Rate = rapid.OneOf(smallRate, smallRate, smallRate, smallRate, smallRate, rapid.SampledFrom([]uint64{math.MaxUint64, 1 << 60})).Draw(rt, "rate")
			}
			op.Expiry = rapid.Int64Range(0, 30).Draw(rt, "chunkexpiry")
			op.DSMRErr = rapid.IntRange(0, 11).Draw(rt, "derr") == 0
			if rapid.IntRange(0, 3).Draw(rt, "hasfit") == 0 {
				f := rapid.IntRange(-1, 1).Draw(rt, "fit")
				op.Fit = &f
			}
		case "accept":
			op.Delta = rapid.OneOf(rapid.Int64Range(1, 3), rapid.Int64Range(1, 3), rapid.Int64Range(0, 10)).Draw(rt, "delta")
			op.Deliver = rapid.OneOf(rapid.SliceOfN(rapid.IntRange(0, 5), 1, 3), rapid.SliceOfN(rapid.IntRange(0, 5), 0, 1)).Draw(rt, "deliver")
			if rapid.IntRange(0, 3).Draw(rt, "hasforeign") == 0 {
				op.Foreign = rapid.SliceOfN(rapid.IntRange(0, n-1), 1, 3).Draw(rt, "foreign")
			}
			op.DSMRErr = rapid.IntRange(0, 14).Draw(rt, "aerr") == 0
		}
		c.Ops = append(c.Ops, op)
	}
	return c
}

func TestC38(t *testing.T) {
	st := vstat.New(t, "C38", "op lists (set max balance incl. values fitted to pending+fee+-1, build chunk with repeated txs and rates incl. the 64-bit overflow boundary, accept block delivering built and foreign chunks with advancing timestamps, scripted DSMR failures) over 1..6 real chain.Transactions of 3 sponsors on fdsmr.Node + the real Bonder, compared with a set-of-bonded-transactions model after every op and after a final settling block; non-trivial = a transaction is submitted again while its bond is still outstanding; distinct by the full case")
	st.Assumption("pending bond is read from the bonder's memdb record keyed by the sponsor address (the Bonder has no accessor)")
	st.Assumption("resubmitting a transaction whose bond is outstanding must not change the balance; Bond must return true for it when it would also be accepted as a new transaction, otherwise its return value is left unconstrained")
	rapid.Check(t, func(rt *rapid.T) {
		c := c38Gen(rt)
		vstat.Run(rt, st, c, func() error { return c38Run(c, st) })
	})
}

func TestC38Replay(t *testing.T) {
	vstat.Replay(t, "C38", func(raw []byte) error {
		var c c38Case
		if err := json.Unmarshal(raw, &c); err != nil {
			return err
		}
		return c38Run(c, vstat.New(nil, "C38", ""))
	})
}
