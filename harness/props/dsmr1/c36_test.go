package dsmr1

import (
	"context"
	"encoding/json"
	"errors"
	"fmt"
	"sort"
	"strings"
	"sync"
	"testing"

	"github.com/ava-labs/avalanchego/database"
	"github.com/ava-labs/avalanchego/database/memdb"
	"github.com/ava-labs/avalanchego/ids"
	"github.com/ava-labs/avalanchego/utils/wrappers"
	"github.com/ava-labs/avalanchego/vms/platformvm/warp"
	"pgregory.net/rapid"

	"github.com/ava-labs/hypersdk/codec"
	"github.com/ava-labs/hypersdk/consts"
	"github.com/ava-labs/hypersdk/internal/validitywindow"
	"github.com/ava-labs/hypersdk/verifharness/vstat"
	"github.com/ava-labs/hypersdk/x/dsmr"
	"github.com/ava-labs/hypersdk/x/dsmr/dsmrtest"
)

// C36: reopening ChunkStorage on the same database is unobservable.
//
// Oracle (metamorphic, twin run): the same op list is executed on two storages,
// A (own memdb, never reopened) and B (own memdb, reopened with a brand-new
// verifier wherever the op list says "reopen" and once more at the end). After
// every op both are observed through the exported API only and must agree on
//   - the result of every op (error class),
//   - GetChunkBytes(expiry, id) for every chunk of the case (accepted or pending),
//   - which chunks are *pending* (GetChunkBytes with a wrong expiry answers only
//     from the pending set; the accepted lookup is keyed by expiry),
//   - the exact pending weight of every producer (read off CheckRateLimit by
//     moving the rule's weight limit, which the harness owns),
//   - the minimum expiry the storage has handed to its verifier (read off the
//     real dsmr.ChunkVerifier: smallest expiry it does not reject as expired)
//     and, when the verif-tagged accessor MinimumExpiry() exists, the stored one.
// Certificates are documented as not persisted; B's gathered certificates must
// be exactly those of A that were (re)set since B's last reopen.

const (
	c36FindingMin   = "C36-verifier-min-not-restored"
	c36NumProducers = 3
	c36WrongExpiry  = int64(1) << 40
)

type c36ChunkSpec struct {
	Producer int   `json:"p"`
	Expiry   int64 `json:"e"`
	NTx      int   `json:"n"`
}

type c36Op struct {
	Kind  string `json:"k"`           // local | remote | cert | setmin | reopen
	Chunk int    `json:"c,omitempty"` // index into Chunks (mod len)
	Cert  bool   `json:"cert,omitempty"`
	Bad   bool   `json:"bad,omitempty"` // cert op: certificate the verifier rejects
	Delta int64  `json:"d,omitempty"`   // setmin: new min = current min + Delta
	Save  []int  `json:"s,omitempty"`   // setmin: positions in the sorted pending list (mod len)
}

type c36Case struct {
	Window int64          `json:"window"`
	Limit  uint64         `json:"limit"`
	Chunks []c36ChunkSpec `json:"chunks"`
	Ops    []c36Op        `json:"ops"`
}

// ---- harness-owned collaborators -------------------------------------------------

type c36Rules struct {
	window int64
	limit  *uint64
}

func (r c36Rules) GetValidityWindow() int64                     { return r.window }
func (r c36Rules) GetMaxAccumulatedProducerChunkWeight() uint64 { return *r.limit }
func (r c36Rules) GetRules(int64) dsmr.Rules                    { return r }

type c36ChainState struct{ producers map[ids.NodeID]bool }

func (c36ChainState) GetNetworkID() uint32 { return 1 }
func (c36ChainState) GetSubnetID() ids.ID  { return ids.Empty }
func (c36ChainState) GetChainID() ids.ID   { return ids.Empty }
func (c36ChainState) GetCanonicalValidatorSet(context.Context) (warp.CanonicalValidatorSet, error) {
	return warp.CanonicalValidatorSet{}, nil
}
func (c c36ChainState) IsNodeValidator(_ context.Context, n ids.NodeID, _ uint64) (bool, error) {
	return c.producers[n], nil
}
func (c36ChainState) GetQuorumNum() uint64 { return 1 }
func (c36ChainState) GetQuorumDen() uint64 { return 1 }

// c36Verifier is the storage's verifier: the real dsmr.ChunkVerifier decides
// expiry window and producer membership and keeps the minimum; BLS signatures
// are out of scope (chunks are unsigned like in x/dsmr/storage_test.go), so a
// failure that is not one of the timestamp / membership errors is ignored.
type c36Verifier struct {
	real *dsmr.ChunkVerifier[dsmrtest.Tx]
}

func (v *c36Verifier) SetMin(m int64) { v.real.SetMin(m) }

func (v *c36Verifier) Verify(c dsmr.Chunk[dsmrtest.Tx]) error {
	err := v.real.Verify(c)
	switch {
	case err == nil:
		return nil
	case errors.Is(err, validitywindow.ErrTimestampExpired),
		errors.Is(err, validitywindow.ErrFutureTimestamp),
		errors.Is(err, validitywindow.ErrMisalignedTime),
		errors.Is(err, dsmr.ErrChunkProducerNotValidator):
		return err
	}
	return nil
}

var errC36BadCert = errors.New("harness: rejected certificate")

func (*c36Verifier) VerifyCertificate(_ context.Context, cert *dsmr.ChunkCertificate) error {
	if cert.Signature != nil && len(cert.Signature.Signers) == 1 && cert.Signature.Signers[0] == 0xff {
		return errC36BadCert
	}
	return nil
}

// ---- chunk construction (exported API only: marshal the exported fields, ParseChunk) --

func c36NodeID(p int) ids.NodeID { return ids.NodeID{0xA0, byte(p)} }

// c36MakeChunk builds a chunk the way an outside caller can: encode the exported
// fields with the linear codec and ParseChunk the result (which sets id/bytes).
// Every parsed chunk pins a 250 KiB buffer (Chunk.init), which makes parsing the
// dominant cost of a case; parsed chunks are therefore memoised (chunks are
// immutable values; the key space is 3 producers x 31 expiries x 4 sizes x salt,
// salt = ordinal among identical specs of one case, so ~100 MB at most).
type c36Parsed struct {
	c   dsmr.Chunk[dsmrtest.Tx]
	raw []byte
}

var (
	c36ChunkCache   = map[[4]int64]c36Parsed{}
	c36ChunkCacheMu sync.Mutex
)

func c36MakeChunk(producer int, expiry int64, ntx int, salt byte) (dsmr.Chunk[dsmrtest.Tx], []byte, error) {
	key := [4]int64{int64(producer), expiry, int64(ntx), int64(salt)}
	c36ChunkCacheMu.Lock()
	defer c36ChunkCacheMu.Unlock()
	if e, ok := c36ChunkCache[key]; ok {
		return e.c, e.raw, nil
	}
	txs := make([]dsmrtest.Tx, ntx)
	for i := range txs {
		txs[i] = dsmrtest.Tx{ID: ids.ID{salt, byte(i), byte(producer)}, Expiry: 1_000_000}
	}
	raw := dsmr.Chunk[dsmrtest.Tx]{
		UnsignedChunk: dsmr.UnsignedChunk[dsmrtest.Tx]{
			Producer: c36NodeID(producer),
			Expiry:   expiry,
			Txs:      txs,
		},
	}
	p := wrappers.Packer{Bytes: make([]byte, 0, 512), MaxSize: consts.NetworkSizeLimit}
	if err := codec.LinearCodec.MarshalInto(&raw, &p); err != nil {
		return raw, nil, err
	}
	c, err := dsmr.ParseChunk[dsmrtest.Tx](p.Bytes)
	if err == nil && len(c36ChunkCache) < 600 {
		c36ChunkCache[key] = c36Parsed{c, p.Bytes}
	}
	return c, p.Bytes, err
}

// The probe: one parsed chunk whose exported Producer / Expiry fields are
// overwritten on a copy. CheckRateLimit reads only len(bytes), Producer and
// Expiry; ChunkVerifier.Verify reads Expiry and Producer before the signature.
var (
	c36ProbeOnce sync.Once
	c36Probe     dsmr.Chunk[dsmrtest.Tx]
	c36ProbeLen  uint64
	c36ProbeErr  error
)

func c36GetProbe() (dsmr.Chunk[dsmrtest.Tx], uint64, error) {
	c36ProbeOnce.Do(func() {
		var b []byte
		c36Probe, b, c36ProbeErr = c36MakeChunk(0, 1, 1, 0xEF)
		c36ProbeLen = uint64(len(b))
	})
	return c36Probe, c36ProbeLen, c36ProbeErr
}

// chunk id and bytes are unexported; they are recovered from the public side:
// id through a ChunkReference is not available either, so the harness computes
// them the way every caller does: bytes = linear-codec encoding, id = hash.
type c36Chunk struct {
	spec  c36ChunkSpec
	c     dsmr.Chunk[dsmrtest.Tx]
	id    ids.ID
	bytes []byte
	cert  *dsmr.ChunkCertificate
	bad   *dsmr.ChunkCertificate
}

// ---- one storage instance -----------------------------------------------------------

type c36Inst struct {
	name    string
	db      database.Database
	limit   *uint64
	rules   c36Rules
	cs      c36ChainState
	ver     *c36Verifier
	st      *dsmr.ChunkStorage[dsmrtest.Tx]
	caseLim uint64
}

// open (re)creates the storage on the instance's database. A restart normally
// comes with a brand-new verifier; keepVerifier (only while the finding
// C36-verifier-min-not-restored is registered as known) keeps the old one, which
// removes exactly the class "the new verifier was never told the persisted minimum".
func (in *c36Inst) open(keepVerifier bool) error {
	if in.ver == nil || !keepVerifier {
		in.ver = &c36Verifier{real: dsmr.NewChunkVerifier[dsmrtest.Tx](in.cs, in.rules)}
	}
	st, err := dsmr.NewChunkStorage[dsmrtest.Tx](in.ver, in.db, in.rules)
	if err != nil {
		return fmt.Errorf("%s: NewChunkStorage: %w", in.name, err)
	}
	in.st = st
	return nil
}

func c36NewInst(name string, c c36Case, cs c36ChainState) (*c36Inst, error) {
	lim := c.Limit
	in := &c36Inst{name: name, db: memdb.NewWithSize(0), limit: &lim, cs: cs, caseLim: c.Limit}
	in.rules = c36Rules{window: c.Window, limit: in.limit}
	return in, in.open(false)
}

func c36ErrClass(err error) string {
	switch {
	case err == nil:
		return "ok"
	case errors.Is(err, dsmr.ErrChunkRateLimitSurpassed):
		return "ratelimit"
	case errors.Is(err, validitywindow.ErrTimestampExpired):
		return "expired"
	case errors.Is(err, validitywindow.ErrFutureTimestamp):
		return "future"
	case errors.Is(err, errC36BadCert):
		return "badcert"
	case errors.Is(err, database.ErrNotFound):
		return "notfound"
	case strings.Contains(err.Error(), "non-existent chunk"):
		return "nochunk"
	}
	return "err:" + err.Error()
}

// weight returns the exact pending weight the storage accounts to producer p.
func (in *c36Inst) weight(p int) (uint64, error) {
	probe, probeLen, err := c36GetProbe()
	if err != nil {
		return 0, err
	}
	probe.Producer = c36NodeID(p)
	defer func() { *in.limit = in.caseLim }()
	lo, hi := uint64(0), uint64(1)<<40 // W in [lo, hi]
	*in.limit = probeLen + hi
	if in.st.CheckRateLimit(probe) != nil {
		return ^uint64(0), nil
	}
	for lo < hi {
		mid := lo + (hi-lo)/2
		*in.limit = probeLen + mid
		if in.st.CheckRateLimit(probe) == nil { // probeLen + W <= probeLen + mid
			hi = mid
		} else {
			lo = mid + 1
		}
	}
	return lo, nil
}

// verifierMin returns the smallest expiry in [0, hi] the real ChunkVerifier does
// not reject as expired, i.e. the minimum it currently holds (clamped to hi+1).
func (in *c36Inst) verifierMin(hi int64) (int64, error) {
	probe, _, err := c36GetProbe()
	if err != nil {
		return 0, err
	}
	lo, h := int64(0), hi+1
	for lo < h {
		mid := lo + (h-lo)/2
		probe.Expiry = mid
		if errors.Is(in.ver.real.Verify(probe), validitywindow.ErrTimestampExpired) { // mid < min
			lo = mid + 1
		} else {
			h = mid
		}
	}
	return lo, nil
}

type c36Obs struct {
	bytes   []string // per chunk: "ok" | "notfound" | "WRONG-BYTES" | err
	pending []bool
	weight  [c36NumProducers]uint64
	vmin    int64
	smin    int64 // stored minimum (accessor hook), -1 if unavailable
	certs   map[ids.ID]*dsmr.ChunkCertificate
}

func (in *c36Inst) observe(chunks []*c36Chunk, hiMin int64) (c36Obs, error) {
	o := c36Obs{smin: -1, certs: map[ids.ID]*dsmr.ChunkCertificate{}}
	for _, ch := range chunks {
		b, err := in.st.GetChunkBytes(ch.spec.Expiry, ch.id)
		cl := c36ErrClass(err)
		if err == nil && string(b) != string(ch.bytes) {
			cl = "WRONG-BYTES"
		}
		o.bytes = append(o.bytes, cl)
		_, err = in.st.GetChunkBytes(ch.spec.Expiry+c36WrongExpiry, ch.id)
		o.pending = append(o.pending, err == nil)
	}
	var err error
	for p := 0; p < c36NumProducers; p++ {
		if o.weight[p], err = in.weight(p); err != nil {
			return o, err
		}
	}
	if o.vmin, err = in.verifierMin(hiMin); err != nil {
		return o, err
	}
	// optional verif-tagged accessor (fixes/H-dsmr-minexpiry.diff); absent => -1 on both sides
	if acc, ok := any(in.st).(interface{ MinimumExpiry() int64 }); ok {
		o.smin = acc.MinimumExpiry()
	}
	for _, cert := range in.st.GatherChunkCerts() {
		if cert == nil {
			return o, fmt.Errorf("%s: GatherChunkCerts returned a nil certificate", in.name)
		}
		if _, dup := o.certs[cert.ChunkID]; dup {
			return o, fmt.Errorf("%s: GatherChunkCerts returned chunk %s twice", in.name, cert.ChunkID)
		}
		o.certs[cert.ChunkID] = cert
	}
	return o, nil
}

// ---- the run ---------------------------------------------------------------------------

func c36Run(c c36Case, st *vstat.Stats) error {
	if len(c.Chunks) == 0 {
		st.Case(false, "", "empty")
		st.Sample(false, "empty")
		return nil
	}
	cs := c36ChainState{producers: map[ids.NodeID]bool{}}
	for p := 0; p < c36NumProducers; p++ {
		cs.producers[c36NodeID(p)] = true
	}
	chunks := make([]*c36Chunk, len(c.Chunks))
	for i, sp := range c.Chunks {
		salt := byte(1)
		for _, prev := range c.Chunks[:i] {
			if prev == sp {
				salt++
			}
		}
		ch, raw, err := c36MakeChunk(sp.Producer, sp.Expiry, sp.NTx, salt)
		if err != nil {
			return fmt.Errorf("harness: chunk %d: %w", i, err)
		}
		id := idOf(raw)
		ref := dsmr.ChunkReference{ChunkID: id, Producer: ch.Producer, Expiry: ch.Expiry}
		chunks[i] = &c36Chunk{
			spec: sp, c: ch, id: id, bytes: raw,
			cert: &dsmr.ChunkCertificate{ChunkReference: ref, Signature: &warp.BitSetSignature{}},
			bad:  &dsmr.ChunkCertificate{ChunkReference: ref, Signature: &warp.BitSetSignature{Signers: []byte{0xff}}},
		}
	}

	a, err := c36NewInst("A(no reopen)", c, cs)
	if err != nil {
		return err
	}
	b, err := c36NewInst("B(reopened)", c, cs)
	if err != nil {
		return err
	}

	// harness bookkeeping: drives op applicability and labels only.
	pending := map[int]bool{}
	accepted := map[int]bool{}
	certFresh := map[ids.ID]bool{} // B's cert for the chunk was set since B's last reopen
	curMin := int64(0)
	var (
		reopens, savedUnexpired, expiredSome, rateLimited, remoteRejected, readdAccepted int
		ntReopen, reopenWithPending, reopenSavedStillLive, minExcluded                   bool
	)
	hiMin := int64(8)
	for _, op := range c.Ops {
		hiMin += op.Delta
	}

	compare := func(when string) error {
		oa, err := a.observe(chunks, hiMin)
		if err != nil {
			return err
		}
		ob, err := b.observe(chunks, hiMin)
		if err != nil {
			return err
		}
		for i := range chunks {
			if oa.bytes[i] != ob.bytes[i] {
				return fmt.Errorf("%s: GetChunkBytes(chunk %d %+v): without reopen %q, with reopen %q", when, i, chunks[i].spec, oa.bytes[i], ob.bytes[i])
			}
			if oa.pending[i] != ob.pending[i] {
				return fmt.Errorf("%s: chunk %d %+v pending without reopen = %v, with reopen = %v (GetChunkBytes with a foreign expiry answers only for pending chunks)", when, i, chunks[i].spec, oa.pending[i], ob.pending[i])
			}
		}
		for p := 0; p < c36NumProducers; p++ {
			if oa.weight[p] != ob.weight[p] {
				return fmt.Errorf("%s: pending weight of producer %d: without reopen %d, with reopen %d (CheckRateLimit)", when, p, oa.weight[p], ob.weight[p])
			}
		}
		if oa.smin != ob.smin {
			return fmt.Errorf("%s: stored minimum expiry: without reopen %d, with reopen %d (MinimumExpiry accessor)", when, oa.smin, ob.smin)
		}
		if oa.vmin != ob.vmin {
			return fmt.Errorf("%s: minimum expiry enforced by the storage's ChunkVerifier: without reopen %d, with reopen %d (smallest expiry the real ChunkVerifier does not reject as expired; the verifier of a reopened storage must have been told the persisted minimum)", when, oa.vmin, ob.vmin)
		}
		for id, cert := range ob.certs {
			if oa.certs[id] != cert {
				return fmt.Errorf("%s: reopened storage gathers a certificate for chunk %s that the other does not hold", when, id)
			}
		}
		for id, cert := range oa.certs {
			if certFresh[id] && ob.certs[id] != cert {
				return fmt.Errorf("%s: certificate of chunk %s set after the last reopen is missing from the reopened storage", when, id)
			}
			if !certFresh[id] && ob.certs[id] != nil {
				return fmt.Errorf("%s: reopened storage holds a certificate for chunk %s that was not set since the reopen", when, id)
			}
		}
		return nil
	}

	reopen := func(when string) error {
		if err := b.open(st.Known(c36FindingMin)); err != nil {
			return err
		}
		if st.Known(c36FindingMin) && curMin > 0 && !minExcluded {
			st.Exclude(c36FindingMin)
			minExcluded = true
		}
		reopens++
		certFresh = map[ids.ID]bool{}
		if savedUnexpired > 0 {
			ntReopen = true
		}
		if len(pending) > 0 {
			reopenWithPending = true
		}
		for i := range accepted {
			if chunks[i].spec.Expiry >= curMin {
				reopenSavedStillLive = true
			}
		}
		return compare(when)
	}

	both := func(f func(in *c36Inst) error) (string, string) {
		return c36ErrClass(f(a)), c36ErrClass(f(b))
	}

	for i, op := range c.Ops {
		when := fmt.Sprintf("after op %d %s", i, op.Kind)
		ci := op.Chunk % len(chunks)
		if ci < 0 {
			ci = -ci
		}
		ch := chunks[ci]
		switch op.Kind {
		case "local":
			var cert *dsmr.ChunkCertificate
			if op.Cert {
				cert = ch.cert
			}
			// as Node.BuildChunk: CheckRateLimit, then AddLocalChunkWithCert
			ra, rb := both(func(in *c36Inst) error {
				if err := in.st.CheckRateLimit(ch.c); err != nil {
					return err
				}
				return in.st.AddLocalChunkWithCert(ch.c, cert)
			})
			if ra != rb {
				return fmt.Errorf("%s chunk %d: without reopen %q, with reopen %q", when, ci, ra, rb)
			}
			switch ra {
			case "ok":
				if accepted[ci] && !pending[ci] {
					readdAccepted++
				}
				pending[ci] = true
				if cert != nil {
					certFresh[ch.id] = true
				}
			case "ratelimit":
				rateLimited++
			default:
				return fmt.Errorf("%s chunk %d: unexpected result %q", when, ci, ra)
			}
		case "remote":
			if pending[ci] {
				// VerifyRemoteChunk on a pending chunk returns Cert.Signature and
				// dereferences a nil Cert when none is set: not part of this property.
				st.Skip("remote-on-pending")
				continue
			}
			// as ChunkSignatureRequestVerifier.Verify: (verifier.Verify,) CheckRateLimit, VerifyRemoteChunk
			ra, rb := both(func(in *c36Inst) error {
				if err := in.ver.Verify(ch.c); err != nil {
					return err
				}
				if err := in.st.CheckRateLimit(ch.c); err != nil {
					return err
				}
				_, err := in.st.VerifyRemoteChunk(ch.c)
				return err
			})
			if ra != rb {
				return fmt.Errorf("%s chunk %d %+v: without reopen %q, with reopen %q", when, ci, ch.spec, ra, rb)
			}
			switch ra {
			case "ok":
				if accepted[ci] {
					readdAccepted++
				}
				pending[ci] = true
			case "ratelimit":
				rateLimited++
			case "expired", "future":
				remoteRejected++
			default:
				return fmt.Errorf("%s chunk %d: unexpected result %q", when, ci, ra)
			}
		case "cert":
			cert := ch.cert
			if op.Bad {
				cert = ch.bad
			}
			ra, rb := both(func(in *c36Inst) error {
				return in.st.SetChunkCert(context.Background(), ch.id, cert)
			})
			if ra != rb {
				return fmt.Errorf("%s chunk %d: without reopen %q, with reopen %q", when, ci, ra, rb)
			}
			if ra == "ok" {
				certFresh[ch.id] = true
			}
		case "setmin":
			if op.Delta < 1 {
				st.Skip("setmin-nonincreasing")
				continue
			}
			t := curMin + op.Delta
			pl := make([]int, 0, len(pending))
			for k := range pending {
				pl = append(pl, k)
			}
			sort.Ints(pl)
			var save []ids.ID
			saveIdx := map[int]bool{}
			if len(pl) > 0 {
				for _, s := range op.Save {
					if s < 0 {
						s = -s
					}
					k := pl[s%len(pl)]
					if !saveIdx[k] {
						saveIdx[k] = true
						save = append(save, chunks[k].id)
					}
				}
			}
			ra, rb := both(func(in *c36Inst) error { return in.st.SetMin(t, save) })
			if ra != rb {
				return fmt.Errorf("%s(%d, save %v): without reopen %q, with reopen %q", when, t, keysOf(saveIdx), ra, rb)
			}
			if ra != "ok" {
				return fmt.Errorf("%s(%d, save %v) of pending chunks failed: %s", when, t, keysOf(saveIdx), ra)
			}
			curMin = t
			for k := range saveIdx {
				delete(pending, k)
				accepted[k] = true
				if chunks[k].spec.Expiry >= t {
					savedUnexpired++
				}
			}
			for _, k := range pl {
				if pending[k] && chunks[k].spec.Expiry != 0 && chunks[k].spec.Expiry < t {
					delete(pending, k)
					expiredSome++
				}
			}
		case "reopen":
			if err := reopen(when); err != nil {
				return err
			}
			continue
		default:
			return fmt.Errorf("harness: unknown op %q", op.Kind)
		}
		if err := compare(when); err != nil {
			return err
		}
	}
	if err := reopen("after final reopen"); err != nil {
		return err
	}

	labels := []string{}
	add := func(cond bool, l string) {
		if cond {
			labels = append(labels, l)
		}
	}
	add(ntReopen, "reopen-after-save-unexpired")
	add(reopenSavedStillLive, "reopen-while-saved-chunk-unexpired")
	add(reopenWithPending, "reopen-with-pending")
	add(reopens > 1, "mid-history-reopen")
	add(expiredSome > 0, "chunk-expired")
	add(rateLimited > 0, "rate-limited")
	add(remoteRejected > 0, "remote-rejected-by-window")
	add(readdAccepted > 0, "readd-of-accepted")
	add(curMin > 0, "min-advanced")
	if _, ok := any(a.st).(interface{ MinimumExpiry() int64 }); ok {
		st.SetExtra("stored_minimum_accessor", "present: ChunkStorage.MinimumExpiry compared directly")
	} else {
		st.SetExtra("stored_minimum_accessor", "absent: the stored minimum is observed only through the minimum the storage hands its verifier")
	}
	raw, _ := json.Marshal(c)
	st.Case(ntReopen, string(raw), labels...)
	st.Sample(ntReopen, map[string]any{"chunks": len(c.Chunks), "ops": opsString(c.Ops), "window": c.Window, "limit": c.Limit, "reopens": reopens, "labels": strings.Join(labels, ",")})
	return nil
}

func keysOf(m map[int]bool) []int {
	out := make([]int, 0, len(m))
	for k := range m {
		out = append(out, k)
	}
	sort.Ints(out)
	return out
}

func opsString(ops []c36Op) string {
	var sb strings.Builder
	for i, op := range ops {
		if i > 0 {
			sb.WriteByte(' ')
		}
		switch op.Kind {
		case "setmin":
			fmt.Fprintf(&sb, "setmin(+%d,%v)", op.Delta, op.Save)
		case "reopen":
			sb.WriteString("reopen")
		default:
			fmt.Fprintf(&sb, "%s(%d)", op.Kind, op.Chunk)
		}
	}
	return sb.String()
}

// ---- generator -----------------------------------------------------------------------

func c36Gen(rt *rapid.T) c36Case {
	c := c36Case{
		Window: rapid.SampledFrom([]int64{3, 10, 40, 1000}).Draw(rt, "window"),
		Limit:  rapid.SampledFrom([]uint64{500, 900, 1500, 1 << 30}).Draw(rt, "limit"),
	}
	n := rapid.IntRange(1, 7).Draw(rt, "nchunks")
	for i := 0; i < n; i++ {
		c.Chunks = append(c.Chunks, c36ChunkSpec{
			Producer: rapid.IntRange(0, c36NumProducers-1).Draw(rt, "producer"),
			Expiry:   rapid.OneOf(rapid.Int64Range(1, 12), rapid.Int64Range(0, 30)).Draw(rt, "expiry"),
			NTx:      rapid.IntRange(1, 4).Draw(rt, "ntx"),
		})
	}
	nops := rapid.IntRange(1, 16).Draw(rt, "nops")
	for i := 0; i < nops; i++ {
		kind := rapid.SampledFrom([]string{
			"local", "local", "local", "local", "remote", "remote", "cert",
			"setmin", "setmin", "setmin", "reopen", "reopen",
		}).Draw(rt, "kind")
		op := c36Op{Kind: kind}
		switch kind {
		case "local":
			op.Chunk = rapid.IntRange(0, n-1).Draw(rt, "chunk")
			op.Cert = rapid.Bool().Draw(rt, "cert")
		case "remote":
			op.Chunk = rapid.IntRange(0, n-1).Draw(rt, "chunk")
		case "cert":
			op.Chunk = rapid.IntRange(0, n-1).Draw(rt, "chunk")
			op.Bad = rapid.IntRange(0, 4).Draw(rt, "bad") == 0
		case "setmin":
			op.Delta = rapid.OneOf(rapid.Int64Range(1, 2), rapid.Int64Range(1, 6)).Draw(rt, "delta")
			op.Save = rapid.OneOf(rapid.SliceOfN(rapid.IntRange(0, 6), 1, 3), rapid.SliceOfN(rapid.IntRange(0, 6), 0, 1)).Draw(rt, "save")
		}
		c.Ops = append(c.Ops, op)
	}
	return c
}

func TestC36(t *testing.T) {
	st := vstat.New(t, "C36", "op lists (local add with/without cert, remote add through the verifier, set cert, SetMin(min+delta, save subset of pending), reopen) over 1..7 chunks of 3 producers, expiries 0..30, run on a never-reopened and a reopened ChunkStorage that must stay observationally equal (chunk bytes, pending set, per-producer weight, minimum expiry, op results); non-trivial = a reopen after a chunk was saved as accepted while its expiry was still >= the new minimum; distinct by the full case")
	st.Assumption("restart = NewChunkStorage with a brand-new verifier on the same memdb handle at an op boundary (every op commits one atomic batch)")
	st.Assumption("chunks are unsigned; BLS chunk-signature failures of the real ChunkVerifier are ignored by the harness verifier")
	st.Assumption("VerifyRemoteChunk is never called for a chunk the harness believes pending (nil-certificate dereference there is outside this property)")
	rapid.Check(t, func(rt *rapid.T) {
		c := c36Gen(rt)
		vstat.Run(rt, st, c, func() error { return c36Run(c, st) })
	})
}

func TestC36Replay(t *testing.T) {
	vstat.Replay(t, "C36", func(raw []byte) error {
		var c c36Case
		if err := json.Unmarshal(raw, &c); err != nil {
			return err
		}
		return c36Run(c, vstat.New(nil, "C36", ""))
	})
}
