package light2

import (
	"encoding/json"
	"fmt"
	"math/big"
	"testing"

	"pgregory.net/rapid"

	"github.com/ava-labs/hypersdk/fees"
	"github.com/ava-labs/hypersdk/verifharness/vstat"
)

// C33: fees.LargestSet returns distinct in-range indices of input vectors whose
// exact per-dimension sum fits the limit, the returned total equals that sum,
// and no input that was left out still fits on top of the returned total.
//
// The oracle is an order-agnostic validity predicate: nothing is assumed about
// the order in which the selector considers the inputs. Clause (d) is a sound
// consequence of "every skipped input did not fit when it was considered": the
// running total only grows, so an input that did not fit when it was considered
// cannot fit on top of the final total either.

type c33Case struct {
	Dims  [][fees.FeeDimensions]uint64
	Limit [fees.FeeDimensions]uint64
}

const (
	c33Two63 = uint64(1) << 63
	c33Max   = ^uint64(0)
)

// c33Limit draws one limit component.
func c33Limit(rt *rapid.T, name string) uint64 {
	switch rapid.IntRange(0, 11).Draw(rt, name+"-class") {
	case 0:
		return 0
	case 1:
		return 1
	case 2:
		return c33Two63
	case 3:
		return c33Max
	case 4:
		return rapid.Uint64().Draw(rt, name)
	default:
		return rapid.Uint64Range(2, 40).Draw(rt, name)
	}
}

// c33Value draws one item component relative to its limit component.
func c33Value(rt *rapid.T, name string, lim uint64) uint64 {
	switch rapid.IntRange(0, 15).Draw(rt, name+"-class") {
	case 0:
		return 1
	case 1:
		return lim
	case 2:
		if lim > 0 {
			return lim - 1
		}
		return 0
	case 3:
		if lim < c33Max {
			return lim + 1
		}
		return lim
	case 4:
		return c33Two63
	case 5:
		return c33Max
	case 6:
		return lim/2 + 1 // two of these never fit together
	case 7:
		return lim / 2
	case 8, 9, 10:
		if lim == 0 {
			return 0
		}
		return rapid.Uint64Range(0, lim).Draw(rt, name)
	default:
		return 0
	}
}

func c33Gen(rt *rapid.T) c33Case {
	var c c33Case
	for k := range c.Limit {
		c.Limit[k] = c33Limit(rt, fmt.Sprintf("limit%d", k))
	}
	n := rapid.IntRange(0, 12).Draw(rt, "n")
	mode := rapid.IntRange(0, 3).Draw(rt, "mode")
	c.Dims = make([][fees.FeeDimensions]uint64, 0, n)
	for i := 0; i < n; i++ {
		var d [fees.FeeDimensions]uint64
		switch mode {
		case 0:
			// every component drawn independently
			for k := range d {
				d[k] = c33Value(rt, fmt.Sprintf("v%d_%d", i, k), c.Limit[k])
			}
		default:
			// items concentrated in one or two dimensions, so that an item
			// which overflows one dimension sits next to items that only
			// consume other dimensions (the {5,0} {6,0} {0,7} pattern)
			k1 := rapid.IntRange(0, fees.FeeDimensions-1).Draw(rt, fmt.Sprintf("k1_%d", i))
			d[k1] = c33Value(rt, fmt.Sprintf("v%d_a", i), c.Limit[k1])
			if rapid.IntRange(0, 2).Draw(rt, fmt.Sprintf("two%d", i)) == 0 {
				k2 := rapid.IntRange(0, fees.FeeDimensions-1).Draw(rt, fmt.Sprintf("k2_%d", i))
				d[k2] = c33Value(rt, fmt.Sprintf("v%d_b", i), c.Limit[k2])
			}
		}
		c.Dims = append(c.Dims, d)
	}
	return c
}

func c33Big(v uint64) *big.Int { return new(big.Int).SetUint64(v) }

// c33Fits reports whether sum+add <= limit in every dimension (exact arithmetic).
func c33Fits(sum [fees.FeeDimensions]*big.Int, add [fees.FeeDimensions]uint64, limit [fees.FeeDimensions]uint64) bool {
	for k := range sum {
		s := new(big.Int).Add(sum[k], c33Big(add[k]))
		if s.Cmp(c33Big(limit[k])) > 0 {
			return false
		}
	}
	return true
}

func c33Run(c c33Case, st *vstat.Stats) error {
	dims := make([]fees.Dimensions, len(c.Dims))
	for i := range c.Dims {
		dims[i] = fees.Dimensions(c.Dims[i])
	}
	idx, total := fees.LargestSet(dims, fees.Dimensions(c.Limit))

	// the input must not have been modified
	for i := range c.Dims {
		if dims[i] != fees.Dimensions(c.Dims[i]) {
			return fmt.Errorf("input vector %d was modified: %v -> %v", i, c.Dims[i], dims[i])
		}
	}

	// (a) distinct, in range
	kept := make([]bool, len(c.Dims))
	var aErr error
	for _, ix := range idx {
		if ix >= uint64(len(c.Dims)) {
			aErr = fmt.Errorf("returned index %d out of range (n=%d), indices=%v", ix, len(c.Dims), idx)
			break
		}
		if kept[ix] {
			aErr = fmt.Errorf("returned index %d twice, indices=%v", ix, idx)
			break
		}
		kept[ix] = true
	}

	// exact sum of the indexed vectors, and the sum of everything
	var sum, all [fees.FeeDimensions]*big.Int
	for k := range sum {
		sum[k] = new(big.Int)
		all[k] = new(big.Int)
	}
	for i, d := range c.Dims {
		for k := range d {
			all[k].Add(all[k], c33Big(d[k]))
			if aErr == nil && kept[i] {
				sum[k].Add(sum[k], c33Big(d[k]))
			}
		}
	}
	allOverflows := false
	allFit := true
	for k := range all {
		if all[k].BitLen() > 64 {
			allOverflows = true
		}
		if all[k].Cmp(c33Big(c.Limit[k])) > 0 {
			allFit = false
		}
	}

	// labels / non-triviality (from the returned selection)
	nKept, nSkipped := 0, 0
	for i := range kept {
		if kept[i] {
			nKept++
		} else {
			nSkipped++
		}
	}
	nt := false
	if aErr == nil {
	outer:
		for s := range kept {
			if kept[s] {
				continue
			}
			for k := range kept {
				if !kept[k] {
					continue
				}
				for d := 0; d < fees.FeeDimensions; d++ {
					if c.Dims[k][d] > c.Dims[s][d] {
						nt = true
						break outer
					}
				}
			}
		}
	}
	hasHuge, zeroLimit := false, false
	for k := range c.Limit {
		if c.Limit[k] == 0 {
			zeroLimit = true
		}
	}
	for _, d := range c.Dims {
		for k := range d {
			if d[k] >= c33Two63 {
				hasHuge = true
			}
		}
	}
	labels := []string{}
	switch {
	case len(c.Dims) == 0:
		labels = append(labels, "no-items")
	case nSkipped == 0:
		labels = append(labels, "all-kept")
	case nKept == 0:
		labels = append(labels, "none-kept")
	default:
		labels = append(labels, "some-kept-some-skipped")
	}
	if nt {
		labels = append(labels, "kept-item-larger-than-a-skipped-one")
	}
	if hasHuge {
		labels = append(labels, "item-component>=2^63")
	}
	if zeroLimit {
		labels = append(labels, "zero-limit-component")
	}
	if allOverflows {
		labels = append(labels, "sum-of-all-overflows-uint64")
	}
	if allFit && len(c.Dims) > 0 {
		labels = append(labels, "everything-fits")
	}
	canon := fmt.Sprintf("%v|%v", c.Dims, c.Limit)
	st.Case(nt, canon, labels...)
	st.Sample(nt, map[string]any{"dims": fmt.Sprint(c.Dims), "limit": fmt.Sprint(c.Limit), "indices": fmt.Sprint(idx), "total": fmt.Sprint([fees.FeeDimensions]uint64(total))})

	if aErr != nil {
		return aErr
	}

	// (b) the exact sum of the indexed vectors fits the limit
	for k := range sum {
		if sum[k].Cmp(c33Big(c.Limit[k])) > 0 {
			return fmt.Errorf("sum of returned vectors exceeds the limit in dimension %d: %s > %d (indices=%v)", k, sum[k], c.Limit[k], idx)
		}
	}
	// (c) the returned total is that sum
	for k := range sum {
		if sum[k].Cmp(c33Big(total[k])) != 0 {
			return fmt.Errorf("returned total %v differs from the sum of the returned vectors in dimension %d: sum=%s (indices=%v)", [fees.FeeDimensions]uint64(total), k, sum[k], idx)
		}
	}
	// (d) nothing that was left out still fits on top of the returned total
	for i := range c.Dims {
		if kept[i] {
			continue
		}
		if c33Fits(sum, c.Dims[i], c.Limit) {
			if len(idx) == 0 && allOverflows {
				// documented escape: the selector gives up with an empty
				// result when an addition overflows
				st.Label("empty-result-accepted-by-overflow-clause")
				return nil
			}
			return fmt.Errorf("input %d %v was skipped although it fits on top of the returned total %v within limit %v (indices=%v)", i, c.Dims[i], [fees.FeeDimensions]uint64(total), c.Limit, idx)
		}
	}
	return nil
}

func TestC33(t *testing.T) {
	st := vstat.New(t, "C33", "0..12 five-dimensional vectors and a limit; components from {0,1,limit-1,limit,limit+1,limit/2,limit/2+1,2^63,2^64-1,uniform in [0,limit]}, limits from {0,1,2..40,2^63,2^64-1,uniform}; three quarters of the cases concentrate each item in one or two dimensions so that non-fitting items are interleaved with fitting ones in any size order. Oracle: order-agnostic validity predicate in exact arithmetic (distinct in-range indices; their sum fits; returned total = that sum; no left-out input fits on top of the total). Non-trivial = at least one skipped item and a kept item larger than it in some dimension; distinct by (vectors, limit)")
	rapid.Check(t, func(rt *rapid.T) {
		c := c33Gen(rt)
		vstat.Run(rt, st, c, func() error { return c33Run(c, st) })
	})
}

func TestC33Replay(t *testing.T) {
	vstat.Replay(t, "C33", func(raw []byte) error {
		var c c33Case
		if err := json.Unmarshal(raw, &c); err != nil {
			return err
		}
		return c33Run(c, vstat.New(nil, "C33", ""))
	})
}

// TestC33Seeds runs fixed regression cases: the inputs on which the pinned
// tree was found to violate the property (finding F8), the suite's own cases
// and a few boundary shapes.
func TestC33Seeds(t *testing.T) {
	st := vstat.New(t, "C33", "fixed regression cases: F8 failing inputs ({0,7}{6,0}{5,0} under {10,10,..}; {1,0..}{0,..} under a zero limit), the cases of fees/set_test.go, overflow and zero-limit shapes")
	type d = [fees.FeeDimensions]uint64
	cases := []c33Case{
		{Dims: []d{{0, 7}, {6, 0}, {5, 0}}, Limit: d{10, 10, 10, 10, 10}},
		{Dims: []d{{1}, {}}, Limit: d{}},
		{Dims: []d{{5, 0}, {6, 0}, {0, 7}}, Limit: d{10, 10}},
		{Dims: []d{{1}, {2}, {3}, {4}, {5}}, Limit: d{4}},
		{Dims: []d{{1}, {4}, {2}, {5}, {3}}, Limit: d{6}},
		{Dims: []d{{1}, {0, 2}, {0, 0, 3}, {0, 0, 0, 4}, {0, 0, 0, 0, 5}}, Limit: d{6, 6, 6, 3, 3}},
		{Dims: []d{{5, 1, 1, 1, 1}, {1, 5, 1, 1, 1}, {1, 1, 5, 1, 1}, {1, 1, 1, 5, 1}, {1, 1, 1, 1, 5}}, Limit: d{7, 7, 7, 7, 7}},
		{Dims: []d{{c33Max}, {c33Max}, {1}, {0, 1}}, Limit: d{c33Max, c33Max, c33Max, c33Max, c33Max}},
		{Dims: []d{{c33Two63}, {c33Two63}, {c33Two63 - 1}}, Limit: d{c33Max}},
		{Dims: []d{}, Limit: d{1, 1, 1, 1, 1}},
		{Dims: []d{{}, {}, {}}, Limit: d{}},
	}
	for _, c := range cases {
		vstat.Run(t, st, c, func() error { return c33Run(c, st) })
	}
}
