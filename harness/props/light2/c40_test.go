package light2

import (
	"bytes"
	"context"
	"encoding/json"
	"errors"
	"fmt"
	"sort"
	"testing"

	"github.com/ava-labs/avalanchego/database"
	"github.com/ava-labs/avalanchego/ids"
	"pgregory.net/rapid"

	"github.com/ava-labs/hypersdk/chain"
	"github.com/ava-labs/hypersdk/chain/chaintest"
	"github.com/ava-labs/hypersdk/codec"
	"github.com/ava-labs/hypersdk/genesis"
	"github.com/ava-labs/hypersdk/keys"
	"github.com/ava-labs/hypersdk/state"
	"github.com/ava-labs/hypersdk/state/tstate"
	"github.com/ava-labs/hypersdk/verifharness/vstat"
)

// C40: a key's declared chunk count is the big-endian number in its last two
// bytes; a value can be written to a key only if its chunk count does not
// exceed that number; a key encoded for a maximum size admits every value up
// to that size; keys shorter than two bytes are invalid wherever they are
// declared (state.Keys.Add / ChunkSizes, Transaction.StateKeys / Units) or
// used (keys.*, TStateView.Insert).

const (
	c40ChunkBytes = 64                     // documented: "each chunk is 64 bytes"
	c40Limit      = c40ChunkBytes * 0xffff // 4194240: length at which the chunk count leaves 16 bits
	c40BufLen     = c40Limit + 4*c40ChunkBytes
)

// all generated values are prefixes of this buffer (only the length matters to
// the code under test; sharing keeps 4 MiB cases cheap)
var c40Buf = func() []byte {
	b := make([]byte, c40BufLen)
	for i := range b {
		b[i] = byte(i*31 + 7)
	}
	return b
}()

type c40Key struct {
	Key     []byte
	Perm    byte
	Sponsor bool // declared by the balance handler instead of the action
}

type c40Case struct {
	Key        []byte
	ValLen     int
	ValLen2    int
	MaxSize    int
	AdmitLen   int // <= MaxSize
	Chunks     uint16
	MaxKeySize uint32
	MaxValChk  uint16
	Others     []c40Key
	KeyInTx    bool
	Exists     bool
	KeysScope  bool
}

func c40ApproxChunks(n int) int {
	if n <= 0 {
		return 0
	}
	c := n/c40ChunkBytes + 1
	if c > 0xffff {
		c = 0xffff
	}
	return c
}

func c40Len(rt *rapid.T, name string) int {
	switch cl := rapid.IntRange(0, 24).Draw(rt, name+"-class"); {
	case cl == 0:
		return 0
	case cl == 1:
		return 1
	case cl <= 8:
		k := rapid.IntRange(1, 80).Draw(rt, name+"-k")
		return c40ChunkBytes*k + rapid.IntRange(-1, 1).Draw(rt, name+"-d")
	case cl <= 14:
		return rapid.IntRange(0, 200).Draw(rt, name)
	case cl <= 20:
		return rapid.IntRange(0, 5000).Draw(rt, name)
	case cl <= 23:
		// around the 16-bit limit
		k := rapid.IntRange(0xfffd, 0xffff).Draw(rt, name+"-k")
		return c40ChunkBytes*k + rapid.IntRange(-2, 65).Draw(rt, name+"-d")
	default:
		return rapid.IntRange(0, c40BufLen).Draw(rt, name)
	}
}

func c40KeyGen(rt *rapid.T, name string, valLen int) []byte {
	var l int
	switch cl := rapid.IntRange(0, 11).Draw(rt, name+"-lenclass"); cl {
	case 0:
		l = 0
	case 1:
		l = 1
	case 2:
		l = 2
	default:
		l = rapid.IntRange(3, 40).Draw(rt, name+"-len")
	}
	if l < 2 {
		return rapid.SliceOfN(rapid.Byte(), l, l).Draw(rt, name+"-bytes")
	}
	k := rapid.SliceOfN(rapid.Byte(), l-2, l-2).Draw(rt, name+"-prefix")
	a := c40ApproxChunks(valLen)
	var suffix int
	switch rapid.IntRange(0, 11).Draw(rt, name+"-suffixclass") {
	case 0, 1, 2:
		suffix = a
	case 3, 4:
		suffix = a - 1
	case 5:
		suffix = a + 1
	case 6:
		suffix = 0
	case 7:
		suffix = 0xffff
	case 8:
		// byte-swapped: distinguishes big- from little-endian decoding
		suffix = (a&0xff)<<8 | a>>8
	default:
		suffix = int(rapid.Uint16().Draw(rt, name+"-suffix"))
	}
	if suffix < 0 {
		suffix = 0
	}
	if suffix > 0xffff {
		suffix = 0xffff
	}
	return append(k, byte(suffix>>8), byte(suffix))
}

func c40Gen(rt *rapid.T) c40Case {
	var c c40Case
	c.ValLen = c40Len(rt, "vallen")
	c.Key = c40KeyGen(rt, "key", c.ValLen)
	switch rapid.IntRange(0, 3).Draw(rt, "len2class") {
	case 0:
		c.ValLen2 = c40Len(rt, "vallen2")
	default:
		c.ValLen2 = c.ValLen + rapid.SampledFrom([]int{-65, -64, -63, -1, 0, 1, 63, 64, 65}).Draw(rt, "delta")
	}
	if c.ValLen2 < 0 {
		c.ValLen2 = 0
	}
	if c.ValLen2 > c40BufLen {
		c.ValLen2 = c40BufLen
	}
	c.MaxSize = c40Len(rt, "maxsize")
	switch rapid.IntRange(0, 3).Draw(rt, "admitclass") {
	case 0:
		c.AdmitLen = c.MaxSize
	case 1:
		c.AdmitLen = c.MaxSize - 1
	case 2:
		c.AdmitLen = c.MaxSize - c.MaxSize%c40ChunkBytes // start of the last chunk
	default:
		c.AdmitLen = rapid.IntRange(0, c.MaxSize).Draw(rt, "admit")
	}
	if c.AdmitLen < 0 {
		c.AdmitLen = 0
	}
	c.Chunks = rapid.Uint16().Draw(rt, "chunks")
	c.MaxKeySize = uint32(rapid.IntRange(0, 48).Draw(rt, "maxkeysize"))
	switch rapid.IntRange(0, 2).Draw(rt, "maxvalchkclass") {
	case 0:
		c.MaxValChk = rapid.Uint16().Draw(rt, "maxvalchk")
	default:
		// near the key's own suffix
		s := 0
		if len(c.Key) >= 2 {
			s = int(c.Key[len(c.Key)-2])<<8 | int(c.Key[len(c.Key)-1])
		}
		s += rapid.IntRange(-1, 1).Draw(rt, "maxvalchk-d")
		if s < 0 {
			s = 0
		}
		if s > 0xffff {
			s = 0xffff
		}
		c.MaxValChk = uint16(s)
	}
	n := rapid.IntRange(0, 4).Draw(rt, "nothers")
	for i := 0; i < n; i++ {
		c.Others = append(c.Others, c40Key{
			Key:     c40KeyGen(rt, fmt.Sprintf("other%d", i), rapid.IntRange(0, 300).Draw(rt, fmt.Sprintf("otherlen%d", i))),
			Perm:    byte(rapid.SampledFrom([]state.Permissions{state.Read, state.Allocate, state.Write, state.All, state.None}).Draw(rt, fmt.Sprintf("perm%d", i))),
			Sponsor: rapid.Bool().Draw(rt, fmt.Sprintf("sponsor%d", i)),
		})
	}
	c.KeyInTx = rapid.Bool().Draw(rt, "keyintx")
	c.Exists = rapid.Bool().Draw(rt, "exists")
	c.KeysScope = rapid.Bool().Draw(rt, "keysscope")
	return c
}

// c40Suffix is the oracle's reading of a key: the big-endian number in its
// last two bytes, defined only for keys of at least two bytes.
func c40Suffix(k []byte) (uint16, bool) {
	if len(k) < 2 {
		return 0, false
	}
	return uint16(k[len(k)-2])*256 + uint16(k[len(k)-1]), true
}

type c40Decl struct {
	k       string
	p       state.Permissions
	sponsor bool
}

// stub balance handler: only SponsorStateKeys matters to StateKeys / Units
type c40BH struct{ keys state.Keys }

func (b c40BH) SponsorStateKeys(codec.Address) state.Keys { return b.keys }
func (c40BH) CanDeduct(context.Context, codec.Address, state.Immutable, uint64) error {
	return nil
}
func (c40BH) Deduct(context.Context, codec.Address, state.Mutable, uint64) error     { return nil }
func (c40BH) AddBalance(context.Context, codec.Address, state.Mutable, uint64) error { return nil }
func (c40BH) GetBalance(context.Context, codec.Address, state.Immutable) (uint64, error) {
	return 0, nil
}

var _ chain.BalanceHandler = c40BH{}

// c40NumChunksChecks verifies what the property and the documentation say
// about the chunk count of a value of length n.
func c40NumChunksChecks(n int, nc uint16, ok bool) error {
	if n == 0 && (!ok || nc != 0) {
		return fmt.Errorf("NumChunks(empty) = (%d,%v), want (0,true)", nc, ok)
	}
	if n > 0 && ok && nc == 0 {
		return fmt.Errorf("NumChunks(len %d) = 0 for a non-empty value", n)
	}
	if ok && int(nc)*c40ChunkBytes < n {
		return fmt.Errorf("NumChunks(len %d) = %d, but %d chunks of 64 bytes cannot hold the value", n, nc, nc)
	}
	if !ok && n < c40Limit {
		return fmt.Errorf("NumChunks(len %d) failed although the count fits 16 bits", n)
	}
	return nil
}

func c40Run(c c40Case, st *vstat.Stats) error {
	ctx := context.Background()
	if c.ValLen < 0 || c.ValLen > c40BufLen || c.ValLen2 < 0 || c.ValLen2 > c40BufLen || c.MaxSize < 0 || c.MaxSize > c40BufLen || c.AdmitLen < 0 || c.AdmitLen > c.MaxSize {
		return fmt.Errorf("bad case: lengths out of range")
	}
	key := bytes.Clone(c.Key)
	if key == nil {
		key = []byte{}
	}
	value := c40Buf[:c.ValLen]
	value2 := c40Buf[:c.ValLen2]

	wantSuffix, wantValid := c40Suffix(key)
	nc, ncOK := keys.NumChunks(value)
	nc2, nc2OK := keys.NumChunks(value2)
	wantWritable := wantValid && ncOK && nc <= wantSuffix

	// ---- labels ----
	atBoundary := func(n int) bool { return n > 0 && (n%c40ChunkBytes == 0 || n%c40ChunkBytes == c40ChunkBytes-1) }
	nearLimit := func(n int) bool { return n >= c40Limit-2*c40ChunkBytes }
	nt := atBoundary(c.ValLen) || nearLimit(c.ValLen) || atBoundary(c.MaxSize) || nearLimit(c.MaxSize)
	labels := []string{}
	switch {
	case !wantValid:
		labels = append(labels, "key-shorter-than-2")
	case len(key) == 2:
		labels = append(labels, "key-length-2")
	default:
		labels = append(labels, "key-longer-than-2")
	}
	if wantValid && ncOK {
		switch {
		case nc == wantSuffix:
			labels = append(labels, "value-chunks==suffix")
		case int(nc) == int(wantSuffix)+1:
			labels = append(labels, "value-chunks==suffix+1")
		case nc < wantSuffix:
			labels = append(labels, "value-chunks<suffix")
		default:
			labels = append(labels, "value-chunks>suffix+1")
		}
	}
	if atBoundary(c.ValLen) {
		labels = append(labels, "value-length-at-chunk-boundary")
	}
	if nearLimit(c.ValLen) {
		labels = append(labels, "value-length-near-16-bit-limit")
	}
	if !ncOK {
		labels = append(labels, "value-chunk-count-overflows")
	}
	if atBoundary(c.MaxSize) || nearLimit(c.MaxSize) {
		labels = append(labels, "encode-size-at-boundary-or-limit")
	}
	if wantValid && wantSuffix>>8 != wantSuffix&0xff {
		labels = append(labels, "suffix-endianness-visible")
	}

	// keys declared by the transaction
	var decl []c40Decl
	for _, o := range c.Others {
		decl = append(decl, c40Decl{string(o.Key), state.Permissions(o.Perm), o.Sponsor})
	}
	if c.KeyInTx {
		decl = append(decl, c40Decl{string(key), state.All, false})
	}
	shortInAction, shortInSponsor := false, false
	for _, d := range decl {
		if len(d.k) < 2 {
			if d.sponsor {
				shortInSponsor = true
			} else {
				shortInAction = true
			}
		}
	}
	switch {
	case shortInAction && shortInSponsor:
		labels = append(labels, "tx-short-key-in-action-and-sponsor")
	case shortInAction:
		labels = append(labels, "tx-short-key-in-action")
	case shortInSponsor:
		labels = append(labels, "tx-short-key-in-sponsor")
	case len(decl) == 0:
		labels = append(labels, "tx-no-keys")
	default:
		labels = append(labels, "tx-all-keys-valid")
	}
	switch {
	case wantWritable && c.Exists:
		labels = append(labels, "insert-accepted-over-existing")
	case wantWritable:
		labels = append(labels, "insert-accepted-new")
	case !wantValid:
		labels = append(labels, "insert-rejected-short-key")
	default:
		labels = append(labels, "insert-rejected-value-too-large")
	}
	canon := fmt.Sprintf("%x|%d|%d|%d|%d|%d|%d|%d|%v|%v|%v|%v", key, c.ValLen, c.ValLen2, c.MaxSize, c.AdmitLen, c.Chunks, c.MaxKeySize, c.MaxValChk, c.Others, c.KeyInTx, c.Exists, c.KeysScope)
	st.Case(nt, canon, labels...)
	st.Sample(nt, map[string]any{"key": fmt.Sprintf("%x", key), "valueLen": c.ValLen, "maxSize": c.MaxSize, "others": len(c.Others), "writable": wantWritable})

	// ---- A. reading a key ----
	if got, ok := keys.MaxChunks(key); ok != wantValid || (ok && got != wantSuffix) {
		return fmt.Errorf("MaxChunks(%x) = (%d,%v), want (%d,%v)", key, got, ok, wantSuffix, wantValid)
	}
	if got, ok := keys.DecodeChunks(key); ok != wantValid || (ok && got != wantSuffix) {
		return fmt.Errorf("DecodeChunks(%x) = (%d,%v), want (%d,%v)", key, got, ok, wantSuffix, wantValid)
	}
	if got := keys.Valid(string(key)); got != wantValid {
		return fmt.Errorf("Valid(%x) = %v, want %v", key, got, wantValid)
	}
	wantVerify := uint32(len(key)) <= c.MaxKeySize && wantValid && wantSuffix <= c.MaxValChk
	if got := keys.Verify(c.MaxKeySize, c.MaxValChk, key); got != wantVerify {
		return fmt.Errorf("Verify(maxKeySize=%d, maxValueChunks=%d, %x) = %v, want %v", c.MaxKeySize, c.MaxValChk, key, got, wantVerify)
	}

	// ---- B. chunk count of a value ----
	if err := c40NumChunksChecks(c.ValLen, nc, ncOK); err != nil {
		return err
	}
	if err := c40NumChunksChecks(c.ValLen2, nc2, nc2OK); err != nil {
		return err
	}
	lo, hi := c.ValLen, c.ValLen2
	ncLo, okLo, ncHi, okHi := nc, ncOK, nc2, nc2OK
	if lo > hi {
		lo, hi = hi, lo
		ncLo, okLo, ncHi, okHi = ncHi, okHi, ncLo, okLo
	}
	if okHi && (!okLo || ncLo > ncHi) {
		return fmt.Errorf("NumChunks not monotone: len %d -> (%d,%v), len %d -> (%d,%v)", lo, ncLo, okLo, hi, ncHi, okHi)
	}

	// ---- C. VerifyValue <=> chunks(value) <= suffix(key) ----
	if got := keys.VerifyValue(key, value); got != wantWritable {
		return fmt.Errorf("VerifyValue(%x, len %d) = %v, want %v (value chunks (%d,%v), key suffix (%d,%v))", key, c.ValLen, got, wantWritable, nc, ncOK, wantSuffix, wantValid)
	}

	// ---- D. Encode / EncodeChunks ----
	sizeChunks, sizeOK := keys.NumChunks(c40Buf[:c.MaxSize])
	enc, encOK := keys.Encode(bytes.Clone(key), c.MaxSize)
	if encOK != sizeOK {
		return fmt.Errorf("Encode(%x, %d) ok=%v but NumChunks(len %d) ok=%v", key, c.MaxSize, encOK, c.MaxSize, sizeOK)
	}
	if encOK {
		if len(enc) != len(key)+2 || !bytes.Equal(enc[:len(key)], key) {
			return fmt.Errorf("Encode(%x, %d) = %x does not extend the key by two bytes", key, c.MaxSize, enc)
		}
		// the suffix written by Encode reads back identically through the
		// package's decoders (its exact value is not prescribed by the
		// property, only that it admits every value up to the size)
		encSuffix, _ := c40Suffix(enc)
		if s, ok := keys.MaxChunks(enc); !ok || s != encSuffix {
			return fmt.Errorf("MaxChunks(Encode(%x, %d) = %x) = (%d,%v), want (%d,true)", key, c.MaxSize, enc, s, ok, encSuffix)
		}
		if s, ok := keys.DecodeChunks(enc); !ok || s != encSuffix {
			return fmt.Errorf("DecodeChunks(Encode(%x, %d) = %x) = (%d,%v), want (%d,true)", key, c.MaxSize, enc, s, ok, encSuffix)
		}
		if encSuffix < sizeChunks {
			return fmt.Errorf("Encode(%x, %d) = %x: suffix %d is below the chunk count %d of a value of the maximum size", key, c.MaxSize, enc, encSuffix, sizeChunks)
		}
		for _, n := range []int{c.AdmitLen, c.MaxSize} {
			if !keys.VerifyValue(enc, c40Buf[:n]) {
				return fmt.Errorf("key %x encoded for max size %d rejects a value of length %d", enc, c.MaxSize, n)
			}
		}
	}
	ec := keys.EncodeChunks(bytes.Clone(key), c.Chunks)
	if len(ec) != len(key)+2 || !bytes.Equal(ec[:len(key)], key) {
		return fmt.Errorf("EncodeChunks(%x, %d) = %x does not extend the key by two bytes", key, c.Chunks, ec)
	}
	if s, _ := c40Suffix(ec); s != c.Chunks {
		return fmt.Errorf("EncodeChunks(%x, %d) = %x: suffix reads %d", key, c.Chunks, ec, s)
	}

	// ---- E. declaring keys: state.Keys.Add / ChunkSizes ----
	added := state.Keys{}
	model := map[string]state.Permissions{}
	raw := state.Keys{}
	anyShort := false
	for _, d := range append([]c40Decl{{string(key), state.Read, false}}, decl...) {
		before := len(added)
		got := added.Add(d.k, d.p)
		want := len(d.k) >= 2
		if got != want {
			return fmt.Errorf("Keys.Add(%x) = %v, want %v", d.k, got, want)
		}
		if want {
			model[d.k] |= d.p
		} else {
			anyShort = true
			if _, present := added[d.k]; present || len(added) != before {
				return fmt.Errorf("Keys.Add(%x) returned false but changed the set", d.k)
			}
		}
		raw[d.k] |= d.p
	}
	if len(added) != len(model) {
		return fmt.Errorf("Keys after Add has %d entries, want %d", len(added), len(model))
	}
	var wantSizes []int
	for k, p := range model {
		if added[k] != p {
			return fmt.Errorf("Keys.Add: permissions of %x = %v, want union %v", k, added[k], p)
		}
		s, _ := c40Suffix([]byte(k))
		wantSizes = append(wantSizes, int(s))
	}
	sort.Ints(wantSizes)
	sizes, ok := added.ChunkSizes()
	if !ok {
		return fmt.Errorf("ChunkSizes failed on a set of valid keys")
	}
	gotSizes := make([]int, len(sizes))
	for i, s := range sizes {
		gotSizes[i] = int(s)
	}
	sort.Ints(gotSizes)
	if fmt.Sprint(gotSizes) != fmt.Sprint(wantSizes) {
		return fmt.Errorf("ChunkSizes = %v, want %v", gotSizes, wantSizes)
	}
	if _, ok := raw.ChunkSizes(); ok == anyShort {
		return fmt.Errorf("ChunkSizes ok=%v on a set that %s a key shorter than two bytes", ok, map[bool]string{true: "contains", false: "does not contain"}[anyShort])
	}

	// ---- F. Transaction.StateKeys / Units ----
	action := &chaintest.TestAction{
		NumComputeUnits:              1,
		SpecifiedStateKeys:           []string{},
		SpecifiedStateKeyPermissions: []state.Permissions{},
		ReadKeys:                     [][]byte{},
		WriteKeys:                    [][]byte{},
		WriteValues:                  [][]byte{},
		Start:                        -1,
		End:                          -1,
	}
	sponsorKeys := state.Keys{}
	for _, d := range decl {
		if d.sponsor {
			sponsorKeys[d.k] |= d.p
		} else {
			action.SpecifiedStateKeys = append(action.SpecifiedStateKeys, d.k)
			action.SpecifiedStateKeyPermissions = append(action.SpecifiedStateKeyPermissions, d.p)
		}
	}
	bh := c40BH{keys: sponsorKeys}
	rules := genesis.NewDefaultRules()
	wantTxErr := shortInAction || shortInSponsor
	for _, unitsFirst := range []bool{true, false} {
		tx, err := chain.NewTransaction(chain.Base{Timestamp: 1000, ChainID: ids.Empty, MaxFee: 1}, []chain.Action{action}, chaintest.NewDummyTestAuth())
		if err != nil {
			return fmt.Errorf("NewTransaction: %v", err)
		}
		if unitsFirst {
			_, err = tx.Units(bh, rules)
			if (err != nil) != wantTxErr {
				return fmt.Errorf("Transaction.Units error = %v, want error: %v (declared keys %x, sponsor keys %x)", err, wantTxErr, action.SpecifiedStateKeys, sponsorKeys)
			}
		} else {
			sk, err := tx.StateKeys(bh)
			if (err != nil) != wantTxErr {
				return fmt.Errorf("Transaction.StateKeys error = %v, want error: %v (declared keys %x, sponsor keys %x)", err, wantTxErr, action.SpecifiedStateKeys, sponsorKeys)
			}
			if err == nil {
				for k := range sk {
					if len(k) < 2 {
						return fmt.Errorf("Transaction.StateKeys returned the short key %x", k)
					}
				}
				distinct := map[string]struct{}{}
				for _, d := range decl {
					distinct[d.k] = struct{}{}
				}
				if len(sk) != len(distinct) {
					return fmt.Errorf("Transaction.StateKeys returned %d keys, declared %x + sponsor %x", len(sk), action.SpecifiedStateKeys, sponsorKeys)
				}
			}
		}
	}

	// ---- G. TStateView.Insert ----
	storage := state.ImmutableStorage{}
	var existing []byte
	exists := c.Exists && wantValid
	if exists {
		existing = []byte{}
		if wantSuffix > 0 {
			existing = []byte{0xee}
		}
		storage[string(key)] = existing
	}
	var scope state.Scope = state.CompletePermissions
	if c.KeysScope {
		scope = state.Keys{string(key): state.All}
	}
	view := tstate.New(1).NewView(scope, storage, 1)
	opsBefore := view.OpIndex()
	ierr := view.Insert(ctx, key, value)
	if wantWritable {
		if ierr != nil {
			return fmt.Errorf("Insert(%x, len %d) failed: %v, although value chunks %d <= key suffix %d", key, c.ValLen, ierr, nc, wantSuffix)
		}
		got, gerr := view.GetValue(ctx, key)
		if gerr != nil || !bytes.Equal(got, value) {
			return fmt.Errorf("GetValue after accepted Insert(%x, len %d): len %d, err %v", key, c.ValLen, len(got), gerr)
		}
	} else {
		if ierr == nil {
			return fmt.Errorf("Insert(%x, len %d) accepted: value chunks (%d,%v), key suffix (%d,%v)", key, c.ValLen, nc, ncOK, wantSuffix, wantValid)
		}
		if view.OpIndex() != opsBefore || view.PendingChanges() != 0 {
			return fmt.Errorf("rejected Insert(%x, len %d) left %d ops / %d pending changes", key, c.ValLen, view.OpIndex()-opsBefore, view.PendingChanges())
		}
		got, gerr := view.GetValue(ctx, key)
		if exists {
			if gerr != nil || !bytes.Equal(got, existing) {
				return fmt.Errorf("rejected Insert(%x) changed the existing value: %x, err %v", key, got, gerr)
			}
		} else if !errors.Is(gerr, database.ErrNotFound) {
			return fmt.Errorf("rejected Insert(%x) made the key readable: len %d, err %v", key, len(got), gerr)
		}
	}
	return nil
}

func TestC40(t *testing.T) {
	st := vstat.New(t, "C40", "a key of length 0..40 (1/6 shorter than two bytes) whose suffix is biased to the chunk count of the value +-1, 0, 65535, byte-swapped or uniform; value lengths 0, 1, 64k+-1, 0..5000, around 64*65535 and uniform up to 64*65535+256; Encode sizes from the same distribution with an admitted length <= size; 0..4 further keys (some short) declared through a real chaintest.TestAction or the balance handler of a real chain.Transaction; a real TStateView over a map (key absent or present, CompletePermissions or a Keys scope). Oracle: suffix = big-endian last two bytes, defined iff len>=2; writable iff NumChunks(value) <= suffix; NumChunks monotone, 0 iff empty, 64 bytes per chunk suffice, fails only from 64*65535 bytes; Encode/EncodeChunks round trip and admit every length <= size; Keys.Add / ChunkSizes / Transaction.StateKeys / Units fail iff a declared key is short; Insert succeeds iff writable and a rejected Insert changes nothing. Non-trivial = value length or Encode size at a chunk boundary (64k or 64k-1) or within two chunks of the 16-bit limit; distinct by the whole case")
	rapid.Check(t, func(rt *rapid.T) {
		c := c40Gen(rt)
		vstat.Run(rt, st, c, func() error { return c40Run(c, st) })
	})
}

func TestC40Replay(t *testing.T) {
	vstat.Replay(t, "C40", func(raw []byte) error {
		var c c40Case
		if err := json.Unmarshal(raw, &c); err != nil {
			return err
		}
		return c40Run(c, vstat.New(nil, "C40", ""))
	})
}

// TestC40Seeds runs fixed boundary cases: value lengths 63/64/65 against
// suffixes 1/2, the 16-bit limit, short keys everywhere.
func TestC40Seeds(t *testing.T) {
	st := vstat.New(t, "C40", "fixed boundary cases: value lengths 0, 63, 64, 65, 127, 128 against suffixes 0, 1, 2; lengths 64*65535-1, 64*65535, 64*65535+1 against suffix 65535; keys of length 0 and 1 in every position")
	var cases []c40Case
	for _, n := range []int{0, 1, 63, 64, 65, 127, 128, c40Limit - 65, c40Limit - 64, c40Limit - 1, c40Limit, c40Limit + 1} {
		for _, suffix := range []uint16{0, 1, 2, 3, 0x0100, 0xfffe, 0xffff} {
			for _, exists := range []bool{false, true} {
				cases = append(cases, c40Case{
					Key: []byte{'k', byte(suffix >> 8), byte(suffix)}, ValLen: n, ValLen2: n + 1, MaxSize: n, AdmitLen: n,
					Chunks: suffix, MaxKeySize: 3, MaxValChk: suffix, KeyInTx: true, Exists: exists, KeysScope: exists,
				})
			}
		}
	}
	for _, short := range [][]byte{{}, {0}, {0xff}} {
		for _, sponsor := range []bool{false, true} {
			cases = append(cases,
				c40Case{Key: short, ValLen: 0, MaxSize: 64, AdmitLen: 64, KeyInTx: !sponsor, Others: []c40Key{{Key: []byte{0, 1}, Perm: byte(state.All), Sponsor: sponsor}}},
				c40Case{Key: []byte{0, 1}, ValLen: 1, MaxSize: 1, AdmitLen: 1, KeyInTx: true, KeysScope: true, Others: []c40Key{{Key: short, Perm: byte(state.Read), Sponsor: sponsor}}},
			)
		}
	}
	for _, c := range cases {
		vstat.Run(t, st, c, func() error { return c40Run(c, st) })
	}
}
