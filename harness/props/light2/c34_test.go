package light2

import (
	"encoding/json"
	"fmt"
	"math/big"
	"strconv"
	"strings"
	"testing"

	"pgregory.net/rapid"

	"github.com/ava-labs/hypersdk/consts"
	"github.com/ava-labs/hypersdk/utils"
	"github.com/ava-labs/hypersdk/verifharness/vstat"
)

// C34: utils.ParseBalance(utils.FormatBalance(b)) == b for every 64-bit
// balance, and parsing a decimal string "i.f" with at most consts.Decimals
// fractional digits that is within range yields exactly
// i*10^Decimals + f*10^(Decimals-len(f)).
//
// All expected values are computed with integers (math/big), never floats.

type c34Case struct {
	// Kind "balance": round trip of Balance.
	// Kind "string": Int and Frac (decimal digit strings) are parsed as
	// Int, or Int.Frac when Frac is not empty.
	Kind    string
	Balance uint64
	Int     string
	Frac    string
}

const c34MaxInt = uint64(18446744073) // (2^64-1) / 10^9
const c34MaxFrac = uint64(709551615)  // (2^64-1) % 10^9

func c34Pow10(n int) uint64 {
	p := uint64(1)
	for i := 0; i < n; i++ {
		p *= 10
	}
	return p
}

func c34Balance(rt *rapid.T) uint64 {
	switch rapid.IntRange(0, 9).Draw(rt, "bclass") {
	case 0:
		return rapid.SampledFrom([]uint64{0, 1, 999_999_999, 1_000_000_000, 1_000_000_001, 1_005_000_000, 8_200_000_000, 1<<63 - 1, 1 << 63, 1<<63 + 1, ^uint64(0), ^uint64(0) - 1}).Draw(rt, "b")
	case 1:
		// around 2^53 (first integers a float64 cannot represent) and above
		k := rapid.Uint64Range(0, 4096).Draw(rt, "k")
		if rapid.Bool().Draw(rt, "neg") {
			return 1<<53 - k
		}
		return 1<<53 + k
	case 2:
		// 10^e +- k
		e := rapid.IntRange(0, 19).Draw(rt, "e")
		k := rapid.Uint64Range(0, 3).Draw(rt, "k")
		p := c34Pow10(e)
		if rapid.Bool().Draw(rt, "neg") && p >= k {
			return p - k
		}
		return p + k
	case 3:
		return ^uint64(0) - rapid.Uint64Range(0, 1_000_000).Draw(rt, "k")
	case 4:
		// 2^e +- k
		e := rapid.IntRange(0, 63).Draw(rt, "e")
		k := rapid.Uint64Range(0, 3).Draw(rt, "k")
		p := uint64(1) << e
		if rapid.Bool().Draw(rt, "neg") && p >= k {
			return p - k
		}
		return p + k
	case 5, 6:
		return rapid.Uint64Range(0, 1_000_000_000_000).Draw(rt, "b")
	default:
		return rapid.Uint64().Draw(rt, "b")
	}
}

func c34Gen(rt *rapid.T) c34Case {
	switch rapid.IntRange(0, 9).Draw(rt, "kind") {
	case 0, 1, 2, 3:
		return c34Case{Kind: "balance", Balance: c34Balance(rt)}
	case 4:
		// too many fractional digits (outside the property's domain; weak check only)
		i := rapid.Uint64Range(0, 1_000_000).Draw(rt, "int")
		n := rapid.IntRange(consts.Decimals+1, consts.Decimals+4).Draw(rt, "nfrac")
		frac := rapid.StringOfN(rapid.RuneFrom([]rune("0123456789")), n, n, n).Draw(rt, "frac")
		return c34Case{Kind: "overprecise", Int: strconv.FormatUint(i, 10), Frac: frac}
	default:
		var i uint64
		switch rapid.IntRange(0, 5).Draw(rt, "iclass") {
		case 0:
			i = rapid.SampledFrom([]uint64{0, 1, 8, c34MaxInt, c34MaxInt - 1}).Draw(rt, "int")
		case 1:
			i = rapid.Uint64Range(0, c34MaxInt).Draw(rt, "int")
		case 2:
			i = rapid.Uint64Range(9_007_199, 9_007_200).Draw(rt, "int") // 2^53 / 10^9
		default:
			i = rapid.Uint64Range(0, 100_000).Draw(rt, "int")
		}
		n := rapid.IntRange(0, consts.Decimals).Draw(rt, "nfrac")
		var frac string
		if i == c34MaxInt {
			// stay within range by construction
			f := rapid.Uint64Range(0, c34MaxFrac).Draw(rt, "fracv")
			full := fmt.Sprintf("%0*d", consts.Decimals, f)
			frac = full
			if rapid.Bool().Draw(rt, "trim") {
				frac = strings.TrimRight(full, "0")
			}
		} else if n > 0 {
			frac = rapid.StringOfN(rapid.RuneFrom([]rune("0123456789")), n, n, n).Draw(rt, "frac")
		}
		// a decimal string may carry leading zeros in its integer part ("010.5" is ten and a half)
		zeros := ""
		if rapid.IntRange(0, 3).Draw(rt, "leadzeros") == 0 {
			zeros = strings.Repeat("0", rapid.IntRange(1, 3).Draw(rt, "nzeros"))
		}
		return c34Case{Kind: "string", Int: zeros + strconv.FormatUint(i, 10), Frac: frac}
	}
}

var c34Unit = new(big.Int).SetUint64(c34Pow10(consts.Decimals))

// c34Exact returns i*10^9 + f*10^(9-len f) for len f <= 9 (exact).
func c34Exact(i, frac string) (*big.Int, error) {
	bi, ok := new(big.Int).SetString(i, 10)
	if !ok {
		return nil, fmt.Errorf("bad case: int part %q", i)
	}
	v := new(big.Int).Mul(bi, c34Unit)
	if frac != "" {
		bf, ok := new(big.Int).SetString(frac, 10)
		if !ok || len(frac) > consts.Decimals {
			return nil, fmt.Errorf("bad case: frac part %q", frac)
		}
		bf.Mul(bf, new(big.Int).SetUint64(c34Pow10(consts.Decimals-len(frac))))
		v.Add(v, bf)
	}
	return v, nil
}

// c34FracBinaryExact reports whether 0.frac is a dyadic rational (exactly
// representable in binary floating point, precision permitting).
func c34FracBinaryExact(frac9 uint64) bool {
	if frac9 == 0 {
		return true
	}
	// frac9 / 10^9 = frac9 / (2^9 * 5^9): dyadic iff 5^9 divides frac9
	return frac9%1953125 == 0
}

func c34Str(c c34Case) string {
	if c.Frac == "" {
		return c.Int
	}
	return c.Int + "." + c.Frac
}

func c34Run(c c34Case, st *vstat.Stats) error {
	switch c.Kind {
	case "balance":
		b := c.Balance
		nt := b >= 1<<53 || !c34FracBinaryExact(b%c34Pow10(consts.Decimals))
		labels := []string{"kind-balance"}
		if b >= 1<<53 {
			labels = append(labels, "balance>=2^53")
		}
		if b >= 1<<63 {
			labels = append(labels, "balance>=2^63")
		}
		if !c34FracBinaryExact(b % c34Pow10(consts.Decimals)) {
			labels = append(labels, "fraction-not-binary-exact")
		}
		s := utils.FormatBalance(b)
		st.Case(nt, fmt.Sprintf("b%d", b), labels...)
		st.Sample(nt, map[string]any{"balance": strconv.FormatUint(b, 10), "formatted": s})
		got, err := utils.ParseBalance(s)
		if err != nil {
			return fmt.Errorf("ParseBalance(FormatBalance(%d) = %q) failed: %v", b, s, err)
		}
		if got != b {
			return fmt.Errorf("ParseBalance(FormatBalance(%d) = %q) = %d", b, s, got)
		}
		// the canonical full-precision rendering is a decimal string with 9
		// fractional digits, so the second clause applies to it as well
		canon := fmt.Sprintf("%d.%0*d", b/c34Pow10(consts.Decimals), consts.Decimals, b%c34Pow10(consts.Decimals))
		got, err = utils.ParseBalance(canon)
		if err != nil {
			return fmt.Errorf("ParseBalance(%q) failed: %v", canon, err)
		}
		if got != b {
			return fmt.Errorf("ParseBalance(%q) = %d, want %d", canon, got, b)
		}
		return nil

	case "string":
		want, err := c34Exact(c.Int, c.Frac)
		if err != nil {
			return err
		}
		if !want.IsUint64() {
			return fmt.Errorf("bad case: %s out of range", c34Str(c))
		}
		w := want.Uint64()
		frac9 := w % c34Pow10(consts.Decimals)
		nt := w >= 1<<53 || !c34FracBinaryExact(frac9)
		labels := []string{"kind-string", fmt.Sprintf("frac-digits-%d", len(c.Frac))}
		if w >= 1<<53 {
			labels = append(labels, "balance>=2^53")
		}
		if w >= 1<<63 {
			labels = append(labels, "balance>=2^63")
		}
		if !c34FracBinaryExact(frac9) {
			labels = append(labels, "fraction-not-binary-exact")
		}
		if len(c.Int) > 1 && c.Int[0] == '0' {
			labels = append(labels, "integer-part-with-leading-zeros")
		}
		s := c34Str(c)
		st.Case(nt, "s"+s, labels...)
		st.Sample(nt, map[string]any{"string": s, "want": strconv.FormatUint(w, 10)})
		got, perr := utils.ParseBalance(s)
		if perr != nil {
			return fmt.Errorf("ParseBalance(%q) failed: %v (want %d)", s, perr, w)
		}
		if got != w {
			return fmt.Errorf("ParseBalance(%q) = %d, want %d", s, got, w)
		}
		return nil

	case "overprecise":
		st.Assumption("strings with more than 9 fractional digits are outside the property's domain; the check only requires that such a string is either rejected or parsed to the exact amount truncated or rounded to a whole base unit")
		s := c34Str(c)
		bi, ok1 := new(big.Int).SetString(c.Int, 10)
		bf, ok2 := new(big.Int).SetString(c.Frac, 10)
		if !ok1 || !ok2 || len(c.Frac) <= consts.Decimals {
			return fmt.Errorf("bad case: %q", s)
		}
		// exact value in base units = (i*10^n + f) * 10^9 / 10^n
		scale := new(big.Int).Exp(big.NewInt(10), big.NewInt(int64(len(c.Frac))), nil)
		num := new(big.Int).Mul(bi, scale)
		num.Add(num, bf)
		num.Mul(num, c34Unit)
		floor, rem := new(big.Int).QuoRem(num, scale, new(big.Int))
		ceil := new(big.Int).Set(floor)
		if rem.Sign() != 0 {
			ceil.Add(ceil, big.NewInt(1))
		}
		got, perr := utils.ParseBalance(s)
		lbl := "overprecise-rejected"
		if perr == nil {
			lbl = "overprecise-accepted"
		}
		st.Case(false, "o"+s, "kind-overprecise", lbl)
		st.Sample(false, map[string]any{"string": s, "accepted": perr == nil})
		if perr != nil {
			return nil
		}
		g := new(big.Int).SetUint64(got)
		if g.Cmp(floor) != 0 && g.Cmp(ceil) != 0 {
			return fmt.Errorf("ParseBalance(%q) = %d without error, but the exact amount lies in [%s, %s]", s, got, floor, ceil)
		}
		return nil
	}
	return fmt.Errorf("bad case kind %q", c.Kind)
}

func TestC34(t *testing.T) {
	st := vstat.New(t, "C34", "40% balances over the whole uint64 range (biased to 2^53+-k, 10^e+-k, 2^e+-k, 2^64-1-k, values below 10^12): Parse(Format(b)) = b and Parse(full 9-digit rendering of b) = b; 50% canonical decimal strings i or i.f with 0..9 fractional digits within range (integer part up to 18446744073, fraction clamped at the top): Parse = i*10^9 + f*10^(9-len f) computed with big integers; 10% strings with 10..13 fractional digits (weak check, see assumptions). Non-trivial = amount >= 2^53 or a fraction that is not a dyadic rational; distinct by balance / string")
	rapid.Check(t, func(rt *rapid.T) {
		c := c34Gen(rt)
		vstat.Run(rt, st, c, func() error { return c34Run(c, st) })
	})
}

func TestC34Replay(t *testing.T) {
	vstat.Replay(t, "C34", func(raw []byte) error {
		var c c34Case
		if err := json.Unmarshal(raw, &c); err != nil {
			return err
		}
		return c34Run(c, vstat.New(nil, "C34", ""))
	})
}

// TestC34Seeds runs fixed regression cases: the inputs on which the pinned
// tree was found to violate the property (finding F9), the suite's own cases
// and range boundaries.
func TestC34Seeds(t *testing.T) {
	st := vstat.New(t, "C34", "fixed regression cases: F9 failing inputs (\"1.005\", \"8.2\", 2^64-1, 9007199254740990), the cases of utils/utils_test.go, range boundaries")
	cases := []c34Case{
		{Kind: "string", Int: "1", Frac: "005"},
		{Kind: "string", Int: "8", Frac: "2"},
		{Kind: "balance", Balance: ^uint64(0)},
		{Kind: "balance", Balance: 9007199254740990},
		{Kind: "balance", Balance: 1005000000},
		{Kind: "balance", Balance: 1 << 63},
		{Kind: "balance", Balance: 0},
		{Kind: "balance", Balance: 1},
		{Kind: "balance", Balance: 1000000000},
		{Kind: "balance", Balance: 123456789},
		{Kind: "balance", Balance: 1234567890},
		{Kind: "balance", Balance: 9876543210},
		{Kind: "string", Int: "0", Frac: ""},
		{Kind: "string", Int: "0", Frac: "000000001"},
		{Kind: "string", Int: "18446744073", Frac: "709551615"},
		{Kind: "string", Int: "18446744073", Frac: ""},
		{Kind: "string", Int: "18446744073", Frac: "7"},
		{Kind: "string", Int: "9007199", Frac: "254740993"},
		{Kind: "overprecise", Int: "0", Frac: "0000000001"},
		{Kind: "overprecise", Int: "1", Frac: "0000000005"},
	}
	for _, c := range cases {
		vstat.Run(t, st, c, func() error { return c34Run(c, st) })
	}
}
