package backfill

import (
	"context"
	"crypto/sha256"
	"encoding/binary"
	"errors"
	"fmt"
	"sync"

	"github.com/ava-labs/avalanchego/database"
	"github.com/ava-labs/avalanchego/ids"

	"github.com/ava-labs/hypersdk/internal/validitywindow"
)

// ------------------------------------------------------------------ block / tx types
//
// The code under test is generic over the block and container type, so the
// harness supplies its own: a block is (height, timestamp, parent id, txs) with
// a strict binary encoding; its id is the SHA-256 of its bytes (as in hypersdk,
// where the block id is the hash of the block bytes). A "forged" block is
// therefore any well-formed encoding whose hash is not the expected parent id.

type tx struct {
	ID     ids.ID
	Expiry int64
}

func (t tx) GetID() ids.ID    { return t.ID }
func (t tx) GetExpiry() int64 { return t.Expiry }

type blk struct {
	H    uint64
	TS   int64
	Prnt ids.ID
	Txs  []tx

	id    ids.ID
	bytes []byte
	txSet map[ids.ID]struct{}
}

var (
	_ validitywindow.ExecutionBlock[tx] = (*blk)(nil)
	_ validitywindow.HandlerBlock       = (*blk)(nil)
)

func (b *blk) GetID() ids.ID       { return b.id }
func (b *blk) GetParent() ids.ID   { return b.Prnt }
func (b *blk) GetTimestamp() int64 { return b.TS }
func (b *blk) GetHeight() uint64   { return b.H }
func (b *blk) GetBytes() []byte    { return b.bytes }
func (b *blk) GetContainers() []tx { return b.Txs }
func (b *blk) Contains(id ids.ID) bool {
	_, ok := b.txSet[id]
	return ok
}
func (b *blk) String() string { return fmt.Sprintf("blk(h=%d ts=%d id=%s)", b.H, b.TS, b.id) }

const blkMagic = 0xB1

func newBlk(h uint64, ts int64, parent ids.ID, txs []tx) *blk {
	b := &blk{H: h, TS: ts, Prnt: parent, Txs: txs, txSet: map[ids.ID]struct{}{}}
	buf := make([]byte, 0, 1+8+8+32+2+len(txs)*40)
	buf = append(buf, blkMagic)
	buf = binary.BigEndian.AppendUint64(buf, h)
	buf = binary.BigEndian.AppendUint64(buf, uint64(ts))
	buf = append(buf, parent[:]...)
	buf = binary.BigEndian.AppendUint16(buf, uint16(len(txs)))
	for _, t := range txs {
		buf = append(buf, t.ID[:]...)
		buf = binary.BigEndian.AppendUint64(buf, uint64(t.Expiry))
		b.txSet[t.ID] = struct{}{}
	}
	b.bytes = buf
	b.id = sha256.Sum256(buf)
	return b
}

var errParse = errors.New("malformed block bytes")

// blkParser is the strict decoder handed to the client (the role of vm.ParseBlock).
type blkParser struct{}

func (blkParser) ParseBlock(_ context.Context, raw []byte) (*blk, error) {
	return parseBlk(raw)
}

func parseBlk(raw []byte) (*blk, error) {
	const fixed = 1 + 8 + 8 + 32 + 2
	if len(raw) < fixed || raw[0] != blkMagic {
		return nil, errParse
	}
	h := binary.BigEndian.Uint64(raw[1:9])
	ts := int64(binary.BigEndian.Uint64(raw[9:17]))
	var parent ids.ID
	copy(parent[:], raw[17:49])
	n := int(binary.BigEndian.Uint16(raw[49:51]))
	if len(raw) != fixed+n*40 {
		return nil, errParse
	}
	txs := make([]tx, n)
	for i := 0; i < n; i++ {
		off := fixed + i*40
		copy(txs[i].ID[:], raw[off:off+32])
		txs[i].Expiry = int64(binary.BigEndian.Uint64(raw[off+32 : off+40]))
	}
	return newBlk(h, ts, parent, txs), nil
}

func txID(class byte, a, b int) ids.ID {
	var id ids.ID
	id[0] = class
	binary.BigEndian.PutUint32(id[1:5], uint32(a))
	binary.BigEndian.PutUint32(id[5:9], uint32(b))
	return id
}

// ------------------------------------------------------------------ local block store
//
// store plays vm.chainStore + vm.GetExecutionBlock: block lookup by id for the
// validity window, SaveHistorical for the syncer. It records every block handed
// to SaveHistorical (in call order) and can be told to fail the k-th call.

type store struct {
	mu       sync.Mutex
	byID     map[ids.ID]*blk
	saved    []*blk // every block handed to SaveHistorical, in order (incl. the failing one)
	savedOK  []bool
	failAt   int // 1-based call index that fails; 0 = never
	failures int
}

var errInjectedSave = errors.New("injected SaveHistorical failure")

func newStore(failAt int) *store {
	return &store{byID: map[ids.ID]*blk{}, failAt: failAt}
}

func (s *store) put(b *blk) {
	s.mu.Lock()
	s.byID[b.id] = b
	s.mu.Unlock()
}

func (s *store) GetExecutionBlock(_ context.Context, id ids.ID) (validitywindow.ExecutionBlock[tx], error) {
	s.mu.Lock()
	defer s.mu.Unlock()
	b, ok := s.byID[id]
	if !ok {
		return nil, database.ErrNotFound
	}
	return b, nil
}

func (s *store) SaveHistorical(b *blk) error {
	s.mu.Lock()
	defer s.mu.Unlock()
	s.saved = append(s.saved, b)
	if s.failAt != 0 && len(s.saved) == s.failAt {
		s.savedOK = append(s.savedOK, false)
		s.failures++
		return errInjectedSave
	}
	s.savedOK = append(s.savedOK, true)
	s.byID[b.id] = b
	return nil
}

func (s *store) snapshot() ([]*blk, []bool) {
	s.mu.Lock()
	defer s.mu.Unlock()
	return append([]*blk(nil), s.saved...), append([]bool(nil), s.savedOK...)
}

// ------------------------------------------------------------------ peer-side block retriever

// retriever is what a serving node hands to BlockFetcherHandler: blocks by
// height, restricted to [lo, hi] to model a node with partial history.
type retriever struct {
	chain  []*blk
	lo, hi int
}

func (r *retriever) GetBlockByHeight(_ context.Context, h uint64) (*blk, error) {
	if h > uint64(len(r.chain)) || int(h) < r.lo || int(h) > r.hi || int(h) >= len(r.chain) {
		return nil, database.ErrNotFound
	}
	return r.chain[h], nil
}
