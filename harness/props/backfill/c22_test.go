package backfill

import (
	"bytes"
	"context"
	"crypto/sha256"
	"encoding/json"
	"errors"
	"fmt"
	"os"
	"runtime/debug"
	"strconv"
	"strings"
	"sync"
	"sync/atomic"
	"testing"
	"time"

	"github.com/ava-labs/avalanchego/ids"
	"github.com/ava-labs/avalanchego/network/p2p"
	"github.com/ava-labs/avalanchego/snow/engine/common"
	"github.com/ava-labs/avalanchego/trace"
	"github.com/ava-labs/avalanchego/utils/logging"
	"github.com/ava-labs/avalanchego/utils/set"
	"pgregory.net/rapid"

	"github.com/ava-labs/hypersdk/internal/typedclient"
	"github.com/ava-labs/hypersdk/internal/validitywindow"
	"github.com/ava-labs/hypersdk/verifharness/vstat"
)

// C22: validity-window backfill trusts only the hash-linked ancestry of the
// sync target.
//
// Real code wired together exactly as vm/statesync.go does:
//
//	Syncer -> BlockFetcherClient -> P2PBlockFetcher (typed client, canoto) -> [scripted network]
//	Syncer -> TimeValidityWindow (populate / AcceptHistorical / IsRepeat)
//	honest peers = the real BlockFetcherHandler over a block store
//
// Harness-owned: the block/tx type and its parser, the local block store
// (records SaveHistorical calls, can fail the k-th), the node sampler and the
// p2p client (a per-round script decides what the sampled peer answers).
//
// Oracles (all computed from the true chain, never from the client's state):
//
//	S  safety      every block handed to SaveHistorical is byte-identical to the
//	               true ancestor at its height; the first one is adjacent to what
//	               is already local; heights then descend by exactly one.
//	T  tracking    IsRepeat(target, target.ts, U) over the universe U of all true,
//	               foreign and forged txs: a true tx with expiry >= target.ts in a
//	               covered ancestor (target .. first ancestor older than the
//	               window, or .. genesis) is tracked; a tx that exists only in
//	               forged / foreign blocks, or in a true block above the target, or
//	               in a block whose SaveHistorical failed, is not.
//	C  completion  Wait()==nil only with the recorded ancestry reaching the first
//	               block older than the window (or genesis); Wait errs iff a
//	               SaveHistorical failed.
//	L  liveness    content based, no clocks: whenever the response *delivered to
//	               the client* starts with m linked true ancestors of the block it
//	               asked for, the next request must ask for a height <= h-m, and
//	               if those m blocks reach the first block older than the window
//	               no further progress is owed. After the script every answer is
//	               honest, so this bounds the number of rounds. A plain timeout is
//	               INCONCLUSIVE (test fails without a VIOLATION).

// ---------------------------------------------------------------- case

const (
	kHonest        = iota // real handler over the whole true chain
	kPartialStore         // real handler over a node that has only part of the history
	kPrefix               // first k blocks of the honest answer
	kTruncated            // k good blocks, then a block cut in half
	kReordered            // honest answer permuted
	kForged               // one block replaced by a well-formed block with a different hash
	kForeign              // blocks of another chain (fork of the true one) at the same heights
	kGarbageBlocks        // unparsable block bytes after k good blocks
	kGarbageResp          // response bytes that do not decode at all
	kEmpty                // zero blocks
	kAppError             // application error
	kSendError            // the request cannot be sent
	kTimeout              // no answer within the client's request timeout
	kNoPeer               // the sampler has no peer
	kShifted              // answer for a neighbouring height (stale duplicate / gap)
	kOverlong             // honest answer that keeps going below the window
	kDupInside            // a block repeated inside the answer
	kNumKinds
)

var kindNames = [...]string{"honest", "partial-store", "prefix", "truncated", "reordered", "forged", "foreign",
	"garbage-blocks", "garbage-response", "empty", "app-error", "send-error", "timeout", "no-peer", "shifted",
	"overlong", "dup-inside"}

type c22Round struct {
	Kind int `json:"k"`
	A    int `json:"a"`
	B    int `json:"b"`
	Peer int `json:"p"`
}

type c22Case struct {
	TS         []int64    `json:"ts"`           // timestamps of heights 0..n (non-decreasing, ts[0] >= 1)
	Exp        [][]int64  `json:"exp"`          // expiries of the txs of each true block
	Target     int        `json:"target"`       // height of the sync target (>= 1)
	Suffix     int        `json:"suffix"`       // blocks directly below the target that are already local
	Stash      int        `json:"stash"`        // heights [0,Stash) are local too but not connected to the suffix
	Window     int64      `json:"window"`       // validity window (constant rule)
	Head       int        `json:"head"`         // block the window was built from at init: 0 target, 1 oldest local, 2 genesis
	Fork       int        `json:"fork"`         // the foreign chain shares heights <= Fork with the true one (-1: nothing)
	FExp       [][]int64  `json:"fexp"`         // expiries of the foreign-only txs per height
	FCopy      bool       `json:"fcopy"`        // foreign blocks also carry the true block's txs
	Peers      int        `json:"peers"`        // 1..3
	Script     []c22Round `json:"script"`       // one entry per sampling round; afterwards: honest
	SaveFailAt int        `json:"save_fail_at"` // 1-based SaveHistorical call that fails (0: none)
	CancelAt   int        `json:"cancel_at"`    // the context handed to Start is cancelled at the k-th sampling round (0: never)
}

func (c c22Case) check() error {
	n := len(c.TS) - 1
	switch {
	case n < 1, len(c.Exp) != n+1, len(c.FExp) != n+1:
		return errors.New("malformed case: lengths")
	case c.Target < 1 || c.Target > n, c.Suffix < 0 || c.Suffix > c.Target:
		return errors.New("malformed case: target/suffix")
	case c.Stash < 0 || (c.Stash > 0 && c.Stash > c.Target-c.Suffix-1):
		return errors.New("malformed case: stash")
	case c.Window < 0, c.Fork < -1 || c.Fork >= n, c.Peers < 1 || c.Peers > 3, c.SaveFailAt < 0, c.CancelAt < 0, c.TS[0] < 1:
		return errors.New("malformed case: scalars")
	}
	for i := 1; i <= n; i++ {
		if c.TS[i] < c.TS[i-1] {
			return errors.New("malformed case: timestamps decrease")
		}
	}
	for _, r := range c.Script {
		if r.Kind < 0 || r.Kind >= kNumKinds || r.A < 0 || r.B < 0 || r.Peer < 0 {
			return errors.New("malformed case: script")
		}
	}
	return nil
}

// ---------------------------------------------------------------- generator

func weighted[T any](pairs ...any) *rapid.Generator[T] {
	var xs []T
	for i := 0; i < len(pairs); i += 2 {
		for k := 0; k < pairs[i+1].(int); k++ {
			xs = append(xs, pairs[i].(T))
		}
	}
	return rapid.SampledFrom(xs)
}

var (
	genKind = rapid.SampledFrom([]int{kForged, kForeign, kReordered, kAppError, kShifted, kDupInside, kForged, kEmpty,
		kForeign, kTruncated, kSendError, kGarbageBlocks, kReordered, kPartialStore, kGarbageResp, kForged, kPrefix,
		kForeign, kOverlong, kNoPeer, kShifted, kDupInside, kHonest, kReordered, kTimeout, kTruncated, kGarbageBlocks,
		kPartialStore, kForeign, kPrefix, kOverlong, kForged})
	genIncr      = weighted[int64](int64(1), 4, int64(0), 4, int64(2), 2, int64(3), 1, int64(10), 1)
	genScriptLen = weighted[int](3, 4, 4, 4, 2, 3, 5, 3, 6, 2, 1, 2, 7, 1, 0, 1)
	genN         = rapid.SampledFrom([]int{8, 12, 5, 16, 3, 20, 10, 6, 14, 2, 4, 18, 7, 9, 1, 11, 13})
	genYoung     = weighted[bool](false, 9, true, 1)
	genCancel    = weighted[bool](false, 3, true, 1)
	genSuffix    = weighted[int](0, 9, 2, 10, 1, 1) // none / drawn / everything
)

func c22Gen(rt *rapid.T) c22Case {
	var c c22Case
	n := genN.Draw(rt, "n")
	c.TS = make([]int64, n+1)
	c.TS[0] = rapid.SampledFrom([]int64{1, 2, 1000}).Draw(rt, "genesis-ts")
	for i := 1; i <= n; i++ {
		c.TS[i] = c.TS[i-1] + genIncr.Draw(rt, "incr")
	}
	if rapid.IntRange(0, 9).Draw(rt, "target-is-tip") < 7 {
		c.Target = n
	} else {
		c.Target = rapid.IntRange(1, n).Draw(rt, "target")
	}
	t := c.Target
	span := c.TS[t] - c.TS[0]

	// window: chosen through the oldest-allowed timestamp it induces, so that the
	// boundary sits on / next to real block timestamps (runs of equal timestamps included)
	young := genYoung.Draw(rt, "young") || span == 0
	if young {
		c.Window = span + rapid.SampledFrom([]int64{0, 0, 1, 5, 1000}).Draw(rt, "young-extra")
	} else {
		i := rapid.IntRange(0, t).Draw(rt, "boundary-near")
		m := c.TS[i] + rapid.SampledFrom([]int64{0, 0, 1}).Draw(rt, "boundary-delta")
		if m <= c.TS[0] {
			m = c.TS[0] + 1
		}
		if m > c.TS[t] {
			m = c.TS[t]
		}
		c.Window = c.TS[t] - m
	}
	minTS := max(0, c.TS[t]-c.Window)

	// need = how many blocks below the target complete the window (down to the first
	// block older than the window, or to genesis)
	need := t
	for h := t - 1; h >= 0; h-- {
		if c.TS[h] < minTS {
			need = t - h
			break
		}
	}
	switch genSuffix.Draw(rt, "suffix-class") {
	case 1: // the local blocks already complete the window: nothing to fetch
		c.Suffix = rapid.IntRange(need, t).Draw(rt, "suffix-complete")
	case 0:
		c.Suffix = 0
	default:
		c.Suffix = rapid.IntRange(0, need-1).Draw(rt, "suffix")
	}
	if room := t - c.Suffix - 1; room > 0 && rapid.IntRange(0, 5).Draw(rt, "stash?") == 0 {
		c.Stash = rapid.IntRange(1, room).Draw(rt, "stash")
	}
	c.Head = rapid.IntRange(0, 2).Draw(rt, "head")

	// txs: expiries inside [block ts, block ts + window], biased to the ends and to the target's timestamp
	c.Exp = make([][]int64, n+1)
	for h := 1; h <= n; h++ {
		k := rapid.IntRange(0, 3).Draw(rt, "ntx")
		for j := 0; j < k; j++ {
			lo, hi := c.TS[h], c.TS[h]+c.Window
			var e int64
			switch rapid.IntRange(0, 5).Draw(rt, "exp-class") {
			case 0:
				e = lo
			case 1, 2:
				e = hi
			case 3:
				e = min(max(c.TS[t], lo), hi)
			default:
				e = rapid.Int64Range(lo, hi).Draw(rt, "exp")
			}
			c.Exp[h] = append(c.Exp[h], e)
		}
	}

	// foreign chain
	c.Fork = rapid.IntRange(-1, n-1).Draw(rt, "fork")
	c.FCopy = rapid.Bool().Draw(rt, "fcopy")
	c.FExp = make([][]int64, n+1)
	for h := 0; h <= n; h++ {
		k := rapid.IntRange(1, 2).Draw(rt, "fntx")
		for j := 0; j < k; j++ {
			c.FExp[h] = append(c.FExp[h], c.TS[t]+rapid.Int64Range(0, c.Window).Draw(rt, "fexp"))
		}
	}

	c.Peers = rapid.IntRange(1, 3).Draw(rt, "peers")
	l := genScriptLen.Draw(rt, "script-len")
	timeouts := 0
	for i := 0; i < l; i++ {
		r := c22Round{Kind: genKind.Draw(rt, "kind"), A: rapid.IntRange(0, 7).Draw(rt, "a"),
			B: rapid.IntRange(0, 7).Draw(rt, "b"), Peer: rapid.IntRange(0, c.Peers-1).Draw(rt, "peer")}
		if r.Kind == kTimeout {
			// a timed-out request costs 1.5 s of real time: at most one per case
			if timeouts++; timeouts > 1 {
				r.Kind = kAppError
			}
		}
		c.Script = append(c.Script, r)
	}
	if genCancel.Draw(rt, "cancel-start?") {
		// the caller's Start context ends in the middle of the backfill (shutdown / deadline)
		c.CancelAt = rapid.IntRange(1, len(c.Script)+1).Draw(rt, "cancel-at")
	}
	if rapid.IntRange(0, 5).Draw(rt, "save-fail?") == 0 {
		c.SaveFailAt = rapid.IntRange(1, 4).Draw(rt, "save-fail-at")
	}
	return c
}

// ---------------------------------------------------------------- environment of one case

type roundRec struct {
	kind    string
	height  uint64
	err     bool
	nBlocks int
	m       int // leading linked true ancestors in the delivered response
}

type env struct {
	c       c22Case
	strict  bool
	n, t    int
	minTS   int64
	chain   []*blk // true chain
	fchain  []*blk // the foreign chain as its peers see it (== chain up to Fork)
	oldest  int    // lowest height of the local run that is linked to the target
	low     int    // height of the first ancestor older than the window; 0 with young==true if there is none
	young   bool
	peerIDs []ids.NodeID
	full    *validitywindow.BlockFetcherHandler[*blk]

	mu        sync.Mutex
	rounds    int // Sample calls so far
	cur       c22Round
	curIdx    int
	log       []roundRec
	maxNext   int64 // the next request must not ask for a height above this
	mustStop  string
	over      bool
	verdict   error
	youngSpin bool
	runaway   bool
	overfetch bool
	sawNT     bool
	skipped   map[string]int
	abortOnce sync.Once
	abort     chan struct{}

	cancelStart    context.CancelFunc // ends the context handed to Syncer.Start
	startCancelled bool
	cancelled      chan struct{}
}

func (e *env) fail(format string, args ...any) {
	if e.verdict == nil && !e.over {
		e.verdict = fmt.Errorf(format, args...)
	}
	e.abortOnce.Do(func() { close(e.abort) })
}

func newEnv(c c22Case) *env {
	e := &env{c: c, n: len(c.TS) - 1, t: c.Target, abort: make(chan struct{}), skipped: map[string]int{}}
	e.strict = os.Getenv("VERIF_C22_STRICT_GENESIS") != "0" // the genesis stop is demanded (repaired by fix F22)
	e.minTS = max(0, c.TS[e.t]-c.Window)
	e.chain = make([]*blk, e.n+1)
	e.fchain = make([]*blk, e.n+1)
	parent, fparent := ids.Empty, ids.Empty
	for h := 0; h <= e.n; h++ {
		var txs []tx
		for j, exp := range c.Exp[h] {
			txs = append(txs, tx{ID: txID('T', h, j), Expiry: exp})
		}
		e.chain[h] = newBlk(uint64(h), c.TS[h], parent, txs)
		parent = e.chain[h].id
		if h <= c.Fork {
			e.fchain[h] = e.chain[h]
		} else {
			var ftxs []tx
			if c.FCopy {
				ftxs = append(ftxs, txs...)
			}
			for j, exp := range c.FExp[h] {
				ftxs = append(ftxs, tx{ID: txID('F', h, j), Expiry: exp})
			}
			e.fchain[h] = newBlk(uint64(h), c.TS[h], fparent, ftxs)
		}
		fparent = e.fchain[h].id
	}
	e.oldest = e.t - c.Suffix
	e.young = true
	for h := e.t - 1; h >= 0; h-- {
		if e.chain[h].TS < e.minTS {
			e.low, e.young = h, false
			break
		}
	}
	for i := 0; i < c.Peers; i++ {
		var id ids.NodeID
		id[0] = byte(i + 1)
		e.peerIDs = append(e.peerIDs, id)
	}
	e.full = validitywindow.NewBlockFetcherHandler[*blk](&retriever{chain: e.chain, lo: 0, hi: e.n})
	e.maxNext = int64(e.t) - 1
	return e
}

// trueRun is what an honest node with the full history may answer to (h, minTS).
func (e *env) trueRun(h uint64, minTS int64) []*blk {
	if h > uint64(e.n) {
		return nil
	}
	var out []*blk
	for i := int(h); i >= 0; i-- {
		out = append(out, e.chain[i])
		if e.chain[i].TS < minTS {
			break
		}
	}
	return out
}

// ---- sampler

type sampler struct{ e *env }

func (s sampler) Sample(context.Context, int) []ids.NodeID {
	e := s.e
	e.mu.Lock()
	defer e.mu.Unlock()
	e.curIdx = e.rounds
	if e.rounds < len(e.c.Script) {
		e.cur = e.c.Script[e.rounds]
	} else {
		e.cur = c22Round{Kind: kHonest, Peer: 0}
	}
	e.rounds++
	if e.c.CancelAt != 0 && e.rounds == e.c.CancelAt && !e.startCancelled && !e.over {
		e.startCancelled = true
		e.cancelStart()
		close(e.cancelled)
	}
	if e.rounds > len(e.c.Script)+e.n+16 {
		// cannot happen while the liveness oracle holds unless requests keep timing out on an
		// overloaded machine: stop the case, no verdict
		e.runaway = true
		e.abortOnce.Do(func() { close(e.abort) })
	}
	if e.cur.Kind == kNoPeer {
		e.log = append(e.log, roundRec{kind: kindNames[kNoPeer], err: true})
		return nil
	}
	return []ids.NodeID{e.peerIDs[e.cur.Peer%len(e.peerIDs)]}
}

// ---- scripted network (typedclient.P2PClient)

type scriptNet struct{ e *env }

var _ typedclient.P2PClient = scriptNet{}

func (scriptNet) AppRequestAny(context.Context, []byte, p2p.AppResponseCallback) error {
	return errors.New("unused")
}

func (scriptNet) AppGossip(context.Context, common.SendConfig, []byte) error { return nil }

func garbage(a, b, i, n int) []byte {
	h := sha256.Sum256([]byte(fmt.Sprintf("garbage/%d/%d/%d", a, b, i)))
	return append([]byte{}, h[:1+n%32]...)
}

func (sn scriptNet) AppRequest(ctx context.Context, nodeIDs set.Set[ids.NodeID], reqBytes []byte, cb p2p.AppResponseCallback) error {
	e := sn.e
	node, _ := nodeIDs.Peek()
	e.mu.Lock()
	r, idx := e.cur, e.curIdx
	e.mu.Unlock()

	req := new(validitywindow.BlockFetchRequest)
	if err := req.UnmarshalCanoto(reqBytes); err != nil {
		e.mu.Lock()
		e.fail("the client sent a request that does not decode: %v", err)
		e.mu.Unlock()
		return err
	}
	h := req.BlockHeight
	run := e.trueRun(h, req.MinTimestamp)
	raw := func(bs []*blk) [][]byte {
		out := make([][]byte, len(bs))
		for i, b := range bs {
			out[i] = b.bytes
		}
		return out
	}
	respond := func(blocks [][]byte) error {
		cb(ctx, node, (&validitywindow.BlockFetchResponse{Blocks: blocks}).MarshalCanoto(), nil)
		return nil
	}
	appErr := func() error {
		cb(ctx, node, nil, &common.AppError{Code: validitywindow.ErrBlocksNotFound, Message: "scripted"})
		return nil
	}
	serve := func(lo, hi int) error {
		hd := e.full
		if lo != 0 || hi != e.n {
			hd = validitywindow.NewBlockFetcherHandler[*blk](&retriever{chain: e.chain, lo: lo, hi: hi})
		}
		out, aerr := hd.AppRequest(ctx, ids.EmptyNodeID, time.Time{}, reqBytes)
		e.checkHandler(h, req.MinTimestamp, lo, hi, out, aerr)
		if aerr != nil {
			cb(ctx, node, nil, aerr)
			return nil
		}
		cb(ctx, node, out, nil)
		return nil
	}
	skip := func() error {
		e.mu.Lock()
		e.skipped[kindNames[r.Kind]+"-inapplicable"]++
		e.mu.Unlock()
		return appErr()
	}
	L := len(run)

	switch r.Kind {
	case kHonest:
		return serve(0, e.n)
	case kPartialStore:
		if L == 0 {
			return serve(0, e.n)
		}
		keep := 1 + r.A%L
		if r.B&1 == 1 { // the node lacks the requested block itself
			return serve(max(0, int(h)-keep), int(h)-1)
		}
		return serve(int(h)-keep+1, e.n)
	case kPrefix:
		if L == 0 {
			return skip()
		}
		return respond(raw(run[:1+r.A%L]))
	case kTruncated:
		if L == 0 {
			return skip()
		}
		k := r.A % L
		out := raw(run[:k])
		cut := run[k].bytes
		out = append(out, cut[:len(cut)/2])
		if r.B&1 == 1 {
			out = append(out, raw(run[k+1:])...)
		}
		return respond(out)
	case kReordered:
		if L < 2 {
			return skip()
		}
		out := raw(run)
		switch r.B % 3 {
		case 0:
			i := r.A % (L - 1)
			out[i], out[i+1] = out[i+1], out[i]
		case 1:
			for i, j := 0, L-1; i < j; i, j = i+1, j-1 {
				out[i], out[j] = out[j], out[i]
			}
		default:
			out = append(out[1:], out[0])
		}
		return respond(out)
	case kForged:
		if L == 0 {
			return skip()
		}
		k := r.A % L
		o := run[k]
		var f *blk
		switch r.B % 4 {
		case 0: // extra tx that is still valid at the target
			f = newBlk(o.H, o.TS, o.Prnt, append(append([]tx{}, o.Txs...), tx{ID: txID('X', idx, 0), Expiry: e.c.TS[e.t]}))
		case 1:
			f = newBlk(o.H, o.TS+1, o.Prnt, append([]tx{{ID: txID('X', idx, 0), Expiry: e.c.TS[e.t] + e.c.Window}}, o.Txs...))
		case 2:
			f = newBlk(o.H, o.TS, txID('P', idx, 0), append([]tx{{ID: txID('X', idx, 0), Expiry: e.c.TS[e.t]}}, o.Txs...))
		default:
			f = newBlk(o.H+1, o.TS, o.Prnt, []tx{{ID: txID('X', idx, 0), Expiry: e.c.TS[e.t]}})
		}
		out := raw(run)
		out[k] = f.bytes
		return respond(out)
	case kForeign:
		// the peer is on another chain: it serves its own blocks at the requested heights
		if int(h) > e.n || int(h) <= e.c.Fork {
			return skip()
		}
		var out [][]byte
		start := int(h)
		if r.B&1 == 1 { // it first relays k true blocks (as far as its fork allows to differ afterwards)
			k := r.A % L
			if int(h)-k <= e.c.Fork {
				k = int(h) - e.c.Fork - 1
			}
			out = raw(run[:k])
			start = int(h) - k
		}
		for i := start; i >= 0; i-- {
			out = append(out, e.fchain[i].bytes)
			if e.fchain[i].TS < req.MinTimestamp {
				break
			}
		}
		return respond(out)
	case kGarbageBlocks:
		k := 0
		if L > 0 {
			k = r.A % (L + 1)
		}
		out := raw(run[:k])
		out = append(out, garbage(r.A, r.B, 0, r.B*5))
		if r.B&1 == 1 {
			out = append(out, garbage(r.A, r.B, 1, r.A*7))
			out = append(out, raw(run[k:])...)
		}
		return respond(out)
	case kGarbageResp:
		cb(ctx, node, append([]byte{0xff, 0xff, 0xff, 0xff}, garbage(r.A, r.B, 2, r.A)...), nil)
		return nil
	case kEmpty:
		return respond(nil)
	case kAppError:
		return appErr()
	case kSendError:
		return errors.New("scripted send failure")
	case kTimeout:
		go func() {
			<-ctx.Done()
			cb(ctx, node, nil, ctx.Err())
		}()
		return nil
	case kShifted:
		d := uint64(1 + r.A%2)
		var h2 uint64
		if r.B&1 == 1 {
			h2 = h + d // stale: starts with blocks the client already has
		} else {
			if h < d {
				return skip()
			}
			h2 = h - d // gap
		}
		run2 := e.trueRun(h2, req.MinTimestamp)
		if len(run2) == 0 {
			return skip()
		}
		return respond(raw(run2))
	case kOverlong:
		if L == 0 {
			return skip()
		}
		out := raw(run)
		below := int(run[L-1].H) - 1
		for i := 0; i < 1+r.A%3 && below-i >= 0; i++ {
			out = append(out, e.chain[below-i].bytes)
		}
		return respond(out)
	case kDupInside:
		if L == 0 {
			return skip()
		}
		k := r.A % L
		out := raw(run[:k+1])
		out = append(out, run[k].bytes)
		out = append(out, raw(run[k+1:])...)
		return respond(out)
	}
	return appErr()
}

// checkHandler: what the real BlockFetcherHandler returned for a node holding
// heights [lo,hi] must be a non-empty prefix of the descending run of real
// blocks from the requested height; an error only if the node lacks the
// requested block. (The handler may stop early: 50 ms budget, genesis is served
// on its own. Where it stops relative to minTimestamp is not constrained here:
// extra real blocks below the window do no harm to the property.)
func (e *env) checkHandler(h uint64, minTS int64, lo, hi int, out []byte, aerr *common.AppError) {
	e.mu.Lock()
	defer e.mu.Unlock()
	has := h <= uint64(e.n) && int(h) >= lo && int(h) <= hi
	if aerr != nil {
		if has {
			e.fail("handler: error %v although the node has block %d", aerr, h)
		}
		return
	}
	if !has {
		e.fail("handler: answered a request for height %d which the node does not have", h)
		return
	}
	resp := new(validitywindow.BlockFetchResponse)
	if err := resp.UnmarshalCanoto(out); err != nil {
		e.fail("handler: response does not decode: %v", err)
		return
	}
	if len(resp.Blocks) == 0 {
		e.fail("handler: empty response without error for height %d", h)
		return
	}
	for j, raw := range resp.Blocks {
		i := int(h) - j
		if i < lo || !bytes.Equal(raw, e.chain[i].bytes) {
			e.fail("handler: block %d of the response to height %d is not the real block at height %d", j, h, i)
			return
		}
	}
}

// ---- recording fetcher: the exact view of the client (after the typed client / canoto layer)

type recFetcher struct {
	e     *env
	inner validitywindow.NetworkBlockFetcher
}

func (f *recFetcher) FetchBlocksFromPeer(ctx context.Context, node ids.NodeID, req *validitywindow.BlockFetchRequest) (*validitywindow.BlockFetchResponse, error) {
	e := f.e
	h := req.BlockHeight
	e.mu.Lock()
	kind := kindNames[e.cur.Kind]
	if !e.over && e.verdict == nil {
		switch {
		case e.mustStop == "genesis":
			// everything down to genesis was delivered as a linked run; there is nothing below
			e.youngSpin = true
			if e.strict {
				e.fail("liveness: the client asks for height %d although the linked real ancestry was delivered down to genesis (chain younger than the window): backfill never completes", h)
			} else {
				e.abortOnce.Do(func() { close(e.abort) })
			}
		case h > uint64(e.n) || int64(h) > e.maxNext:
			e.fail("liveness: round %d asks for height %d, but the responses delivered so far contained the linked real ancestors down to height %d (expected a request for height <= %d)%s",
				e.rounds, h, e.maxNext+1, e.maxNext, map[bool]string{true: " and the first block older than the window, so no request at all", false: ""}[e.mustStop != ""])
		case e.mustStop == "boundary":
			e.overfetch = true
		}
	}
	stop := e.over || e.verdict != nil || e.youngSpin || e.runaway
	e.mu.Unlock()
	if stop {
		return nil, errors.New("case is over")
	}

	resp, err := f.inner.FetchBlocksFromPeer(ctx, node, req)

	rec := roundRec{kind: kind, height: h, err: err != nil}
	e.mu.Lock()
	defer e.mu.Unlock()
	if err == nil && resp != nil && h <= uint64(e.n) {
		rec.nBlocks = len(resp.Blocks)
		stopAt := ""
		for j, raw := range resp.Blocks {
			i := int(h) - j
			if i < 0 || !bytes.Equal(raw, e.chain[i].bytes) {
				break
			}
			rec.m++
			if e.chain[i].TS < e.minTS {
				stopAt = "boundary"
				break
			}
			if i == 0 {
				stopAt = "genesis"
				break
			}
		}
		if stopAt == "" && rec.m < len(resp.Blocks) {
			if _, perr := parseBlk(resp.Blocks[rec.m]); perr == nil {
				e.sawNT = true // a well-formed block that is not the next linked ancestor
			}
		}
		if nm := int64(h) - int64(rec.m); nm < e.maxNext {
			e.maxNext = nm
		}
		if stopAt != "" && e.mustStop == "" {
			e.mustStop = stopAt
		}
	}
	e.log = append(e.log, rec)
	return resp, err
}

// ---------------------------------------------------------------- running one case

var errInconclusive = errors.New("INCONCLUSIVE")

func c22Run(c c22Case, st *vstat.Stats) (rerr error) {
	if err := c.check(); err != nil {
		return err
	}
	e := newEnv(c)
	// ctx is the context handed to Start (owned by the case: the script may cancel it);
	// Wait always runs on contexts that do not derive from it
	ctx, cancel := context.WithCancel(context.Background())
	defer cancel()
	e.cancelStart, e.cancelled = cancel, make(chan struct{})
	winF := func(int64) int64 { return c.Window }

	local := newStore(c.SaveFailAt)
	for h := e.oldest; h <= e.t; h++ {
		local.put(e.chain[h])
	}
	for h := 0; h < c.Stash; h++ {
		local.put(e.chain[h])
	}
	target := e.chain[e.t]
	head := target
	switch c.Head {
	case 1:
		head = e.chain[e.oldest]
	case 2:
		head = e.chain[0]
	}
	tvw, err := validitywindow.NewTimeValidityWindow[tx](ctx, logging.NoLog{}, trace.Noop, local, head, winF)
	if err != nil {
		return fmt.Errorf("NewTimeValidityWindow: %w", err)
	}
	fetcher := &recFetcher{e: e, inner: validitywindow.NewP2PBlockFetcher(scriptNet{e})}
	client := validitywindow.NewBlockFetcherClient[*blk](fetcher, blkParser{}, sampler{e})
	syncer := validitywindow.NewSyncer[tx, *blk](local, tvw, client, winF)

	deadline := 20*time.Second + 2*time.Second*time.Duration(len(c.Script))
	waitCtx, cancelWait := context.WithTimeout(context.Background(), deadline)
	defer cancelWait()
	go func() {
		select {
		case <-e.abort:
			cancelWait()
		case <-e.cancelled:
			cancelWait()
		case <-waitCtx.Done():
		}
	}()
	if err := syncer.Start(ctx, target); err != nil {
		return fmt.Errorf("Start: %w", err)
	}
	werr := syncer.Wait(waitCtx)
	e.mu.Lock()
	startCancelled := e.startCancelled
	e.mu.Unlock()
	cancelWaitExpired := false
	if startCancelled && werr != nil && !errors.Is(werr, errInjectedSave) {
		// the Start context was cancelled by the script: ask again on a fresh, bounded context.
		// nil is only acceptable if the window really is complete (oracle C below); an error or
		// waiting until this context ends are both fine.
		fresh, cancelFresh := context.WithTimeout(context.Background(), 700*time.Millisecond)
		werr = syncer.Wait(fresh)
		cancelWaitExpired = werr != nil && fresh.Err() != nil
		cancelFresh()
	}

	e.mu.Lock()
	e.over = true
	verdict, youngSpin, overfetch, rounds, sawNT, runaway := e.verdict, e.youngSpin, e.overfetch, e.rounds, e.sawNT, e.runaway
	log := append([]roundRec(nil), e.log...)
	skipped := map[string]int{}
	for k, v := range e.skipped {
		skipped[k] = v
	}
	e.mu.Unlock()
	cancel()
	_ = syncer.Close()

	saved, savedOK := local.snapshot()
	saveFailed := false
	for _, ok := range savedOK {
		saveFailed = saveFailed || !ok
	}

	lowRecorded := e.oldest // lowest height that is local or was recorded successfully, contiguous with the target
	for i, b := range saved {
		if !savedOK[i] {
			break
		}
		if int(b.H) < lowRecorded {
			lowRecorded = int(b.H)
		}
	}
	windowIncomplete := lowRecorded > e.low && lowRecorded > 0

	// ---- outcome
	outcome := ""
	switch {
	case verdict != nil:
		outcome = "violation"
	case youngSpin:
		outcome = "young-spin"
	case runaway:
		outcome = "timeout"
	case werr == nil:
		outcome = "done"
	case errors.Is(werr, errInjectedSave):
		outcome = "save-error"
	case startCancelled && (cancelWaitExpired || errors.Is(werr, context.Canceled) || errors.Is(werr, context.DeadlineExceeded)):
		outcome = "start-cancelled"
	case errors.Is(werr, context.DeadlineExceeded):
		outcome = "timeout"
	default:
		outcome = "unexpected-error"
	}

	// ---- evidence
	localComplete := e.oldest == 0 || (!e.young && e.oldest <= e.low)
	labels := []string{"outcome:" + outcome}
	if e.young {
		labels = append(labels, "young-chain")
	} else {
		labels = append(labels, "old-chain")
		if e.low == 0 {
			labels = append(labels, "boundary-is-genesis")
		}
		if e.low+1 <= e.t && e.chain[e.low+1].TS == e.minTS {
			labels = append(labels, "block-ts==oldest-allowed")
			if e.low+2 <= e.t && e.chain[e.low+2].TS == e.minTS {
				labels = append(labels, "equal-ts-run-at-oldest-allowed")
			}
		}
		if e.low > 0 && e.chain[e.low-1].TS == e.chain[e.low].TS {
			labels = append(labels, "equal-ts-run-below-window")
		}
	}
	switch {
	case localComplete:
		labels = append(labels, "local-complete")
	case c.Suffix == 0:
		labels = append(labels, "suffix-none")
	default:
		labels = append(labels, "suffix-partial")
	}
	if c.Stash > 0 {
		labels = append(labels, "stash")
	}
	if c.Window == 0 {
		labels = append(labels, "window-0")
	}
	seenKind := map[string]bool{}
	honestProgressRounds, mixed := 0, false
	for _, r := range log {
		if !seenKind[r.kind] {
			seenKind[r.kind] = true
			labels = append(labels, "ran:"+r.kind)
		}
		if r.kind == "honest" && r.m > 0 {
			honestProgressRounds++
		}
		if !r.err && r.m > 0 && r.m < r.nBlocks {
			mixed = true
		}
	}
	if honestProgressRounds >= 2 {
		labels = append(labels, "honest-needs>=2-rounds")
	}
	if mixed {
		labels = append(labels, "good-prefix-then-bad-tail")
	}
	if sawNT {
		labels = append(labels, "unlinked-wellformed-block-delivered")
	}
	if overfetch {
		labels = append(labels, "overfetch")
	}
	if saveFailed {
		labels = append(labels, "save-failure-hit")
	}
	if len(saved) > 0 {
		labels = append(labels, "fetched>=1")
	}
	if len(saved) >= 4 {
		labels = append(labels, "fetched>=4")
	}
	if rounds > len(c.Script) {
		labels = append(labels, "script-exhausted")
	} else if rounds < len(c.Script) && !localComplete {
		labels = append(labels, "done-before-script-end")
	}
	if youngSpin && !e.strict {
		labels = append(labels, "young-chain:no-genesis-stop(out-of-domain)")
	}
	if e.young && outcome == "done" && !localComplete {
		labels = append(labels, "young-chain:stops-at-genesis")
	}
	if c.CancelAt != 0 {
		if !startCancelled {
			labels = append(labels, "cancel-start:not-reached")
		} else {
			labels = append(labels, "cancel-start:fired")
			if windowIncomplete {
				labels = append(labels, "cancel-start:window-incomplete")
			}
			if outcome == "start-cancelled" {
				labels = append(labels, "cancel-start:wait-does-not-report-completion")
			}
		}
	}
	nt := (sawNT && !localComplete) || (startCancelled && windowIncomplete)
	canon, _ := json.Marshal(c)
	st.Case(nt, string(canon), labels...)
	for k, v := range skipped {
		for i := 0; i < v; i++ {
			st.Skip(k)
		}
	}
	st.Sample(nt, map[string]any{"ts": fmt.Sprint(c.TS), "target": c.Target, "window": c.Window, "suffix": c.Suffix,
		"script": renderScript(c.Script), "save_fail_at": c.SaveFailAt, "rounds": rounds, "saved": len(saved), "outcome": outcome})
	st.Assumption("chains younger than the validity window are in the domain (property: back past the window or to genesis): reaching genesis must complete the backfill; VERIF_C22_STRICT_GENESIS=0 only labels it")
	st.Assumption("constant validity-window rule; no UpdateSyncTarget while backfilling; block id = SHA-256 of the block bytes; tx ids unique within the true chain")

	if verdict != nil {
		return fmt.Errorf("%w\nrounds: %s", verdict, renderLog(log))
	}

	// ---- S: safety of everything handed to SaveHistorical (checked in every outcome)
	prev := -1
	for i, b := range saved {
		h := int(b.H)
		if b.H > uint64(e.t) || !bytes.Equal(b.bytes, e.chain[h].bytes) {
			return fmt.Errorf("safety: SaveHistorical call %d got %v which is not the real ancestor at that height\nrounds: %s", i+1, b, renderLog(log))
		}
		if i == 0 {
			if h > e.t-1 || h < e.oldest-1 {
				return fmt.Errorf("safety: first recorded block has height %d; local blocks reach down to %d, target %d", h, e.oldest, e.t)
			}
		} else if h != prev-1 {
			return fmt.Errorf("safety: SaveHistorical call %d has height %d after height %d (not a descending hash-linked run; duplicate, gap or reordering)\nrounds: %s", i+1, h, prev, renderLog(log))
		}
		prev = h
	}

	// ---- C: completion
	switch outcome {
	case "timeout":
		return fmt.Errorf("%w: Wait did not return within %v and the content-based liveness oracle saw nothing wrong; rounds: %s", errInconclusive, deadline, renderLog(log))
	case "unexpected-error":
		return fmt.Errorf("completion: Wait returned %v although no SaveHistorical failed\nrounds: %s", werr, renderLog(log))
	case "save-error":
		if !saveFailed {
			return fmt.Errorf("completion: Wait reports a save error but no SaveHistorical call failed: %v", werr)
		}
	case "done":
		if saveFailed {
			return fmt.Errorf("completion: Wait returned nil although SaveHistorical call %d failed\nrounds: %s", c.SaveFailAt, renderLog(log))
		}
		want := e.low
		if lowRecorded > want && startCancelled {
			return fmt.Errorf("completion: the context handed to Start was cancelled in sampling round %d while the backfill was incomplete (recorded ancestry reaches down to height %d, the first block older than the window / genesis is height %d, no forward block completed the window), yet Wait on a fresh context returned nil: a cancelled backfill is reported as a completed validity window\nrounds: %s", c.CancelAt, lowRecorded, want, renderLog(log))
		}
		if lowRecorded > want {
			return fmt.Errorf("completion: Wait returned nil with the recorded ancestry reaching down to height %d only; the first block older than the window (or genesis) is height %d\nrounds: %s", lowRecorded, want, renderLog(log))
		}
	}

	// ---- T: tracked set
	type utx struct {
		t    tx
		what string
		must int // +1 must be tracked, -1 must not, 0 unconstrained
	}
	var universe []utx
	trueIDs := map[ids.ID]bool{}
	covLow := e.low // lowest covered height
	if outcome == "save-error" {
		covLow = lowRecorded
	}
	if outcome == "start-cancelled" {
		// the backfill goroutine may still be between SaveHistorical and AcceptHistorical:
		// only the local run is required to be tracked
		covLow = e.oldest
	}
	for h := 0; h <= e.n; h++ {
		for _, x := range e.chain[h].Txs {
			trueIDs[x.ID] = true
			u := utx{t: x, what: fmt.Sprintf("tx of real block %d (ts %d, expiry %d)", h, e.chain[h].TS, x.Expiry)}
			switch {
			case h > e.t:
				u.must, u.what = -1, u.what+" above the target"
			case h >= covLow && x.Expiry >= target.TS:
				u.must = +1
			case outcome == "save-error" && h < lowRecorded:
				u.must, u.what = -1, u.what+" whose block was not recorded (SaveHistorical failed)"
			}
			universe = append(universe, u)
		}
	}
	for h := e.c.Fork + 1; h <= e.n; h++ {
		for _, x := range e.fchain[h].Txs {
			if !trueIDs[x.ID] {
				universe = append(universe, utx{t: x, must: -1, what: fmt.Sprintf("tx of foreign block %d", h)})
			}
		}
	}
	for i := range c.Script {
		universe = append(universe, utx{t: tx{ID: txID('X', i, 0), Expiry: target.TS}, must: -1, what: fmt.Sprintf("tx of the block forged in round %d", i+1)})
	}
	txs := make([]tx, len(universe))
	for i, u := range universe {
		txs[i] = u.t
	}
	bits, err := tvw.IsRepeat(context.Background(), target, target.TS, txs)
	if err != nil {
		return fmt.Errorf("IsRepeat on the target failed: %w", err)
	}
	for i, u := range universe {
		got := bits.Contains(i)
		switch {
		case u.must > 0 && !got:
			if outcome == "young-spin" {
				return fmt.Errorf("%w: young chain stopped by the harness before the window was quiescent: %s not tracked yet", errInconclusive, u.what)
			}
			return fmt.Errorf("tracking (%s): %s is in a covered ancestor (heights %d..%d, oldest allowed ts %d) and still valid at the target (ts %d) but IsRepeat does not report it\nrounds: %s",
				outcome, u.what, covLow, e.t, e.minTS, target.TS, renderLog(log))
		case u.must < 0 && got:
			return fmt.Errorf("tracking (%s): %s is tracked\nrounds: %s", outcome, u.what, renderLog(log))
		}
	}
	return nil
}

func renderScript(s []c22Round) string {
	var b strings.Builder
	for i, r := range s {
		if i > 0 {
			b.WriteByte(' ')
		}
		fmt.Fprintf(&b, "%s(%d,%d)@p%d", kindNames[r.Kind], r.A, r.B, r.Peer)
	}
	return b.String()
}

func renderLog(l []roundRec) string {
	var b strings.Builder
	for i, r := range l {
		if i > 0 {
			b.WriteString("; ")
		}
		if r.kind == kindNames[kNoPeer] {
			fmt.Fprintf(&b, "%d:no-peer", i+1)
			continue
		}
		h := strconv.FormatUint(r.height, 10)
		if r.err {
			fmt.Fprintf(&b, "%d:%s h=%s error", i+1, r.kind, h)
		} else {
			fmt.Fprintf(&b, "%d:%s h=%s blocks=%d linked-real=%d", i+1, r.kind, h, r.nBlocks, r.m)
		}
	}
	return b.String()
}

// ---------------------------------------------------------------- batches

func c22Batch() int {
	if v, err := strconv.Atoi(os.Getenv("VERIF_C22_BATCH")); err == nil && v > 0 {
		return v
	}
	return 64
}

func c22RunBatch(cases []c22Case, st *vstat.Stats) []error {
	errs := make([]error, len(cases))
	var wg sync.WaitGroup
	for i := range cases {
		wg.Add(1)
		go func(i int) {
			defer wg.Done()
			defer func() {
				if r := recover(); r != nil {
					errs[i] = fmt.Errorf("panic: %v\n%s", r, debug.Stack())
				}
			}()
			errs[i] = c22Run(cases[i], st)
		}(i)
	}
	wg.Wait()
	return errs
}

const c22Rule = "one rapid check = a batch of 64 independent cases run concurrently (the client sleeps 500 ms per round); a case = true chain of 2..21 blocks (non-decreasing timestamps with equal runs, 0..3 txs per block with expiry in [ts, ts+window]), sync target, window placed on/next to a block timestamp, local suffix, init head, a foreign fork, a script of 0..6 peer behaviours (17 kinds) followed by honest answers, optional failing SaveHistorical, optional cancellation of the context handed to Start at a drawn sampling round (Wait is then asked again on a fresh bounded context); non-trivial = before completion the client was handed a well-formed block that is not the next hash-linked ancestor (forged, foreign, reordered, shifted or repeated) and had to fetch at all, or the Start context was cancelled while at least one required ancestor was still missing; distinct by the whole case"

func TestC22(t *testing.T) {
	st := vstat.New(t, "C22", c22Rule)
	var inconclusive atomic.Int64
	rapid.Check(t, func(rt *rapid.T) {
		cases := make([]c22Case, c22Batch())
		for i := range cases {
			cases[i] = c22Gen(rt)
		}
		errs := c22RunBatch(cases, st)
		for i, err := range errs {
			if err == nil {
				continue
			}
			if errors.Is(err, errInconclusive) {
				inconclusive.Add(1)
				st.Label("inconclusive")
				t.Logf("INCONCLUSIVE case: %v", err)
				continue
			}
			vstat.Run(rt, st, cases[i], func() error { return err })
		}
	})
	if n := inconclusive.Load(); n > 0 {
		// not a verdict: the driver reports a failing test without VERIF-FAIL as infrastructure trouble
		t.Errorf("INCONCLUSIVE: %d case(s) hit the wall-clock deadline without evidence of a violation", n)
	}
}

func TestC22Replay(t *testing.T) {
	vstat.Replay(t, "C22", func(raw []byte) error {
		var c c22Case
		if err := json.Unmarshal(raw, &c); err != nil {
			return err
		}
		err := c22Run(c, vstat.New(nil, "C22", ""))
		if errors.Is(err, errInconclusive) {
			t.Logf("%v", err)
			t.Skip("INCONCLUSIVE")
		}
		return err
	})
}
