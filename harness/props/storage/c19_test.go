package storage

import (
	"bytes"
	"context"
	"encoding/binary"
	"encoding/json"
	"errors"
	"fmt"
	"strings"
	"testing"

	"github.com/ava-labs/avalanchego/database"
	"github.com/ava-labs/avalanchego/database/memdb"
	"github.com/ava-labs/avalanchego/ids"
	"github.com/ava-labs/avalanchego/utils/hashing"
	"github.com/ava-labs/avalanchego/utils/logging"
	"github.com/prometheus/client_golang/prometheus"
	"pgregory.net/rapid"

	"github.com/ava-labs/hypersdk/chainindex"
	"github.com/ava-labs/hypersdk/verifharness/vstat"
)

// C19: the block index keeps a complete, bounded window of accepted blocks.
//
// History = op list over ONE memdb:
//   next n      accept n consecutive heights above the tip (snow/block.go Accept)
//   gap g       accept height tip+1+g (snow/statesync.go StartStateSync: the
//               sync target is accepted first, its predecessors are unknown)
//   hist a      SaveHistorical of a block below the tip (validitywindow.Syncer
//               back-fills below the target after StartStateSync); before any
//               accept: at a small height (the suite's cleanup test does that)
//   restart w'  a new ChainIndex over the same database with window w'
// After EVERY op all invariants of the DESIGN entry are evaluated.

type c19Op struct {
	K string `json:"k"`
	A uint64 `json:"a"`
}

type c19Case struct {
	Window  uint64  `json:"window"`
	Freq    uint64  `json:"freq"`
	Genesis bool    `json:"genesis"`
	Salt    uint8   `json:"salt"`
	Ops     []c19Op `json:"ops"`
}

type c19Block struct {
	H     uint64
	bytes []byte
	id    ids.ID
}

func (b *c19Block) GetID() ids.ID     { return b.id }
func (b *c19Block) GetHeight() uint64 { return b.H }
func (b *c19Block) GetBytes() []byte  { return b.bytes }

func c19MkBlock(h uint64, salt uint8) *c19Block {
	n := int((h*7 + uint64(salt)) % 5)
	raw := binary.BigEndian.AppendUint64(nil, h)
	for i := 0; i < n; i++ {
		raw = append(raw, salt^byte(h)^byte(i))
	}
	return &c19Block{H: h, bytes: raw, id: hashing.ComputeHash256Array(raw)}
}

type c19Parser struct{}

func (c19Parser) ParseBlock(_ context.Context, b []byte) (*c19Block, error) {
	if len(b) < 8 {
		return nil, fmt.Errorf("short block: %d bytes", len(b))
	}
	raw := append([]byte(nil), b...)
	return &c19Block{H: binary.BigEndian.Uint64(raw), bytes: raw, id: hashing.ComputeHash256Array(raw)}, nil
}

var c19Windows = []uint64{0, 1, 2, 3, 5, 8}

func c19Gen(rt *rapid.T) c19Case {
	c := c19Case{
		Window:  rapid.SampledFrom([]uint64{0, 1, 1, 2, 2, 3, 3, 5, 8}).Draw(rt, "window"),
		Freq:    rapid.Uint64Range(1, 8).Draw(rt, "freq"),
		Genesis: rapid.IntRange(0, 9).Draw(rt, "genesis") != 0,
		Salt:    rapid.Uint8().Draw(rt, "salt"),
	}
	n := rapid.IntRange(1, 30).Draw(rt, "nops")
	w := c.Window
	if !c.Genesis {
		// a database that is back-filled before anything was accepted
		for k := rapid.IntRange(0, 4).Draw(rt, "prefill"); k > 0; k-- {
			c.Ops = append(c.Ops, c19Op{K: "hist", A: rapid.Uint64Range(0, 63).Draw(rt, "hist")})
		}
	}
	for i := 0; i < n; i++ {
		var op c19Op
		switch k := rapid.IntRange(0, 99).Draw(rt, "kind"); {
		case k < 45:
			op = c19Op{K: "next", A: rapid.Uint64Range(1, 6).Draw(rt, "run")}
		case k < 60:
			cands := []uint64{1, 2, w, w + 1, 2*w + 1, 97, 1 << 20, 1 << 40}
			if w >= 2 {
				cands = append(cands, w-1)
			}
			op = c19Op{K: "gap", A: rapid.SampledFrom(cands).Draw(rt, "gap")}
		case k < 80:
			op = c19Op{K: "hist", A: rapid.Uint64Range(0, 63).Draw(rt, "hist")}
		default:
			nw := w
			if rapid.IntRange(0, 2).Draw(rt, "samew") != 0 {
				nw = rapid.SampledFrom(c19Windows).Draw(rt, "neww")
			}
			op = c19Op{K: "restart", A: nw}
			w = nw
		}
		c.Ops = append(c.Ops, op)
	}
	return c
}

type c19State struct {
	ctx      context.Context
	c        c19Case
	db       database.Database
	idx      *chainindex.ChainIndex[*c19Block]
	m        *windowModel
	blocks   map[uint64]*c19Block
	maxH     uint64 // highest height ever stored
	segClean bool   // only consecutive accepts since the last restart
	labels   map[string]bool
	nt       bool
}

func (s *c19State) open(w uint64) error {
	idx, err := chainindex.New[*c19Block](s.ctx, logging.NoLog{}, prometheus.NewRegistry(),
		chainindex.Config{AcceptedBlockWindow: w, BlockCompactionFrequency: s.c.Freq}, c19Parser{}, s.db)
	if err != nil {
		return fmt.Errorf("chainindex.New(window=%d) on a healthy database: %w", w, err)
	}
	s.idx = idx
	s.m.setWindow(w)
	// the startup cleanup works relative to the recorded tip: without one (only
	// back-filled blocks so far) nothing bounds what is on disk
	s.segClean = s.m.HasLast || len(s.blocks) == 0
	return nil
}

func (s *c19State) blk(h uint64) *c19Block {
	b, ok := s.blocks[h]
	if !ok {
		b = c19MkBlock(h, s.c.Salt)
		s.blocks[h] = b
	}
	if h > s.maxH {
		s.maxH = h
	}
	return b
}

func (s *c19State) accept(h uint64) error {
	w := s.m.W
	if w >= 1 && h > w {
		// label only (the oracle never uses what is on disk): was the prune target stored?
		if _, err := s.idx.GetBlockIDAtHeight(s.ctx, h-w); err != nil {
			s.labels["accept-prune-target-missing"] = true
			s.nt = true
		} else {
			s.labels["accept-prune-target-present"] = true
		}
	}
	b := s.blk(h)
	if err := s.idx.UpdateLastAccepted(s.ctx, b); err != nil {
		return fmt.Errorf("UpdateLastAccepted(height=%d, window=%d) failed on a healthy database: %w", h, w, err)
	}
	s.m.accept(h)
	return nil
}

// lookups of one height; retained = any of the three mappings still answers.
func (s *c19State) probe(h uint64, must bool) (retained bool, err error) {
	want := s.blocks[h]
	bad := func(what string, e error) error {
		return fmt.Errorf("height %d (window %d, last %d, must-be-retrievable=%v): %s: %v", h, s.m.W, s.m.Last, must, what, e)
	}
	chk := func(what string, e error) error {
		if e == nil {
			retained = true
			return nil
		}
		if must {
			return bad(what, e)
		}
		if !errors.Is(e, database.ErrNotFound) {
			return bad(what+" (unexpected error kind)", e)
		}
		return nil
	}
	byH, e := s.idx.GetBlockByHeight(s.ctx, h)
	if err := chk("GetBlockByHeight", e); err != nil {
		return false, err
	}
	if e == nil && !bytes.Equal(byH.GetBytes(), want.bytes) {
		return false, bad("GetBlockByHeight", fmt.Errorf("bytes %x, stored %x", byH.GetBytes(), want.bytes))
	}
	idAt, e := s.idx.GetBlockIDAtHeight(s.ctx, h)
	if err := chk("GetBlockIDAtHeight", e); err != nil {
		return false, err
	}
	if e == nil && idAt != want.id {
		return false, bad("GetBlockIDAtHeight", fmt.Errorf("id %s, stored %s", idAt, want.id))
	}
	hOf, e := s.idx.GetBlockIDHeight(s.ctx, want.id)
	if err := chk("GetBlockIDHeight", e); err != nil {
		return false, err
	}
	if e == nil && hOf != h {
		return false, bad("GetBlockIDHeight", fmt.Errorf("height %d", hOf))
	}
	byID, e := s.idx.GetBlock(s.ctx, want.id)
	if must && e != nil {
		return false, bad("GetBlock(id)", e)
	}
	if e == nil && (!bytes.Equal(byID.GetBytes(), want.bytes) || byID.GetID() != want.id) {
		return false, bad("GetBlock(id)", fmt.Errorf("bytes %x, stored %x", byID.GetBytes(), want.bytes))
	}
	return retained, nil
}

func (s *c19State) invariants(after string) error {
	wrap := func(err error) error { return fmt.Errorf("after %s: %w", after, err) }
	last, err := s.idx.GetLastAcceptedHeight(s.ctx)
	if s.m.HasLast {
		if err != nil {
			return wrap(fmt.Errorf("GetLastAcceptedHeight: %v, want %d", err, s.m.Last))
		}
		if last != s.m.Last {
			return wrap(fmt.Errorf("GetLastAcceptedHeight = %d, want %d", last, s.m.Last))
		}
	} else if !errors.Is(err, database.ErrNotFound) {
		return wrap(fmt.Errorf("GetLastAcceptedHeight before any accept = (%d, %v), want ErrNotFound", last, err))
	}
	retained := uint64(0)
	for _, h := range s.m.everSorted() {
		r, err := s.probe(h, s.m.live[h])
		if err != nil {
			return wrap(err)
		}
		if r && h != 0 {
			retained++
		}
	}
	if s.m.W >= 1 && s.m.HasLast && s.segClean {
		s.labels["bound-checked"] = true
		if retained > s.m.W+1 {
			return wrap(fmt.Errorf("%d non-genesis blocks retained, window %d allows %d (last %d; only consecutive accepts since the last restart)",
				retained, s.m.W, s.m.W+1, s.m.Last))
		}
		if retained == s.m.W+1 || (retained == s.m.W && s.m.Last > s.m.W) {
			s.labels["bound-tight"] = true
		}
	}
	return nil
}

func c19Run(c c19Case, st *vstat.Stats) error {
	s := &c19State{ctx: context.Background(), c: c, db: memdb.New(), m: newWindowModel(c.Window, true),
		blocks: map[uint64]*c19Block{}, labels: map[string]bool{}}
	st.Assumption("C19: one block per height (a height is never re-written with a different block); historical saves are below the accepted tip once a tip exists; the first accept is above everything saved before it")
	st.Assumption("C19: window 0 is treated as 'pruning disabled' (pinned by the suite): no retention bound is demanded; only genesis and the tip are demanded retrievable")
	st.Assumption("C19: retention bound (<= window+1 non-genesis blocks) is demanded right after a restart with a recorded tip and during runs of consecutive accepts since that restart; blocks written below the window (historical saves, leftovers of a height gap) may linger until the next restart")
	ran := []string{}
	verdict := func() error {
		if err := s.open(c.Window); err != nil {
			return err
		}
		if err := s.invariants("open"); err != nil {
			return err
		}
		if c.Genesis {
			if err := s.accept(0); err != nil {
				return err
			}
			if err := s.invariants("accept genesis"); err != nil {
				return err
			}
		} else {
			s.labels["no-genesis-accept"] = true
		}
		for i, op := range c.Ops {
			name := fmt.Sprintf("op %d %s(%d)", i, op.K, op.A)
			switch op.K {
			case "next":
				for k := uint64(0); k < op.A; k++ {
					h := s.maxH + 1
					if s.m.HasLast {
						h = s.m.Last + 1
					} else if len(s.blocks) == 0 {
						h = 1
					}
					if err := s.accept(h); err != nil {
						return fmt.Errorf("%s: %w", name, err)
					}
					if err := s.invariants(fmt.Sprintf("%s accept %d", name, h)); err != nil {
						return err
					}
				}
				ran = append(ran, fmt.Sprintf("n%d", op.A))
			case "gap":
				base := s.maxH
				if s.m.HasLast {
					base = s.m.Last
				}
				h := base + 1 + op.A
				if err := s.accept(h); err != nil {
					return fmt.Errorf("%s: %w", name, err)
				}
				s.segClean = false
				switch {
				case s.m.W >= 1 && op.A >= s.m.W:
					s.labels["gap>=window"] = true
				default:
					s.labels["gap<window"] = true
				}
				ran = append(ran, fmt.Sprintf("g%d", op.A))
				if err := s.invariants(fmt.Sprintf("%s accept %d", name, h)); err != nil {
					return err
				}
			case "hist":
				var h uint64
				if s.m.HasLast {
					if s.m.Last == 0 {
						st.Skip("hist-nothing-below-tip")
						continue
					}
					span := 2*s.m.W + 4
					if s.m.Last < span {
						span = s.m.Last
					}
					h = s.m.Last - 1 - op.A%span
				} else {
					h = op.A % 12
				}
				b := s.blk(h)
				if err := s.idx.SaveHistorical(b); err != nil {
					return fmt.Errorf("%s: SaveHistorical(height=%d) failed on a healthy database: %w", name, h, err)
				}
				s.m.put(h)
				s.segClean = false
				switch {
				case !s.m.HasLast:
					s.labels["hist-before-any-accept"] = true
				case s.m.inWindow(h):
					s.labels["hist-in-window"] = true
				default:
					s.labels["hist-below-window"] = true
				}
				ran = append(ran, fmt.Sprintf("h%d", h))
				if err := s.invariants(fmt.Sprintf("%s save %d", name, h)); err != nil {
					return err
				}
			case "restart":
				old := s.m.W
				// label only: does this restart find blocks older than its window on disk?
				if s.m.HasLast && op.A >= 1 && s.m.Last > op.A {
					for _, h := range s.m.everSorted() {
						if h != 0 && h < s.m.Last-op.A {
							if _, err := s.idx.GetBlockIDAtHeight(s.ctx, h); err == nil {
								s.labels["restart-finds-blocks-older-than-window"] = true
								break
							}
						}
					}
				}
				if err := s.open(op.A); err != nil {
					return fmt.Errorf("%s: %w", name, err)
				}
				switch {
				case op.A == old:
					s.labels["restart-same-window"] = true
				case op.A == 0:
					s.labels["restart-to-window-0"] = true
				case old == 0 || op.A < old:
					s.labels["restart-smaller-window"] = true
					s.nt = true
				default:
					s.labels["restart-larger-window"] = true
				}
				ran = append(ran, fmt.Sprintf("r%d", op.A))
				if err := s.invariants(name); err != nil {
					return err
				}
			default:
				return fmt.Errorf("bad op %q", op.K)
			}
		}
		return nil
	}()
	s.labels[fmt.Sprintf("window=%d", c.Window)] = true
	lbls := make([]string, 0, len(s.labels))
	for l := range s.labels {
		lbls = append(lbls, l)
	}
	canon, _ := json.Marshal(c)
	st.Case(s.nt, string(canon), lbls...)
	st.Sample(s.nt, map[string]any{"window": c.Window, "genesis": c.Genesis, "ops": strings.Join(ran, " "), "tip": s.m.Last})
	return verdict
}

func TestC19(t *testing.T) {
	st := vstat.New(t, "C19", "op lists (1..30 ops: runs of 1..6 consecutive accepts, accept after a height gap {1,2,w-1,w,w+1,2w+1,97,2^20,2^40}, SaveHistorical below the tip / before any accept, restart with the same or another window) over one memdb, windows {0,1,2,3,5,8}, compaction frequency 1..8, with/without a genesis accept; all invariants evaluated after every single accept/save/restart; non-trivial = an accept whose prune target height-window is not stored, or a restart with a smaller window; distinct by the whole case")
	rapid.Check(t, func(rt *rapid.T) {
		c := c19Gen(rt)
		vstat.Run(rt, st, c, func() error { return c19Run(c, st) })
	})
}

func TestC19Replay(t *testing.T) {
	vstat.Replay(t, "C19", func(raw []byte) error {
		var c c19Case
		if err := json.Unmarshal(raw, &c); err != nil {
			return err
		}
		if c.Freq == 0 {
			c.Freq = 1
		}
		return c19Run(c, vstat.New(nil, "C19", ""))
	})
}
