package storage

import "sort"

// windowModel is the "windowindex" reference model shared by C19 and C31.
//
// It does NOT predict which heights the implementation has on disk. It only
// tracks, from the property statements,
//
//	ever: every height that was ever handed to the index,
//	live: the heights that were handed to the index and have been inside the
//	      retention window (last-w, last] at every moment since (window
//	      changes at a restart included). These MUST be served.
//
// A height that is in ever, is inside the current window, but is not in live
// (it fell out of a smaller window earlier, or was written below the window)
// MAY be served. Whether a height at or below last-w must be gone is decided by
// the property (C31: yes; C19: only through the retention bound).
type windowModel struct {
	W       uint64
	HasLast bool
	Last    uint64
	// keepZero: height 0 (genesis) is always inside the window (C19).
	keepZero bool
	// W == 0 demands nothing but the last height (C19: the code treats 0 as
	// "pruning disabled"; the property then demands no window at all).
	ever map[uint64]bool
	live map[uint64]bool
}

func newWindowModel(w uint64, keepZero bool) *windowModel {
	return &windowModel{W: w, keepZero: keepZero, ever: map[uint64]bool{}, live: map[uint64]bool{}}
}

// inWindow: is h inside the retention window now? Before the first "last"
// nothing can have left the window.
func (m *windowModel) inWindow(h uint64) bool {
	if m.keepZero && h == 0 {
		return true
	}
	if !m.HasLast {
		return true
	}
	if h > m.Last {
		// above the tip: never produced by the generators once a tip exists
		return true
	}
	w := m.W
	if w == 0 {
		w = 1 // only the tip itself is demanded
	}
	return m.Last-h < w
}

// belowWindow: h <= last - w (strictly older than the window).
func (m *windowModel) belowWindow(h uint64) bool {
	return !m.inWindow(h)
}

func (m *windowModel) refilter() {
	for h := range m.live {
		if !m.inWindow(h) {
			delete(m.live, h)
		}
	}
}

// accept: h becomes the tip.
func (m *windowModel) accept(h uint64) {
	m.HasLast, m.Last = true, h
	m.ever[h] = true
	m.live[h] = true
	m.refilter()
}

// put: h is written without moving the tip.
func (m *windowModel) put(h uint64) {
	m.ever[h] = true
	if m.inWindow(h) {
		m.live[h] = true
	}
}

func (m *windowModel) setWindow(w uint64) {
	m.W = w
	m.refilter()
}

func (m *windowModel) everSorted() []uint64 {
	out := make([]uint64, 0, len(m.ever))
	for h := range m.ever {
		out = append(out, h)
	}
	sort.Slice(out, func(i, j int) bool { return out[i] < out[j] })
	return out
}
