package storage

import (
	"bytes"
	"context"
	"encoding/json"
	"fmt"
	"os"
	"strings"
	"testing"

	"github.com/ava-labs/avalanchego/ids"
	"github.com/ava-labs/avalanchego/utils/hashing"
	"pgregory.net/rapid"

	"github.com/ava-labs/hypersdk/api/indexer"
	"github.com/ava-labs/hypersdk/chain"
	"github.com/ava-labs/hypersdk/chain/chaintest"
	"github.com/ava-labs/hypersdk/fees"
	"github.com/ava-labs/hypersdk/verifharness/vstat"
)

// C31: the indexer serves exactly the recent accepted blocks and tx results.
//
// History = op list against ONE indexer directory (real pebble):
//   next n,t    notify n consecutive heights (t..: 0-3 txs per block)
//   gap g,t     notify height last+1+g (the VM only delivers accepted blocks it
//               executed; after state sync / with the indexer enabled late the
//               delivered heights are not contiguous)
//   redeliver   notify the last block again
//   restart w'  Close + NewIndexer on the same directory (same or other window)
// After EVERY op all heights / block ids / tx ids ever notified, plus never
// notified ones, are queried and compared with the windowindex model.

type c31Op struct {
	K string `json:"k"`
	A uint64 `json:"a"`
	N int    `json:"n"`
}

type c31Case struct {
	Window uint64  `json:"window"`
	First  uint64  `json:"first"`
	Salt   uint8   `json:"salt"`
	Ops    []c31Op `json:"ops"`
}

func c31Gen(rt *rapid.T) c31Case {
	c := c31Case{
		Window: rapid.Uint64Range(1, 6).Draw(rt, "window"),
		First:  rapid.SampledFrom([]uint64{1, 1, 1, 0, 7, 1000}).Draw(rt, "first"),
		Salt:   rapid.Uint8().Draw(rt, "salt"),
	}
	w := c.Window
	n := rapid.IntRange(1, 14).Draw(rt, "nops")
	for i := 0; i < n; i++ {
		var op c31Op
		switch k := rapid.IntRange(0, 99).Draw(rt, "kind"); {
		case k < 50:
			op = c31Op{K: "next", A: rapid.Uint64Range(1, 4).Draw(rt, "run"), N: rapid.IntRange(0, 3).Draw(rt, "txs")}
		case k < 68:
			cands := []uint64{1, 2, w, w + 1, 2 * w, 50, 1 << 40}
			if w >= 2 {
				cands = append(cands, w-1)
			}
			op = c31Op{K: "gap", A: rapid.SampledFrom(cands).Draw(rt, "gap"), N: rapid.IntRange(0, 3).Draw(rt, "txs")}
		case k < 76:
			op = c31Op{K: "redeliver"}
		default:
			nw := w
			if rapid.IntRange(0, 3).Draw(rt, "otherw") == 0 {
				nw = rapid.Uint64Range(1, 6).Draw(rt, "neww")
			}
			op = c31Op{K: "restart", A: nw}
			w = nw
		}
		c.Ops = append(c.Ops, op)
	}
	return c
}

var (
	c31Parser  = chaintest.NewTestParser()
	c31ChainID = ids.ID{0xc3, 0x1}
	// directory under which every case creates (and removes) its own indexer directory
	c31BaseDir string
)

type c31Blk struct {
	eb    *chain.ExecutedBlock
	bytes []byte // canonical encoding of the executed block as notified
}

type c31State struct {
	c      c31Case
	dir    string
	ix     *indexer.Indexer
	m      *windowModel
	blocks map[uint64]*c31Blk
	lastID ids.ID
	nonce  uint64
	labels map[string]bool
	nt     bool
}

func (s *c31State) mkBlock(h uint64, ntx int) (*c31Blk, error) {
	blkTs := int64(1_000_000) + int64(h%1_000_000)*1000 + int64(s.c.Salt)
	txs := make([]*chain.Transaction, 0, ntx)
	results := make([]*chain.Result, 0, ntx)
	for i := 0; i < ntx; i++ {
		s.nonce++
		action := &chaintest.TestAction{
			NumComputeUnits: 1 + uint64(i), SpecifiedStateKeys: []string{}, ReadKeys: [][]byte{}, WriteKeys: [][]byte{},
			WriteValues: [][]byte{}, Start: -1, End: -1, Nonce: s.nonce<<8 | uint64(s.c.Salt),
		}
		base := chain.Base{Timestamp: (blkTs/1000 + 1 + int64(i)) * 1000, ChainID: c31ChainID, MaxFee: 1000 + uint64(i)}
		tx, err := chain.NewTransaction(base, []chain.Action{action}, chaintest.NewDummyTestAuth())
		if err != nil {
			return nil, fmt.Errorf("harness: NewTransaction: %w", err)
		}
		txs = append(txs, tx)
		res := &chain.Result{Success: (h+uint64(i))%2 == 0, Units: fees.Dimensions{1, 2, 3, 4, 5 + uint64(i)}, Fee: h%1000*10 + uint64(i)}
		if res.Success {
			res.Outputs = [][]byte{{byte(h), byte(i), s.c.Salt}}
		} else {
			res.Error = []byte(fmt.Sprintf("err-%d-%d", h, i))
		}
		results = append(results, res)
	}
	sb, err := chain.NewStatelessBlock(s.lastID, blkTs, h, txs, ids.ID{s.c.Salt, byte(h)}, nil)
	if err != nil {
		return nil, fmt.Errorf("harness: NewStatelessBlock: %w", err)
	}
	// like chaintest: parse the bytes again so that only persisted members are set
	sb, err = chain.UnmarshalBlock(sb.GetBytes(), c31Parser)
	if err != nil {
		return nil, fmt.Errorf("harness: UnmarshalBlock: %w", err)
	}
	eb := chain.NewExecutedBlock(sb, results, fees.Dimensions{1, 1, 1, 1, 1}, fees.Dimensions{uint64(ntx), 0, 0, 0, 0})
	raw, err := eb.Marshal()
	if err != nil {
		return nil, fmt.Errorf("harness: Marshal: %w", err)
	}
	return &c31Blk{eb: eb, bytes: raw}, nil
}

func (s *c31State) notify(h uint64, ntx int) error {
	// label / non-triviality from the model only: how many served blocks leave the window now?
	if h >= s.m.W {
		cut := h - s.m.W
		out, other := 0, 0
		for x := range s.m.live {
			if x <= cut {
				out++
				if x != cut {
					other++
				}
			}
		}
		if other > 0 {
			s.labels["notify-expires-more-than-the-one-block"] = true
			s.nt = true
		} else if out > 0 {
			s.labels["notify-expires-one-block"] = true
		}
	}
	b, err := s.mkBlock(h, ntx)
	if err != nil {
		return err
	}
	if err := s.ix.Notify(context.Background(), b.eb); err != nil {
		return fmt.Errorf("Notify(height=%d): %w", h, err)
	}
	s.blocks[h] = b
	s.lastID = b.eb.Block.GetID()
	s.m.accept(h)
	if ntx > 0 {
		s.labels["block-with-txs"] = true
	}
	return nil
}

func c31SameBlock(got *chain.ExecutedBlock, want *c31Blk) error {
	if got == nil || got.Block == nil {
		return fmt.Errorf("nil block returned")
	}
	raw, err := got.Marshal()
	if err != nil {
		return err
	}
	if !bytes.Equal(raw, want.bytes) {
		return fmt.Errorf("returned block (height %d id %s) differs from the notified one (height %d id %s)",
			got.Block.Hght, got.Block.GetID(), want.eb.Block.Hght, want.eb.Block.GetID())
	}
	return nil
}

// sweep queries everything and returns a rendering of all answers.
func (s *c31State) sweep() (string, error) {
	var sb strings.Builder
	latest, err := s.ix.GetLatestBlock()
	if s.m.HasLast {
		if err != nil {
			return "", fmt.Errorf("GetLatestBlock: %v, want height %d", err, s.m.Last)
		}
		if err := c31SameBlock(latest, s.blocks[s.m.Last]); err != nil {
			return "", fmt.Errorf("GetLatestBlock (last notified %d): %w", s.m.Last, err)
		}
		fmt.Fprintf(&sb, "L%d;", latest.Block.Hght)
	} else {
		if err == nil {
			return "", fmt.Errorf("GetLatestBlock before any notification returned height %d", latest.Block.Hght)
		}
		sb.WriteString("L-;")
	}
	for _, h := range s.m.everSorted() {
		want := s.blocks[h]
		must, mustNot := s.m.live[h], s.m.belowWindow(h)
		ctxt := fmt.Sprintf("height %d (window %d, last %d)", h, s.m.W, s.m.Last)
		byH, errH := s.ix.GetBlockByHeight(h)
		byID, errID := s.ix.GetBlock(want.eb.Block.GetID())
		fmt.Fprintf(&sb, "%d:%v%v", h, errH == nil, errID == nil)
		switch {
		case must && errH != nil:
			return "", fmt.Errorf("%s is inside the window but GetBlockByHeight: %v", ctxt, errH)
		case must && errID != nil:
			return "", fmt.Errorf("%s is inside the window but GetBlock(id): %v", ctxt, errID)
		case mustNot && errH == nil:
			return "", fmt.Errorf("%s is older than the window but GetBlockByHeight still answers", ctxt)
		case mustNot && errID == nil:
			return "", fmt.Errorf("%s is older than the window but GetBlock(id) still answers", ctxt)
		}
		if errH == nil {
			if err := c31SameBlock(byH, want); err != nil {
				return "", fmt.Errorf("%s GetBlockByHeight: %w", ctxt, err)
			}
		}
		if errID == nil {
			if err := c31SameBlock(byID, want); err != nil {
				return "", fmt.Errorf("%s GetBlock(id): %w", ctxt, err)
			}
		}
		for i, tx := range want.eb.Block.Txs {
			found, gtx, ts, res, err := s.ix.GetTransaction(tx.GetID())
			fmt.Fprintf(&sb, "t%v", found)
			switch {
			case must && (err != nil || !found):
				return "", fmt.Errorf("%s tx %d is inside the window but GetTransaction = (found=%v, err=%v)", ctxt, i, found, err)
			case mustNot && found:
				return "", fmt.Errorf("%s tx %d is older than the window but GetTransaction still finds it", ctxt, i)
			}
			if found {
				wres := want.eb.ExecutionResults.Results[i]
				switch {
				case gtx == nil || gtx.GetID() != tx.GetID() || !bytes.Equal(gtx.Bytes(), tx.Bytes()):
					return "", fmt.Errorf("%s tx %d: a different transaction was returned", ctxt, i)
				case ts != want.eb.Block.Tmstmp:
					return "", fmt.Errorf("%s tx %d: timestamp %d, block timestamp %d", ctxt, i, ts, want.eb.Block.Tmstmp)
				case res == nil || !bytes.Equal(res.Marshal(), wres.Marshal()):
					return "", fmt.Errorf("%s tx %d: result differs from the result at its index", ctxt, i)
				}
			}
		}
		sb.WriteString(";")
	}
	// never notified
	never := []uint64{s.m.Last + 1, s.m.Last + 1<<20}
	for _, h := range s.m.everSorted() {
		if h > 0 {
			never = append(never, h-1)
		}
	}
	for _, h := range never {
		if s.m.ever[h] {
			continue
		}
		if blk, err := s.ix.GetBlockByHeight(h); err == nil {
			return "", fmt.Errorf("height %d was never notified but GetBlockByHeight answers (height %d)", h, blk.Block.Hght)
		}
	}
	unknown := hashing.ComputeHash256Array([]byte{s.c.Salt, 0x31})
	if _, err := s.ix.GetBlock(unknown); err == nil {
		return "", fmt.Errorf("GetBlock of an unknown id answers")
	}
	if found, _, _, _, _ := s.ix.GetTransaction(unknown); found {
		return "", fmt.Errorf("GetTransaction of an unknown id reports found")
	}
	return sb.String(), nil
}

func c31Run(c c31Case, st *vstat.Stats) (verdict error) {
	if c.Window == 0 {
		return fmt.Errorf("harness: window 0 is not a valid indexer configuration")
	}
	base := c31BaseDir
	if base == "" {
		base = os.TempDir()
	}
	dir, err := os.MkdirTemp(base, "c31-")
	if err != nil {
		return fmt.Errorf("harness: %w", err)
	}
	defer os.RemoveAll(dir)
	s := &c31State{c: c, dir: dir, m: newWindowModel(c.Window, false), blocks: map[uint64]*c31Blk{}, labels: map[string]bool{},
		lastID: ids.ID{c.Salt}}
	s.ix, err = indexer.NewIndexer(dir, c31Parser, c.Window)
	if err != nil {
		return fmt.Errorf("NewIndexer on an empty directory: %w", err)
	}
	defer func() {
		if s.ix != nil {
			_ = s.ix.Close()
		}
	}()
	st.Assumption("C31: notified heights strictly increase except for a re-delivery of the last block; one block per height; transaction ids are unique across the history")
	st.Assumption("C31: window = (last-w, last]; a block that left a smaller window before a restart with a larger one may or may not be served again (if served it must be exact)")
	ran := []string{}
	verdict = func() error {
		if _, err := s.sweep(); err != nil {
			return fmt.Errorf("after open: %w", err)
		}
		for i, op := range c.Ops {
			name := fmt.Sprintf("op %d %s(%d)", i, op.K, op.A)
			switch op.K {
			case "next", "gap":
				n, gap := op.A, uint64(0)
				if op.K == "gap" {
					n, gap = 1, op.A
				}
				for k := uint64(0); k < n; k++ {
					h := c.First
					if s.m.HasLast {
						h = s.m.Last + 1 + gap
					}
					ntx := op.N
					if k > 0 {
						ntx = int((uint64(op.N) + k) % 4)
					}
					if err := s.notify(h, ntx); err != nil {
						return fmt.Errorf("%s: %w", name, err)
					}
					if _, err := s.sweep(); err != nil {
						return fmt.Errorf("after %s notify %d: %w", name, h, err)
					}
				}
				if op.K == "gap" {
					if gap >= s.m.W {
						s.labels["gap>=window"] = true
					} else {
						s.labels["gap<window"] = true
					}
					ran = append(ran, fmt.Sprintf("g%d", gap))
				} else {
					ran = append(ran, fmt.Sprintf("n%d", n))
				}
			case "redeliver":
				if !s.m.HasLast {
					st.Skip("redeliver-nothing-notified")
					continue
				}
				if err := s.ix.Notify(context.Background(), s.blocks[s.m.Last].eb); err != nil {
					return fmt.Errorf("%s: Notify again (height=%d): %w", name, s.m.Last, err)
				}
				s.labels["redeliver"] = true
				ran = append(ran, "d")
				if _, err := s.sweep(); err != nil {
					return fmt.Errorf("after %s: %w", name, err)
				}
			case "restart":
				if op.A == 0 {
					return fmt.Errorf("harness: restart with window 0")
				}
				before, err := s.sweep()
				if err != nil {
					return fmt.Errorf("before %s: %w", name, err)
				}
				ix := s.ix
				s.ix = nil
				if err := ix.Close(); err != nil {
					return fmt.Errorf("%s: Close: %w", name, err)
				}
				s.ix, err = indexer.NewIndexer(dir, c31Parser, op.A)
				if err != nil {
					return fmt.Errorf("%s: NewIndexer on the same directory: %w", name, err)
				}
				same := op.A == s.m.W
				switch {
				case same:
					s.labels["restart-same-window"] = true
				case op.A < s.m.W:
					s.labels["restart-smaller-window"] = true
				default:
					s.labels["restart-larger-window"] = true
				}
				if len(s.m.live) > 0 {
					s.labels["restart-with-blocks"] = true
					s.nt = true
				}
				s.m.setWindow(op.A)
				ran = append(ran, fmt.Sprintf("r%d", op.A))
				after, err := s.sweep()
				if err != nil {
					return fmt.Errorf("after %s: %w", name, err)
				}
				if same && before != after {
					return fmt.Errorf("%s changed answers: before %s after %s", name, before, after)
				}
			default:
				return fmt.Errorf("bad op %q", op.K)
			}
		}
		return nil
	}()
	s.labels[fmt.Sprintf("window=%d", c.Window)] = true
	lbls := make([]string, 0, len(s.labels))
	for l := range s.labels {
		lbls = append(lbls, l)
	}
	canon, _ := json.Marshal(c)
	st.Case(s.nt, string(canon), lbls...)
	st.Sample(s.nt, map[string]any{"window": c.Window, "first": c.First, "ops": strings.Join(ran, " "), "last": s.m.Last})
	return verdict
}

func TestC31(t *testing.T) {
	c31BaseDir = t.TempDir()
	st := vstat.New(t, "C31", "op lists (1..14 ops: runs of 1..4 consecutive notifications, notification after a height gap {1,2,w-1,w,w+1,2w,50,2^40}, re-delivery of the last block, restart = Close + NewIndexer on the same pebble directory with the same (3/4) or another window) with windows 1..6, 0..3 txs per block, first height {0,1,7,1000}; after every notification / restart every height, block id and tx id ever notified plus never-notified ones are queried; non-trivial = a restart with blocks present, or a notification that pushes a served block other than height-window out of the window; distinct by the whole case")
	rapid.Check(t, func(rt *rapid.T) {
		c := c31Gen(rt)
		vstat.Run(rt, st, c, func() error { return c31Run(c, st) })
	})
}

func TestC31Replay(t *testing.T) {
	c31BaseDir = t.TempDir()
	vstat.Replay(t, "C31", func(raw []byte) error {
		var c c31Case
		if err := json.Unmarshal(raw, &c); err != nil {
			return err
		}
		return c31Run(c, vstat.New(nil, "C31", ""))
	})
}
