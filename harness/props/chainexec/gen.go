// Package chainexec holds the chain-level property checks (block execution,
// building, fees, validity) built on the shared fixture and block model.
package chainexec

import (
	"context"
	"encoding/binary"
	"fmt"

	"github.com/ava-labs/avalanchego/ids"
	"github.com/ava-labs/avalanchego/snow/engine/snowman/block"
	"github.com/ava-labs/avalanchego/x/merkledb"
	"pgregory.net/rapid"

	"github.com/ava-labs/hypersdk/chain"
	"github.com/ava-labs/hypersdk/fees"
	"github.com/ava-labs/hypersdk/genesis"
	"github.com/ava-labs/hypersdk/verifharness/fixture"
	"github.com/ava-labs/hypersdk/verifharness/refmodel"

	internalfees "github.com/ava-labs/hypersdk/internal/fees"
)

const (
	// fixed, long past wall-clock anchor: block timestamps never depend on time.Now
	baseTime  int64 = 1_700_000_000_000
	nSponsors       = 4
)

type KV struct {
	K []byte
	V []byte
}

type RulesSpec struct {
	MinBlockGap, MinEmptyBlockGap, ValidityWindow int64
	MaxActions                                    uint8
	MinPrice, MaxBlockUnits                       [5]uint64
	BaseCompute                                   uint64
	KeyRead, ValRead, KeyAlloc, ValAlloc          uint64
	KeyWrite, ValWrite                            uint64
	WindowTarget                                  *[5]uint64 `json:",omitempty"`
}

func (s RulesSpec) Rules() *genesis.Rules {
	r := genesis.NewDefaultRules()
	r.ChainID = fixture.ChainID
	r.MinBlockGap, r.MinEmptyBlockGap, r.ValidityWindow = s.MinBlockGap, s.MinEmptyBlockGap, s.ValidityWindow
	r.MaxActionsPerTx = s.MaxActions
	r.MinUnitPrice = fees.Dimensions(s.MinPrice)
	r.MaxBlockUnits = fees.Dimensions(s.MaxBlockUnits)
	r.BaseComputeUnits = s.BaseCompute
	r.StorageKeyReadUnits, r.StorageValueReadUnits = s.KeyRead, s.ValRead
	r.StorageKeyAllocateUnits, r.StorageValueAllocateUnits = s.KeyAlloc, s.ValAlloc
	r.StorageKeyWriteUnits, r.StorageValueWriteUnits = s.KeyWrite, s.ValWrite
	if s.WindowTarget != nil {
		r.WindowTargetUnits = fees.Dimensions(*s.WindowTarget)
	}
	return r
}

// BlockCase is one generated block over one generated parent state.
type BlockCase struct {
	Rules     RulesSpec
	Parent    []KV      // universe keys present in the parent
	Balances  []*uint64 // per sponsor; nil = no balance entry
	PHeight   uint64
	PTime     int64
	Height    uint64
	Time      int64
	Txs       []fixture.TxSpec
	Configs   []fixture.ExecConfig
	ParentFee []byte `json:",omitempty"`
}

var universe = func() [][]byte {
	var u [][]byte
	for _, n := range []byte("abcde") {
		u = append(u, fixture.UKey(n, 1), fixture.UKey(n, 2))
	}
	u = append(u, fixture.UKey('a', 0), fixture.UKey('f', 0))
	return u
}()

func genValue(rt *rapid.T, label string, maxChunks uint16) []byte {
	lens := []int{0}
	if maxChunks >= 1 {
		lens = append(lens, 1, 8, 63)
	}
	if maxChunks >= 2 {
		lens = append(lens, 64, 100, 127)
	}
	n := rapid.SampledFrom(lens).Draw(rt, label+"len")
	// small fill alphabet: writing back a value equal to the parent's / an earlier one must be frequent
	b := rapid.SampledFrom([]byte{0x11, 0x11, 0x22, 0xee}).Draw(rt, label+"fill")
	v := make([]byte, n)
	for i := range v {
		v[i] = b
	}
	return v
}

func genAnyValue(rt *rapid.T, label string) []byte {
	n := rapid.SampledFrom([]int{0, 1, 8, 8, 8, 63, 64, 100, 127, 128, 200}).Draw(rt, label+"len")
	b := rapid.Byte().Draw(rt, label+"fill")
	v := make([]byte, n)
	for i := range v {
		v[i] = b
	}
	return v
}

func chunksOf(k []byte) uint16 { return binary.BigEndian.Uint16(k[len(k)-2:]) }

type genOpts struct {
	maxTxs        int
	allowInvalid  bool // txs that invalidate the block
	allowSponsorK bool // actions may declare/touch balance keys
	oddPerms      bool
	yields        bool              // sprinkle scheduler yields into the programs
	parentVals    map[string][]byte // values of the parent state: puts re-use them now and then
}

func genRules(rt *rapid.T, allowHuge bool) RulesSpec {
	small := rapid.SampledFrom([]uint64{0, 1, 2, 5, 20})
	s := RulesSpec{
		MinBlockGap:      rapid.SampledFrom([]int64{0, 1, 100, 750}).Draw(rt, "gap"),
		MinEmptyBlockGap: rapid.SampledFrom([]int64{0, 1, 100, 750, 2500}).Draw(rt, "emptygap"),
		ValidityWindow:   rapid.SampledFrom([]int64{1000, 5000, 60000}).Draw(rt, "window"),
		MaxActions:       rapid.SampledFrom([]uint8{1, 2, 4, 16}).Draw(rt, "maxactions"),
		BaseCompute:      small.Draw(rt, "basecompute"),
		KeyRead:          small.Draw(rt, "kr"), ValRead: small.Draw(rt, "vr"),
		KeyAlloc: small.Draw(rt, "ka"), ValAlloc: small.Draw(rt, "va"),
		KeyWrite: small.Draw(rt, "kw"), ValWrite: small.Draw(rt, "vw"),
	}
	for d := 0; d < 5; d++ {
		s.MinPrice[d] = rapid.SampledFrom([]uint64{0, 1, 1, 3, 100}).Draw(rt, fmt.Sprintf("minprice%d", d))
		s.MaxBlockUnits[d] = 1 << 40
	}
	if allowHuge && rapid.IntRange(0, 19).Draw(rt, "hugeRule") == 0 {
		which := rapid.IntRange(0, 5).Draw(rt, "hugeWhich")
		v := rapid.SampledFrom([]uint64{1 << 32, 1 << 62, 1 << 63, ^uint64(0)}).Draw(rt, "hugeVal")
		switch which {
		case 0:
			s.KeyRead = v
		case 1:
			s.ValRead = v
		case 2:
			s.KeyAlloc = v
		case 3:
			s.ValWrite = v
		case 4:
			s.BaseCompute = v
		case 5:
			s.MinPrice[rapid.IntRange(0, 4).Draw(rt, "hugePriceDim")] = v
		}
	}
	if allowHuge && rapid.IntRange(0, 9).Draw(rt, "tightBlock") == 0 {
		d := rapid.IntRange(0, 4).Draw(rt, "tightDim")
		s.MaxBlockUnits[d] = rapid.SampledFrom([]uint64{0, 1, 10, 60, 200, 1000}).Draw(rt, "tightVal")
	}
	return s
}

func genAction(rt *rapid.T, i int, o genOpts, sponsor int, forceFail bool) fixture.ActSpec {
	lbl := fmt.Sprintf("a%d.", i)
	a := fixture.ActSpec{Start: -1, End: -1,
		Compute: rapid.SampledFrom([]uint64{0, 1, 1, 7}).Draw(rt, lbl+"compute"),
		Nonce:   rapid.Uint64Range(0, 1<<20).Draw(rt, lbl+"nonce"),
	}
	pool := universe
	if o.allowSponsorK && rapid.IntRange(0, 5).Draw(rt, lbl+"useBal") == 0 {
		pool = append(append([][]byte{}, universe...), fixture.BalanceKey(sponsor), fixture.BalanceKey((sponsor+1)%nSponsors))
	}
	nk := rapid.IntRange(0, 4).Draw(rt, lbl+"nkeys")
	perms := []uint8{1, 3, 5, 5, 7, 7, 7}
	if o.oddPerms {
		perms = append(perms, 0, 2, 4, 6)
	}
	for j := 0; j < nk; j++ {
		a.Keys = append(a.Keys, fixture.KeyDecl{
			Key:  rapid.SampledFrom(pool).Draw(rt, fmt.Sprintf("%sk%d", lbl, j)),
			Perm: rapid.SampledFrom(perms).Draw(rt, fmt.Sprintf("%sp%d", lbl, j)),
		})
	}
	nops := rapid.IntRange(0, 6).Draw(rt, lbl+"nops")
	failAt := -1
	if forceFail {
		failAt = rapid.IntRange(0, nops).Draw(rt, lbl+"failAt")
	}
	for j := 0; j <= nops; j++ {
		if j == failAt {
			a.Ops = append(a.Ops, fixture.Op{Kind: fixture.OpFail})
			break
		}
		if j == nops {
			break
		}
		ol := fmt.Sprintf("%so%d.", lbl, j)
		if rapid.IntRange(0, 11).Draw(rt, ol+"who") == 0 {
			a.Ops = append(a.Ops, fixture.Op{Kind: fixture.OpWho})
			continue
		}
		if o.yields && rapid.IntRange(0, 4).Draw(rt, ol+"yield") == 0 {
			a.Ops = append(a.Ops, fixture.Op{Kind: fixture.OpYield, Val: []byte{rapid.SampledFrom([]byte{1, 3, 20, 200}).Draw(rt, ol+"yn")}})
			continue
		}
		var key []byte
		if len(a.Keys) > 0 && rapid.IntRange(0, 19).Draw(rt, ol+"undeclared") != 0 {
			key = a.Keys[rapid.IntRange(0, len(a.Keys)-1).Draw(rt, ol+"ki")].Key
		} else {
			key = rapid.SampledFrom(pool).Draw(rt, ol+"k")
		}
		switch rapid.SampledFrom([]uint8{0, 0, 0, 1, 1, 1, 2}).Draw(rt, ol+"kind") {
		case fixture.OpGet:
			a.Ops = append(a.Ops, fixture.Op{Kind: fixture.OpGet, Key: key})
		case fixture.OpPut:
			var v []byte
			if pv, ok := o.parentVals[string(key)]; ok && rapid.IntRange(0, 3).Draw(rt, ol+"sameAsParent") == 0 {
				v = append([]byte{}, pv...)
			} else if rapid.IntRange(0, 9).Draw(rt, ol+"anyval") == 0 {
				v = genAnyValue(rt, ol)
			} else {
				v = genValue(rt, ol, chunksOf(key))
			}
			a.Ops = append(a.Ops, fixture.Op{Kind: fixture.OpPut, Key: key, Val: v})
		default:
			a.Ops = append(a.Ops, fixture.Op{Kind: fixture.OpDel, Key: key})
		}
	}
	return a
}

func genTx(rt *rapid.T, i int, rules RulesSpec, blockTime int64, o genOpts) fixture.TxSpec {
	lbl := fmt.Sprintf("tx%d.", i)
	sp := rapid.IntRange(0, nSponsors-1).Draw(rt, lbl+"sponsor")
	// expiry: a whole second inside [blockTime, blockTime+window]
	lo := (blockTime + 999) / 1000
	hi := (blockTime + rules.ValidityWindow) / 1000
	if hi < lo {
		hi = lo
	}
	tx := fixture.TxSpec{
		Sponsor: sp, AuthStart: -1, AuthEnd: -1,
		Expiry:      1000 * rapid.Int64Range(lo, hi).Draw(rt, lbl+"expiry"),
		MaxFee:      rapid.SampledFrom([]uint64{0, 1, 1 << 40, ^uint64(0)}).Draw(rt, lbl+"maxfee"),
		AuthCompute: rapid.SampledFrom([]uint64{0, 1, 5}).Draw(rt, lbl+"authcompute"),
	}
	// auth encodings around 128 bytes (where the length prefix inside the tx grows) and a long one
	tx.AuthPad = rapid.SampledFrom([]int{0, 0, 0, 0, 35, 36, 37, 300}).Draw(rt, lbl+"authpad")
	if rapid.IntRange(0, 3).Draw(rt, lbl+"sponsored") == 0 {
		// a sponsored tx: the actions run for another address than the one that pays
		ac := rapid.IntRange(0, nSponsors+1).Draw(rt, lbl+"actor")
		if ac != sp {
			tx.Actor = &ac
		}
	}
	maxA := int(rules.MaxActions)
	if maxA > 4 {
		maxA = 4
	}
	na := rapid.IntRange(1, maxA).Draw(rt, lbl+"nactions")
	failing := -1
	if rapid.IntRange(0, 3).Draw(rt, lbl+"hasFail") == 0 {
		failing = rapid.IntRange(0, na-1).Draw(rt, lbl+"failing")
	}
	for j := 0; j < na; j++ {
		a := genAction(rt, i*16+j, o, sp, j == failing)
		tx.Actions = append(tx.Actions, a)
	}
	if o.allowInvalid && rapid.IntRange(0, 39).Draw(rt, lbl+"invalid") == 0 {
		switch rapid.IntRange(0, 5).Draw(rt, lbl+"invalidKind") {
		case 0:
			tx.WrongChain = true
		case 1:
			tx.Expiry = 1000 * (lo - 1 - rapid.Int64Range(0, 3).Draw(rt, lbl+"exp"))
		case 2:
			tx.Expiry = 1000*(hi+1) + rapid.Int64Range(0, 3000).Draw(rt, lbl+"fut")
		case 3:
			tx.Expiry += rapid.Int64Range(1, 999).Draw(rt, lbl+"misalign")
		case 4:
			tx.AuthStart = blockTime + 1
		case 5:
			tx.Actions[0].End = blockTime - 1
		}
	}
	return tx
}

func genBlockCase(rt *rapid.T, o genOpts) BlockCase {
	c := BlockCase{Rules: genRules(rt, o.allowInvalid)}
	for i, k := range universe {
		if rapid.IntRange(0, 2).Draw(rt, fmt.Sprintf("has%d", i)) != 0 {
			c.Parent = append(c.Parent, KV{K: k, V: genValue(rt, fmt.Sprintf("pv%d", i), chunksOf(k))})
		}
	}
	for s := 0; s < nSponsors; s++ {
		var b *uint64
		choice := rapid.IntRange(0, 19).Draw(rt, fmt.Sprintf("bal%d", s))
		switch {
		case choice == 0 && o.allowInvalid:
			// no entry
		case choice == 1 && o.allowInvalid:
			v := rapid.SampledFrom([]uint64{0, 1, 50, 2000}).Draw(rt, fmt.Sprintf("lowbal%d", s))
			b = &v
		default:
			v := uint64(1) << 50
			b = &v
		}
		c.Balances = append(c.Balances, b)
	}
	c.PHeight = rapid.SampledFrom([]uint64{0, 1, 7, 1 << 33}).Draw(rt, "pheight")
	c.PTime = baseTime + 1000*rapid.Int64Range(0, 50).Draw(rt, "ptime")
	c.Height = c.PHeight + 1
	c.Time = c.PTime + c.Rules.MinEmptyBlockGap + c.Rules.MinBlockGap + rapid.SampledFrom([]int64{0, 1, 999, 1000, 12000}).Draw(rt, "dt")
	o.parentVals = map[string][]byte{}
	for _, kv := range c.Parent {
		o.parentVals[string(kv.K)] = kv.V
	}
	if rapid.IntRange(0, 2).Draw(rt, "parentFeeState") == 0 {
		c.ParentFee = genParentFee(rt, c)
	}
	n := rapid.IntRange(0, o.maxTxs).Draw(rt, "ntxs")
	for i := 0; i < n; i++ {
		c.Txs = append(c.Txs, genTx(rt, i, c.Rules, c.Time, o))
	}
	if o.maxTxs >= 4 && rapid.IntRange(0, 1).Draw(rt, "templates") == 0 {
		c.Txs = spliceTemplates(rt, c, o)
	}
	ncfg := rapid.IntRange(2, 3).Draw(rt, "ncfg")
	c.Configs = []fixture.ExecConfig{{Cores: 1, Fetch: 1, AuthWorkers: 0}}
	for i := 0; i < ncfg; i++ {
		c.Configs = append(c.Configs, fixture.ExecConfig{
			Cores:       rapid.SampledFrom([]int{2, 3, 4, 8, 16}).Draw(rt, fmt.Sprintf("cores%d", i)),
			Fetch:       rapid.SampledFrom([]int{1, 2, 5, 16}).Draw(rt, fmt.Sprintf("fetch%d", i)),
			AuthWorkers: rapid.SampledFrom([]int{0, 1, 4, 16}).Draw(rt, fmt.Sprintf("authw%d", i)),
		})
	}
	return c
}

// parentState materialises the parent key/value map (incl. metadata keys).
func (c BlockCase) parentState() map[string][]byte {
	m := map[string][]byte{}
	for _, kv := range c.Parent {
		m[string(kv.K)] = kv.V
	}
	for s, b := range c.Balances {
		if b != nil {
			m[string(fixture.BalanceKey(s))] = binary.BigEndian.AppendUint64(nil, *b)
		}
	}
	m[string(fixture.HeightKey())] = binary.BigEndian.AppendUint64(nil, c.PHeight)
	m[string(fixture.TimestampKey())] = binary.BigEndian.AppendUint64(nil, uint64(c.PTime))
	fee := c.ParentFee
	if fee == nil {
		fee = internalfees.NewManager(nil).Bytes()
	}
	m[string(fixture.FeeKey())] = fee
	return m
}

type builtBlock struct {
	rules  *genesis.Rules
	parent map[string][]byte
	db     merkledb.MerkleDB
	txs    []*chain.Transaction
	blk    *chain.ExecutionBlock
	prices refmodel.Units
	feeMgr *internalfees.Manager // block fee manager before any consumption
	model  refmodel.BlockOut
}

// materialise builds the real parent db, txs and block, and runs the model.
func (c BlockCase) materialise() (*builtBlock, error) {
	ctx := context.Background()
	bb := &builtBlock{rules: c.Rules.Rules(), parent: c.parentState()}
	db, err := fixture.NewDB(bb.parent)
	if err != nil {
		return nil, err
	}
	bb.db = db
	root, err := db.GetMerkleRoot(ctx)
	if err != nil {
		return nil, err
	}
	sizes := make([]uint64, len(c.Txs))
	for i, s := range c.Txs {
		tx := s.Build()
		bb.txs = append(bb.txs, tx)
		sizes[i] = uint64(tx.Size())
	}
	sb, err := chain.NewStatelessBlock(ids.ID{1}, c.Time, c.Height, bb.txs, root, &block.Context{})
	if err != nil {
		return nil, err
	}
	bb.blk = chain.NewExecutionBlock(sb)
	bb.feeMgr = internalfees.NewManager(bb.parent[string(fixture.FeeKey())]).ComputeNext(c.Time, bb.rules)
	bb.prices = refmodel.Units(bb.feeMgr.UnitPrices())
	bb.model = refmodel.ExecuteBlock(refmodel.BlockIn{
		Rules: bb.rules, Parent: bb.parent, Height: c.Height, Timestamp: c.Time,
		Txs: c.Txs, Sizes: sizes, Prices: bb.prices,
	})
	return bb, nil
}

// expectedRoot is the root of the model's post state plus the metadata the
// block writes; the fee bytes come from the real fee manager after it
// consumed exactly the model's units.
func (bb *builtBlock) expectedRoot(c BlockCase) (ids.ID, error) {
	post := map[string][]byte{}
	for k, v := range bb.model.Post {
		post[k] = v
	}
	fm := internalfees.NewManager(append([]byte{}, bb.feeMgr.Bytes()...))
	for _, r := range bb.model.Results {
		if ok, d := fm.Consume(fees.Dimensions(r.Units), bb.rules.MaxBlockUnits); !ok {
			return ids.Empty, fmt.Errorf("fee manager refused model units in dimension %d", d)
		}
	}
	post[string(fixture.HeightKey())] = binary.BigEndian.AppendUint64(nil, c.Height)
	post[string(fixture.TimestampKey())] = binary.BigEndian.AppendUint64(nil, uint64(c.Time))
	post[string(fixture.FeeKey())] = fm.Bytes()
	return fixture.RootOf(post)
}

// spliceTemplates inserts 1-2 small hand-shaped transaction groups (in order, at
// increasing random positions) into the random block. Random generation alone
// reaches these shapes too rarely (measured: about 1 in 20 000 blocks for the
// first one); everything about them except the shape is still drawn.
func spliceTemplates(rt *rapid.T, c BlockCase, o genOpts) []fixture.TxSpec {
	exp := 1000 * ((c.Time + 999) / 1000)
	mk := func(sp int, acts ...fixture.ActSpec) fixture.TxSpec {
		for i := range acts {
			acts[i].Start, acts[i].End = -1, -1
			acts[i].Nonce = rapid.Uint64Range(1<<21, 1<<22).Draw(rt, "tnonce")
		}
		if len(acts) > int(c.Rules.MaxActions) {
			acts = acts[:c.Rules.MaxActions]
		}
		return fixture.TxSpec{Sponsor: sp, AuthStart: -1, AuthEnd: -1, Expiry: exp, MaxFee: ^uint64(0), Actions: acts}
	}
	pickKey := func(label string, needChunks bool) []byte {
		var pool [][]byte
		for _, kv := range c.Parent {
			if !needChunks || chunksOf(kv.K) >= 1 {
				pool = append(pool, kv.K)
			}
		}
		if len(pool) == 0 || rapid.IntRange(0, 3).Draw(rt, label+"fresh") == 0 {
			for _, k := range universe {
				if !needChunks || chunksOf(k) >= 1 {
					pool = append(pool, k)
				}
			}
		}
		return rapid.SampledFrom(pool).Draw(rt, label)
	}
	valFor := func(label string, k []byte) []byte {
		if pv, ok := o.parentVals[string(k)]; ok && rapid.IntRange(0, 2).Draw(rt, label+"same") != 0 {
			return append([]byte{}, pv...)
		}
		return genValue(rt, label, chunksOf(k))
	}
	get := func(k []byte) fixture.Op { return fixture.Op{Kind: fixture.OpGet, Key: k} }
	put := func(k, v []byte) fixture.Op { return fixture.Op{Kind: fixture.OpPut, Key: k, Val: v} }
	del := func(k []byte) fixture.Op { return fixture.Op{Kind: fixture.OpDel, Key: k} }
	yield := func(n byte) fixture.Op { return fixture.Op{Kind: fixture.OpYield, Val: []byte{n}} }
	decl := func(k []byte, p uint8) fixture.KeyDecl { return fixture.KeyDecl{Key: k, Perm: p} }
	sp := func(label string) int { return rapid.IntRange(0, nSponsors-1).Draw(rt, label) }

	var group []fixture.TxSpec
	n := rapid.IntRange(1, 2).Draw(rt, "ntemplates")
	for t := 0; t < n; t++ {
		lbl := fmt.Sprintf("tm%d.", t)
		switch rapid.IntRange(0, 3).Draw(rt, lbl+"kind") {
		case 0: // delete in one tx, re-create (often with the parent's value) in a later one, read in a third
			k := pickKey(lbl+"k", false)
			group = append(group,
				mk(sp(lbl+"s0"), fixture.ActSpec{Keys: []fixture.KeyDecl{decl(k, 7)}, Ops: []fixture.Op{get(k), del(k)}}),
				mk(sp(lbl+"s1"), fixture.ActSpec{Keys: []fixture.KeyDecl{decl(k, 7)}, Ops: []fixture.Op{get(k), put(k, valFor(lbl+"v", k)), get(k)}}),
				mk(sp(lbl+"s2"), fixture.ActSpec{Keys: []fixture.KeyDecl{decl(k, 1)}, Ops: []fixture.Op{get(k)}}))
		case 1: // A owns k1,k2; readers of k2 linger; T reads k1 and writes k2
			k1, k2 := pickKey(lbl+"k1", true), pickKey(lbl+"k2", true)
			if string(k1) == string(k2) {
				k2 = fixture.UKey('e', 2)
				if string(k1) == string(k2) {
					k2 = fixture.UKey('d', 2)
				}
			}
			group = append(group, mk(sp(lbl+"sa"), fixture.ActSpec{Keys: []fixture.KeyDecl{decl(k1, 7), decl(k2, 7)},
				Ops: []fixture.Op{put(k1, valFor(lbl+"va1", k1)), put(k2, valFor(lbl+"va2", k2))}}))
			nr := rapid.IntRange(1, 3).Draw(rt, lbl+"nreaders")
			for r := 0; r < nr; r++ {
				group = append(group, mk(sp(fmt.Sprintf("%ssr%d", lbl, r)), fixture.ActSpec{Keys: []fixture.KeyDecl{decl(k2, 1)},
					Ops: []fixture.Op{yield(rapid.SampledFrom([]byte{20, 200, 250}).Draw(rt, fmt.Sprintf("%sy%d", lbl, r))), get(k2), yield(20), get(k2)}}))
			}
			group = append(group, mk(sp(lbl+"st"), fixture.ActSpec{Keys: []fixture.KeyDecl{decl(k1, 1), decl(k2, 7)},
				Ops: []fixture.Op{get(k1), put(k2, genValue(rt, lbl+"vt", chunksOf(k2))), get(k2)}}))
		case 2: // a write of the value already there, then a reader
			k := pickKey(lbl+"k", false)
			group = append(group,
				mk(sp(lbl+"s0"), fixture.ActSpec{Keys: []fixture.KeyDecl{decl(k, 7)}, Ops: []fixture.Op{put(k, valFor(lbl+"v", k)), get(k)}}),
				mk(sp(lbl+"s1"), fixture.ActSpec{Keys: []fixture.KeyDecl{decl(k, 5)}, Ops: []fixture.Op{get(k), del(k), get(k)}}))
		default: // delete, re-create, delete (and maybe re-create) inside one tx, split over actions
			k := pickKey(lbl+"k", false)
			ops := []fixture.Op{del(k), put(k, valFor(lbl+"v", k)), del(k), get(k)}
			if rapid.Bool().Draw(rt, lbl+"again") {
				ops = append(ops, put(k, valFor(lbl+"v2", k)), get(k))
			}
			cut := rapid.IntRange(1, len(ops)-1).Draw(rt, lbl+"cut")
			group = append(group, mk(sp(lbl+"s0"),
				fixture.ActSpec{Keys: []fixture.KeyDecl{decl(k, 7)}, Ops: ops[:cut]},
				fixture.ActSpec{Keys: []fixture.KeyDecl{decl(k, 7)}, Ops: ops[cut:]}),
				mk(sp(lbl+"s1"), fixture.ActSpec{Keys: []fixture.KeyDecl{decl(k, 1)}, Ops: []fixture.Op{get(k)}}))
		}
	}
	// splice in order at increasing positions
	out := append([]fixture.TxSpec{}, c.Txs...)
	pos := 0
	for i, tx := range group {
		pos = rapid.IntRange(pos, len(out)).Draw(rt, fmt.Sprintf("tpos%d", i))
		out = append(out[:pos], append([]fixture.TxSpec{tx}, out[pos:]...)...)
		pos++
	}
	return out
}

// genParentFee builds a parent fee state that is not "everything zero": unit prices off the
// minimum, a 10-slot usage window around / above the default targets, zero or non-zero last
// consumption, last update in the parent's second (layout as documented in internal/fees/manager.go:
// 8-byte second, then per dimension 8-byte price, 10 x 8-byte window, 8-byte last consumed).
func genParentFee(rt *rapid.T, c BlockCase) []byte {
	raw := make([]byte, 8+5*(8+80+8))
	binary.BigEndian.PutUint64(raw[0:8], uint64(c.PTime/1000))
	targets := [5]uint64{20_000_000, 1_000, 1_000, 1_000, 1_000}
	for d := 0; d < 5; d++ {
		off := 8 + d*96
		price := c.Rules.MinPrice[d] + rapid.SampledFrom([]uint64{0, 1, 50, 1000}).Draw(rt, fmt.Sprintf("pf.price%d", d))
		binary.BigEndian.PutUint64(raw[off:off+8], price)
		mode := rapid.IntRange(0, 2).Draw(rt, fmt.Sprintf("pf.win%d", d))
		for s := 0; s < 10; s++ {
			var v uint64
			switch mode {
			case 1: // around the target in total
				v = targets[d] / 10
			case 2: // well above the target
				v = targets[d] / 3
			}
			if mode != 0 && rapid.IntRange(0, 3).Draw(rt, fmt.Sprintf("pf.slot%d.%d", d, s)) == 0 {
				v = 0
			}
			binary.BigEndian.PutUint64(raw[off+8+8*s:off+16+8*s], v)
		}
		if rapid.Bool().Draw(rt, fmt.Sprintf("pf.consumed%d", d)) {
			binary.BigEndian.PutUint64(raw[off+88:off+96], rapid.SampledFrom([]uint64{1, 40, 500}).Draw(rt, fmt.Sprintf("pf.last%d", d)))
		}
	}
	return raw
}
