package chainexec

import (
	"context"
	"encoding/json"
	"fmt"
	"testing"

	"github.com/ava-labs/avalanchego/ids"
	"github.com/ava-labs/avalanchego/snow/engine/snowman/block"
	"github.com/ava-labs/avalanchego/trace"
	"github.com/ava-labs/avalanchego/utils/logging"
	"pgregory.net/rapid"

	"github.com/ava-labs/hypersdk/chain"
	"github.com/ava-labs/hypersdk/internal/validitywindow"
	"github.com/ava-labs/hypersdk/verifharness/fixture"
	"github.com/ava-labs/hypersdk/verifharness/vstat"
)

// C09 (layer a): the replay window over generated block trees. A block repeats
// iff it contains an id twice or an id of an ancestor inside the validity
// window; IsRepeat marks exactly those; along every verified root-to-tip path
// no id occurs twice -- across forks, accepted/processing ancestors, restarts.

type c09Op struct {
	Kind  int   // 0 verify child, 1 accept towards a tip, 2 restart, 3 IsRepeat query
	Node  int   // parent / tip (index into the nodes known when interpreted, mod)
	DT    int64 // child timestamp = parent timestamp + DT (ms)
	Picks []int // tx picks: -1 = fresh tx, k >= 0 = reuse identity k (mod), repeated picks allowed
	Offs  []int64
}

type c09Case struct {
	Window int64 // ms
	Ops    []c09Op
}

type c09Node struct {
	blk    *chain.ExecutionBlock
	parent int
	ts     int64
	height uint64
	txs    []int // identity indices
	status int   // 0 verified(processing), 1 accepted, 2 rejected/dropped
}

type c09Tx struct {
	expiry int64
	tx     *chain.Transaction
}

func c09Gen(rt *rapid.T) c09Case {
	c := c09Case{Window: rapid.SampledFrom([]int64{0, 1000, 5000, 60000}).Draw(rt, "window")}
	n := rapid.IntRange(1, 30).Draw(rt, "nops")
	for i := 0; i < n; i++ {
		lbl := fmt.Sprintf("op%d.", i)
		op := c09Op{Kind: rapid.SampledFrom([]int{0, 0, 0, 0, 1, 1, 2, 3, 3}).Draw(rt, lbl+"kind"), Node: rapid.IntRange(0, 40).Draw(rt, lbl+"node")}
		op.DT = rapid.SampledFrom([]int64{0, 0, 500, 1000, 1000, 2000, c.Window, c.Window + 1000, 2*c.Window + 3000}).Draw(rt, lbl+"dt")
		np := rapid.IntRange(0, 4).Draw(rt, lbl+"npicks")
		reuseOdds := 2
		if op.Kind == 3 {
			// builder-style queries: larger batches, mostly txs that may already be on the chain
			np = rapid.IntRange(1, 7).Draw(rt, lbl+"nqpicks")
			reuseOdds = 6
		}
		for j := 0; j < np; j++ {
			p := -1
			if rapid.IntRange(0, reuseOdds).Draw(rt, fmt.Sprintf("%sreuse%d", lbl, j)) != 0 {
				p = rapid.IntRange(0, 12).Draw(rt, fmt.Sprintf("%spick%d", lbl, j))
			}
			op.Picks = append(op.Picks, p)
			op.Offs = append(op.Offs, rapid.Int64Range(0, 60).Draw(rt, fmt.Sprintf("%soff%d", lbl, j)))
		}
		c.Ops = append(c.Ops, op)
	}
	return c
}

type c09Index struct {
	blks map[ids.ID]*chain.ExecutionBlock
}

func (i *c09Index) GetExecutionBlock(_ context.Context, id ids.ID) (validitywindow.ExecutionBlock[*chain.Transaction], error) {
	b, ok := i.blks[id]
	if !ok {
		return nil, fmt.Errorf("block %s not found", id)
	}
	return b, nil
}

func c09Run(c c09Case, st *vstat.Stats) error {
	ctx := context.Background()
	idx := &c09Index{blks: map[ids.ID]*chain.ExecutionBlock{}}
	newWindow := func(head *chain.ExecutionBlock) (*validitywindow.TimeValidityWindow[*chain.Transaction], error) {
		return validitywindow.NewTimeValidityWindow[*chain.Transaction](ctx, logging.NoLog{}, trace.Noop, idx, head, func(int64) int64 { return c.Window })
	}
	mk := func(parent ids.ID, ts int64, h uint64, txs []*chain.Transaction) (*chain.ExecutionBlock, error) {
		sb, err := chain.NewStatelessBlock(parent, ts, h, txs, ids.Empty, &block.Context{})
		if err != nil {
			return nil, err
		}
		return chain.NewExecutionBlock(sb), nil
	}
	g, err := mk(ids.Empty, baseTime, 0, nil)
	if err != nil {
		return err
	}
	idx.blks[g.GetID()] = g
	nodes := []*c09Node{{blk: g, parent: -1, ts: baseTime, height: 0, status: 1}}
	lastAccepted := 0
	var pool []*c09Tx
	vw, err := newWindow(g)
	if err != nil {
		return err
	}
	labels := map[string]bool{}
	// live = blocks a new child can be verified on: processing blocks and the last accepted one
	live := func() []int {
		var out []int
		for i, n := range nodes {
			if n.status == 0 || i == lastAccepted {
				out = append(out, i)
			}
		}
		return out
	}
	// ancestry ids of node i (inclusive), walking to genesis
	inAncestry := func(i int, ident int) (bool, bool) { // found, foundInAccepted
		for j := i; j >= 0; j = nodes[j].parent {
			for _, t := range nodes[j].txs {
				if t == ident {
					return true, nodes[j].status == 1
				}
			}
		}
		return false, false
	}
	isAncestor := func(a, of int) bool {
		for j := of; j >= 0; j = nodes[j].parent {
			if j == a {
				return true
			}
		}
		return false
	}
	restarted := false
	// resolve picks for a block/query at timestamp ts: identities valid at ts
	resolve := func(op c09Op, ts int64) ([]int, []*chain.Transaction) {
		var idents []int
		var txs []*chain.Transaction
		for j, p := range op.Picks {
			if p >= 0 && len(pool) > 0 {
				k := p % len(pool)
				e := pool[k].expiry
				if e >= ts && e <= ts+c.Window {
					idents = append(idents, k)
					txs = append(txs, pool[k].tx)
					continue
				}
				st.Skip("reuse-outside-validity-interval")
			}
			// fresh identity with an expiry valid at ts
			lo := (ts + 999) / 1000
			hi := (ts + c.Window) / 1000
			if hi < lo {
				st.Skip("no-valid-expiry-at-this-timestamp")
				continue
			}
			e := 1000 * (lo + op.Offs[j]%(hi-lo+1))
			spec := fixture.TxSpec{Sponsor: 0, AuthStart: -1, AuthEnd: -1, Expiry: e, MaxFee: uint64(len(pool) + 1)}
			pool = append(pool, &c09Tx{expiry: e, tx: spec.Build()})
			idents = append(idents, len(pool)-1)
			txs = append(txs, pool[len(pool)-1].tx)
		}
		return idents, txs
	}

	for _, op := range c.Ops {
		lv := live()
		switch op.Kind {
		case 0: // verify a new child
			pi := lv[op.Node%len(lv)]
			p := nodes[pi]
			if p.status == 1 && pi != lastAccepted {
				st.Skip("child-of-old-accepted-block")
				continue
			}
			ts := p.ts + op.DT
			idents, txs := resolve(op, ts)
			blk, err := mk(p.blk.GetID(), ts, p.height+1, txs)
			if err != nil {
				return err
			}
			if _, dup := idx.blks[blk.GetID()]; dup {
				st.Skip("identical-block")
				continue
			}
			// model
			internal := false
			seen := map[int]bool{}
			for _, k := range idents {
				if seen[k] {
					internal = true
				}
				seen[k] = true
			}
			anc, ancAccepted := false, false
			for k := range seen {
				if f, a := inAncestry(pi, k); f {
					anc = true
					if a {
						ancAccepted = true
					}
				}
			}
			want := internal || anc
			gerr := vw.VerifyExpiryReplayProtection(ctx, blk)
			if want && gerr == nil {
				return fmt.Errorf("block at height %d (ts %d, parent node %d) repeats a tx (internal=%v ancestor=%v acceptedAncestor=%v afterRestart=%v) but replay verification passed", p.height+1, ts, pi, internal, anc, ancAccepted, restarted)
			}
			if !want && gerr != nil {
				return fmt.Errorf("block at height %d without any repeat on its own chain was rejected: %v", p.height+1, gerr)
			}
			if want {
				switch {
				case internal:
					labels["dup-internal"] = true
				case ancAccepted && restarted:
					labels["dup-accepted-after-restart"] = true
				case ancAccepted:
					labels["dup-across-accepted-boundary"] = true
				default:
					labels["dup-processing-ancestor"] = true
				}
				continue
			}
			// a tx reused on a sibling branch is allowed
			for k := range seen {
				for i, n := range nodes {
					if n.status != 2 && !isAncestor(i, pi) {
						for _, t := range n.txs {
							if t == k {
								labels["reuse-on-sibling-branch-allowed"] = true
							}
						}
					}
				}
			}
			idx.blks[blk.GetID()] = blk
			nodes = append(nodes, &c09Node{blk: blk, parent: pi, ts: ts, height: p.height + 1, txs: idents})
		case 1: // accept the next block on the path to a tip
			var proc []int
			for _, i := range lv {
				if i != lastAccepted {
					proc = append(proc, i)
				}
			}
			if len(proc) == 0 {
				st.Skip("accept-nothing-processing")
				continue
			}
			ti := proc[op.Node%len(proc)]
			if !isAncestor(lastAccepted, ti) || ti == lastAccepted {
				st.Skip("accept-not-a-descendant")
				continue
			}
			next := ti
			for nodes[next].parent != lastAccepted {
				next = nodes[next].parent
			}
			vw.Accept(nodes[next].blk)
			nodes[next].status = 1
			// siblings (and their descendants) are rejected
			for i, n := range nodes {
				if n.status == 0 && !isAncestor(next, i) {
					n.status = 2
					delete(idx.blks, n.blk.GetID())
				}
			}
			lastAccepted = next
			labels["accept"] = true
		case 2: // restart: processing blocks are gone, window rebuilt from the index
			for _, n := range nodes {
				if n.status == 0 {
					n.status = 2
					delete(idx.blks, n.blk.GetID())
				}
			}
			vw, err = newWindow(nodes[lastAccepted].blk)
			if err != nil {
				return err
			}
			restarted = true
			labels["restart"] = true
		case 3: // IsRepeat as the builder issues it
			pi := lv[op.Node%len(lv)]
			p := nodes[pi]
			if p.status == 1 && pi != lastAccepted {
				st.Skip("query-on-old-accepted-block")
				continue
			}
			ts := p.ts + op.DT
			idents, txs := resolve(op, ts)
			if len(txs) == 0 {
				continue
			}
			bits, qerr := vw.IsRepeat(ctx, p.blk, ts, txs)
			if qerr != nil {
				return fmt.Errorf("IsRepeat failed: %v", qerr)
			}
			for j, k := range idents {
				f, _ := inAncestry(pi, k)
				if bits.Contains(j) != f {
					return fmt.Errorf("IsRepeat(parent node %d, ts %d) marks tx #%d as repeat=%v, it is in the ancestry=%v (afterRestart=%v)", pi, ts, j, bits.Contains(j), f, restarted)
				}
				if f {
					labels["isrepeat-hit"] = true
				}
			}
		}
		// end-to-end invariant over every live root-to-tip path
		for i, n := range nodes {
			if n.status == 2 {
				continue
			}
			seen := map[int]int{}
			for j := i; j >= 0; j = nodes[j].parent {
				for _, t := range nodes[j].txs {
					seen[t]++
					if seen[t] > 1 {
						return fmt.Errorf("tx identity %d occurs twice on the verified chain ending at node %d", t, i)
					}
				}
			}
		}
	}
	nt := labels["dup-across-accepted-boundary"] || labels["dup-accepted-after-restart"] || labels["reuse-on-sibling-branch-allowed"]
	ls := []string{fmt.Sprintf("window=%d", c.Window)}
	for k := range labels {
		ls = append(ls, k)
	}
	raw, _ := json.Marshal(c)
	st.Case(nt, string(raw), ls...)
	st.Sample(nt, map[string]any{"window": c.Window, "ops": len(c.Ops), "nodes": len(nodes), "txs": len(pool), "labels": ls})
	return nil
}

func TestC09(t *testing.T) {
	st := vstat.New(t, "C09", "block trees over a harness chain index driven against the real TimeValidityWindow: verify a new child of any live block (timestamps equal / +0.5..2 s / beyond the window; txs fresh or reused identities whose expiry is valid for that block), accept the next block toward a tip (siblings rejected), restart (window rebuilt from the accepted chain), IsRepeat queries; windows {0,1,5,60} s; oracle = full-ancestry set model; non-trivial = duplicate across the accepted/processing boundary, or after a restart, or reuse on a sibling branch (must be allowed); distinct by full case")
	st.Assumption("every generated tx respects its own validity interval for the block it is put in (C10 is a separate gate); the chain index retains all accepted blocks")
	rapid.Check(t, func(rt *rapid.T) {
		c := c09Gen(rt)
		vstat.Run(rt, st, c, func() error { return c09Run(c, st) })
	})
}

func TestC09Replay(t *testing.T) {
	vstat.Replay(t, "C09", func(raw []byte) error {
		var probe map[string]json.RawMessage
		_ = json.Unmarshal(raw, &probe)
		if _, ok := probe["Blocks"]; ok {
			var c c09bCase
			if err := json.Unmarshal(raw, &c); err != nil {
				return err
			}
			return c09bRun(c, vstat.New(nil, "C09", ""))
		}
		var c c09Case
		if err := json.Unmarshal(raw, &c); err != nil {
			return err
		}
		return c09Run(c, vstat.New(nil, "C09", ""))
	})
}
