package chainexec

import (
	"context"
	"encoding/binary"
	"fmt"
	"sync"
	"time"

	"github.com/ava-labs/avalanchego/database"
	"github.com/ava-labs/avalanchego/ids"
	"github.com/ava-labs/avalanchego/snow/engine/snowman/block"
	"github.com/ava-labs/avalanchego/trace"
	"github.com/ava-labs/avalanchego/utils/logging"
	"github.com/ava-labs/avalanchego/x/merkledb"
	"go.uber.org/zap"

	"github.com/ava-labs/hypersdk/chain"
	"github.com/ava-labs/hypersdk/fees"
	"github.com/ava-labs/hypersdk/genesis"
	"github.com/ava-labs/hypersdk/internal/mempool"
	"github.com/ava-labs/hypersdk/internal/validitywindow"
	"github.com/ava-labs/hypersdk/verifharness/fixture"

	internalfees "github.com/ava-labs/hypersdk/internal/fees"
)

// live.go: a small "live chain" over the fixture for the properties that
// need the builder, the real replay window and the wall clock (C02 C07 C09).

type chainIndex struct {
	mu   sync.Mutex
	blks map[ids.ID]*chain.ExecutionBlock
}

func (c *chainIndex) GetExecutionBlock(_ context.Context, id ids.ID) (validitywindow.ExecutionBlock[*chain.Transaction], error) {
	c.mu.Lock()
	defer c.mu.Unlock()
	b, ok := c.blks[id]
	if !ok {
		return nil, database.ErrNotFound
	}
	return b, nil
}

func (c *chainIndex) put(b *chain.ExecutionBlock) {
	c.mu.Lock()
	c.blks[b.GetID()] = b
	c.mu.Unlock()
}

// notifyMempool wraps the real mempool and reports when the builder's
// asynchronous FinishStreaming has run.
type notifyMempool struct {
	*mempool.Mempool[*chain.Transaction]
	finished chan int
}

func (m *notifyMempool) FinishStreaming(ctx context.Context, restorable []*chain.Transaction) int {
	n := m.Mempool.FinishStreaming(ctx, restorable)
	select {
	case m.finished <- n:
	default:
	}
	return n
}

type live struct {
	rules   *genesis.Rules
	rf      chain.RuleFactory // what builder and verifier are given; a static factory over rules unless a test replaces it
	index   *chainIndex
	db      merkledb.MerkleDB
	genesis *chain.OutputBlock
	mp      *notifyMempool
	parent0 map[string][]byte
}

// newLive creates a chain whose "genesis" (height 0) has the given state and
// a timestamp `ago` ms before now.
func newLive(rs RulesSpec, parent []KV, balances []*uint64, ago int64, parentFee []byte) (*live, error) {
	now := time.Now().UnixMilli()
	bc := BlockCase{Rules: rs, Parent: parent, Balances: balances, PHeight: 0, PTime: now - ago, ParentFee: parentFee}
	st := bc.parentState()
	db, err := fixture.NewDB(st)
	if err != nil {
		return nil, err
	}
	sb, err := chain.NewStatelessBlock(ids.Empty, bc.PTime, 0, nil, ids.Empty, nil)
	if err != nil {
		return nil, err
	}
	g := chain.NewExecutionBlock(sb)
	rules := rs.Rules()
	l := &live{
		rules: rules, rf: fixture.RuleFactory{R: rules},
		index: &chainIndex{blks: map[ids.ID]*chain.ExecutionBlock{}}, db: db, parent0: st,
		genesis: &chain.OutputBlock{ExecutionBlock: g, View: db, ExecutionResults: &chain.ExecutionResults{}},
		mp:      &notifyMempool{Mempool: mempool.New[*chain.Transaction](trace.Noop, 1<<20, 1<<20), finished: make(chan int, 4)},
	}
	l.index.put(g)
	return l, nil
}

func (l *live) close() { l.db.Close() }

func (l *live) window(head *chain.ExecutionBlock) (*validitywindow.TimeValidityWindow[*chain.Transaction], error) {
	return validitywindow.NewTimeValidityWindow[*chain.Transaction](context.Background(), logging.NoLog{}, trace.Noop, l.index, head,
		func(int64) int64 { return l.rules.ValidityWindow })
}

// slowLogger makes every Debug call of the code under test take ~300us. The builder logs
// "skipping tx" while holding its block lock, so concurrently executing txs pile up behind the
// lock: interleavings around the fit check that a free-running build almost never shows.
type slowLogger struct{ logging.NoLog }

func (slowLogger) Debug(string, ...zap.Field) { time.Sleep(300 * time.Microsecond) }

func (l *live) builderWith(vw chain.ValidityWindow, cores int, targetTxsSize int, log logging.Logger) *chain.Builder {
	return l.builderFor(vw, cores, targetTxsSize, log, 5*time.Second)
}

// builderFor also sets the build time budget (the builder stops streaming from the mempool when
// it is used up).
func (l *live) builderFor(vw chain.ValidityWindow, cores int, targetTxsSize int, log logging.Logger, budget time.Duration) *chain.Builder {
	cfg := chain.NewDefaultConfig()
	cfg.TransactionExecutionCores = cores
	cfg.TargetBuildDuration = budget
	cfg.TargetTxsSize = targetTxsSize
	return chain.NewBuilder(trace.Noop, l.rf, log, fixture.Metadata(), fixture.BalanceHandler(), l.mp, vw, fixture.Metrics(), cfg)
}

func (l *live) builder(vw chain.ValidityWindow, cores int, targetTxsSize int) *chain.Builder {
	cfg := chain.NewDefaultConfig()
	cfg.TransactionExecutionCores = cores
	cfg.TargetBuildDuration = 5 * time.Second
	cfg.TargetTxsSize = targetTxsSize
	return chain.NewBuilder(trace.Noop, l.rf, logging.NoLog{}, fixture.Metadata(), fixture.BalanceHandler(), l.mp, vw, fixture.Metrics(), cfg)
}

// waitFinish waits for the builder's asynchronous FinishStreaming.
func (l *live) waitFinish(d time.Duration) bool {
	select {
	case <-l.mp.finished:
		return true
	case <-time.After(d):
		return false
	}
}

// stateOf reads every key of `keys` from a view into a map (absent keys omitted).
func stateOf(ctx context.Context, v merkledb.View, keys []string) map[string][]byte {
	m := map[string][]byte{}
	for _, k := range keys {
		if val, err := v.GetValue(ctx, []byte(k)); err == nil {
			m[k] = val
		}
	}
	return m
}

func u64(b []byte) uint64 {
	if len(b) != 8 {
		return 0
	}
	return binary.BigEndian.Uint64(b)
}

// verifyBuilt re-executes a built block on its parent with a fresh processor
// and compares everything the builder claimed.
func (l *live) verifyBuilt(ctx context.Context, vw chain.ValidityWindow, parent *chain.OutputBlock, blk *chain.ExecutionBlock, built *chain.OutputBlock, cfg fixture.ExecConfig, viaBytes bool) error {
	p, w := fixture.NewProcessorRF(l.rf, vw, cfg, fixture.NoEngines{})
	defer w.Stop()
	target := blk
	if viaBytes {
		sb, err := chain.UnmarshalBlock(blk.GetBytes(), &fixture.Parser{})
		if err != nil {
			return fmt.Errorf("built block does not parse: %w", err)
		}
		if sb.GetID() != blk.GetID() {
			return fmt.Errorf("re-parsed block has id %s, built block %s", sb.GetID(), blk.GetID())
		}
		target = chain.NewExecutionBlock(sb)
	}
	out, err := p.Execute(ctx, parent.View, target, true)
	if err != nil {
		return fmt.Errorf("verification of the built block failed (viaBytes=%v): %w", viaBytes, err)
	}
	br, vr := built.ExecutionResults, out.ExecutionResults
	if br.UnitPrices != vr.UnitPrices {
		return fmt.Errorf("unit prices: builder %v verifier %v", br.UnitPrices, vr.UnitPrices)
	}
	if br.UnitsConsumed != vr.UnitsConsumed {
		return fmt.Errorf("units consumed: builder %v verifier %v", br.UnitsConsumed, vr.UnitsConsumed)
	}
	if len(br.Results) != len(vr.Results) || len(br.Results) != len(blk.StatelessBlock.Txs) {
		return fmt.Errorf("results: builder %d verifier %d txs %d", len(br.Results), len(vr.Results), len(blk.StatelessBlock.Txs))
	}
	for i := range br.Results {
		if string(br.Results[i].Marshal()) != string(vr.Results[i].Marshal()) {
			return fmt.Errorf("tx %d result: builder %+v verifier %+v", i, br.Results[i], vr.Results[i])
		}
	}
	rb, err := built.View.GetMerkleRoot(ctx)
	if err != nil {
		return err
	}
	rv, err := out.View.GetMerkleRoot(ctx)
	if err != nil {
		return err
	}
	if rb != rv {
		return fmt.Errorf("post-state root: builder %s verifier %s", rb, rv)
	}
	return nil
}

// parentFeeBytes builds a fee-manager state with the given prices (last
// update = the parent's second) so that blocks do not all start at min price.
func parentFeeBytes(prices [5]uint64, atMillis int64) []byte {
	raw := make([]byte, len(internalfees.NewManager(nil).Bytes()))
	binary.BigEndian.PutUint64(raw[0:8], uint64(atMillis/1000))
	m := internalfees.NewManager(raw)
	for d := 0; d < 5; d++ {
		m.SetUnitPrice(fees.Dimension(d), prices[d])
	}
	return m.Bytes()
}

var _ = block.Context{}
