package chainexec

import (
	"bytes"
	"context"
	"encoding/json"
	"errors"
	"fmt"
	"sort"
	"sync"
	"testing"
	"time"

	"github.com/ava-labs/avalanchego/database"
	"github.com/ava-labs/avalanchego/ids"
	"github.com/ava-labs/avalanchego/x/merkledb"
	"pgregory.net/rapid"

	"github.com/ava-labs/hypersdk/chain"
	"github.com/ava-labs/hypersdk/internal/fetcher"
	"github.com/ava-labs/hypersdk/verifharness/fixture"
	"github.com/ava-labs/hypersdk/verifharness/refmodel"
	"github.com/ava-labs/hypersdk/verifharness/vstat"
)

// C24 (block level): executing a block reads from the parent only declared
// keys + metadata keys; txs observe the parent's values (model comparison);
// an injected read error fails the block (no hang, no "absent").

var errInjected = errors.New("injected read error")

type recView struct {
	merkledb.View
	mu        sync.Mutex
	requested map[string]int
	reads     int
	failNth   int    // fail the n-th read (1-based), 0 = off
	failKey   string // fail reads of this key, "" with failKeySet=false = off
	failKeyOn bool
	triggered bool
	slow      bool // reads take ~300us: a read error then lands while Fetch is still handing keys to the workers
}

func (r *recView) GetValue(ctx context.Context, key []byte) ([]byte, error) {
	r.mu.Lock()
	r.reads++
	r.requested[string(key)]++
	fail := (r.failNth > 0 && r.reads == r.failNth) || (r.failKeyOn && string(key) == r.failKey)
	if fail {
		r.triggered = true
	}
	r.mu.Unlock()
	if r.slow {
		time.Sleep(300 * time.Microsecond)
	}
	if fail {
		return nil, errInjected
	}
	return r.View.GetValue(ctx, key)
}

func (r *recView) GetValues(ctx context.Context, keys [][]byte) ([][]byte, []error) {
	vals := make([][]byte, len(keys))
	errs := make([]error, len(keys))
	for i, k := range keys {
		vals[i], errs[i] = r.GetValue(ctx, k)
	}
	return vals, errs
}

type c24Case struct {
	Block   BlockCase
	FailNth int
	FailKey []byte `json:",omitempty"`
	FailOn  bool
	Slow    bool
}

func c24Run(c c24Case, st *vstat.Stats) error {
	ctx := context.Background()
	bb, err := c.Block.materialise()
	if err != nil {
		return err
	}
	defer bb.db.Close()
	declared := map[string]bool{
		string(fixture.HeightKey()): true, string(fixture.TimestampKey()): true, string(fixture.FeeKey()): true,
	}
	overlap := false
	seen := map[string]int{}
	for _, tx := range c.Block.Txs {
		if ks, ok := refmodel.DeclaredKeys(tx); ok {
			for k := range ks {
				declared[k] = true
				seen[k]++
				if seen[k] > 1 {
					overlap = true
				}
			}
		}
	}
	cfg := c.Block.Configs[len(c.Block.Configs)-1]
	inject := c.FailNth > 0 || c.FailOn
	labels := []string{fmt.Sprintf("fetch=%d", cfg.Fetch)}
	if inject {
		labels = append(labels, "fault-injected")
	}
	if overlap && cfg.Fetch >= 2 {
		labels = append(labels, "overlap+concurrent-fetch")
	}
	if c.Slow {
		labels = append(labels, "slow-reads")
	}
	nt := (overlap && cfg.Fetch >= 2 && len(c.Block.Txs) >= 2) || inject
	raw, _ := json.Marshal(c)
	st.Case(nt, string(raw), labels...)
	st.Sample(nt, map[string]any{"txs": len(c.Block.Txs), "cfg": cfg, "failNth": c.FailNth, "failKey": fmt.Sprintf("%x", c.FailKey), "failOn": c.FailOn})

	rv := &recView{View: bb.db, requested: map[string]int{}, failNth: c.FailNth, failKey: string(c.FailKey), failKeyOn: c.FailOn, slow: c.Slow}
	p, w := fixture.NewProcessor(bb.rules, noReplayWindow(), cfg, fixture.NoEngines{})
	defer w.Stop()
	type res struct {
		out *chain.OutputBlock
		err error
	}
	done := make(chan res, 1)
	go func() {
		out, err := p.Execute(ctx, rv, bb.blk, false)
		done <- res{out, err}
	}()
	var r res
	deadline := time.After(120 * time.Second)
	tick := time.NewTicker(5 * time.Second)
	defer tick.Stop()
wait:
	for {
		select {
		case r = <-done:
			break wait
		case <-tick.C:
			if q, sig := vstat.Quiescent([]string{"hypersdk/internal/fetcher", "hypersdk/internal/executor", "chain.(*Processor)"}, 3, time.Second); q {
				return fmt.Errorf("Execute hangs (all involved goroutines blocked, unchanged over 3s) after read fault triggered=%v:\n%s", rv.triggered, sig)
			}
		case <-deadline:
			st.Label("inconclusive-timeout")
			return nil
		}
	}
	rv.mu.Lock()
	defer rv.mu.Unlock()
	extra := []string{}
	for k := range rv.requested {
		if !declared[k] {
			extra = append(extra, fmt.Sprintf("%x", k))
		}
	}
	sort.Strings(extra)
	if len(extra) > 0 {
		return fmt.Errorf("parent state was asked for undeclared keys %v", extra)
	}
	if rv.triggered {
		st.Label("fault-triggered")
		if r.err == nil {
			return fmt.Errorf("a read of the parent state failed but Execute succeeded (failure treated as absence or ignored)")
		}
		return nil
	}
	return compareWithModel(c.Block, bb, r.out, r.err)
}

// c24GenWide: few txs that each declare many distinct keys, fetch concurrency 1-2, slow reads and
// an early failing read: more keys than the fetcher's task channel (capacity = #txs) can buffer, so
// the error arrives while Fetch is still blocked handing keys to the workers.
func c24GenWide(rt *rapid.T) c24Case {
	b := genBlockCase(rt, genOpts{maxTxs: 0})
	b.Rules.MaxActions = 4
	ntx := rapid.IntRange(1, 2).Draw(rt, "widetxs")
	exp := 1000 * ((b.Time + 999) / 1000)
	for i := 0; i < ntx; i++ {
		perm := rapid.Permutation(universe).Draw(rt, fmt.Sprintf("wkeys%d", i))
		nk := rapid.IntRange(4, 10).Draw(rt, fmt.Sprintf("wnk%d", i))
		tx := fixture.TxSpec{Sponsor: i, AuthStart: -1, AuthEnd: -1, Expiry: exp, MaxFee: ^uint64(0)}
		for a := 0; a*3 < nk && a < 4; a++ {
			act := fixture.ActSpec{Start: -1, End: -1, Nonce: uint64(100*i + a)}
			for _, k := range perm[a*3 : min(nk, a*3+3)] {
				act.Keys = append(act.Keys, fixture.KeyDecl{Key: k, Perm: 7})
				act.Ops = append(act.Ops, fixture.Op{Kind: fixture.OpGet, Key: k})
			}
			tx.Actions = append(tx.Actions, act)
		}
		b.Txs = append(b.Txs, tx)
	}
	big := uint64(1) << 50
	b.Balances = []*uint64{&big, &big, &big, &big}
	b.Configs = []fixture.ExecConfig{{Cores: 1, Fetch: 1}, {Cores: rapid.SampledFrom([]int{1, 4}).Draw(rt, "wcores"), Fetch: rapid.SampledFrom([]int{1, 1, 2}).Draw(rt, "wfetch")}}
	return c24Case{Block: b, Slow: true, FailNth: rapid.IntRange(4, 8).Draw(rt, "wfail")}
}

func c24Gen(rt *rapid.T) c24Case {
	if rapid.IntRange(0, 7).Draw(rt, "wide") == 0 {
		return c24GenWide(rt)
	}
	c := c24Case{Block: genBlockCase(rt, genOpts{maxTxs: 10, allowInvalid: false, allowSponsorK: true, oddPerms: false, yields: true})}
	switch rapid.IntRange(0, 3).Draw(rt, "faultMode") {
	case 1:
		c.FailNth = rapid.IntRange(1, 12).Draw(rt, "failNth")
	case 2:
		pool := append([][]byte{fixture.HeightKey(), fixture.TimestampKey(), fixture.FeeKey(), fixture.BalanceKey(0), fixture.BalanceKey(1)}, universe...)
		c.FailKey = rapid.SampledFrom(pool).Draw(rt, "failKey")
		c.FailOn = true
	}
	return c
}

func TestC24(t *testing.T) {
	st := vstat.New(t, "C24", "block level: C01-style blocks executed over a recording / fault-injecting parent view (fail the n-th read or every read of one key), fetch concurrency 1..16; oracle: requested keys are a subset of declared keys + 3 metadata keys, outputs/results/root equal the sequential model, a triggered read fault makes Execute fail (a hang is reported only on positive quiescence evidence); non-trivial = overlapping declared keys with fetch concurrency >= 2, or an injected fault; distinct by full case")
	rapid.Check(t, func(rt *rapid.T) {
		c := c24Gen(rt)
		vstat.Run(rt, st, c, func() error { return c24Run(c, st) })
	})
}

func TestC24Replay(t *testing.T) {
	vstat.Replay(t, "C24", func(raw []byte) error {
		var probe map[string]json.RawMessage
		if err := json.Unmarshal(raw, &probe); err != nil {
			return err
		}
		if _, ok := probe["Sched"]; ok {
			var c c24fCase
			if err := json.Unmarshal(raw, &c); err != nil {
				return err
			}
			return c24fRun(c, vstat.New(nil, "C24", ""))
		}
		var c c24Case
		if err := json.Unmarshal(raw, &c); err != nil {
			return err
		}
		return c24Run(c, vstat.New(nil, "C24", ""))
	})
}

// ---------------------------------------------------------------------------
// C24 (fetcher level): with a gated store the harness decides which fetch
// completes next. Get(id) must return only after all keys of that tx were
// fetched, with exactly the parent's values -- also for duplicate tx ids.

type c24fTx struct {
	ID   int   // txs with equal ID have equal key lists (as identical txs do)
	Keys []int // indices into the key pool
}

type c24fOp struct {
	Kind int // 0 fetch next tx, 1 release a parked read, 2 start Get of a fetched tx
	Arg  int
}

type c24fCase struct {
	Conc    int
	Present []bool // per pool key: present in parent
	Txs     []c24fTx
	Sched   []c24fOp
}

type gatedStore struct {
	vals    map[string][]byte
	mu      sync.Mutex
	parked  []string                 // keys whose read is waiting for release, arrival order
	gates   map[string]chan struct{} // per parked key
	served  map[string]bool          // released reads
	arrived chan struct{}
}

func (g *gatedStore) GetValue(_ context.Context, key []byte) ([]byte, error) {
	k := string(key)
	ch := make(chan struct{})
	g.mu.Lock()
	g.parked = append(g.parked, k)
	g.gates[k] = ch
	g.mu.Unlock()
	select {
	case g.arrived <- struct{}{}:
	default:
	}
	<-ch
	v, ok := g.vals[k]
	if !ok {
		return nil, database.ErrNotFound
	}
	return v, nil
}

func (g *gatedStore) release(i int) (string, bool) {
	g.mu.Lock()
	defer g.mu.Unlock()
	if len(g.parked) == 0 {
		return "", false
	}
	i %= len(g.parked)
	k := g.parked[i]
	g.parked = append(g.parked[:i], g.parked[i+1:]...)
	g.served[k] = true
	close(g.gates[k])
	delete(g.gates, k)
	return k, true
}

func poolKey(i int) string { return string(fixture.UKey(byte('a'+i), 1)) }

func c24fRun(c c24fCase, st *vstat.Stats) error {
	ctx := context.Background()
	g := &gatedStore{vals: map[string][]byte{}, gates: map[string]chan struct{}{}, served: map[string]bool{}, arrived: make(chan struct{}, 1)}
	for i, p := range c.Present {
		if p {
			g.vals[poolKey(i)] = []byte{byte(i), 0xee}
		}
	}
	f := fetcher.New(g, len(c.Txs), c.Conc)
	idOf := func(i int) ids.ID { return ids.ID{0xf0, byte(c.Txs[i].ID)} }
	keysOf := func(i int) []string {
		ks := []string{}
		for _, k := range c.Txs[i].Keys {
			ks = append(ks, poolKey(k))
		}
		return ks
	}
	dup := false
	multi := false
	seenID := map[int]bool{}
	for _, tx := range c.Txs {
		if seenID[tx.ID] {
			dup = true
			if len(tx.Keys) >= 2 {
				multi = true
			}
		}
		seenID[tx.ID] = true
	}
	labels := []string{fmt.Sprintf("conc=%d", c.Conc)}
	if dup {
		labels = append(labels, "duplicate-tx-id")
	}
	nt := (dup && multi) || (c.Conc >= 2 && len(c.Txs) >= 2)
	raw, _ := json.Marshal(c)
	st.Case(nt, string(raw), labels...)
	st.Sample(nt, c)

	type getRes struct {
		tx      int
		m       map[string][]byte
		err     error
		pending []string // keys of the tx not yet served when Get returned
	}
	results := make(chan getRes, 64)
	var fetchMu sync.Mutex // Fetch calls are made one after the other, as the processor does
	fetchDone := make([]chan struct{}, len(c.Txs))
	nextFetch := 0
	getsStarted := 0
	settle := func() { // give released work a moment; affects only which schedules are explored
		select {
		case <-g.arrived:
		case <-time.After(300 * time.Microsecond):
		}
	}
	check := func(r getRes) error {
		if r.err != nil {
			return fmt.Errorf("Get(tx %d) failed: %v", r.tx, r.err)
		}
		if len(r.pending) > 0 {
			return fmt.Errorf("Get(tx %d) returned while the reads of %x were still in flight (got %d of %d keys)", r.tx, r.pending, len(r.m), len(c.Txs[r.tx].Keys))
		}
		for _, k := range keysOf(r.tx) {
			want, ok := g.vals[k]
			got, gok := r.m[k]
			if ok != gok || !bytes.Equal(want, got) {
				return fmt.Errorf("Get(tx %d): key %x = %x (present=%v), parent has %x (present=%v)", r.tx, k, got, gok, want, ok)
			}
		}
		if len(r.m) > len(c.Txs[r.tx].Keys) {
			return fmt.Errorf("Get(tx %d) returned keys the tx did not declare", r.tx)
		}
		return nil
	}
	drain := func() error {
		for {
			select {
			case r := <-results:
				getsStarted--
				if err := check(r); err != nil {
					return err
				}
			default:
				return nil
			}
		}
	}
	startGet := func(i int) {
		getsStarted++
		go func() {
			<-fetchDone[i] // Get is only called for registered txs (processor: Fetch precedes Run)
			m, err := f.Get(idOf(i))
			g.mu.Lock()
			var pend []string
			for _, k := range keysOf(i) {
				if !g.served[k] {
					pend = append(pend, k)
				}
			}
			g.mu.Unlock()
			results <- getRes{i, m, err, pend}
		}()
	}
	var fail error
	for _, op := range c.Sched {
		switch op.Kind {
		case 0:
			if nextFetch >= len(c.Txs) {
				st.Skip("fetch-none-left")
				continue
			}
			i := nextFetch
			nextFetch++
			fetchDone[i] = make(chan struct{})
			go func() {
				fetchMu.Lock()
				_ = f.Fetch(ctx, idOf(i), keysOf(i))
				fetchMu.Unlock()
				close(fetchDone[i])
			}()
			settle()
		case 1:
			if _, ok := g.release(op.Arg); !ok {
				st.Skip("release-none-parked")
				continue
			}
			settle()
			time.Sleep(200 * time.Microsecond)
		case 2:
			if nextFetch == 0 {
				st.Skip("get-none-fetched")
				continue
			}
			startGet(op.Arg % nextFetch)
		}
		if fail = drain(); fail != nil {
			break
		}
	}
	// finish: fetch the rest, start a Get for every tx, release everything
	for nextFetch < len(c.Txs) {
		i := nextFetch
		nextFetch++
		fetchDone[i] = make(chan struct{})
		go func() {
			fetchMu.Lock()
			_ = f.Fetch(ctx, idOf(i), keysOf(i))
			fetchMu.Unlock()
			close(fetchDone[i])
		}()
	}
	if fail == nil {
		for i := range c.Txs {
			startGet(i)
		}
	}
	deadline := time.Now().Add(60 * time.Second)
	for getsStarted > 0 && time.Now().Before(deadline) {
		if _, ok := g.release(0); ok {
			settle()
			time.Sleep(100 * time.Microsecond)
		}
		select {
		case r := <-results:
			getsStarted--
			if err := check(r); err != nil && fail == nil {
				fail = err
			}
		case <-time.After(200 * time.Microsecond):
		}
	}
	// release anything still parked so the workers can exit
	for {
		if _, ok := g.release(0); !ok {
			break
		}
		time.Sleep(100 * time.Microsecond)
	}
	if getsStarted > 0 && fail == nil {
		st.Label("inconclusive-timeout")
		f.Stop()
		return nil
	}
	werr := make(chan error, 1)
	go func() { werr <- f.Wait() }()
	for {
		select {
		case err := <-werr:
			if err != nil && fail == nil {
				fail = fmt.Errorf("Wait: %v", err)
			}
			return fail
		case <-time.After(time.Millisecond):
			g.release(0)
		}
	}
}

func c24fGen(rt *rapid.T) c24fCase {
	c := c24fCase{Conc: rapid.SampledFrom([]int{1, 2, 3, 16}).Draw(rt, "conc")}
	nk := 5
	for i := 0; i < nk; i++ {
		c.Present = append(c.Present, rapid.Bool().Draw(rt, fmt.Sprintf("present%d", i)))
	}
	ntx := rapid.IntRange(1, 6).Draw(rt, "ntx")
	for i := 0; i < ntx; i++ {
		if i > 0 && rapid.IntRange(0, 3).Draw(rt, fmt.Sprintf("dup%d", i)) == 0 {
			src := c.Txs[rapid.IntRange(0, i-1).Draw(rt, fmt.Sprintf("dupOf%d", i))]
			c.Txs = append(c.Txs, c24fTx{ID: src.ID, Keys: append([]int{}, src.Keys...)})
			continue
		}
		n := rapid.IntRange(1, 4).Draw(rt, fmt.Sprintf("nkeys%d", i))
		perm := rapid.Permutation([]int{0, 1, 2, 3, 4}).Draw(rt, fmt.Sprintf("keys%d", i))
		c.Txs = append(c.Txs, c24fTx{ID: i, Keys: perm[:n]})
	}
	nops := rapid.IntRange(0, 24).Draw(rt, "nops")
	for i := 0; i < nops; i++ {
		c.Sched = append(c.Sched, c24fOp{
			Kind: rapid.SampledFrom([]int{0, 0, 1, 1, 1, 2, 2}).Draw(rt, fmt.Sprintf("kind%d", i)),
			Arg:  rapid.IntRange(0, 7).Draw(rt, fmt.Sprintf("arg%d", i)),
		})
	}
	return c
}

func TestC24Fetcher(t *testing.T) {
	st := vstat.New(t, "C24", "fetcher level: 1..6 txs over 5 keys (overlapping key lists, duplicate tx ids with equal key lists), fetch concurrency 1..16, a gated parent store whose reads complete in the order the generated schedule releases them, interleaved with Fetch and Get calls; oracle: Get(id) returns only after every key of that tx was served and equals the parent's values; non-trivial = duplicate id with >=2 keys, or >=2 txs with concurrency >=2; distinct by full case")
	rapid.Check(t, func(rt *rapid.T) {
		c := c24fGen(rt)
		vstat.Run(rt, st, c, func() error { return c24fRun(c, st) })
	})
}
