package chainexec

import (
	"context"
	"encoding/json"
	"fmt"
	"testing"
	"time"

	"github.com/ava-labs/avalanchego/ids"
	"github.com/ava-labs/avalanchego/snow/engine/snowman/block"
	"pgregory.net/rapid"

	"github.com/ava-labs/hypersdk/chain"
	"github.com/ava-labs/hypersdk/state"
	"github.com/ava-labs/hypersdk/verifharness/fixture"
	"github.com/ava-labs/hypersdk/verifharness/refmodel"
	"github.com/ava-labs/hypersdk/verifharness/vstat"

	internalfees "github.com/ava-labs/hypersdk/internal/fees"
)

// C07: a tx is included only if the fee charged is at most the MaxFee of its
// signed body: otherwise rejected at admission, skipped by the builder, and a
// block containing it is invalid. (Also: Result.Fee = sum price x units.)

const c07Known = "C07-maxfee-unenforced"

type c07Case struct {
	Rules    RulesSpec
	Prices   [5]uint64 // parent fee state prices (>= min after clamping)
	Tx       fixture.TxSpec
	OffS     int64
	Mode     int // MaxFee = 0 | 1 | fee-1 | fee | fee+1 | 2*fee | max
	ModeName string
	PreTouch bool // admission already saw this tx object at other unit prices
}

var c07Modes = []string{"0", "1", "fee-1", "fee", "fee+1", "2fee", "max"}

func c07MaxFee(mode int, fee uint64) uint64 {
	switch mode {
	case 0:
		return 0
	case 1:
		return 1
	case 2:
		if fee == 0 {
			return 0
		}
		return fee - 1
	case 3:
		return fee
	case 4:
		if fee == ^uint64(0) {
			return fee
		}
		return fee + 1
	case 5:
		if fee > ^uint64(0)/2 {
			return ^uint64(0)
		}
		return 2 * fee
	}
	return ^uint64(0)
}

func c07Gen(rt *rapid.T) c07Case {
	c := c07Case{Rules: genRules(rt, false)}
	c.Rules.MinBlockGap, c.Rules.MinEmptyBlockGap, c.Rules.ValidityWindow, c.Rules.MaxActions = 0, 0, 60000, 4
	for d := 0; d < 5; d++ {
		c.Prices[d] = rapid.SampledFrom([]uint64{0, 1, 2, 7, 100, 1000}).Draw(rt, fmt.Sprintf("price%d", d))
	}
	c.Tx = genTx(rt, 0, c.Rules, baseTime, genOpts{})
	c.Tx.Sponsor = 0
	c.OffS = rapid.Int64Range(12, 45).Draw(rt, "offs")
	c.Mode = rapid.IntRange(0, len(c07Modes)-1).Draw(rt, "mode")
	c.ModeName = c07Modes[c.Mode]
	c.PreTouch = rapid.Bool().Draw(rt, "pretouch")
	return c
}

func c07Run(c c07Case, st *vstat.Stats) error {
	ctx := context.Background()
	big := uint64(1) << 60
	now := time.Now().UnixMilli()
	pfee := parentFeeBytes(c.Prices, now-30_000)
	l, err := newLive(c.Rules, nil, []*uint64{&big, &big, &big, &big}, 30_000, pfee)
	if err != nil {
		return err
	}
	defer l.close()
	spec := c.Tx
	spec.Expiry = now/1000*1000 + c.OffS*1000
	// The fee at the block the tx would go into: prices = ComputeNext(parent fee state, ~now).
	// Elapsed time since the parent state is 30 s > window, so prices move down toward
	// the minimum by a time-dependent amount: compute with the same second the builder uses,
	// and treat a case whose verdict depends on the second as inconclusive.
	feeAt := func(s fixture.TxSpec, at int64) (uint64, bool) {
		tx := s.Build()
		units, ok, _ := refmodel.TxUnits(l.rules, s, uint64(tx.Size()))
		if !ok {
			return 0, false
		}
		m := internalfees.NewManager(pfee).ComputeNext(at, l.rules)
		return refmodel.Fee(refmodel.Units(m.UnitPrices()), units)
	}
	// fix MaxFee relative to the fee (encoding size depends on MaxFee being zero or not)
	spec.MaxFee = 1
	fee, ok := feeAt(spec, now)
	if !ok {
		st.Case(false, "", "skipped-fee-overflow")
		return nil
	}
	spec.MaxFee = c07MaxFee(c.Mode, fee)
	fee, ok = feeAt(spec, now)
	if !ok {
		st.Case(false, "", "skipped-fee-overflow")
		return nil
	}
	fee2, _ := feeAt(spec, now+3000)
	if fee2 != fee {
		st.Case(false, "", "skipped-fee-depends-on-second")
		return nil
	}
	over := fee > spec.MaxFee
	known := st.Known(c07Known)
	near := c.Mode >= 2 && c.Mode <= 4
	lbl := "fee<=maxfee"
	if over {
		lbl = "fee>maxfee"
	}
	raw, _ := json.Marshal(c)
	st.Case(near, string(raw), lbl, "mode:"+c.ModeName)
	st.Sample(near, map[string]any{"fee": fee, "maxFee": spec.MaxFee, "mode": c.ModeName, "prices": c.Prices})
	if over && known {
		st.Exclude(c07Known)
	}
	tx := spec.Build()

	// ---- gate 1: admission
	pe := chain.NewPreExecutor(fixture.RuleFactory{R: l.rules}, noReplayWindow(), fixture.Metadata(), fixture.BalanceHandler())
	if c.PreTouch {
		// the same tx object was seen earlier by admission against a state with other unit prices
		// (a mempool re-check after the fee market moved); nothing it computed then may stick
		alt := map[string][]byte{}
		for k, v := range l.parent0 {
			alt[k] = v
		}
		var p2 [5]uint64
		for d := 0; d < 5; d++ {
			p2[d] = 3*c.Prices[d] + 1000
		}
		alt[string(fixture.FeeKey())] = parentFeeBytes(p2, now-1000)
		_ = pe.PreExecute(ctx, l.genesis.ExecutionBlock, state.ImmutableStorage(alt), tx)
	}
	aerr := pe.PreExecute(ctx, l.genesis.ExecutionBlock, state.ImmutableStorage(l.parent0), tx)
	if over && aerr == nil && !known {
		return fmt.Errorf("admission accepted a tx whose fee %d exceeds its MaxFee %d", fee, spec.MaxFee)
	}
	if !over && aerr != nil {
		return fmt.Errorf("admission refused (%v) a valid tx with fee %d <= MaxFee %d", aerr, fee, spec.MaxFee)
	}

	// ---- gate 2: builder
	vw, err := l.window(l.genesis.ExecutionBlock)
	if err != nil {
		return err
	}
	l.mp.Add(ctx, []*chain.Transaction{tx})
	blk, out, berr := l.builder(vw, 2, 1<<20).BuildBlock(ctx, &block.Context{}, l.genesis)
	if !l.waitFinish(60 * time.Second) {
		st.Label("inconclusive-timeout")
		return nil
	}
	if berr != nil {
		return fmt.Errorf("builder failed: %v", berr)
	}
	incl := len(blk.StatelessBlock.Txs) == 1
	if incl {
		r := out.ExecutionResults.Results[0]
		if r.Fee != fee {
			st.Label("fee-differs-from-prediction")
			// the builder ran in a later second than predicted: recompute with its timestamp
			f3, _ := feeAt(spec, blk.Tmstmp)
			if r.Fee != f3 {
				return fmt.Errorf("builder charged %d, price x units at the block's prices is %d", r.Fee, f3)
			}
		}
		if r.Fee > spec.MaxFee && !known {
			return fmt.Errorf("builder included a tx charged %d > MaxFee %d", r.Fee, spec.MaxFee)
		}
	} else if !over {
		return fmt.Errorf("builder skipped a valid tx with fee %d <= MaxFee %d", fee, spec.MaxFee)
	}

	// ---- gate 3: verifier, on a block that contains the tx regardless of the builder
	root, err := l.db.GetMerkleRoot(ctx)
	if err != nil {
		return err
	}
	sb, err := chain.NewStatelessBlock(l.genesis.GetID(), now, 1, []*chain.Transaction{spec.Build()}, root, &block.Context{})
	if err != nil {
		return err
	}
	p, w := fixture.NewProcessor(l.rules, noReplayWindow(), fixture.ExecConfig{Cores: 1, Fetch: 1}, fixture.NoEngines{})
	defer w.Stop()
	vout, verr := p.Execute(ctx, l.db, chain.NewExecutionBlock(sb), false)
	if verr == nil {
		r := vout.ExecutionResults.Results[0]
		if r.Fee != fee {
			return fmt.Errorf("verifier charged %d, price x units = %d", r.Fee, fee)
		}
		if r.Fee > spec.MaxFee && !known {
			return fmt.Errorf("verifier accepted a block charging %d > MaxFee %d", r.Fee, spec.MaxFee)
		}
	} else if !over {
		return fmt.Errorf("verifier rejected (%v) a block whose only tx has fee %d <= MaxFee %d", verr, fee, spec.MaxFee)
	}
	_ = ids.Empty
	return nil
}

func TestC07(t *testing.T) {
	st := vstat.New(t, "C07", "single txs (generated actions/keys) with MaxFee in {0,1,fee-1,fee,fee+1,2fee,max} for the fee they pay at generated unit prices, pushed through admission (PreExecutor), the Builder (real mempool) and the verifier (Processor on a block containing the tx); oracle: included/admitted => fee <= MaxFee, fee <= MaxFee => not refused, Result.Fee = sum price x units; non-trivial = MaxFee within +-1 of the fee; distinct by full case")
	st.Assumption("cases whose fee would differ between the current second and 3 s later are skipped (prices decay with elapsed seconds)")
	rapid.Check(t, func(rt *rapid.T) {
		c := c07Gen(rt)
		vstat.Run(rt, st, c, func() error { return c07Run(c, st) })
	})
}

func TestC07Replay(t *testing.T) {
	vstat.Replay(t, "C07", func(raw []byte) error {
		var c c07Case
		if err := json.Unmarshal(raw, &c); err != nil {
			return err
		}
		return c07Run(c, vstat.New(nil, "C07", ""))
	})
}
