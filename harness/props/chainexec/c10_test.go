package chainexec

import (
	"context"
	"encoding/binary"
	"encoding/json"
	"fmt"
	"testing"
	"time"

	"pgregory.net/rapid"

	"github.com/ava-labs/hypersdk/chain"
	"github.com/ava-labs/hypersdk/state"
	"github.com/ava-labs/hypersdk/verifharness/fixture"
	"github.com/ava-labs/hypersdk/verifharness/refmodel"
	"github.com/ava-labs/hypersdk/verifharness/vstat"

	internalfees "github.com/ava-labs/hypersdk/internal/fees"
)

// C10: a tx is executable at a block timestamp iff expiry is a whole second,
// expiry >= ts, expiry <= ts+window, chain id matches, #actions <= max, every
// action and the auth are activated at ts. Admission applies the same checks
// at the current time.

type c10Case struct {
	Window     int64
	MaxActions uint8
	Time       int64
	Tx         fixture.TxSpec
	Admission  bool // also run through PreExecutor.PreExecute (wall clock): Tx.Expiry etc. are then offsets from now
}

func boundaryInt64(rt *rapid.T, label string, around []int64) int64 {
	base := rapid.SampledFrom(around).Draw(rt, label+"base")
	d := rapid.SampledFrom([]int64{0, 0, 1, -1, 2, -2, 999, -999, 1000, -1000, 1001, -1001}).Draw(rt, label+"d")
	return base + d
}

func c10Gen(rt *rapid.T) c10Case {
	c := c10Case{
		Window:     rapid.SampledFrom([]int64{0, 1, 999, 1000, 1001, 5000, 60000}).Draw(rt, "window"),
		MaxActions: rapid.SampledFrom([]uint8{0, 1, 2, 3, 16}).Draw(rt, "maxactions"),
	}
	c.Time = rapid.SampledFrom([]int64{-5000, -1, 0, 1, 1000, 5000, baseTime, baseTime + 1, baseTime + 999, 1 << 50}).Draw(rt, "time")
	tx := fixture.TxSpec{Sponsor: 0, AuthStart: -1, AuthEnd: -1, MaxFee: 1}
	tx.Expiry = boundaryInt64(rt, "expiry", []int64{c.Time, c.Time + c.Window, c.Time - c.Time%1000, c.Time - c.Time%1000 + 1000, (c.Time + c.Window) / 1000 * 1000})
	tx.WrongChain = rapid.IntRange(0, 7).Draw(rt, "wrongchain") == 0
	lo := int(c.MaxActions) - 1
	if lo < 0 {
		lo = 0
	}
	na := rapid.IntRange(lo, int(c.MaxActions)+1).Draw(rt, "nactions")
	if rapid.IntRange(0, 11).Draw(rt, "hugeCount") == 0 {
		// the limit is a uint8 but the wire format does not cap the number of actions
		na = rapid.SampledFrom([]int{255, 256, 257, 256 + int(c.MaxActions), 257 + int(c.MaxActions), 512, 512 + int(c.MaxActions)}).Draw(rt, "nactionsHuge")
	}
	rng := func(label string) (int64, int64) {
		s := rapid.SampledFrom([]int64{-1, -1, -1, c.Time, c.Time + 1, c.Time - 1, 0, -2}).Draw(rt, label+"start")
		e := rapid.SampledFrom([]int64{-1, -1, -1, c.Time, c.Time + 1, c.Time - 1, 0, -2}).Draw(rt, label+"end")
		return s, e
	}
	for i := 0; i < na; i++ {
		a := fixture.ActSpec{Start: -1, End: -1, Nonce: uint64(i)}
		// huge action lists stay plain: with hundreds of actions a drawn range would almost surely
		// make the tx inactive and hide the count check
		if na < 255 && rapid.IntRange(0, 3).Draw(rt, fmt.Sprintf("a%drange", i)) == 0 {
			a.Start, a.End = rng(fmt.Sprintf("a%d", i))
		}
		tx.Actions = append(tx.Actions, a)
	}
	if rapid.IntRange(0, 3).Draw(rt, "authrange") == 0 {
		tx.AuthStart, tx.AuthEnd = rng("auth")
	}
	c.Tx = tx
	return c
}

func c10Boundary(c c10Case) bool {
	e, t, w := c.Tx.Expiry, c.Time, c.Window
	if e == t || e == t+w || e == t-1 || e == t+w+1 || e%1000 == 1 || e%1000 == 999 || e%1000 == -1 || e%1000 == -999 {
		return true
	}
	if len(c.Tx.Actions) == int(c.MaxActions) || len(c.Tx.Actions) == int(c.MaxActions)+1 || len(c.Tx.Actions) >= 255 {
		return true
	}
	b := func(s, en int64) bool { return s == t || en == t || s == t+1 || en == t-1 }
	for _, a := range c.Tx.Actions {
		if b(a.Start, a.End) {
			return true
		}
	}
	return b(c.Tx.AuthStart, c.Tx.AuthEnd)
}

func c10Run(c c10Case, st *vstat.Stats) error {
	ctx := context.Background()
	rs := RulesSpec{ValidityWindow: c.Window, MaxActions: c.MaxActions}
	for d := 0; d < 5; d++ {
		rs.MaxBlockUnits[d] = 1 << 40
	}
	rules := rs.Rules()
	want, reason := refmodel.PreCheck(rules, c.Tx, c.Time)
	nt := c10Boundary(c)
	lbl := "accept"
	if !want {
		lbl = "reject:" + reason
	}
	raw, _ := json.Marshal(c)
	lbls := []string{lbl}
	if len(c.Tx.Actions) >= 255 {
		lbls = append(lbls, "action-count>=255", "huge:"+lbl)
	}
	st.Case(nt, string(raw), lbls...)
	st.Sample(nt, map[string]any{"expiry": c.Tx.Expiry, "time": c.Time, "window": c.Window, "actions": len(c.Tx.Actions), "max": c.MaxActions, "expect": lbl})

	tx := c.Tx.Build()
	im := state.ImmutableStorage(map[string][]byte{
		string(fixture.BalanceKey(0)): binary.BigEndian.AppendUint64(nil, 1<<50),
	})
	err := tx.PreExecute(ctx, internalfees.NewManager(nil), fixture.BalanceHandler(), rules, im, c.Time)
	if want && err != nil {
		return fmt.Errorf("Transaction.PreExecute rejected (%v) a tx the validity predicate admits", err)
	}
	if !want && err == nil {
		return fmt.Errorf("Transaction.PreExecute accepted a tx that is not executable: %s", reason)
	}
	return nil
}

func TestC10(t *testing.T) {
	st := vstat.New(t, "C10", "(expiry, block timestamp, window) triples biased to the boundaries (expiry = ts, ts+window, +-1, +-999..1001, negative and zero timestamps), wrong chain ids, action counts max-1..max+1, activation ranges with -1 sentinels and start/end = ts, ts+-1; Transaction.PreExecute accepts iff the predicate of the statement holds; non-trivial = some quantity exactly on or next to a boundary; distinct by full case")
	st.Assumption("block timestamp + validity window does not overflow int64 (block timestamps are bounded by wall clock + 1s)")
	rapid.Check(t, func(rt *rapid.T) {
		c := c10Gen(rt)
		vstat.Run(rt, st, c, func() error { return c10Run(c, st) })
	})
}

// ---- admission (PreExecutor.PreExecute reads the wall clock): expiries are
// generated as offsets from "now", including the seconds right at both ends of
// the validity interval; the wall clock is bracketed around the call.

type c10aCase struct {
	WindowS        int64 // seconds
	OffsetS        int64 // expiry = floor(now/1000)*1000 + OffsetS*1000 (+Misalign)
	Misalign       int64
	WrongChain     bool
	NActions       int
	MaxActions     uint8
	AuthEndPast    bool
	ActStartFuture bool
}

func c10aRun(c c10aCase, st *vstat.Stats) error {
	ctx := context.Background()
	rs := RulesSpec{ValidityWindow: c.WindowS * 1000, MaxActions: c.MaxActions}
	for d := 0; d < 5; d++ {
		rs.MaxBlockUnits[d] = 1 << 40
	}
	rules := rs.Rules()
	now := time.Now().UnixMilli()
	tx := fixture.TxSpec{Sponsor: 0, AuthStart: -1, AuthEnd: -1, WrongChain: c.WrongChain,
		Expiry: now/1000*1000 + c.OffsetS*1000 + c.Misalign}
	for i := 0; i < c.NActions; i++ {
		tx.Actions = append(tx.Actions, fixture.ActSpec{Start: -1, End: -1, Nonce: uint64(i)})
	}
	if c.AuthEndPast {
		tx.AuthEnd = now - 3_600_000
	}
	if c.ActStartFuture && c.NActions > 0 {
		tx.Actions[0].Start = now + 3_600_000
	}
	// Bracketing: the admission call reads the wall clock somewhere between
	// `now` (taken above) and `after` (taken when it has returned). Every
	// time-dependent clause of the predicate holds on an interval of time, and
	// the intervals are >= 30 s wide, so if the predicate gives the same verdict
	// at both ends it has that verdict for the whole call; otherwise the case
	// straddles a boundary and is skipped (counted).
	parent := map[string][]byte{
		string(fixture.BalanceKey(0)): binary.BigEndian.AppendUint64(nil, 1<<50),
		string(fixture.FeeKey()):      internalfees.NewManager(nil).Bytes(),
	}
	pe := chain.NewPreExecutor(fixture.RuleFactory{R: rules}, noReplayWindow(), fixture.Metadata(), fixture.BalanceHandler())
	built := tx.Build()
	now = time.Now().UnixMilli()
	err := pe.PreExecute(ctx, nil, state.ImmutableStorage(parent), built)
	after := time.Now().UnixMilli()
	w1, r1 := refmodel.PreCheck(rules, tx, now)
	w2, _ := refmodel.PreCheck(rules, tx, after)
	if w1 != w2 || after < now || after-now > 20_000 {
		st.Skip("admission-straddles-boundary")
		st.Case(false, "", "skipped-boundary")
		return nil
	}
	lbl := "admit"
	if !w1 {
		lbl = "refuse:" + r1
	}
	if c.OffsetS >= 0 && c.OffsetS <= 1 || c.OffsetS >= c.WindowS && c.OffsetS <= c.WindowS+1 {
		lbl += ":within-1s-of-boundary"
	}
	raw, _ := json.Marshal(c)
	st.Case(true, string(raw), lbl)
	st.Sample(true, map[string]any{"case": c, "expect": lbl})
	if w1 && err != nil {
		return fmt.Errorf("admission refused (%v) a tx that is executable now", err)
	}
	if !w1 && err == nil {
		return fmt.Errorf("admission accepted a tx that is not executable now: %s", r1)
	}
	return nil
}

func TestC10Admission(t *testing.T) {
	st := vstat.New(t, "C10", "admission: PreExecutor.PreExecute at the wall clock with expiries well inside / outside the validity interval and in the seconds at both of its ends, misaligned expiries, wrong chain, action counts around the limit, expired auth / not yet activated action; the wall clock is read before and after the call and the verdict must equal the predicate whenever the predicate is the same at both readings (cases that straddle a boundary are skipped and counted)")
	rapid.Check(t, func(rt *rapid.T) {
		c := c10aCase{
			WindowS:        rapid.SampledFrom([]int64{30, 60, 300}).Draw(rt, "window"),
			WrongChain:     rapid.IntRange(0, 7).Draw(rt, "wrongchain") == 0,
			MaxActions:     rapid.SampledFrom([]uint8{1, 2, 16}).Draw(rt, "max"),
			AuthEndPast:    rapid.IntRange(0, 9).Draw(rt, "authEndPast") == 0,
			ActStartFuture: rapid.IntRange(0, 9).Draw(rt, "actStartFuture") == 0,
		}
		c.NActions = rapid.IntRange(int(c.MaxActions)-1, int(c.MaxActions)+1).Draw(rt, "nactions")
		c.OffsetS = rapid.SampledFrom([]int64{-3600, -60, -40, -1, 0, 0, 1, 2, 12, c.WindowS / 2, c.WindowS - 1, c.WindowS, c.WindowS, c.WindowS + 1, c.WindowS + 2, c.WindowS + 45, c.WindowS + 3600}).Draw(rt, "offset")
		if rapid.IntRange(0, 5).Draw(rt, "misalign") == 0 {
			c.Misalign = rapid.Int64Range(1, 999).Draw(rt, "mis")
		}
		vstat.Run(rt, st, c, func() error { return c10aRun(c, st) })
	})
}

func TestC10Replay(t *testing.T) {
	vstat.Replay(t, "C10", func(raw []byte) error {
		var probe map[string]json.RawMessage
		_ = json.Unmarshal(raw, &probe)
		if _, ok := probe["OffsetS"]; ok {
			var c c10aCase
			if err := json.Unmarshal(raw, &c); err != nil {
				return err
			}
			return c10aRun(c, vstat.New(nil, "C10", ""))
		}
		var c c10Case
		if err := json.Unmarshal(raw, &c); err != nil {
			return err
		}
		return c10Run(c, vstat.New(nil, "C10", ""))
	})
}
