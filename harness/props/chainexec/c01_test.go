package chainexec

import (
	"bytes"
	"context"
	"encoding/json"
	"fmt"
	"github.com/ava-labs/hypersdk/genesis"
	"testing"

	"pgregory.net/rapid"

	"github.com/ava-labs/hypersdk/chain"
	"github.com/ava-labs/hypersdk/internal/validitywindow/validitywindowtest"
	"github.com/ava-labs/hypersdk/verifharness/fixture"
	"github.com/ava-labs/hypersdk/verifharness/refmodel"
	"github.com/ava-labs/hypersdk/verifharness/vstat"
)

// C01: executing a block (any cores / fetch / auth workers) = applying its
// transactions one at a time in block order (reference model), and all
// configurations agree with each other bit for bit.

func noReplayWindow() chain.ValidityWindow {
	return &validitywindowtest.MockTimeValidityWindow[*chain.Transaction]{}
}

// compareWithModel checks one real execution outcome against the model.
func compareWithModel(c BlockCase, bb *builtBlock, out *chain.OutputBlock, err error) error {
	ctx := context.Background()
	if !bb.model.Valid {
		if err == nil {
			return fmt.Errorf("model rejects the block (%s at tx %d) but Execute accepted it", bb.model.Reason, bb.model.BadTx)
		}
		return nil
	}
	if err != nil {
		return fmt.Errorf("model accepts the block but Execute failed: %v", err)
	}
	res := out.ExecutionResults
	if len(res.Results) != len(bb.model.Results) {
		return fmt.Errorf("got %d results, model %d", len(res.Results), len(bb.model.Results))
	}
	for i, r := range res.Results {
		m := bb.model.Results[i]
		if r == nil {
			return fmt.Errorf("tx %d: nil result", i)
		}
		if r.Success != m.Success {
			return fmt.Errorf("tx %d: success=%v (error %q), model %v", i, r.Success, r.Error, m.Success)
		}
		if refmodel.Units(r.Units) != m.Units {
			return fmt.Errorf("tx %d: units %v, model %v", i, r.Units, m.Units)
		}
		if r.Fee != m.Fee {
			return fmt.Errorf("tx %d: fee %d, model %d", i, r.Fee, m.Fee)
		}
		if len(r.Outputs) != len(m.Outputs) {
			return fmt.Errorf("tx %d: %d outputs, model %d", i, len(r.Outputs), len(m.Outputs))
		}
		for j := range r.Outputs {
			if !bytes.Equal(r.Outputs[j], m.Outputs[j]) {
				return fmt.Errorf("tx %d action %d: output %x, model %x (the action observed different state)", i, j, r.Outputs[j], m.Outputs[j])
			}
		}
	}
	if refmodel.Units(res.UnitPrices) != bb.prices {
		return fmt.Errorf("unit prices %v, expected %v", res.UnitPrices, bb.prices)
	}
	if refmodel.Units(res.UnitsConsumed) != bb.model.Consumed {
		return fmt.Errorf("units consumed %v, model %v", res.UnitsConsumed, bb.model.Consumed)
	}
	want, werr := bb.expectedRoot(c)
	if werr != nil {
		return werr
	}
	got, gerr := out.View.GetMerkleRoot(ctx)
	if gerr != nil {
		return gerr
	}
	if got != want {
		return fmt.Errorf("post-state root %s differs from the root of the model's post state %s%s", got, want, diffState(ctx, out, bb))
	}
	return nil
}

// diffState lists the keys whose value in the produced view differs from the model.
func diffState(ctx context.Context, out *chain.OutputBlock, bb *builtBlock) string {
	s := ""
	keys := map[string]bool{}
	for k := range bb.model.Post {
		keys[k] = true
	}
	for k := range bb.parent {
		keys[k] = true
	}
	for k := range keys {
		if k == string(fixture.HeightKey()) || k == string(fixture.TimestampKey()) || k == string(fixture.FeeKey()) {
			continue
		}
		v, err := out.View.GetValue(ctx, []byte(k))
		mv, mok := bb.model.Post[k]
		if (err == nil) != mok || (mok && !bytes.Equal(v, mv)) {
			s += fmt.Sprintf("; key %x: view=%x(found=%v) model=%x(found=%v)", k, v, err == nil, mv, mok)
		}
	}
	return s
}

func c01Classify(c BlockCase, bb *builtBlock) (bool, []string) {
	// conflict: two txs share a declared key and at least one may modify it
	type use struct{ any, mod int }
	uses := map[string]*use{}
	hasDel, hasFail := false, false
	for _, tx := range c.Txs {
		perms, ok := refmodel.DeclaredKeys(tx)
		if !ok {
			continue
		}
		for k, p := range perms {
			u := uses[k]
			if u == nil {
				u = &use{}
				uses[k] = u
			}
			u.any++
			if p&(refmodel.PermWrite|refmodel.PermAllocate) != 0 {
				u.mod++
			}
		}
		for _, a := range tx.Actions {
			for _, o := range a.Ops {
				if o.Kind == fixture.OpDel {
					hasDel = true
				}
			}
		}
	}
	conflicts := 0
	for _, u := range uses {
		if u.any >= 2 && u.mod >= 1 {
			conflicts++
		}
	}
	rolled := 0
	for _, r := range bb.model.Results {
		if !r.Success {
			rolled++
			hasFail = true
		}
	}
	labels := []string{}
	if !bb.model.Valid {
		labels = append(labels, "invalid-block", "invalid:"+bb.model.Reason)
	} else {
		labels = append(labels, "valid-block")
	}
	if conflicts > 0 {
		labels = append(labels, "has-conflict")
	}
	if conflicts >= 3 {
		labels = append(labels, "conflicts>=3")
	}
	if rolled > 0 {
		labels = append(labels, "has-rolled-back-tx")
	}
	if len(c.Txs) >= 8 {
		labels = append(labels, "txs>=8")
	}
	nt := bb.model.Valid && len(c.Txs) >= 2 && conflicts > 0 && (hasDel || hasFail)
	return nt, labels
}

// otherRulesAround returns a rule factory that yields `at` for timestamp ts exactly and
// deliberately different rules (prices, unit costs, limits, gaps) before and after it.
func otherRulesAround(spec RulesSpec, at *genesis.Rules, ts int64) fixture.SwitchRules {
	o := spec
	for d := range o.MinPrice {
		o.MinPrice[d] = o.MinPrice[d]*10 + 900
		o.MaxBlockUnits[d] /= 2
	}
	o.BaseCompute += 7
	o.KeyRead, o.KeyAlloc, o.KeyWrite = o.KeyRead+3, o.KeyAlloc+3, o.KeyWrite+3
	o.ValRead, o.ValAlloc, o.ValWrite = o.ValRead+2, o.ValAlloc+2, o.ValWrite+2
	o.MinBlockGap += 5000
	o.MinEmptyBlockGap += 7000
	if o.MaxActions > 1 {
		o.MaxActions--
	}
	other := o.Rules()
	return fixture.SwitchRules{Before: other, After: at, At: ts, Later: other, Until: ts}
}

func c01Run(c BlockCase, st *vstat.Stats) error {
	ctx := context.Background()
	bb, err := c.materialise()
	if err != nil {
		return fmt.Errorf("fixture: %w", err)
	}
	defer bb.db.Close()
	nt, labels := c01Classify(c, bb)
	raw, _ := json.Marshal(c)
	st.Case(nt, string(raw), labels...)
	st.Sample(nt, map[string]any{"txs": len(c.Txs), "configs": c.Configs, "model_valid": bb.model.Valid, "reason": bb.model.Reason, "labels": labels, "first_tx": firstTx(c)})

	var firstBytes []byte
	var firstRoot string
	cfgs := append([]fixture.ExecConfig{}, c.Configs...)
	cfgs = append(cfgs, c.Configs[len(c.Configs)-1]) // most parallel one twice
	for ci, cfg := range cfgs {
		p, w := fixture.NewProcessor(bb.rules, noReplayWindow(), cfg, fixture.NoEngines{})
		if ci > 0 {
			// all runs but the first: the case's rules are in force at the block's own timestamp
			// only; one millisecond earlier and one later, very different rules apply (a block is
			// governed by the rules at its own timestamp, whatever its parent's or the clock's)
			w.Stop()
			p, w = fixture.NewProcessorRF(otherRulesAround(c.Rules, bb.rules, c.Time), noReplayWindow(), cfg, fixture.NoEngines{})
		}
		// every run gets freshly built txs: Transaction caches its state keys
		blk := bb.blk
		if ci > 0 {
			c2, err := c.materialise()
			if err != nil {
				return err
			}
			defer c2.db.Close()
			blk = c2.blk
		}
		out, xerr := p.Execute(ctx, bb.db, blk, false)
		w.Stop()
		if cerr := compareWithModel(c, bb, out, xerr); cerr != nil {
			return fmt.Errorf("config %+v: %w", cfg, cerr)
		}
		if xerr == nil {
			enc := out.ExecutionResults.Marshal()
			root, _ := out.View.GetMerkleRoot(ctx)
			if firstBytes == nil {
				firstBytes, firstRoot = enc, root.String()
			} else if !bytes.Equal(enc, firstBytes) || root.String() != firstRoot {
				return fmt.Errorf("config %+v: results/root differ from config %+v", cfg, cfgs[0])
			}
		}
	}
	return nil
}

func firstTx(c BlockCase) any {
	if len(c.Txs) == 0 {
		return nil
	}
	return c.Txs[0]
}

func TestC01(t *testing.T) {
	st := vstat.New(t, "C01", "blocks of 0..14 ProgAction txs (1-4 actions: get/put/del/fail programs over a 12-key universe with overlapping declared read/allocate/write sets, also balance keys) over generated parent states and rules, executed by the real Processor under 3-4 (cores,fetch,authworkers) configurations and compared with a sequential reference interpreter (verdict, per-tx success/outputs/units/fee, prices, consumed, merkle root of the model's post state); non-trivial = valid block, >=2 txs, a key shared by two txs of which one may modify it, and a delete or rolled-back tx; distinct by full case")
	st.Assumption("unit prices and fee-state bytes are taken from the real fee manager (checked separately by C13)")
	st.Assumption("replay protection switched off here (isNormalOp=false); decided by C09")
	rapid.Check(t, func(rt *rapid.T) {
		c := genBlockCase(rt, genOpts{maxTxs: 14, allowInvalid: true, allowSponsorK: true, oddPerms: true, yields: true})
		vstat.Run(rt, st, c, func() error { return c01Run(c, st) })
	})
}

func TestC01Replay(t *testing.T) {
	vstat.Replay(t, "C01", func(raw []byte) error {
		var c BlockCase
		if err := json.Unmarshal(raw, &c); err != nil {
			return err
		}
		return c01Run(c, vstat.New(nil, "C01", ""))
	})
}
