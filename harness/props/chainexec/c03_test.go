package chainexec

import (
	"bytes"
	"context"
	"encoding/binary"
	"encoding/json"
	"fmt"
	"testing"

	"pgregory.net/rapid"

	"github.com/ava-labs/hypersdk/state"
	"github.com/ava-labs/hypersdk/state/tstate"
	"github.com/ava-labs/hypersdk/verifharness/fixture"
	"github.com/ava-labs/hypersdk/verifharness/refmodel"
	"github.com/ava-labs/hypersdk/verifharness/vstat"
)

// C03: the sponsor is charged exactly price x units before any action runs;
// all actions succeed => all effects applied; any action fails => only the
// fee charge remains, result records failure and the outputs of the actions
// that completed.

type c03Case struct {
	Block BlockCase // exactly one tx
	// sponsor balance = fee + Delta when Exact is set (fee computed by the model)
	Exact bool
	Delta uint64
}

func (c c03Case) resolved() (BlockCase, uint64, bool) {
	b := c.Block
	r := b.Rules.Rules()
	tx := b.Txs[0]
	size := uint64(tx.Build().Size())
	units, ok, _ := refmodel.TxUnits(r, tx, size)
	if !ok {
		return b, 0, false
	}
	bb, err := b.materialise()
	if err != nil {
		return b, 0, false
	}
	bb.db.Close()
	fee, ok := refmodel.Fee(bb.prices, units)
	if !ok {
		return b, 0, false
	}
	if c.Exact && fee <= ^uint64(0)-c.Delta {
		v := fee + c.Delta
		b.Balances = append([]*uint64{}, b.Balances...)
		b.Balances[tx.Sponsor] = &v
	}
	return b, fee, true
}

func c03Run(c c03Case, st *vstat.Stats) error {
	ctx := context.Background()
	b, fee, feeOK := c.resolved()
	bb, err := b.materialise()
	if err != nil {
		return err
	}
	defer bb.db.Close()
	tx := bb.txs[0]
	spec := b.Txs[0]
	bh := fixture.BalanceHandler()
	model := bb.model

	// classification
	failedAfterWrite := false
	if model.Valid && !model.Results[0].Success {
		// did an earlier op of this tx effectively change state before the failure?
		perms, _ := refmodel.DeclaredKeys(spec)
		probe := spec
		probe.Actions = nil
		for _, a := range spec.Actions {
			pa := a
			pa.Ops = nil
			for _, o := range a.Ops {
				if o.Kind == fixture.OpFail {
					break
				}
				pa.Ops = append(pa.Ops, o)
			}
			probe.Actions = append(probe.Actions, pa)
		}
		pre := bb.parent
		post, _, _ := refmodel.RunActions(probe, perms, pre)
		_ = post
		for _, a := range spec.Actions {
			for _, o := range a.Ops {
				if o.Kind == fixture.OpPut || o.Kind == fixture.OpDel {
					failedAfterWrite = true
				}
			}
		}
	}
	labels := []string{}
	switch {
	case !model.Valid:
		labels = append(labels, "rejected:"+model.Reason)
	case model.Results[0].Success:
		labels = append(labels, "tx-success")
	default:
		labels = append(labels, "tx-failed")
		if failedAfterWrite {
			labels = append(labels, "failed-with-writes-in-tx")
		}
	}
	if c.Exact {
		labels = append(labels, fmt.Sprintf("balance=fee+%d", c.Delta))
	}
	nt := model.Valid && !model.Results[0].Success && failedAfterWrite
	raw, _ := json.Marshal(c)
	if len(c.Block.Txs) == 1 && c.Block.Txs[0].Actor != nil {
		labels = append(labels, "sponsored-tx(actor!=sponsor)")
	}
	st.Case(nt, string(raw), labels...)
	st.Sample(nt, map[string]any{"tx": spec, "fee": fee, "labels": labels})

	// ---- path 1: Transaction.PreExecute + Execute on a real TStateView
	stateKeys, kerr := tx.StateKeys(bh)
	if kerr == nil {
		storage := map[string][]byte{}
		for k := range stateKeys {
			if v, ok := bb.parent[k]; ok {
				storage[k] = v
			}
		}
		ts := tstate.New(4)
		tsv := ts.NewView(stateKeys, state.ImmutableStorage(storage), len(stateKeys))
		perr := tx.PreExecute(ctx, bb.feeMgr, bh, bb.rules, tsv, b.Time)
		unitsFit := true
		if model.Valid == false && (model.Reason == "block-units-exceeded-dim0" || model.Reason == "block-units-exceeded-dim1" || model.Reason == "block-units-exceeded-dim2" || model.Reason == "block-units-exceeded-dim3" || model.Reason == "block-units-exceeded-dim4") {
			unitsFit = false // block-level limit: not a tx-level rejection
		}
		if unitsFit {
			if !model.Valid && model.Reason != "no-balance-entry" {
				if perr == nil {
					return fmt.Errorf("direct: model rejects tx (%s) but PreExecute accepted", model.Reason)
				}
			} else if model.Valid && perr != nil {
				return fmt.Errorf("direct: PreExecute failed on a tx the model accepts: %v", perr)
			}
			if model.Valid && perr == nil {
				res, xerr := tx.Execute(ctx, bb.feeMgr, bh, bb.rules, tsv, b.Time)
				if xerr != nil {
					return fmt.Errorf("direct: Execute error: %v", xerr)
				}
				tsv.Commit()
				post := map[string][]byte{}
				for k, v := range bb.parent {
					post[k] = v
				}
				for k, v := range ts.ChangedKeys() {
					if v.IsNothing() {
						delete(post, k)
					} else {
						post[k] = v.Value()
					}
				}
				m := model.Results[0]
				if res.Success != m.Success || res.Fee != m.Fee || refmodel.Units(res.Units) != m.Units {
					return fmt.Errorf("direct: result success=%v fee=%d units=%v; model success=%v fee=%d units=%v", res.Success, res.Fee, res.Units, m.Success, m.Fee, m.Units)
				}
				if !feeOK || res.Fee != fee {
					return fmt.Errorf("direct: charged %d, price x units = %d", res.Fee, fee)
				}
				if len(res.Outputs) != len(m.Outputs) {
					return fmt.Errorf("direct: %d outputs, model %d", len(res.Outputs), len(m.Outputs))
				}
				for j := range res.Outputs {
					if !bytes.Equal(res.Outputs[j], m.Outputs[j]) {
						return fmt.Errorf("direct: action %d output %x, model %x", j, res.Outputs[j], m.Outputs[j])
					}
				}
				if refmodel.Canon(post) != refmodel.Canon(model.Post) {
					return fmt.Errorf("direct: post state differs from model:%s", refmodel.Diff(post, model.Post))
				}
				// model-independent statement of the property for the failure case
				if !res.Success {
					want := map[string][]byte{}
					for k, v := range bb.parent {
						want[k] = v
					}
					bk := string(fixture.BalanceKey(spec.Sponsor))
					bal := binary.BigEndian.Uint64(bb.parent[bk])
					want[bk] = binary.BigEndian.AppendUint64(nil, bal-fee)
					if refmodel.Canon(post) != refmodel.Canon(want) {
						return fmt.Errorf("direct: failed tx left effects beyond the fee charge:%s", refmodel.Diff(post, want))
					}
					if len(res.Error) == 0 {
						return fmt.Errorf("direct: failed tx without error text")
					}
				}
			}
		}
	} else if model.Valid {
		return fmt.Errorf("StateKeys failed on a tx the model accepts: %v", kerr)
	}

	// ---- path 2: the same tx as a one-tx block through the Processor
	p, w := fixture.NewProcessor(bb.rules, noReplayWindow(), fixture.ExecConfig{Cores: 2, Fetch: 2}, fixture.NoEngines{})
	defer w.Stop()
	bb2, err := b.materialise()
	if err != nil {
		return err
	}
	defer bb2.db.Close()
	out, xerr := p.Execute(ctx, bb2.db, bb2.blk, false)
	if cerr := compareWithModel(b, bb2, out, xerr); cerr != nil {
		return fmt.Errorf("block path: %w", cerr)
	}
	return nil
}

func c03Gen(rt *rapid.T) c03Case {
	b := genBlockCase(rt, genOpts{maxTxs: 0, allowInvalid: false, allowSponsorK: true, oddPerms: true})
	// richer single tx: up to MaxActions actions
	b.Rules.MaxActions = rapid.SampledFrom([]uint8{1, 3, 8, 16}).Draw(rt, "maxactions2")
	sp := rapid.IntRange(0, nSponsors-1).Draw(rt, "sponsor")
	lo := (b.Time + 999) / 1000
	tx := fixture.TxSpec{Sponsor: sp, AuthStart: -1, AuthEnd: -1, Expiry: 1000 * lo, MaxFee: ^uint64(0),
		AuthCompute: rapid.SampledFrom([]uint64{0, 1, 5}).Draw(rt, "authcompute")}
	if rapid.IntRange(0, 2).Draw(rt, "sponsored") == 0 {
		// sponsored tx: the fee is the sponsor's, the actions run for the actor
		if ac := rapid.IntRange(0, nSponsors+1).Draw(rt, "actor"); ac != sp {
			tx.Actor = &ac
		}
	}
	na := rapid.IntRange(1, int(b.Rules.MaxActions)).Draw(rt, "nactions")
	failing := -1
	if rapid.IntRange(0, 2).Draw(rt, "hasFail") != 0 {
		failing = rapid.IntRange(0, na-1).Draw(rt, "failing")
	}
	for j := 0; j < na; j++ {
		tx.Actions = append(tx.Actions, genAction(rt, j, genOpts{allowSponsorK: true, oddPerms: true}, sp, j == failing))
	}
	b.Txs = []fixture.TxSpec{tx}
	c := c03Case{Block: b}
	if rapid.IntRange(0, 3).Draw(rt, "exactBalance") != 0 {
		c.Exact = true
		c.Delta = rapid.SampledFrom([]uint64{0, 0, 1, 1 << 30}).Draw(rt, "delta")
	}
	return c
}

func TestC03(t *testing.T) {
	st := vstat.New(t, "C03", "single txs with 1..MaxActionsPerTx ProgActions (get/put/del incl. the sponsor's balance key, fail at any op), sponsor balance = fee+{0,1,2^30} or large, generated unit prices; executed directly (PreExecute+Execute on a TStateView) and as a one-tx block; oracle = sequential model + model-free check that a failed tx leaves exactly parent state minus fee; non-trivial = failing tx that contains writes/deletes; distinct by full case")
	rapid.Check(t, func(rt *rapid.T) {
		c := c03Gen(rt)
		vstat.Run(rt, st, c, func() error { return c03Run(c, st) })
	})
}

func TestC03Replay(t *testing.T) {
	vstat.Replay(t, "C03", func(raw []byte) error {
		var c c03Case
		if err := json.Unmarshal(raw, &c); err != nil {
			return err
		}
		return c03Run(c, vstat.New(nil, "C03", ""))
	})
}
