package chainexec

import (
	"encoding/json"
	"fmt"
	"math/big"
	"testing"

	"pgregory.net/rapid"

	"github.com/ava-labs/hypersdk/fees"
	"github.com/ava-labs/hypersdk/verifharness/fixture"
	"github.com/ava-labs/hypersdk/verifharness/refmodel"
	"github.com/ava-labs/hypersdk/verifharness/vstat"

	internalfees "github.com/ava-labs/hypersdk/internal/fees"
)

// C12: Transaction.Units = (size, base+sum compute, per distinct declared key
// read/allocate/write costs scaled by the key's declared chunks), overflow
// rejected; Manager.Consume is all-or-nothing against the per-dimension
// limit. (Block-level: consumed <= max, consumed = sum of tx units and
// over-limit blocks rejected are checked on every C01/C02 block.)

type c12Case struct {
	Rules RulesSpec
	Tx    fixture.TxSpec
	// consumption part
	Consumed [5]uint64
	Limit    [5]uint64
	Add      [5]uint64
}

var u64Edges = []uint64{0, 1, 2, 5, 100, 1 << 16, 1 << 32, 1<<32 + 1, 1 << 62, 1 << 63, 1<<63 + 1, ^uint64(0) - 1, ^uint64(0)}

func c12Gen(rt *rapid.T) c12Case {
	c := c12Case{}
	cost := func(l string) uint64 {
		if rapid.IntRange(0, 5).Draw(rt, l+"big") == 0 {
			return rapid.SampledFrom(u64Edges).Draw(rt, l)
		}
		return rapid.SampledFrom([]uint64{0, 1, 2, 5, 20}).Draw(rt, l)
	}
	c.Rules = RulesSpec{ValidityWindow: 60000, MaxActions: 16, BaseCompute: cost("base"),
		KeyRead: cost("kr"), ValRead: cost("vr"), KeyAlloc: cost("ka"), ValAlloc: cost("va"), KeyWrite: cost("kw"), ValWrite: cost("vw")}
	tx := fixture.TxSpec{Sponsor: rapid.IntRange(0, 3).Draw(rt, "sponsor"), AuthStart: -1, AuthEnd: -1, Expiry: baseTime, AuthCompute: cost("authc"),
		AuthPad: rapid.SampledFrom([]int{0, 0, 0, 35, 36, 37, 300}).Draw(rt, "authpad")}
	// key pool with arbitrary suffixes, duplicates across actions and with the sponsor key
	var pool [][]byte
	for _, n := range []byte("abc") {
		for _, ch := range []uint16{0, 1, 2, 1000, 65535} {
			pool = append(pool, fixture.UKey(n, ch))
		}
	}
	pool = append(pool, fixture.BalanceKey(tx.Sponsor), fixture.BalanceKey((tx.Sponsor+1)%4))
	if rapid.IntRange(0, 15).Draw(rt, "shortKey") == 0 {
		pool = append(pool, []byte{0x20}, []byte{})
	}
	na := rapid.IntRange(0, 16).Draw(rt, "nactions")
	for i := 0; i < na; i++ {
		a := fixture.ActSpec{Start: -1, End: -1, Nonce: uint64(i), Compute: cost(fmt.Sprintf("c%d", i))}
		nk := rapid.IntRange(0, 5).Draw(rt, fmt.Sprintf("nk%d", i))
		for j := 0; j < nk; j++ {
			a.Keys = append(a.Keys, fixture.KeyDecl{
				Key:  rapid.SampledFrom(pool).Draw(rt, fmt.Sprintf("k%d.%d", i, j)),
				Perm: rapid.SampledFrom([]uint8{1, 3, 5, 7}).Draw(rt, fmt.Sprintf("p%d.%d", i, j)),
			})
		}
		tx.Actions = append(tx.Actions, a)
	}
	c.Tx = tx
	for d := 0; d < 5; d++ {
		c.Limit[d] = rapid.SampledFrom(u64Edges).Draw(rt, fmt.Sprintf("limit%d", d))
		switch rapid.IntRange(0, 3).Draw(rt, fmt.Sprintf("cm%d", d)) {
		case 0:
			c.Consumed[d] = 0
		case 1:
			c.Consumed[d] = c.Limit[d] // at the limit
		default:
			c.Consumed[d] = rapid.Uint64Range(0, c.Limit[d]).Draw(rt, fmt.Sprintf("consumed%d", d))
		}
		switch rapid.IntRange(0, 4).Draw(rt, fmt.Sprintf("am%d", d)) {
		case 0:
			c.Add[d] = c.Limit[d] - c.Consumed[d] // exactly fits
		case 1:
			c.Add[d] = c.Limit[d] - c.Consumed[d] + 1 // one too many (may wrap to 0 at max)
		case 2:
			c.Add[d] = rapid.SampledFrom(u64Edges).Draw(rt, fmt.Sprintf("add%d", d))
		default:
			c.Add[d] = 0
		}
	}
	return c
}

func c12Run(c c12Case, st *vstat.Stats) error {
	rules := c.Rules.Rules()
	tx := c.Tx.Build()
	want, ok, why := refmodel.TxUnits(rules, c.Tx, uint64(tx.Size()))
	got, err := tx.Units(fixture.BalanceHandler(), rules)

	dup := false
	seen := map[string]int{}
	for _, a := range c.Tx.Actions {
		for _, k := range a.Keys {
			seen[string(k.Key)]++
		}
	}
	seen[string(fixture.BalanceKey(c.Tx.Sponsor))]++
	for _, n := range seen {
		if n > 1 {
			dup = true
		}
	}
	near := false
	if ok {
		for d := 1; d < 5; d++ {
			if want[d] >= 1<<63 {
				near = true
			}
		}
	}
	// consumption model
	fits := true
	firstBad := -1
	for d := 0; d < 5; d++ {
		s := new(big.Int).Add(new(big.Int).SetUint64(c.Consumed[d]), new(big.Int).SetUint64(c.Add[d]))
		if s.Cmp(new(big.Int).SetUint64(c.Limit[d])) > 0 {
			fits = false
			if firstBad < 0 {
				firstBad = d
			}
		}
	}
	labels := []string{}
	if ok {
		labels = append(labels, "units-ok")
	} else {
		labels = append(labels, "units-rejected:"+why)
	}
	if dup {
		labels = append(labels, "duplicate-key")
	}
	if fits {
		labels = append(labels, "consume-fits")
	} else {
		labels = append(labels, fmt.Sprintf("consume-refused-dim%d", firstBad))
	}
	nt := dup || near || !ok || (!fits && firstBad > 0)
	raw, _ := json.Marshal(c)
	st.Case(nt, string(raw), labels...)
	st.Sample(nt, map[string]any{"rules": c.Rules, "actions": len(c.Tx.Actions), "units": want, "ok": ok, "consumed": c.Consumed, "add": c.Add, "limit": c.Limit, "fits": fits})

	if ok {
		if err != nil {
			return fmt.Errorf("Units failed (%v) although every dimension fits 64 bits: expected %v", err, want)
		}
		if refmodel.Units(got) != want {
			return fmt.Errorf("Units = %v, exact formula = %v", got, want)
		}
	} else if err == nil {
		return fmt.Errorf("Units = %v although the exact value is rejected: %s", got, why)
	}

	m := internalfees.NewManager(nil)
	for d := 0; d < 5; d++ {
		m.SetLastConsumed(fees.Dimension(d), c.Consumed[d])
	}
	okc, dim := m.Consume(fees.Dimensions(c.Add), fees.Dimensions(c.Limit))
	after := m.UnitsConsumed()
	if okc != fits {
		return fmt.Errorf("Consume(%v onto %v, limit %v) = %v, model says fits=%v", c.Add, c.Consumed, c.Limit, okc, fits)
	}
	if fits {
		for d := 0; d < 5; d++ {
			if after[d] != c.Consumed[d]+c.Add[d] {
				return fmt.Errorf("after Consume dimension %d = %d, want %d", d, after[d], c.Consumed[d]+c.Add[d])
			}
		}
	} else {
		if refmodel.Units(after) != refmodel.Units(c.Consumed) {
			return fmt.Errorf("a refused Consume changed the consumption: %v -> %v", c.Consumed, after)
		}
		if int(dim) != firstBad {
			return fmt.Errorf("Consume blamed dimension %d, first overflowing dimension is %d", dim, firstBad)
		}
	}
	return nil
}

func TestC12(t *testing.T) {
	st := vstat.New(t, "C12", "txs with 0..16 actions declaring keys with suffixes {0,1,2,1000,65535} (duplicates across actions and with the sponsor key, occasionally keys shorter than 2 bytes), rule unit costs from {0..20} and 64-bit edge values, compared with the exact (math/big) unit formula incl. overflow rejection; plus Manager.Consume on generated (consumed, add, limit) triples at / one over the limit, all-or-nothing; non-trivial = duplicate key, or a dimension >= 2^63, or overflow rejection, or a refusal in a dimension other than the first; distinct by full case")
	st.Assumption("the dimension Consume blames on refusal is the first one (in dimension order) that does not fit")
	rapid.Check(t, func(rt *rapid.T) {
		c := c12Gen(rt)
		vstat.Run(rt, st, c, func() error { return c12Run(c, st) })
	})
}

func TestC12Replay(t *testing.T) {
	vstat.Replay(t, "C12", func(raw []byte) error {
		var c c12Case
		if err := json.Unmarshal(raw, &c); err != nil {
			return err
		}
		return c12Run(c, vstat.New(nil, "C12", ""))
	})
}
