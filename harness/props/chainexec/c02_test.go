package chainexec

import (
	"context"
	"encoding/json"
	"errors"
	"fmt"
	"github.com/ava-labs/avalanchego/utils/logging"
	"testing"
	"time"

	"github.com/ava-labs/avalanchego/ids"
	"github.com/ava-labs/avalanchego/snow/engine/snowman/block"
	"pgregory.net/rapid"

	"github.com/ava-labs/hypersdk/chain"
	"github.com/ava-labs/hypersdk/state"
	"github.com/ava-labs/hypersdk/verifharness/fixture"
	"github.com/ava-labs/hypersdk/verifharness/refmodel"
	"github.com/ava-labs/hypersdk/verifharness/vstat"
)

// C02: a block built on a parent is accepted by verification on that parent
// and verification reproduces the builder's root, results, prices and
// consumption -- whatever the mempool contents.

type c02Tx struct {
	Spec     fixture.TxSpec // Expiry is ignored; see ExpiryOffS
	OffS     int64          // expiry = floor(now/1000)*1000 + OffS*1000 + Misalign
	Misalign int64
	RepeatOf int // >=0: identical copy of that earlier tx (counted over all builds)
	Kind     string
}

type c02Case struct {
	Rules     RulesSpec
	Parent    []KV
	Balances  []*uint64
	Builds    [][]c02Tx // arrivals before each build
	Cores     int
	TargetSz  int
	Accept    int // the builder's window has accepted this many built blocks (prefix)
	VerifyCfg fixture.ExecConfig
	// Bulk: this many extra simple txs (generated from their index) arrive before the first
	// build: more than one stream batch (256) and the builder's asynchronous PrepareStream
	Bulk int `json:",omitempty"`
	// Admit: every tx object first goes through mempool admission (PreExecutor) against a state
	// with other unit prices, as txs admitted before the fee market moved do
	Admit bool `json:",omitempty"`
	// SlowLog: the builder's Debug logging takes ~300us (see slowLogger)
	SlowLog bool `json:",omitempty"`
	// Upgrade: builder and verifier get a rule factory with a scheduled rule change between the
	// parent's timestamp and now (1: the price floor was 10x+900 higher before, 2: base compute
	// was 7 higher, 3: storage key costs were 3 higher, 4: the block limit was half); every block
	// built now is governed by the rules in force at its own timestamp
	Upgrade int `json:",omitempty"`
	// BudgetUS > 0: the build time budget in microseconds (with a slow builder log the budget
	// runs out between two stream batches or in the middle of one)
	BudgetUS int `json:",omitempty"`
}

// bulkTx is the i-th extra tx: one action touching one or two universe keys.
func bulkTx(i int, expiry int64) fixture.TxSpec {
	k1 := universe[i%10]
	k2 := universe[(i/10)%10]
	ops := []fixture.Op{{Kind: fixture.OpGet, Key: k1}, {Kind: fixture.OpPut, Key: k1, Val: []byte{byte(i), byte(i >> 8)}}}
	keys := []fixture.KeyDecl{{Key: k1, Perm: 7}}
	if i%3 == 0 {
		keys = append(keys, fixture.KeyDecl{Key: k2, Perm: 1})
		ops = append(ops, fixture.Op{Kind: fixture.OpGet, Key: k2})
	}
	if i%17 == 0 {
		ops = append(ops, fixture.Op{Kind: fixture.OpFail})
	}
	return fixture.TxSpec{Sponsor: i % 3, AuthStart: -1, AuthEnd: -1, Expiry: expiry, MaxFee: uint64(1000 + i),
		Actions: []fixture.ActSpec{{Start: -1, End: -1, Nonce: uint64(1<<30 + i), Compute: 1, Keys: keys, Ops: ops}}}
}

func c02Gen(rt *rapid.T) c02Case {
	c := c02Case{Rules: genRules(rt, false)}
	c.Rules.MinBlockGap = rapid.SampledFrom([]int64{0, 1}).Draw(rt, "gap2")
	c.Rules.MinEmptyBlockGap = rapid.SampledFrom([]int64{0, 1}).Draw(rt, "emptygap2")
	c.Rules.ValidityWindow = rapid.SampledFrom([]int64{60000, 120000}).Draw(rt, "window2")
	c.Rules.MaxActions = 4
	// sometimes a tight per-dimension block maximum / a low window target
	if rapid.IntRange(0, 2).Draw(rt, "tight") == 0 {
		d := rapid.IntRange(0, 4).Draw(rt, "tightDim")
		vals := [][]uint64{{300, 600, 1200}, {5, 20, 60}, {20, 60, 200}, {20, 60, 200}, {20, 60, 200}}
		c.Rules.MaxBlockUnits[d] = rapid.SampledFrom(vals[d]).Draw(rt, "tightVal")
		if rapid.Bool().Draw(rt, "lowTarget") {
			t := [5]uint64{20_000_000, 1000, 1000, 1000, 1000}
			t[d] = c.Rules.MaxBlockUnits[d] / 2
			c.Rules.WindowTarget = &t
		}
	}
	for i, k := range universe {
		if rapid.IntRange(0, 2).Draw(rt, fmt.Sprintf("has%d", i)) != 0 {
			c.Parent = append(c.Parent, KV{K: k, V: genValue(rt, fmt.Sprintf("pv%d", i), chunksOf(k))})
		}
	}
	big := uint64(1) << 50
	low := rapid.SampledFrom([]uint64{0, 1, 500}).Draw(rt, "lowbal")
	c.Balances = []*uint64{&big, &big, &big, &low}
	c.Cores = rapid.SampledFrom([]int{1, 2, 4, 8}).Draw(rt, "cores")
	c.TargetSz = rapid.SampledFrom([]int{1 << 20, 1 << 20, 400, 900}).Draw(rt, "targetsz")
	c.VerifyCfg = fixture.ExecConfig{Cores: rapid.SampledFrom([]int{1, 4}).Draw(rt, "vcores"), Fetch: rapid.SampledFrom([]int{1, 4}).Draw(rt, "vfetch")}
	nb := rapid.IntRange(1, 3).Draw(rt, "nbuilds")
	c.Accept = rapid.IntRange(0, nb-1).Draw(rt, "accept")
	if rapid.IntRange(0, 9).Draw(rt, "fullrace") == 0 {
		// "block fills up while fitting and non-fitting txs execute concurrently": compute limit M with
		// window target M/2, one tx that takes the block above the target, then several pairs of a tx
		// that no longer fits and a small one that does, all from different sponsors on disjoint keys
		m := rapid.SampledFrom([]uint64{60, 100, 200}).Draw(rt, "frM")
		c.Rules.BaseCompute = 1
		c.Rules.MaxBlockUnits = [5]uint64{1 << 40, m, 1 << 40, 1 << 40, 1 << 40}
		t := [5]uint64{20_000_000, m / 2, 1000000, 1000000, 1000000}
		c.Rules.WindowTarget = &t
		c.Cores = rapid.SampledFrom([]int{2, 4, 8}).Draw(rt, "frCores")
		c.TargetSz = 1 << 20
		c.SlowLog = true
		mk := func(i int, compute uint64) c02Tx {
			k := universe[i%len(universe)]
			return c02Tx{RepeatOf: -1, Kind: "fullrace", OffS: 30, Spec: fixture.TxSpec{Sponsor: i % 3, AuthStart: -1, AuthEnd: -1, MaxFee: uint64(5000 + i),
				Actions: []fixture.ActSpec{{Start: -1, End: -1, Nonce: uint64(7_000_000 + i), Compute: compute,
					Keys: []fixture.KeyDecl{{Key: k, Perm: 7}}, Ops: []fixture.Op{{Kind: fixture.OpGet, Key: k}, {Kind: fixture.OpYield, Val: []byte{20}}}}}}}
		}
		arr := []c02Tx{mk(0, m*6/10)}
		np := rapid.IntRange(1, 4).Draw(rt, "frPairs")
		for p := 0; p < np; p++ {
			arr = append(arr, mk(1+2*p, m/2), mk(2+2*p, rapid.SampledFrom([]uint64{0, 1, 3}).Draw(rt, fmt.Sprintf("frSmall%d", p))))
		}
		c.Builds = [][]c02Tx{arr}
		c.Accept = 0
		return c
	}
	if rapid.IntRange(0, 24).Draw(rt, "bulk") == 0 {
		c.Bulk = rapid.SampledFrom([]int{130, 257, 300, 520, 700}).Draw(rt, "bulkN")
		if rapid.Bool().Draw(rt, "bulkTight") {
			// a compute limit that fills up in the middle of the second batch
			c.Rules.MaxBlockUnits[1] = uint64(c.Bulk) * 2 / 3 * (1 + c.Rules.BaseCompute)
		}
	}
	c.Admit = rapid.Bool().Draw(rt, "admit")
	c.SlowLog = rapid.IntRange(0, 2).Draw(rt, "slowlog") == 0
	if rapid.IntRange(0, 5).Draw(rt, "budgetmode") == 0 {
		c.BudgetUS = rapid.SampledFrom([]int{1, 50, 300, 1000, 3000}).Draw(rt, "budget")
		if c.Bulk == 0 && rapid.Bool().Draw(rt, "budgetBulk") {
			// the budget is looked at between stream batches: more than one batch
			c.Bulk = rapid.SampledFrom([]int{300, 520}).Draw(rt, "budgetBulkN")
		}
	}
	if rapid.IntRange(0, 3).Draw(rt, "upgrademode") == 0 {
		c.Upgrade = rapid.IntRange(1, 4).Draw(rt, "upgrade")
	}
	// sometimes a long minimum gap for empty blocks and one build whose mempool holds only
	// txs that cannot be included: the builder may then return no block, but never an empty
	// block inside the gap (the verifier refuses it)
	allBad := -1
	if rapid.IntRange(0, 5).Draw(rt, "emptygapmode") == 0 {
		c.Rules.MinEmptyBlockGap = 3_600_000
		allBad = rapid.IntRange(0, nb-1).Draw(rt, "allbad")
	}
	total := 0
	for b := 0; b < nb; b++ {
		n := rapid.IntRange(0, 10).Draw(rt, fmt.Sprintf("n%d", b))
		if b == allBad && n == 0 {
			n = 1
		}
		var arr []c02Tx
		for i := 0; i < n; i++ {
			lbl := fmt.Sprintf("b%dt%d.", b, i)
			t := c02Tx{RepeatOf: -1, Kind: "valid"}
			kind := rapid.IntRange(0, 19).Draw(rt, lbl+"kind")
			if b == allBad {
				kind = 3 + kind%5
			}
			if kind <= 2 && total > 0 {
				t.RepeatOf = rapid.IntRange(0, total-1).Draw(rt, lbl+"repeatOf")
				t.Kind = "repeat"
				arr = append(arr, t)
				total++
				continue
			}
			t.Spec = genTx(rt, b*100+i, c.Rules, baseTime, genOpts{})
			t.Spec.Sponsor = rapid.IntRange(0, 2).Draw(rt, lbl+"sp")
			t.OffS = rapid.Int64Range(12, c.Rules.ValidityWindow/1000-12).Draw(rt, lbl+"offs")
			switch kind {
			case 3:
				t.Spec.Sponsor, t.Kind = 3, "underfunded"
			case 4:
				t.OffS, t.Kind = -30, "expired"
			case 5:
				t.OffS, t.Kind = c.Rules.ValidityWindow/1000+30, "future"
			case 6:
				t.Misalign, t.Kind = rapid.Int64Range(1, 999).Draw(rt, lbl+"mis"), "misaligned"
			case 7:
				t.Spec.WrongChain, t.Kind = true, "wrongchain"
			case 8:
				// large: declares many big-chunk keys / much compute
				t.Kind = "large"
				t.Spec.Actions[0].Compute = rapid.SampledFrom([]uint64{10, 50, 100}).Draw(rt, lbl+"bigc")
				for j := 0; j < 3; j++ {
					t.Spec.Actions[0].Keys = append(t.Spec.Actions[0].Keys, fixture.KeyDecl{Key: fixture.UKey(byte('p'+j), 8), Perm: 7})
				}
			}
			arr = append(arr, t)
			total++
		}
		c.Builds = append(c.Builds, arr)
	}
	return c
}

func c02Run(c c02Case, st *vstat.Stats) error {
	ctx := context.Background()
	l, err := newLive(c.Rules, c.Parent, c.Balances, 30_000, nil)
	if err != nil {
		return err
	}
	defer l.close()
	if c.Upgrade > 0 {
		before := c.Rules
		switch c.Upgrade {
		case 1:
			for d := range before.MinPrice {
				before.MinPrice[d] = before.MinPrice[d]*10 + 900
			}
		case 2:
			before.BaseCompute += 7
		case 3:
			before.KeyRead, before.KeyAlloc, before.KeyWrite = before.KeyRead+3, before.KeyAlloc+3, before.KeyWrite+3
		default:
			for d := range before.MaxBlockUnits {
				before.MaxBlockUnits[d] /= 2
			}
		}
		l.rf = fixture.SwitchRules{Before: before.Rules(), After: l.rules, At: l.genesis.Tmstmp + 15_000}
	}
	nowBase := time.Now().UnixMilli() / 1000 * 1000

	var all []*chain.Transaction // every tx ever added, by global index
	var allSpec []fixture.TxSpec
	resolve := func(t c02Tx) (*chain.Transaction, fixture.TxSpec) {
		if t.RepeatOf >= 0 && t.RepeatOf < len(all) {
			return all[t.RepeatOf], allSpec[t.RepeatOf]
		}
		s := t.Spec
		s.Expiry = nowBase + t.OffS*1000 + t.Misalign
		return s.Build(), s
	}

	vwBuilder, err := l.window(l.genesis.ExecutionBlock)
	if err != nil {
		return err
	}
	parentOut := l.genesis
	lastAccepted := l.genesis.ExecutionBlock
	included := map[ids.ID]int{} // tx id -> height
	labels := map[string]bool{}
	nt := false
	builtBlocks := 0

	for bi, arrivals := range c.Builds {
		var txs []*chain.Transaction
		added := map[ids.ID]fixture.TxSpec{}
		for _, t := range arrivals {
			tx, spec := resolve(t)
			all = append(all, tx)
			allSpec = append(allSpec, spec)
			txs = append(txs, tx)
			added[tx.GetID()] = spec
			labels["kind:"+t.Kind] = true
		}
		if bi > 0 && c.Bulk > 0 && len(included) > 0 {
			// a later build over a big backlog again, with txs already included in ancestors
			// arriving (again) behind more than one stream batch of fresh txs
			labels["bulk-with-late-repeats"] = true
			for i := 0; i < 300; i++ {
				spec := bulkTx(bi*100_000+i, nowBase+30_000)
				tx := spec.Build()
				all = append(all, tx)
				allSpec = append(allSpec, spec)
				txs = append(txs, tx)
			}
			n := 0
			for i, tx := range all {
				if _, ok := included[tx.GetID()]; ok && n < 4 {
					txs = append(txs, all[i])
					n++
				}
			}
		}
		if bi == 0 && c.Bulk > 0 {
			labels["bulk-mempool"] = true
			for i := 0; i < c.Bulk; i++ {
				spec := bulkTx(i, nowBase+30_000)
				tx := spec.Build()
				all = append(all, tx)
				allSpec = append(allSpec, spec)
				txs = append(txs, tx)
			}
		}
		if c.Admit {
			alt := map[string][]byte{}
			for k, v := range l.parent0 {
				alt[k] = v
			}
			alt[string(fixture.FeeKey())] = parentFeeBytes([5]uint64{977, 31, 7, 1300, 2}, time.Now().UnixMilli()-1000)
			pe := chain.NewPreExecutor(fixture.RuleFactory{R: l.rules}, noReplayWindow(), fixture.Metadata(), fixture.BalanceHandler())
			for _, tx := range txs {
				_ = pe.PreExecute(ctx, l.genesis.ExecutionBlock, state.ImmutableStorage(alt), tx)
			}
			labels["admitted-at-other-prices"] = true
		}
		l.mp.Add(ctx, txs)
		inPool := map[ids.ID]fixture.TxSpec{}
		for i, tx := range all {
			if l.mp.Has(ctx, tx.GetID()) {
				inPool[tx.GetID()] = allSpec[i]
			}
		}
		b := l.builder(vwBuilder, c.Cores, c.TargetSz)
		if c.SlowLog {
			b = l.builderWith(vwBuilder, c.Cores, c.TargetSz, slowLogger{})
			labels["slow-builder-log"] = true
		}
		if c.BudgetUS > 0 {
			var lg logging.Logger = logging.NoLog{}
			if c.SlowLog {
				lg = slowLogger{}
			}
			b = l.builderFor(vwBuilder, c.Cores, c.TargetSz, lg, time.Duration(c.BudgetUS)*time.Microsecond)
			labels["short-build-budget"] = true
		}
		if c.Upgrade > 0 {
			labels[fmt.Sprintf("rule-change-between-parent-and-block:%d", c.Upgrade)] = true
		}
		blk, out, berr := b.BuildBlock(ctx, &block.Context{}, parentOut)
		finished := l.waitFinish(60 * time.Second)
		if !finished {
			st.Label("inconclusive-finish-streaming-timeout")
			return nil
		}
		if berr != nil {
			if errors.Is(berr, chain.ErrNoTxs) || errors.Is(berr, chain.ErrTimestampTooEarly) {
				labels["build:"+"no-block"] = true
				if len(txs) > 0 && l.rules.MinEmptyBlockGap > 1 {
					labels["no-block-inside-empty-gap-with-nonempty-mempool"] = true
				}
			} else {
				labels["build:error"] = true
			}
			break
		}
		builtBlocks++
		l.index.put(blk)
		res := out.ExecutionResults
		// ---- builder-side invariants
		seen := map[ids.ID]bool{}
		var sum refmodel.Units
		for i, tx := range blk.StatelessBlock.Txs {
			id := tx.GetID()
			if seen[id] {
				return fmt.Errorf("build %d: tx %s twice in the built block", bi, id)
			}
			seen[id] = true
			if _, ok := inPool[id]; !ok {
				return fmt.Errorf("build %d: included tx %s was not in the mempool", bi, id)
			}
			if h, dup := included[id]; dup {
				return fmt.Errorf("build %d: tx %s already included at height %d of this chain", bi, id, h)
			}
			for d := 0; d < 5; d++ {
				sum[d] += res.Results[i].Units[d]
			}
		}
		for _, tx := range blk.StatelessBlock.Txs {
			included[tx.GetID()] = int(blk.Hght)
		}
		if refmodel.Units(res.UnitsConsumed) != sum {
			return fmt.Errorf("build %d: units consumed %v != sum of tx units %v", bi, res.UnitsConsumed, sum)
		}
		for d := 0; d < 5; d++ {
			if res.UnitsConsumed[d] > c.Rules.MaxBlockUnits[d] {
				return fmt.Errorf("build %d: consumed %d > max %d in dimension %d", bi, res.UnitsConsumed[d], c.Rules.MaxBlockUnits[d], d)
			}
		}
		// ---- round trip through the real verifier with a fresh replay window
		for _, via := range []bool{false, true} {
			vwV, err := l.window(lastAccepted)
			if err != nil {
				return err
			}
			if err := l.verifyBuilt(ctx, vwV, parentOut, blk, out, c.VerifyCfg, via); err != nil {
				return fmt.Errorf("build %d (height %d, %d txs): %w", bi, blk.Hght, len(blk.StatelessBlock.Txs), err)
			}
		}
		// ---- mempool after the build: OBSERVED and labelled only. What the builder gives back to
		// the mempool is not part of C02's statement (an earlier version of this check demanded
		// that every valid, funded, non-repeated tx is included or given back, and raised an alarm:
		// chain/builder.go appends to `restorable` from the build loop without restorableLock while
		// tasks append under it, so under load a skipped tx can be lost -- a real race, but outside
		// the listed properties; see DESIGN.md 8.3).
		skippedLater := false
		sponsorsIncluded := map[int]bool{}
		for id := range seen {
			sponsorsIncluded[inPool[id].Sponsor] = true
		}
		for id, spec := range inPool {
			has := l.mp.Has(ctx, id)
			if seen[id] {
				if has {
					labels["observed:included-tx-still-in-mempool"] = true
				}
				continue
			}
			if has {
				skippedLater = true
				continue
			}
			ok, _ := refmodel.PreCheck(l.rules, spec, blk.Tmstmp)
			_, wasIncluded := included[id]
			if ok && !wasIncluded && spec.Sponsor != 3 && !sponsorsIncluded[spec.Sponsor] {
				labels["observed:valid-tx-lost-by-builder"] = true
			}
		}
		if skippedLater && len(blk.StatelessBlock.Txs) > 0 {
			nt = true
			labels["restored-some"] = true
		}
		if len(blk.StatelessBlock.Txs) > 0 {
			labels["nonempty-block"] = true
		}
		if bi < c.Accept {
			vwBuilder.Accept(blk)
			lastAccepted = blk
		}
		parentOut = out
		time.Sleep(3 * time.Millisecond)
	}
	if builtBlocks >= 2 {
		labels["chain>=2"] = true
		nt = nt || labels["kind:repeat"]
	}
	ls := []string{}
	for k := range labels {
		ls = append(ls, k)
	}
	raw, _ := json.Marshal(c)
	st.Case(nt, string(raw), ls...)
	st.Sample(nt, map[string]any{"builds": len(c.Builds), "built": builtBlocks, "cores": c.Cores, "targetSz": c.TargetSz, "maxBlockUnits": c.Rules.MaxBlockUnits, "included": len(included)})
	return nil
}

func TestC02(t *testing.T) {
	st := vstat.New(t, "C02", "a real mempool filled (in generated arrival order) with valid, underfunded, expired, too-far-future, misaligned, wrong-chain, repeated, conflicting, failing and large txs; chains of 1..3 blocks built by the real Builder (cores 1..8, size cap 400 B..1 MiB, tight per-dimension block maxima and low window targets) with a prefix accepted; every built block is re-verified (directly and re-parsed from bytes) by a fresh Processor with a fresh replay window on the same parent and must reproduce root, results, prices and consumption; plus builder invariants (no tx twice, consumed = sum <= max, included txs come from the mempool); non-trivial = a non-empty block with txs given back, or a >=2 block chain with a repeated tx; distinct by full case")
	st.Assumption("expiries keep >=12 s clearance from the validity interval's ends relative to the wall clock read by the builder")
	rapid.Check(t, func(rt *rapid.T) {
		c := c02Gen(rt)
		vstat.Run(rt, st, c, func() error { return c02Run(c, st) })
	})
}

func TestC02Replay(t *testing.T) {
	vstat.Replay(t, "C02", func(raw []byte) error {
		var c c02Case
		if err := json.Unmarshal(raw, &c); err != nil {
			return err
		}
		return c02Run(c, vstat.New(nil, "C02", ""))
	})
}
