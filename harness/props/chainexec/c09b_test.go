package chainexec

import (
	"context"
	"encoding/json"
	"errors"
	"fmt"
	"testing"
	"time"

	"github.com/ava-labs/avalanchego/snow/engine/snowman/block"
	"pgregory.net/rapid"

	"github.com/ava-labs/hypersdk/chain"
	"github.com/ava-labs/hypersdk/verifharness/fixture"
	"github.com/ava-labs/hypersdk/verifharness/vstat"
)

// C09 (layer b): the same rule observed at Processor.Execute(normalOp=true)
// over chains of really executed blocks with the real replay window.

type c09bCase struct {
	Blocks [][]int // per block: picks, -1 fresh, k>=0 reuse identity k (mod)
	Accept []bool  // accept the block (if valid) before building the next one
	Cores  int
}

func c09bRun(c c09bCase, st *vstat.Stats) error {
	ctx := context.Background()
	rs := RulesSpec{ValidityWindow: 60000, MaxActions: 2, MinPrice: [5]uint64{1, 1, 1, 1, 1}}
	for d := 0; d < 5; d++ {
		rs.MaxBlockUnits[d] = 1 << 40
	}
	big := uint64(1) << 60
	l, err := newLive(rs, nil, []*uint64{&big, &big, &big, &big}, 30_000, nil)
	if err != nil {
		return err
	}
	defer l.close()
	vw, err := l.window(l.genesis.ExecutionBlock)
	if err != nil {
		return err
	}
	p, w := fixture.NewProcessor(l.rules, vw, fixture.ExecConfig{Cores: c.Cores, Fetch: 2}, fixture.NoEngines{})
	defer w.Stop()
	g := l.genesis.ExecutionBlock
	expiry := (g.Tmstmp/1000 + 25) * 1000
	var pool []*chain.Transaction
	onChain := map[int]bool{}
	acceptedSet := map[int]bool{}
	parentOut := l.genesis
	labels := map[string]bool{}
	height := uint64(0)
	for bi, picks := range c.Blocks {
		var txs []*chain.Transaction
		var idents []int
		for _, pk := range picks {
			if pk >= 0 && len(pool) > 0 {
				idents = append(idents, pk%len(pool))
			} else {
				spec := fixture.TxSpec{Sponsor: len(pool) % 4, AuthStart: -1, AuthEnd: -1, Expiry: expiry, MaxFee: uint64(len(pool) + 1),
					Actions: []fixture.ActSpec{{Start: -1, End: -1, Nonce: uint64(len(pool))}}}
				pool = append(pool, spec.Build())
				idents = append(idents, len(pool)-1)
			}
			// rebuild the tx object so cached state keys are not shared between blocks
			txs = append(txs, pool[idents[len(idents)-1]])
		}
		want, kind := false, ""
		seen := map[int]bool{}
		for _, k := range idents {
			if seen[k] {
				want, kind = true, "dup-internal"
			}
			seen[k] = true
			if onChain[k] {
				want = true
				if acceptedSet[k] {
					kind = "dup-accepted-ancestor"
				} else if kind == "" {
					kind = "dup-processing-ancestor"
				}
			}
		}
		root, err := parentOut.View.GetMerkleRoot(ctx)
		if err != nil {
			return err
		}
		ts := g.Tmstmp + int64(bi+1)*1000
		sb, err := chain.NewStatelessBlock(parentOut.GetID(), ts, height+1, txs, root, &block.Context{})
		if err != nil {
			return err
		}
		blk := chain.NewExecutionBlock(sb)
		out, xerr := p.Execute(ctx, parentOut.View, blk, true)
		if want {
			labels[kind] = true
			if xerr == nil {
				return fmt.Errorf("block %d (%s) repeats a tx of its chain but Execute(normalOp) accepted it", bi, kind)
			}
			if !errors.Is(xerr, chain.ErrDuplicateTx) {
				return fmt.Errorf("block %d (%s) rejected, but not as a duplicate: %v", bi, kind, xerr)
			}
			continue
		}
		if xerr != nil {
			return fmt.Errorf("block %d without repeats rejected: %v", bi, xerr)
		}
		l.index.put(blk)
		for _, k := range idents {
			onChain[k] = true
		}
		if bi < len(c.Accept) && c.Accept[bi] && len(acceptedSet) == countAccepted(onChain, acceptedSet, idents) {
			vw.Accept(blk)
			for k := range onChain {
				acceptedSet[k] = true
			}
			labels["accepted-some"] = true
		}
		parentOut = out
		height++
		_ = time.Now
	}
	nt := labels["dup-accepted-ancestor"] || labels["dup-processing-ancestor"]
	ls := []string{}
	for k := range labels {
		ls = append(ls, k)
	}
	raw, _ := json.Marshal(c)
	st.Case(nt, string(raw), ls...)
	st.Sample(nt, c)
	return nil
}

// countAccepted keeps acceptance contiguous: a block is accepted only if all
// earlier on-chain txs were accepted too (accept in height order).
func countAccepted(onChain, accepted map[int]bool, cur []int) int {
	n := 0
	curSet := map[int]bool{}
	for _, k := range cur {
		curSet[k] = true
	}
	for k := range onChain {
		if !curSet[k] {
			if !accepted[k] {
				return -1
			}
			n++
		}
	}
	return n
}

func TestC09Chain(t *testing.T) {
	st := vstat.New(t, "C09", "chains of 1..5 really executed blocks (fresh txs and txs reused from ancestors, valid expiries) through Processor.Execute(normalOp=true) with the real TimeValidityWindow over a harness chain index, a prefix accepted; Execute must fail with ErrDuplicateTx iff the block repeats a tx internally or of an ancestor; non-trivial = repeat of an accepted or processing ancestor's tx")
	rapid.Check(t, func(rt *rapid.T) {
		c := c09bCase{Cores: rapid.SampledFrom([]int{1, 4}).Draw(rt, "cores")}
		nb := rapid.IntRange(1, 5).Draw(rt, "nblocks")
		for b := 0; b < nb; b++ {
			np := rapid.IntRange(0, 4).Draw(rt, fmt.Sprintf("np%d", b))
			var picks []int
			for j := 0; j < np; j++ {
				pk := -1
				if rapid.IntRange(0, 3).Draw(rt, fmt.Sprintf("reuse%d.%d", b, j)) == 0 {
					pk = rapid.IntRange(0, 10).Draw(rt, fmt.Sprintf("pick%d.%d", b, j))
				}
				picks = append(picks, pk)
			}
			c.Blocks = append(c.Blocks, picks)
			c.Accept = append(c.Accept, rapid.Bool().Draw(rt, fmt.Sprintf("acc%d", b)))
		}
		vstat.Run(rt, st, c, func() error { return c09bRun(c, st) })
	})
}
