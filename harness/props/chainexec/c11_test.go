package chainexec

import (
	"context"
	"encoding/json"
	"fmt"
	"testing"
	"time"

	"github.com/ava-labs/avalanchego/ids"
	"github.com/ava-labs/avalanchego/snow/engine/snowman/block"
	"pgregory.net/rapid"

	"github.com/ava-labs/hypersdk/chain"
	"github.com/ava-labs/hypersdk/verifharness/fixture"
	"github.com/ava-labs/hypersdk/verifharness/vstat"
)

// C11 (processor level): a block verifies only if height = parent+1,
// timestamp >= parent timestamp + min gap (empty gap when it has no txs),
// timestamp <= local time + future bound, and its state root equals the
// parent's post-state root.

type c11Case struct {
	Block    BlockCase // parent + rules + txs (all valid on their own)
	DHeight  int64     // child height = parent height + DHeight
	NowRel   bool      // parent timestamp = now - 20 s (needed for the future-bound cases)
	DTime    int64     // child timestamp = parent timestamp + DTime ...
	FromNow  bool      // ... or = now + FutureBound + DTime
	RootMode int       // 0 correct, 1 stale (root of the parent without one key), 2 random
	WithTxs  bool
	AbsTime  *int64 `json:",omitempty"` // child timestamp given absolutely (negative / extreme values)
}

func c11Gen(rt *rapid.T) c11Case {
	b := genBlockCase(rt, genOpts{maxTxs: 0})
	c := c11Case{Block: b}
	c.DHeight = rapid.SampledFrom([]int64{1, 1, 1, 1, 1, 0, -1, 2}).Draw(rt, "dheight")
	if b.PHeight == 0 && c.DHeight == -1 {
		c.DHeight = 2
	}
	c.WithTxs = rapid.Bool().Draw(rt, "withTxs")
	c.RootMode = rapid.SampledFrom([]int{0, 0, 0, 0, 1, 2}).Draw(rt, "rootMode")
	g, eg := b.Rules.MinBlockGap, b.Rules.MinEmptyBlockGap
	switch rapid.IntRange(0, 6).Draw(rt, "timeMode") {
	case 6:
		v := rapid.SampledFrom([]int64{-1, -2, -1000, -baseTime, -1 << 62, -1<<63 + 1, -1 << 63}).Draw(rt, "abstime")
		c.AbsTime = &v
	case 0:
		c.NowRel, c.FromNow = true, true
		c.DTime = rapid.SampledFrom([]int64{-5000, -1000, -400, 400, 1000, 60000}).Draw(rt, "dfuture")
	default:
		base := rapid.SampledFrom([]int64{g, eg, 0, max64(g, eg)}).Draw(rt, "tbase")
		c.DTime = base + rapid.SampledFrom([]int64{0, 0, 1, -1, -2, 2, 1000, -1000, 5000}).Draw(rt, "dd")
		c.NowRel = rapid.Bool().Draw(rt, "nowrel")
	}
	return c
}

func max64(a, b int64) int64 {
	if a > b {
		return a
	}
	return b
}

func c11Run(c c11Case, st *vstat.Stats) error {
	ctx := context.Background()
	b := c.Block
	now := time.Now().UnixMilli()
	if c.NowRel {
		b.PTime = now - 20_000
	}
	if c.FromNow {
		b.Time = now + chain.FutureBound.Milliseconds() + c.DTime
	} else {
		b.Time = b.PTime + c.DTime
	}
	if c.AbsTime != nil {
		b.Time = *c.AbsTime
	}
	b.Height = uint64(int64(b.PHeight) + c.DHeight)
	b.Txs = nil
	if c.WithTxs {
		exp := b.Time / 1000 * 1000
		if exp < b.Time {
			exp += 1000
		}
		b.Txs = []fixture.TxSpec{{Sponsor: 0, AuthStart: -1, AuthEnd: -1, Expiry: exp, MaxFee: ^uint64(0),
			Actions: []fixture.ActSpec{{Start: -1, End: -1, Nonce: 1}}}}
		big := uint64(1) << 50
		b.Balances = append([]*uint64{}, b.Balances...)
		b.Balances[0] = &big
		if b.Rules.MaxActions == 0 {
			b.Rules.MaxActions = 1
		}
	}
	bb, err := b.materialise()
	if err != nil {
		return err
	}
	defer bb.db.Close()
	root := bb.blk.StateRoot
	switch c.RootMode {
	case 1:
		stale := map[string][]byte{}
		for k, v := range bb.parent {
			stale[k] = v
		}
		stale["\x20zz\x00\x01"] = []byte{1}
		r, err := fixture.RootOf(stale)
		if err != nil {
			return err
		}
		root = r
	case 2:
		root = ids.ID{0xba, 0xd0}
	}
	sb, err := chain.NewStatelessBlock(ids.ID{1}, b.Time, b.Height, bb.txs, root, &block.Context{})
	if err != nil {
		return err
	}
	blk := chain.NewExecutionBlock(sb)

	gap := b.Rules.MinBlockGap
	why := ""
	switch {
	case b.Height != b.PHeight+1:
		why = "height"
	case b.Time < 0:
		why = "too-early" // negative timestamps are below any parent timestamp
	case b.Time < b.PTime+gap:
		why = "too-early"
	case len(b.Txs) == 0 && b.Time < b.PTime+b.Rules.MinEmptyBlockGap:
		why = "too-early-empty"
	case c.FromNow && c.DTime > 0:
		why = "too-late"
	case c.RootMode != 0:
		why = "root"
	}
	// timestamps in (now+bound-300ms, now+bound+300ms) are never generated; a slow
	// machine can only move "now" forward, which keeps DTime<=-400 cases valid.
	want := why == ""
	if want && !bb.model.Valid {
		return fmt.Errorf("fixture: generated txs are not valid on their own: %s", bb.model.Reason)
	}
	nearGap := c.DTime-gap >= -2 && c.DTime-gap <= 2 || c.DTime-b.Rules.MinEmptyBlockGap >= -2 && c.DTime-b.Rules.MinEmptyBlockGap <= 2
	nt := !c.FromNow && nearGap
	lbl := "accept"
	if !want {
		lbl = "reject:" + why
	}
	labels := []string{lbl}
	if b.PHeight == 0 {
		labels = append(labels, "parent-height-0")
	}
	if b.Time < 0 {
		labels = append(labels, "negative-timestamp")
	}
	if c.WithTxs {
		labels = append(labels, "with-txs")
	} else {
		labels = append(labels, "empty")
	}
	raw, _ := json.Marshal(c)
	st.Case(nt, string(raw), labels...)
	st.Sample(nt, map[string]any{"dheight": c.DHeight, "dtime": c.DTime, "fromNow": c.FromNow, "gap": gap, "emptyGap": b.Rules.MinEmptyBlockGap, "withTxs": c.WithTxs, "rootMode": c.RootMode, "expect": lbl})

	p, w := fixture.NewProcessor(bb.rules, noReplayWindow(), fixture.ExecConfig{Cores: 2, Fetch: 2}, fixture.NoEngines{})
	defer w.Stop()
	// A node uses one Processor for every block it verifies, forks included. Before the child under
	// test, the same Processor executes (in 2 of 3 cases) an unrelated empty block at the PARENT's
	// height whose timestamp is 3 s below the parent's (a sibling of the parent on another branch):
	// the verdict on the child must depend on its own parent only.
	if b.PHeight >= 1 && b.PHeight < 1<<32 && b.PTime > 10_000 && (c.DTime+int64(b.PHeight))%3 != 0 {
		d := c.Block
		d.Rules = b.Rules
		d.PHeight, d.PTime = b.PHeight-1, b.PTime-3000-b.Rules.MinEmptyBlockGap-b.Rules.MinBlockGap
		d.Height, d.Time = b.PHeight, b.PTime-3000
		d.Txs = nil
		if dd, derr := d.materialise(); derr == nil {
			_, _ = p.Execute(ctx, dd.db, dd.blk, false)
			dd.db.Close()
			st.Label("sibling-of-parent-executed-first")
		}
	}
	out, xerr := p.Execute(ctx, bb.db, blk, false)
	if want && xerr != nil {
		return fmt.Errorf("valid child rejected: %v", xerr)
	}
	if !want && xerr == nil && why == "too-late" && b.Time <= time.Now().UnixMilli()+chain.FutureBound.Milliseconds() {
		// the machine stalled long enough for the block to stop being in the future
		st.Label("inconclusive-clock-moved")
		return nil
	}
	if !want && xerr == nil {
		return fmt.Errorf("child accepted although it must be rejected (%s): height %d on parent %d, ts %d on parent ts %d (gap %d, empty gap %d, txs %d)", why, b.Height, b.PHeight, b.Time, b.PTime, gap, b.Rules.MinEmptyBlockGap, len(b.Txs))
	}
	if want {
		if b.Time < b.PTime {
			return fmt.Errorf("accepted child is older than its parent")
		}
		_ = out
	}
	return nil
}

func TestC11(t *testing.T) {
	st := vstat.New(t, "C11", "children of generated parents (height 0/1/7/2^33, any gaps from {0,1,100,750,2500}) with height parent-1..parent+2, timestamp within +-2 ms of parent+gap / parent+emptyGap, below the parent, around now+FutureBound (>=400 ms clearance), with/without txs, correct/stale/random state root; Processor.Execute accepts iff the four conditions of the statement hold; non-trivial = timestamp within +-2 ms of a gap boundary; distinct by full case")
	st.Assumption("parent timestamp in state equals the parent header timestamp (true for every block except genesis; the genesis child is covered by the vm-level sub-check)")
	rapid.Check(t, func(rt *rapid.T) {
		c := c11Gen(rt)
		vstat.Run(rt, st, c, func() error { return c11Run(c, st) })
	})
}

func TestC11Replay(t *testing.T) {
	vstat.Replay(t, "C11", func(raw []byte) error {
		var c c11Case
		if err := json.Unmarshal(raw, &c); err != nil {
			return err
		}
		return c11Run(c, vstat.New(nil, "C11", ""))
	})
}
