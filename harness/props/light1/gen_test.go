package light1

import (
	"math"

	"pgregory.net/rapid"
)

// genU64 is a 64-bit generator biased toward the boundaries the fee arithmetic
// cares about: 0,1,2, small values, 2^k±j, 2^64-1-j, and uniform values.
func genU64() *rapid.Generator[uint64] {
	return rapid.Custom(func(rt *rapid.T) uint64 {
		switch rapid.IntRange(0, 5).Draw(rt, "u64class") {
		case 0:
			return rapid.Uint64Range(0, 3).Draw(rt, "tiny")
		case 1:
			return rapid.Uint64Range(0, 1000).Draw(rt, "small")
		case 2, 3:
			k := rapid.IntRange(0, 63).Draw(rt, "pow")
			j := rapid.IntRange(-2, 2).Draw(rt, "off")
			v := uint64(1) << uint(k)
			if j < 0 {
				return v - uint64(-j) // k=0,1: wraps to 2^64-1.. which is a boundary too
			}
			return v + uint64(j)
		case 4:
			return math.MaxUint64 - rapid.Uint64Range(0, 3).Draw(rt, "fromMax")
		default:
			return rapid.Uint64().Draw(rt, "uniform")
		}
	})
}

// genU64Mid favours magnitudes 2^8..2^48, where products of two values straddle 2^64.
func genU64Mid() *rapid.Generator[uint64] {
	return rapid.Custom(func(rt *rapid.T) uint64 {
		k := rapid.IntRange(8, 48).Draw(rt, "midpow")
		lo := uint64(1) << uint(k)
		return lo + rapid.Uint64Range(0, lo-1).Draw(rt, "midoff")
	})
}
