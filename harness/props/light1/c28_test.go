package light1

import (
	"bytes"
	"crypto/sha256"
	"encoding/json"
	"fmt"
	"strings"
	"testing"
	"unicode/utf8"

	"pgregory.net/rapid"

	"github.com/ava-labs/hypersdk/codec"
	"github.com/ava-labs/hypersdk/verifharness/vstat"
)

// C28: every address formats to a checksummed string that parses back to the
// same address; a string parses only if it is the checksummed hex encoding of
// exactly one 33-byte address.
//
// The oracle decodes strings on its own (optional 0x, case-insensitive hex,
// checksum = last 4 bytes of SHA-256 of the payload) and never calls the codec
// helpers it is checking.

const (
	c28AddrLen = 33
	c28SumLen  = 4
)

type c28Case struct {
	Mode    string // addr | payload | raw
	Payload []byte // addr: 33 bytes; payload: any length, encoded with a valid (or damaged) checksum
	Prefix  bool   // write the 0x prefix
	Upper   bool   // upper-case hex digits
	Damage  int    // payload: 0 none, 1 flip a checksum bit, 2 drop last hex digit (odd length), 3 replace a digit by a non-hex char, 4 drop the checksum, 5 upper-case 0X prefix
	Pos     int    // position used by the damage
	Raw     string // raw: the string itself
	Edit    string // edit: delete | insert | duplicate exactly one hex digit of the valid encoding of Payload (33 bytes)
	Class   string // edit: first (leading payload nibble) | typeid (second nibble) | middle | checksum | last
	Digit   int    // edit/insert: the digit inserted (0..15)
	Junk    string // junk: prepend (junk text before the valid string) | addrfront (a second complete address string in front) | midprefix (0x inserted at Pos) | doubleprefix (JunkS + 0x + body)
	JunkS   string // junk/prepend: the text put in front; junk/doubleprefix: the extra prefix
	Front   []byte // junk/addrfront: the 33-byte address encoded in front
	FrontPx bool   // junk/addrfront: the front address carries its own 0x
}

func c28Checksum(b []byte) []byte {
	h := sha256.Sum256(b)
	return h[len(h)-c28SumLen:]
}

func c28Encode(payload []byte, prefix, upper bool) string {
	const lo, up = "0123456789abcdef", "0123456789ABCDEF"
	digits := lo
	if upper {
		digits = up
	}
	all := append(append([]byte(nil), payload...), c28Checksum(payload)...)
	var sb strings.Builder
	if prefix {
		sb.WriteString("0x")
	}
	for _, b := range all {
		sb.WriteByte(digits[b>>4])
		sb.WriteByte(digits[b&15])
	}
	return sb.String()
}

// c28IndependentDecode: is s (optional 0x/0X, hex in either case) the encoding
// of exactly one address followed by its checksum? Returns the address.
func c28IndependentDecode(s string) ([]byte, bool) {
	if len(s) >= 2 && s[0] == '0' && (s[1] == 'x' || s[1] == 'X') {
		s = s[2:]
	}
	if len(s) != 2*(c28AddrLen+c28SumLen) {
		return nil, false
	}
	out := make([]byte, len(s)/2)
	for i := 0; i < len(s); i++ {
		var v byte
		ch := s[i]
		switch {
		case ch >= '0' && ch <= '9':
			v = ch - '0'
		case ch >= 'a' && ch <= 'f':
			v = ch - 'a' + 10
		case ch >= 'A' && ch <= 'F':
			v = ch - 'A' + 10
		default:
			return nil, false
		}
		if i%2 == 0 {
			out[i/2] = v << 4
		} else {
			out[i/2] |= v
		}
	}
	addr, sum := out[:c28AddrLen], out[c28AddrLen:]
	if !bytes.Equal(sum, c28Checksum(addr)) {
		return nil, false
	}
	return addr, true
}

// c28CheckString is the oracle for one arbitrary string (shared with FuzzC28).
func c28CheckString(s string) (accepted bool, err error) {
	got, perr := codec.StringToAddress(s)
	var viaText codec.Address
	terr := viaText.UnmarshalText([]byte(s))
	if (perr == nil) != (terr == nil) {
		return false, fmt.Errorf("StringToAddress(%q) err=%v but UnmarshalText err=%v", s, perr, terr)
	}
	if utf8.ValidString(s) {
		var viaJSON codec.Address
		js, _ := json.Marshal(s)
		jerr := json.Unmarshal(js, &viaJSON)
		if (jerr == nil) != (perr == nil) || (jerr == nil && viaJSON != got) {
			return perr == nil, fmt.Errorf("StringToAddress(%q) = %x, %v but json.Unmarshal of the quoted string = %x, %v", s, got[:], perr, viaJSON[:], jerr)
		}
	}
	if perr != nil {
		if got != codec.EmptyAddress {
			return false, fmt.Errorf("StringToAddress(%q) failed (%v) but returned a non-empty address %x", s, perr, got[:])
		}
		return false, nil
	}
	want, ok := c28IndependentDecode(s)
	if !ok {
		return true, fmt.Errorf("StringToAddress(%q) succeeded (-> %x) but the string is not the checksummed hex encoding of exactly one %d-byte address", s, got[:], c28AddrLen)
	}
	if !bytes.Equal(got[:], want) || viaText != got {
		return true, fmt.Errorf("StringToAddress(%q) = %x (UnmarshalText %x), the string encodes %x", s, got[:], viaText[:], want)
	}
	return true, nil
}

// c28EditOne deletes / inserts / duplicates exactly one hex digit of the un-prefixed valid encoding enc
// (74 digits) at a position of the given class. The extra label names the one edit that a lenient parser
// (pad odd-length input with a leading 0) turns back into the original string.
func c28EditOne(enc, edit, class string, pos, digit int) (string, string) {
	if pos < 0 {
		pos = -pos
	}
	n := len(enc)
	var i int
	switch class {
	case "first":
		i = 0
	case "typeid":
		i = 1
	case "checksum":
		i = 2*c28AddrLen + pos%(2*c28SumLen-1)
	case "last":
		i = n - 1
	default:
		i = 2 + pos%(2*c28AddrLen-2)
	}
	lbl := ""
	switch edit {
	case "insert":
		d := "0123456789abcdef"[((digit%16)+16)%16]
		if class == "last" {
			i = n // append
		}
		if i == 0 && d == '0' {
			lbl = "insert-leading-zero-nibble"
		}
		return enc[:i] + string(d) + enc[i:], lbl
	case "duplicate":
		return enc[:i+1] + enc[i:], lbl
	default: // delete
		if enc[0] == '0' && (i == 0 || (i == 1 && enc[1] == '0')) {
			lbl = "delete-leading-zero-nibble"
		}
		return enc[:i] + enc[i+1:], lbl
	}
}

func c28Run(c c28Case, st *vstat.Stats) error {
	var s string
	labels := []string{"mode-" + c.Mode}
	nt := false
	mustAccept, mustReject := false, false
	switch c.Mode {
	case "addr":
		if len(c.Payload) != c28AddrLen {
			return nil
		}
		var a codec.Address
		copy(a[:], c.Payload)
		s = a.String()
		// format: 0x + lower-case hex of address || last 4 bytes of sha256(address)
		if want := c28Encode(c.Payload, true, false); s != want {
			return fmt.Errorf("Address(%x).String() = %q, checksummed encoding is %q", c.Payload, s, want)
		}
		txt, err := a.MarshalText()
		if err != nil || string(txt) != s {
			return fmt.Errorf("MarshalText = %q, %v; String = %q", txt, err, s)
		}
		back, err := codec.StringToAddress(s)
		if err != nil || back != a {
			return fmt.Errorf("StringToAddress(String(%x)) = %x, %v", c.Payload, back[:], err)
		}
		var b2 codec.Address
		if err := b2.UnmarshalText(txt); err != nil || b2 != a {
			return fmt.Errorf("UnmarshalText(MarshalText(%x)) = %x, %v", c.Payload, b2[:], err)
		}
		js, err := json.Marshal(a)
		if err != nil {
			return fmt.Errorf("json.Marshal(%x): %v", c.Payload, err)
		}
		if string(js) != `"`+s+`"` {
			return fmt.Errorf("json.Marshal(%x) = %s, want the quoted text form %q", c.Payload, js, s)
		}
		var b3 codec.Address
		if err := json.Unmarshal(js, &b3); err != nil || b3 != a {
			return fmt.Errorf("json round trip of %x = %x, %v", c.Payload, b3[:], err)
		}
		// the same address written without prefix / in upper case: not constrained whether accepted,
		// but if accepted it must be this address (checked below by the generic oracle)
		s = c28Encode(c.Payload, c.Prefix, c.Upper)
		if c.Prefix && !c.Upper {
			mustAccept = true
		}
		if !c.Prefix {
			labels = append(labels, "no-prefix")
		}
		if c.Upper {
			labels = append(labels, "upper-case")
		}
	case "payload":
		s = c28Encode(c.Payload, c.Prefix, c.Upper)
		body := 0
		if c.Prefix {
			body = 2
		}
		pos := c.Pos
		if pos < 0 {
			pos = -pos
		}
		switch c.Damage {
		case 1: // flip one bit of one checksum byte (re-encode)
			all := append(append([]byte(nil), c.Payload...), c28Checksum(c.Payload)...)
			all[len(c.Payload)+pos%c28SumLen] ^= 1 << uint(pos%8)
			// c28Encode recomputes the checksum, so write the damaged bytes by hand
			hexd := fmt.Sprintf("%x", all)
			if c.Upper {
				hexd = strings.ToUpper(hexd)
			}
			s = s[:body] + hexd
			labels = append(labels, "bad-checksum")
		case 2:
			s = s[:len(s)-1]
			labels = append(labels, "odd-length")
		case 3:
			if len(s) > body {
				i := body + pos%(len(s)-body)
				s = s[:i] + string("gzGZ xX-_\x00\xff"[pos%11]) + s[i+1:]
			}
			labels = append(labels, "non-hex")
		case 4:
			if len(s)-body >= 2*c28SumLen {
				s = s[:len(s)-2*c28SumLen]
			}
			labels = append(labels, "checksum-dropped")
		case 5:
			if c.Prefix {
				s = "0X" + s[2:]
			}
			labels = append(labels, "0X-prefix")
		default:
			switch {
			case len(c.Payload) == c28AddrLen:
				labels = append(labels, "full-length-valid")
			case len(c.Payload) < c28AddrLen:
				labels = append(labels, "short-payload-valid-checksum")
				nt = true
			default:
				labels = append(labels, "long-payload-valid-checksum")
				nt = true
			}
			if len(c.Payload) == 0 {
				labels = append(labels, "empty-payload-valid-checksum")
			}
		}
	case "raw":
		s = c.Raw
	case "edit":
		if len(c.Payload) != c28AddrLen {
			return nil
		}
		var lbl string
		s, lbl = c28EditOne(c28Encode(c.Payload, false, c.Upper), c.Edit, c.Class, c.Pos, c.Digit)
		if c.Prefix {
			s = "0x" + s
		} else {
			labels = append(labels, "no-prefix")
		}
		labels = append(labels, "edit-"+c.Edit, "edit-at-"+c.Class)
		if c.Payload[0] < 0x10 {
			labels = append(labels, "type-id<0x10")
		}
		if lbl != "" {
			labels = append(labels, lbl)
		}
		nt = true
		// an edited string may by chance still be a valid encoding only if it has 74 digits again (never for one
		// deleted/inserted/duplicated digit): the independent decoder rejects every odd-length string
		mustReject = true
	case "junk":
		if len(c.Payload) != c28AddrLen {
			return nil
		}
		body := c28Encode(c.Payload, false, c.Upper)
		valid := body
		if c.Prefix {
			valid = "0x" + body
		}
		pos := c.Pos
		if pos < 0 {
			pos = -pos
		}
		switch c.Junk {
		case "addrfront":
			if len(c.Front) != c28AddrLen {
				return nil
			}
			s = c28Encode(c.Front, c.FrontPx, c.Upper) + valid
			labels = append(labels, "junk-second-address-in-front")
		case "midprefix":
			i := pos % (len(body) + 1)
			s = valid[:len(valid)-len(body)] + body[:i] + "0x" + body[i:]
			labels = append(labels, "junk-0x-inside")
		case "doubleprefix":
			s = c.JunkS + "0x" + body
			labels = append(labels, "junk-double-prefix")
		default:
			s = c.JunkS + valid
			labels = append(labels, "junk-prepend")
			if strings.Contains(c.JunkS, "0x") {
				labels = append(labels, "junk-contains-0x")
			}
		}
		if c.Prefix {
			labels = append(labels, "junk-on-prefixed")
		} else {
			labels = append(labels, "junk-on-unprefixed")
		}
		_, refOK := c28IndependentDecode(s)
		if refOK {
			labels = append(labels, "junk-result-is-valid-encoding") // e.g. empty junk, or "0x" in front of an unprefixed string
		} else if i := strings.Index(s, "0x"); i >= 0 && len(s)-i-2 == 2*(c28AddrLen+c28SumLen) {
			if _, ok := c28IndependentDecode(s[i+2:]); ok {
				// malformed as a whole, but a full valid encoding follows the first "0x": what a parser that searches for the prefix would accept
				labels = append(labels, "junk-then-0x-then-valid-encoding")
			}
		}
		nt = !refOK
	default:
		return nil
	}
	accepted, err := c28CheckString(s)
	if accepted {
		labels = append(labels, "accepted")
	} else {
		labels = append(labels, "rejected")
	}
	st.Case(nt, s, labels...)
	st.Sample(nt, map[string]any{"s": s, "accepted": accepted, "labels": strings.Join(labels, ",")})
	if err != nil {
		return err
	}
	if mustReject && accepted {
		return fmt.Errorf("%q (valid encoding of %x with one hex digit %sd at %s) is accepted", s, c.Payload, c.Edit, c.Class)
	}
	if mustAccept && !accepted {
		return fmt.Errorf("the canonical encoding %q of address %x is rejected", s, c.Payload)
	}
	return nil
}

func c28Gen(rt *rapid.T) c28Case {
	var c c28Case
	c.Mode = rapid.SampledFrom([]string{"payload", "junk", "edit", "payload", "addr", "junk", "edit", "payload", "raw", "addr", "payload", "junk", "edit"}).Draw(rt, "mode")
	byteGen := rapid.OneOf(rapid.Byte(), rapid.SampledFrom([]byte{0, 0xff}))
	switch c.Mode {
	case "addr":
		c.Payload = rapid.SliceOfN(byteGen, c28AddrLen, c28AddrLen).Draw(rt, "addr")
		c.Prefix = rapid.IntRange(0, 3).Draw(rt, "prefix") != 0
		c.Upper = rapid.IntRange(0, 3).Draw(rt, "upper") == 0
	case "payload":
		// truncated / extended by 1..40 bytes (or exact), with a recomputed valid checksum
		var n int
		switch rapid.IntRange(0, 3).Draw(rt, "lenClass") {
		case 0:
			n = c28AddrLen
		case 1:
			n = c28AddrLen - rapid.IntRange(1, c28AddrLen).Draw(rt, "cut")
		case 2:
			n = c28AddrLen + rapid.IntRange(1, 40).Draw(rt, "ext")
		default:
			n = rapid.SampledFrom([]int{0, 1, 3, 28, 29, 32, 34, 37, 41, 66}).Draw(rt, "n")
		}
		c.Payload = rapid.SliceOfN(byteGen, n, n).Draw(rt, "payload")
		c.Prefix = rapid.Bool().Draw(rt, "prefix")
		c.Upper = rapid.IntRange(0, 3).Draw(rt, "upper") == 0
		c.Damage = rapid.SampledFrom([]int{1, 2, 3, 4, 0, 0, 5, 0, 0}).Draw(rt, "damage")
		c.Pos = rapid.IntRange(0, 1<<16).Draw(rt, "pos")
	case "edit":
		c.Payload = rapid.SliceOfN(byteGen, c28AddrLen, c28AddrLen).Draw(rt, "addr")
		// type id 0x00..0x0f (leading hex digit 0) in most cases, anything otherwise
		if rapid.IntRange(0, 9).Draw(rt, "lowTypeID") < 7 {
			c.Payload[0] = rapid.ByteRange(0, 0x0f).Draw(rt, "typeID")
		}
		c.Prefix = rapid.Bool().Draw(rt, "prefix")
		c.Upper = rapid.IntRange(0, 3).Draw(rt, "upper") == 0
		c.Edit = rapid.SampledFrom([]string{"delete", "delete", "insert", "duplicate"}).Draw(rt, "edit")
		c.Class = rapid.SampledFrom([]string{"first", "first", "first", "typeid", "middle", "middle", "checksum", "checksum", "last", "last"}).Draw(rt, "class")
		c.Pos = rapid.IntRange(0, 1<<16).Draw(rt, "pos")
		c.Digit = rapid.OneOf(rapid.Just(0), rapid.IntRange(0, 15)).Draw(rt, "digit")
	case "junk":
		c.Payload = rapid.SliceOfN(byteGen, c28AddrLen, c28AddrLen).Draw(rt, "addr")
		c.Prefix = rapid.IntRange(0, 2).Draw(rt, "prefix") != 0
		c.Upper = rapid.IntRange(0, 3).Draw(rt, "upper") == 0
		c.Junk = rapid.SampledFrom([]string{"addrfront", "midprefix", "doubleprefix", "prepend", "prepend", "prepend", "prepend", "addrfront", "midprefix", "doubleprefix"}).Draw(rt, "junk")
		c.Pos = rapid.IntRange(0, 1<<16).Draw(rt, "pos")
		switch c.Junk {
		case "prepend":
			c.JunkS = rapid.OneOf(
				rapid.SampledFrom([]string{"0x", "00x", " 0x", "zz0x", "deadbeef0x", "0X0x", "x0x", "0x0x", "0x 0x", "f0xf"}),
				rapid.StringOfN(rapid.RuneFrom([]rune("0xX zf0a1")), 0, 6, -1),
				rapid.SampledFrom([]string{"0", "00", " ", "z", "zz", "x", "X", "f", "ff", "0X", "deadbeef", "\t", "\n"}),
				rapid.StringOfN(rapid.RuneFrom([]rune("0123456789abcdefABCDEF")), 1, 10, -1),
			).Draw(rt, "junkS")
		case "addrfront":
			c.Front = rapid.SliceOfN(byteGen, c28AddrLen, c28AddrLen).Draw(rt, "front")
			c.FrontPx = rapid.Bool().Draw(rt, "frontPx")
		case "doubleprefix":
			c.JunkS = rapid.SampledFrom([]string{"0x", "0X", "0x0x", "0X0X", "0x ", "0x0", "x", "00"}).Draw(rt, "extraPrefix")
		}
	default:
		c.Raw = rapid.OneOf(
			rapid.StringOfN(rapid.RuneFrom([]rune("0123456789abcdefABCDEFxX g")), 0, 90, -1),
			rapid.String(),
		).Draw(rt, "raw")
	}
	return c
}

func TestC28(t *testing.T) {
	st := vstat.New(t, "C28", "addresses (33 random/boundary bytes: String/MarshalText/JSON round trips, format compared with an independent encoder, then re-parsed with/without 0x and in either case) and strings (payloads of 0..73 bytes with a recomputed valid checksum, optionally damaged: checksum bit flip, odd length, non-hex character, checksum dropped, 0X prefix; plus raw hex-ish and arbitrary strings; plus valid encodings with exactly one hex digit deleted / inserted / duplicated at the leading nibble, inside the type id, in the middle, inside the checksum or at the end, type id below and above 0x10, which must all be rejected; plus valid encodings (prefixed or not) with junk in front - 0..6 characters of {0,x,X,space,z,f,a,1}, fragments containing 0x such as \"00x\", \" 0x\", \"zz0x\", \"deadbeef0x\", \"0X0x\", hex digits, or a second complete address string - or with 0x inserted at a drawn position, or with a doubled prefix); whenever parsing succeeds an independent decoder must find exactly address||sha256(address)[28:]; non-trivial = a wrong-length payload carrying a valid checksum, or a one-digit edit of a valid encoding, or a junk-before-prefix string that is not itself a valid encoding; distinct by the string")
	rapid.Check(t, func(rt *rapid.T) {
		c := c28Gen(rt)
		vstat.Run(rt, st, c, func() error { return c28Run(c, st) })
	})
}

func TestC28Replay(t *testing.T) {
	vstat.Replay(t, "C28", func(raw []byte) error {
		var c c28Case
		if err := json.Unmarshal(raw, &c); err != nil {
			return err
		}
		return c28Run(c, vstat.New(nil, "C28", ""))
	})
}

// FuzzC28 (thorough tier only): the string oracle on fuzzer-chosen strings, and
// on the checksummed encoding of a fuzzer-chosen payload (so that the fuzzer can
// change the payload length without having to guess a SHA-256 suffix).
func FuzzC28(f *testing.F) {
	f.Fuzz(func(t *testing.T, s string, payload []byte, flags uint8, pos uint16) {
		if _, err := c28CheckString(s); err != nil {
			t.Fatalf("C28 violated: %v", err)
		}
		if len(payload) > 200 {
			payload = payload[:200]
		}
		enc := c28Encode(payload, flags&1 != 0, flags&2 != 0)
		acc, err := c28CheckString(enc)
		if err != nil {
			t.Fatalf("C28 violated: %v", err)
		}
		if len(payload) == c28AddrLen && flags&3 == 1 && !acc {
			t.Fatalf("C28 violated: canonical encoding %q rejected", enc)
		}
		// a piece of the fuzzer's string in front of the encoding (junk before the prefix)
		front := s
		if len(front) > 80 {
			front = front[:80]
		}
		if _, err := c28CheckString(front + enc); err != nil {
			t.Fatalf("C28 violated: %v", err)
		}
		// one hex digit deleted / inserted / duplicated anywhere in the encoding (flags bits 2..3: 0 = no edit)
		if edit := (flags >> 2) & 3; edit != 0 && len(payload) > 0 {
			body := c28Encode(payload, false, flags&2 != 0)
			i := int(pos) % len(body)
			switch edit {
			case 1:
				body = body[:i] + body[i+1:]
			case 2:
				body = body[:i] + string("0123456789abcdef"[(flags>>4)&15]) + body[i:]
			default:
				body = body[:i+1] + body[i:]
			}
			if flags&1 != 0 {
				body = "0x" + body
			}
			if _, err := c28CheckString(body); err != nil {
				t.Fatalf("C28 violated: %v", err)
			}
		}
	})
}

func TestC28Regression(t *testing.T) {
	st := vstat.New(t, "C28", "regression: wrong-length payloads (0, 3, 32, 34, 40 bytes) with a valid checksum, each with/without 0x and in either case (fix F6); valid encodings of 5 addresses (type id 0x00, 0x05, 0x0f, 0x10, 0xf3) with one hex digit deleted / inserted / duplicated at 5 position classes, with/without 0x; 13 junk-before-prefix strings")
	for _, n := range []int{0, 3, 32, 34, 40} {
		p := make([]byte, n)
		for i := range p {
			p[i] = byte(i + 1)
		}
		for _, prefix := range []bool{true, false} {
			for _, upper := range []bool{false, true} {
				c := c28Case{Mode: "payload", Payload: p, Prefix: prefix, Upper: upper}
				vstat.Run(t, st, c, func() error { return c28Run(c, st) })
			}
		}
	}
	// junk before the prefix (a parser that searches for the first "0x" accepts these)
	{
		a := make([]byte, c28AddrLen)
		for i := range a {
			a[i] = byte(7 + 3*i)
		}
		for _, j := range []string{"0", " ", "zz", "deadbeef", "0X", "X"} {
			c := c28Case{Mode: "junk", Payload: a, Prefix: true, Junk: "prepend", JunkS: j}
			vstat.Run(t, st, c, func() error { return c28Run(c, st) })
		}
		for _, j := range []string{"00x", " 0x", "zz0x", "deadbeef0x", "0X0x"} {
			c := c28Case{Mode: "junk", Payload: a, Prefix: false, Junk: "prepend", JunkS: j}
			vstat.Run(t, st, c, func() error { return c28Run(c, st) })
		}
		for _, px := range []bool{true, false} {
			c := c28Case{Mode: "junk", Payload: a, Prefix: true, Junk: "addrfront", Front: a, FrontPx: px}
			vstat.Run(t, st, c, func() error { return c28Run(c, st) })
		}
	}
	// one hex digit deleted / inserted / duplicated in a valid encoding (a parser that pads odd-length input
	// with a leading 0 accepts the deletion of a leading zero nibble)
	for _, typeID := range []byte{0x00, 0x05, 0x0f, 0x10, 0xf3} {
		a := make([]byte, c28AddrLen)
		a[0] = typeID
		for i := 1; i < c28AddrLen; i++ {
			a[i] = byte(7 * i)
		}
		for _, edit := range []string{"delete", "insert", "duplicate"} {
			for _, class := range []string{"first", "typeid", "middle", "checksum", "last"} {
				for _, prefix := range []bool{true, false} {
					c := c28Case{Mode: "edit", Payload: a, Prefix: prefix, Edit: edit, Class: class, Pos: 11}
					vstat.Run(t, st, c, func() error { return c28Run(c, st) })
				}
			}
		}
	}
}
