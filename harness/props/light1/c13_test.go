package light1

import (
	"encoding/binary"
	"encoding/json"
	"fmt"
	"math"
	"math/big"
	"testing"

	"pgregory.net/rapid"

	hfees "github.com/ava-labs/hypersdk/fees"
	ifees "github.com/ava-labs/hypersdk/internal/fees"
	"github.com/ava-labs/hypersdk/verifharness/vstat"
)

// C13: unit prices follow the fee-market rule exactly.
//
// A case is an initial fee state (either the empty state or an arbitrary one
// laid out as documented in internal/fees/manager.go), one set of rules, and an
// op list that drives the exported Manager API: ComputeNext, SetLastConsumed,
// SetUnitPrice and a re-encode (NewManager(copy(Bytes()))). After every op the
// accessors of the real manager are compared with a math/big reference model.
// Every "next" op additionally computes the next state from a copy whose window
// usage was raised and demands that no next price is lower (metamorphic).

const (
	c13Dims   = 5
	c13Slots  = 10
	c13DimLen = 8 + c13Slots*8 + 8
	c13RawLen = 8 + c13Dims*c13DimLen
	// largest second count s with s*1000+999 still an int64 millisecond timestamp
	c13MaxSec = uint64(math.MaxInt64/1000 - 1)
)

type c13State struct {
	Ts    uint64 // seconds
	Price [c13Dims]uint64
	Win   [c13Dims][c13Slots]uint64
	Last  [c13Dims]uint64
}

type c13Op struct {
	Kind     string // next | last | price | reenc
	Elapsed  uint64 // next: seconds since the stored timestamp (clamped so the timestamp stays an int64 of ms)
	Ms       uint16 // next: millisecond part of the block timestamp
	Vals     [c13Dims]uint64
	BumpSlot int // next: slot raised in the metamorphic twin: 0..9 window slot, 10 = last consumption
	BumpAdd  [c13Dims]uint64
}

type c13Case struct {
	FromNil bool
	Init    c13State
	Target  [c13Dims]uint64
	Denom   [c13Dims]uint64
	Min     [c13Dims]uint64
	Ops     []c13Op
}

type c13Rules struct{ target, denom, min hfees.Dimensions }

func (r c13Rules) GetMinUnitPrice() hfees.Dimensions               { return r.min }
func (r c13Rules) GetUnitPriceChangeDenominator() hfees.Dimensions { return r.denom }
func (r c13Rules) GetWindowTargetUnits() hfees.Dimensions          { return r.target }
func (r c13Rules) GetMaxBlockUnits() hfees.Dimensions {
	return hfees.Dimensions{math.MaxUint64, math.MaxUint64, math.MaxUint64, math.MaxUint64, math.MaxUint64}
}

// ---- reference model (math/big, written from the property statement)

var (
	c13Two64 = new(big.Int).Lsh(big.NewInt(1), 64)
	c13MaxU  = new(big.Int).Sub(c13Two64, big.NewInt(1))
)

func bu(v uint64) *big.Int { return new(big.Int).SetUint64(v) }

func satU(v *big.Int) uint64 {
	if v.Sign() < 0 {
		return 0
	}
	if v.Cmp(c13MaxU) > 0 {
		return math.MaxUint64
	}
	return v.Uint64()
}

type c13Facts struct {
	wrap, wrapNonSat, multWrap, sumSat, slotSat, rise, fall, equal, minClamp, satMax, satZero, mult bool
}

func (f *c13Facts) or(g c13Facts) {
	f.wrap = f.wrap || g.wrap
	f.wrapNonSat = f.wrapNonSat || g.wrapNonSat
	f.multWrap = f.multWrap || g.multWrap
	f.sumSat = f.sumSat || g.sumSat
	f.slotSat = f.slotSat || g.slotSat
	f.rise = f.rise || g.rise
	f.fall = f.fall || g.fall
	f.equal = f.equal || g.equal
	f.minClamp = f.minClamp || g.minClamp
	f.satMax = f.satMax || g.satMax
	f.satZero = f.satZero || g.satZero
	f.mult = f.mult || g.mult
}

// c13ModelDim: one dimension of the rule. Slot i of the window holds the usage
// of the second that lies 9-i seconds before the state's timestamp.
func c13ModelDim(win [c13Slots]uint64, last, price, target, denom, min, el uint64) (uint64, [c13Slots]uint64, c13Facts) {
	var f c13Facts
	var nw [c13Slots]uint64
	for i := 0; i < c13Slots; i++ {
		if el < c13Slots && uint64(i)+el < c13Slots {
			nw[i] = win[uint64(i)+el]
		}
	}
	if el < c13Slots {
		// the parent's consumption happened el seconds ago
		slot := c13Slots - 1 - int(el)
		s := new(big.Int).Add(bu(nw[slot]), bu(last))
		if s.Cmp(c13MaxU) > 0 {
			f.slotSat = true
		}
		nw[slot] = satU(s)
	}
	sum := new(big.Int)
	for _, v := range nw {
		sum.Add(sum, bu(v))
	}
	if sum.Cmp(c13MaxU) > 0 {
		f.sumSat = true
	}
	total := bu(satU(sum))
	tg := bu(target)
	p := bu(price)
	next := new(big.Int).Set(p)
	amount := func(delta *big.Int) *big.Int {
		prod := new(big.Int).Mul(p, delta)
		if prod.Cmp(c13Two64) >= 0 {
			f.wrap = true
		}
		q := new(big.Int).Div(prod, tg)
		q.Div(q, bu(denom))
		if q.Sign() == 0 {
			q.SetInt64(1)
		}
		return q
	}
	switch total.Cmp(tg) {
	case 1:
		f.rise = true
		next.Add(next, amount(new(big.Int).Sub(total, tg)))
		if next.Cmp(c13MaxU) > 0 {
			f.satMax = true
		}
	case -1:
		f.fall = true
		a := amount(new(big.Int).Sub(tg, total))
		if el > c13Slots {
			f.mult = true
			a.Mul(a, bu(el/c13Slots))
			if a.Cmp(c13Two64) >= 0 {
				f.multWrap = true
			}
		}
		next.Sub(next, a)
		if next.Sign() < 0 {
			f.satZero = true
		}
	default:
		f.equal = true
	}
	n := satU(next)
	if n < min {
		n = min
		f.minClamp = true
	}
	if f.wrap && !f.satMax && !f.satZero && !f.minClamp {
		f.wrapNonSat = true
	}
	return n, nw, f
}

func c13ModelNext(s c13State, c *c13Case, el uint64) (c13State, c13Facts) {
	var out c13State
	var facts c13Facts
	out.Ts = s.Ts + el
	for d := 0; d < c13Dims; d++ {
		p, w, f := c13ModelDim(s.Win[d], s.Last[d], s.Price[d], c.Target[d], c.Denom[d], c.Min[d], el)
		out.Price[d], out.Win[d] = p, w
		facts.or(f)
		// consumption of the new block starts at 0
	}
	return out, facts
}

// ---- the documented byte layout: [timestamp(s)][price][window][lastConsumed] per dimension

func c13Encode(s c13State) []byte {
	raw := make([]byte, c13RawLen)
	binary.BigEndian.PutUint64(raw, s.Ts)
	for d := 0; d < c13Dims; d++ {
		o := 8 + d*c13DimLen
		binary.BigEndian.PutUint64(raw[o:], s.Price[d])
		for i := 0; i < c13Slots; i++ {
			binary.BigEndian.PutUint64(raw[o+8+8*i:], s.Win[d][i])
		}
		binary.BigEndian.PutUint64(raw[o+8+8*c13Slots:], s.Last[d])
	}
	return raw
}

func c13Compare(what string, m *ifees.Manager, want c13State) error {
	prices := m.UnitPrices()
	cons := m.UnitsConsumed()
	for d := 0; d < c13Dims; d++ {
		dim := hfees.Dimension(d)
		if got := m.UnitPrice(dim); got != want.Price[d] || prices[d] != got {
			return fmt.Errorf("%s: dim %d unit price %d (UnitPrices %d), rule says %d", what, d, got, prices[d], want.Price[d])
		}
		if got := m.LastConsumed(dim); got != want.Last[d] || cons[d] != got {
			return fmt.Errorf("%s: dim %d last consumed %d (UnitsConsumed %d), want %d", what, d, got, cons[d], want.Last[d])
		}
		w := m.Window(dim)
		for i := 0; i < c13Slots; i++ {
			if got := binary.BigEndian.Uint64(w[8*i:]); got != want.Win[d][i] {
				return fmt.Errorf("%s: dim %d window slot %d = %d, want %d (window %v)", what, d, i, got, want.Win[d][i], want.Win[d])
			}
		}
	}
	return nil
}

func c13Run(c c13Case, st *vstat.Stats) error {
	st.Assumption("targets and change denominators are >= 1 (0 is an invalid configuration: division by zero)")
	st.Assumption("block timestamps are non-negative int64 milliseconds and never before the fee state's timestamp (enforced by block verification)")
	st.Assumption("arbitrary initial fee states are laid out as documented in internal/fees/manager.go: [timestamp(s)] then per dimension [price][10-slot window][lastConsumed], big endian")
	rules := c13Rules{target: c.Target, denom: c.Denom, min: c.Min}
	for d := 0; d < c13Dims; d++ {
		if c.Target[d] == 0 || c.Denom[d] == 0 {
			return nil // outside the domain (replay files only; the generator never does this)
		}
	}
	var model c13State
	var m *ifees.Manager
	if c.FromNil {
		m = ifees.NewManager(nil)
	} else {
		model = c.Init
		if model.Ts > c13MaxSec {
			model.Ts = c13MaxSec
		}
		m = ifees.NewManager(c13Encode(model))
	}
	if err := c13Compare("initial state", m, model); err != nil {
		return err
	}
	var facts c13Facts
	nexts, bigElapsed, hugeElapsed := 0, false, false
	for i, op := range c.Ops {
		switch op.Kind {
		case "last":
			for d := 0; d < c13Dims; d++ {
				m.SetLastConsumed(hfees.Dimension(d), op.Vals[d])
				model.Last[d] = op.Vals[d]
			}
		case "price":
			for d := 0; d < c13Dims; d++ {
				m.SetUnitPrice(hfees.Dimension(d), op.Vals[d])
				model.Price[d] = op.Vals[d]
			}
		case "reenc":
			m = ifees.NewManager(append([]byte(nil), m.Bytes()...))
		case "next":
			el := op.Elapsed
			if el > c13MaxSec-model.Ts {
				el = c13MaxSec - model.Ts
			}
			nexts++
			if el >= c13Slots {
				bigElapsed = true
			}
			if el > 1000 {
				hugeElapsed = true
			}
			now := int64((model.Ts+el)*1000 + uint64(op.Ms%1000))
			want, f := c13ModelNext(model, &c, el)
			facts.or(f)
			next := m.ComputeNext(now, rules)
			if err := c13Compare(fmt.Sprintf("op %d: next state after %d s", i, el), next, want); err != nil {
				return err
			}
			// never below the minimum (also implied by the model; stated on its own for the message)
			for d := 0; d < c13Dims; d++ {
				if next.UnitPrice(hfees.Dimension(d)) < c.Min[d] {
					return fmt.Errorf("op %d: dim %d next price %d below minimum %d", i, d, next.UnitPrice(hfees.Dimension(d)), c.Min[d])
				}
			}
			// metamorphic: raising one window slot / the last consumption never lowers a next price
			raw := append([]byte(nil), m.Bytes()...)
			slot := op.BumpSlot
			if slot < 0 || slot > c13Slots {
				slot = c13Slots
			}
			for d := 0; d < c13Dims; d++ {
				o := 8 + d*c13DimLen + 8 + 8*slot
				v := binary.BigEndian.Uint64(raw[o:])
				nv := v + op.BumpAdd[d]
				if nv < v {
					nv = math.MaxUint64
				}
				binary.BigEndian.PutUint64(raw[o:], nv)
			}
			twin := ifees.NewManager(raw).ComputeNext(now, rules)
			for d := 0; d < c13Dims; d++ {
				lo, hi := next.UnitPrice(hfees.Dimension(d)), twin.UnitPrice(hfees.Dimension(d))
				if hi < lo {
					return fmt.Errorf("op %d: dim %d not monotone: raising slot %d by %d lowers the next price from %d to %d (price %d window %v last %d target %d denom %d elapsed %d)",
						i, d, slot, op.BumpAdd[d], lo, hi, model.Price[d], model.Win[d], model.Last[d], c.Target[d], c.Denom[d], el)
				}
			}
			model, m = want, next
		default:
			st.Skip("unknown-op")
			continue
		}
		// encode/decode round trip of whatever state we are in
		rt := ifees.NewManager(append([]byte(nil), m.Bytes()...))
		if err := c13Compare(fmt.Sprintf("op %d (%s): decoded copy of Bytes()", i, op.Kind), rt, model); err != nil {
			return err
		}
	}
	nt := facts.wrap || facts.multWrap || facts.sumSat || bigElapsed
	labels := []string{}
	add := func(b bool, l string) {
		if b {
			labels = append(labels, l)
		}
	}
	add(facts.wrap, "product>=2^64")
	add(facts.wrapNonSat, "product>=2^64-result-not-saturated")
	add(facts.multWrap, "idle-multiplier-product>=2^64")
	add(facts.mult, "idle-multiplier")
	add(facts.sumSat, "window-sum-saturates")
	add(facts.slotSat, "slot-saturates")
	add(facts.rise, "rise")
	add(facts.fall, "fall")
	add(facts.equal, "usage==target")
	add(facts.minClamp, "min-clamp")
	add(facts.satMax, "saturate-max")
	add(facts.satZero, "saturate-zero")
	add(bigElapsed, "elapsed>=10")
	add(hugeElapsed, "elapsed>1000")
	add(c.FromNil, "from-empty-state")
	add(nexts >= 2, "multi-step")
	add(nexts == 0, "no-next-op")
	canon, _ := json.Marshal(c)
	st.Case(nt, string(canon), labels...)
	st.Sample(nt, map[string]any{"price0": model.Price[0], "target0": c.Target[0], "denom0": c.Denom[0], "min0": c.Min[0], "ops": len(c.Ops), "nexts": nexts, "labels": labels})
	return nil
}

// ---- generator

func c13GenDim(rt *rapid.T, c *c13Case, d int) {
	profile := rapid.SampledFrom([]string{"indep", "indep", "mid", "mid", "near"}).Draw(rt, "profile")
	nz := func(v uint64) uint64 {
		if v == 0 {
			return 1
		}
		return v
	}
	denoms := rapid.OneOf(rapid.SampledFrom([]uint64{1, 2, 48, 48, 1000}), genU64())
	mins := rapid.OneOf(rapid.SampledFrom([]uint64{0, 1, 100}), genU64())
	c.Denom[d] = nz(denoms.Draw(rt, "denom"))
	c.Min[d] = mins.Draw(rt, "min")
	slot := func(g *rapid.Generator[uint64]) *rapid.Generator[uint64] {
		return rapid.OneOf(rapid.Just(uint64(0)), g)
	}
	switch profile {
	case "indep":
		c.Target[d] = nz(genU64().Draw(rt, "target"))
		c.Init.Price[d] = genU64().Draw(rt, "price")
		for i := 0; i < c13Slots; i++ {
			c.Init.Win[d][i] = slot(genU64()).Draw(rt, "slot")
		}
		c.Init.Last[d] = genU64().Draw(rt, "last")
	case "mid":
		c.Target[d] = genU64Mid().Draw(rt, "target")
		c.Init.Price[d] = genU64Mid().Draw(rt, "price")
		for i := 0; i < c13Slots; i++ {
			c.Init.Win[d][i] = slot(genU64Mid()).Draw(rt, "slot")
		}
		c.Init.Last[d] = slot(genU64Mid()).Draw(rt, "last")
		c.Min[d] = rapid.SampledFrom([]uint64{0, 1, 100}).Draw(rt, "minSmall")
	default: // usage within 1 of the target
		c.Target[d] = nz(genU64().Draw(rt, "target"))
		c.Init.Price[d] = genU64().Draw(rt, "price")
		k := rapid.IntRange(-1, 1).Draw(rt, "k")
		v := c.Target[d]
		if k < 0 {
			v--
		} else if k > 0 && v != math.MaxUint64 {
			v++
		}
		pos := rapid.IntRange(0, c13Slots).Draw(rt, "pos")
		if pos == c13Slots {
			c.Init.Last[d] = v
		} else {
			c.Init.Win[d][pos] = v
		}
	}
}

func c13Gen(rt *rapid.T) c13Case {
	var c c13Case
	c.FromNil = rapid.IntRange(0, 9).Draw(rt, "fromNil") == 0
	c.Init.Ts = rapid.OneOf(
		rapid.SampledFrom([]uint64{0, 1, 1_700_000_000, c13MaxSec - 5, c13MaxSec}),
		rapid.Uint64Range(0, c13MaxSec),
	).Draw(rt, "ts")
	for d := 0; d < c13Dims; d++ {
		c13GenDim(rt, &c, d)
	}
	if c.FromNil {
		c.Init = c13State{}
	}
	opOf := func(kinds []string) *rapid.Generator[c13Op] {
		return rapid.Custom(func(rt *rapid.T) c13Op {
			var op c13Op
			op.Kind = rapid.SampledFrom(kinds).Draw(rt, "kind")
			switch op.Kind {
			case "next":
				op.Elapsed = rapid.OneOf(
					rapid.Uint64Range(0, 25), rapid.Uint64Range(0, 9), rapid.Uint64Range(0, 2),
					rapid.SampledFrom([]uint64{9, 10, 11, 19, 20, 21, 99, 100, 101, 1_700_000_000}),
					genU64(),
				).Draw(rt, "elapsed")
				op.Ms = rapid.Uint16Range(0, 999).Draw(rt, "ms")
				op.BumpSlot = rapid.IntRange(0, c13Slots).Draw(rt, "bumpSlot")
				for d := 0; d < c13Dims; d++ {
					op.BumpAdd[d] = rapid.OneOf(genU64(), genU64Mid()).Draw(rt, "bumpAdd")
				}
			case "last", "price":
				for d := 0; d < c13Dims; d++ {
					op.Vals[d] = rapid.OneOf(genU64(), genU64Mid()).Draw(rt, "val")
				}
			}
			return op
		})
	}
	// 0..5 arbitrary ops, then always one ComputeNext
	c.Ops = rapid.SliceOfN(opOf([]string{"next", "next", "next", "last", "last", "price", "reenc"}), 0, 5).Draw(rt, "ops")
	c.Ops = append(c.Ops, opOf([]string{"next"}).Draw(rt, "lastOp"))
	return c
}

func TestC13(t *testing.T) {
	st := vstat.New(t, "C13", "initial fee state (empty, or arbitrary 64-bit prices/10-slot windows/last consumption per dimension with boundary-biased, mid-magnitude and usage-within-1-of-target profiles), rules with target>=1, denominator>=1, any minimum, then 1..6 ops (ComputeNext with elapsed 0..25 / boundary / huge seconds, SetLastConsumed, SetUnitPrice, re-encode); every state compared with a math/big model of the rule, every ComputeNext also against a twin with one slot raised (monotonicity), every state re-decoded from Bytes(); non-trivial = some price*|usage-target| (or idle multiplier product) >= 2^64, or a saturating window sum, or elapsed >= 10; distinct by the whole case")
	rapid.Check(t, func(rt *rapid.T) {
		c := c13Gen(rt)
		vstat.Run(rt, st, c, func() error { return c13Run(c, st) })
	})
}

func TestC13Replay(t *testing.T) {
	vstat.Replay(t, "C13", func(raw []byte) error {
		var c c13Case
		if err := json.Unmarshal(raw, &c); err != nil {
			return err
		}
		return c13Run(c, vstat.New(nil, "C13", ""))
	})
}

// c13RegressionCases: inputs that exposed the 64-bit wrap of price*delta (and of
// the idle multiplier) in the pinned tree before fix F3.
func c13RegressionCases() []c13Case {
	ones := [c13Dims]uint64{1, 1, 1, 1, 1}
	next := func(el uint64) c13Op { return c13Op{Kind: "next", Elapsed: el, BumpSlot: 9, BumpAdd: ones} }
	var cases []c13Case
	// DESIGN example: price 2^40, usage 2^30, target 16, denominator 2
	a := c13Case{Target: [c13Dims]uint64{16, 16, 16, 16, 16}, Denom: [c13Dims]uint64{2, 2, 2, 2, 2}, Ops: []c13Op{next(0)}}
	for d := 0; d < c13Dims; d++ {
		a.Init.Price[d] = 1 << 40
		a.Init.Last[d] = 1 << 30
	}
	cases = append(cases, a)
	// product wraps but the exact result is far from saturation
	b := c13Case{Target: [c13Dims]uint64{1 << 20, 1 << 20, 1 << 20, 1 << 20, 1 << 20}, Denom: [c13Dims]uint64{8, 8, 8, 8, 8}, Ops: []c13Op{next(1), next(3)}}
	for d := 0; d < c13Dims; d++ {
		b.Init.Price[d] = 1<<40 + uint64(d)
		b.Init.Win[d][5] = 1 << 30
		b.Init.Last[d] = 1 << 29
	}
	cases = append(cases, b)
	// falling with a huge target: price*(target-usage) wraps although the quotient is below the price
	c := c13Case{Target: [c13Dims]uint64{math.MaxUint64, 1 << 63, 1 << 62, 1 << 40, 1 << 33}, Denom: [c13Dims]uint64{48, 48, 1, 2, 3}, Min: [c13Dims]uint64{100, 1, 0, 0, 0}, Ops: []c13Op{next(2), next(10), next(25)}}
	for d := 0; d < c13Dims; d++ {
		c.Init.Price[d] = 1 << 34
		c.Init.Last[d] = 5
	}
	cases = append(cases, c)
	// idle multiplier: (price/denom) * (elapsed/10) wraps
	e := c13Case{Target: [c13Dims]uint64{8, 8, 8, 8, 8}, Denom: ones, Ops: []c13Op{next(160), next(1 << 40)}}
	for d := 0; d < c13Dims; d++ {
		e.Init.Price[d] = 1 << 60
	}
	cases = append(cases, e)
	// shrunk failing case found by the check on the pinned tree
	f := c13Case{Target: ones, Denom: ones, Ops: []c13Op{next(0)}}
	f.Init.Price[2] = 2
	f.Init.Last[2] = math.MaxUint64
	cases = append(cases, f)
	return cases
}

func TestC13Regression(t *testing.T) {
	st := vstat.New(t, "C13", "regression: five fixed cases around the former 64-bit wrap of price*|usage-target| and of the idle multiplier (fix F3)")
	for _, c := range c13RegressionCases() {
		c := c
		vstat.Run(t, st, c, func() error { return c13Run(c, st) })
	}
}
