package light1

import (
	"encoding/json"
	"fmt"
	"math"
	"sort"
	"strings"
	"testing"

	"github.com/ava-labs/avalanchego/ids"
	"github.com/ava-labs/avalanchego/utils/set"
	"pgregory.net/rapid"

	"github.com/ava-labs/hypersdk/internal/eheap"
	"github.com/ava-labs/hypersdk/internal/emap"
	"github.com/ava-labs/hypersdk/internal/heap"
	"github.com/ava-labs/hypersdk/verifharness/vstat"
)

// C25: emap.EMap, eheap.ExpiryHeap and heap.Heap (min and max) behave like a
// set of ids ordered by expiry. One op list is interpreted against all four
// structures; each has its own map-based model.

const c25IDs = 12

type c25Add struct {
	ID  int
	Exp int64
}

type c25Op struct {
	Kind   string   // add | remove | setmin | pop | query
	Adds   []c25Add // add: one EMap.Add call with the whole batch; the other structures add one by one
	ID     int      // remove
	T      int64    // setmin
	IDs    []int    // query
	Marker []int    // query: positions already marked before EMap.Contains
	Stop   bool     // query: EMap.Contains stop flag
}

type c25Case struct{ Ops []c25Op }

type c25Item struct {
	id  ids.ID
	exp int64
}

func (i c25Item) GetID() ids.ID    { return i.id }
func (i c25Item) GetExpiry() int64 { return i.exp }

func c25ID(i int) ids.ID {
	if i < 0 {
		i = -i
	}
	var id ids.ID
	id[0] = byte(i % c25IDs) // index 0 is ids.Empty
	id[31] = byte(i%c25IDs) * 17
	return id
}

// model: id -> expiry
type c25Model map[ids.ID]int64

func (m c25Model) min() (int64, bool) {
	first := true
	var v int64
	for _, e := range m {
		if first || e < v {
			v, first = e, false
		}
	}
	return v, !first
}

func (m c25Model) max() (int64, bool) {
	first := true
	var v int64
	for _, e := range m {
		if first || e > v {
			v, first = e, false
		}
	}
	return v, !first
}

func (m c25Model) below(t int64) []ids.ID {
	var out []ids.ID
	for id, e := range m {
		if e < t {
			out = append(out, id)
		}
	}
	c25Sort(out)
	return out
}

func (m c25Model) maxPerExpiry() int {
	cnt := map[int64]int{}
	best := 0
	for _, e := range m {
		cnt[e]++
		if cnt[e] > best {
			best = cnt[e]
		}
	}
	return best
}

func c25Sort(l []ids.ID) {
	sort.Slice(l, func(i, j int) bool { return l[i].Compare(l[j]) < 0 })
}

func c25SameSet(got []ids.ID, want []ids.ID) bool {
	g := append([]ids.ID(nil), got...)
	c25Sort(g)
	if len(g) != len(want) {
		return false
	}
	for i := range g {
		if g[i] != want[i] {
			return false
		}
	}
	return true
}

// c25CheckHeap: observable consistency of a heap.Heap with its model.
func c25CheckHeap(name string, h *heap.Heap[c25Item, int64], m c25Model, isMin bool) error {
	if h.Len() != len(m) {
		return fmt.Errorf("%s: Len %d, model %d", name, h.Len(), len(m))
	}
	first := h.First()
	if len(m) == 0 {
		if first != nil {
			return fmt.Errorf("%s: First non-nil on empty heap", name)
		}
		return nil
	}
	if first == nil {
		return fmt.Errorf("%s: First nil, model has %d", name, len(m))
	}
	want, _ := m.min()
	if !isMin {
		want, _ = m.max()
	}
	if first.Val != want {
		return fmt.Errorf("%s: First value %d, model extreme %d", name, first.Val, want)
	}
	if e, ok := m[first.ID]; !ok || e != first.Val || first.Item.id != first.ID || first.Item.exp != e {
		return fmt.Errorf("%s: First entry %s/%d does not match the model", name, first.ID, first.Val)
	}
	items := h.Items()
	for i := 0; i < c25IDs; i++ {
		id := c25ID(i)
		e, ok := h.Get(id)
		_, in := m[id]
		if ok != in || h.Has(id) != in {
			return fmt.Errorf("%s: Get/Has(%d) = %v/%v, model %v", name, i, ok, h.Has(id), in)
		}
		if ok {
			if e.ID != id || e.Val != m[id] {
				return fmt.Errorf("%s: Get(%d) returns entry %s/%d, model expiry %d", name, i, e.ID, e.Val, m[id])
			}
			if e.Index < 0 || e.Index >= len(items) || items[e.Index] != e {
				return fmt.Errorf("%s: entry of id %d records Index %d which is not its position", name, i, e.Index)
			}
		}
	}
	return nil
}

func c25Run(c c25Case, st *vstat.Stats) error {
	em := emap.NewEMap[c25Item]()
	eh := eheap.New[c25Item](0)
	minH := heap.New[c25Item, int64](0, true)
	maxH := heap.New[c25Item, int64](0, false)
	mEm, mEh, mMin, mMax := c25Model{}, c25Model{}, c25Model{}, c25Model{}

	labels := map[string]bool{}
	removedNonMin := false
	nt := false
	evictedOnce := map[ids.ID]bool{}

	checkAll := func(where string) error {
		// eheap
		if eh.Len() != len(mEh) {
			return fmt.Errorf("%s: ExpiryHeap.Len %d, model %d", where, eh.Len(), len(mEh))
		}
		it, ok := eh.PeekMin()
		mn, has := mEh.min()
		if ok != has {
			return fmt.Errorf("%s: ExpiryHeap.PeekMin ok=%v, model non-empty=%v", where, ok, has)
		}
		if ok {
			if it.exp != mn {
				return fmt.Errorf("%s: ExpiryHeap.PeekMin expiry %d, model minimum %d", where, it.exp, mn)
			}
			if e, in := mEh[it.id]; !in || e != it.exp {
				return fmt.Errorf("%s: ExpiryHeap.PeekMin returns %s/%d which is not in the model", where, it.id, it.exp)
			}
		}
		for i := 0; i < c25IDs; i++ {
			id := c25ID(i)
			if _, in := mEh[id]; eh.Has(id) != in {
				return fmt.Errorf("%s: ExpiryHeap.Has(%d)=%v, model %v", where, i, eh.Has(id), in)
			}
			_, in := mEm[id]
			if got := em.Any([]c25Item{{id: id, exp: 1}}); got != in {
				return fmt.Errorf("%s: EMap.Any(%d)=%v, model %v", where, i, got, in)
			}
		}
		if err := c25CheckHeap(where+": min Heap", minH, mMin, true); err != nil {
			return err
		}
		return c25CheckHeap(where+": max Heap", maxH, mMax, false)
	}

	for oi, op := range c.Ops {
		where := fmt.Sprintf("op %d (%s)", oi, op.Kind)
		switch op.Kind {
		case "add":
			batch := make([]c25Item, 0, len(op.Adds))
			for _, a := range op.Adds {
				exp := a.Exp
				if exp < 0 {
					exp = -exp // expiries are timestamps: never negative
					if exp < 0 {
						exp = math.MaxInt64
					}
				}
				item := c25Item{id: c25ID(a.ID), exp: exp}
				batch = append(batch, item)
				if exp == 0 {
					labels["expiry-0"] = true
				}
				for _, m := range []c25Model{mEh, mMin, mMax} {
					if old, in := m[item.id]; in {
						if old != exp {
							labels["dup-add-different-expiry"] = true
						}
					} else {
						m[item.id] = exp
					}
				}
				if _, in := mEm[item.id]; !in && exp != 0 {
					mEm[item.id] = exp
					if evictedOnce[item.id] {
						labels["re-add-after-eviction"] = true
					}
				}
				eh.Add(item)
				minH.Push(&heap.Entry[c25Item, int64]{ID: item.id, Val: exp, Item: item, Index: minH.Len()})
				maxH.Push(&heap.Entry[c25Item, int64]{ID: item.id, Val: exp, Item: item, Index: maxH.Len()})
			}
			em.Add(batch)
			if mEh.maxPerExpiry() >= 3 && mEm.maxPerExpiry() >= 3 {
				labels[">=3-ids-on-one-expiry"] = true
				nt = true
			}
		case "remove":
			id := c25ID(op.ID)
			exp, in := mEh[id]
			mn, _ := mEh.min()
			got, ok := eh.Remove(id)
			if ok != in {
				return fmt.Errorf("%s: ExpiryHeap.Remove(%d) ok=%v, model contains=%v", where, op.ID, ok, in)
			}
			if ok && (got.id != id || got.exp != exp) {
				return fmt.Errorf("%s: ExpiryHeap.Remove(%d) returned %s/%d, model %s/%d", where, op.ID, got.id, got.exp, id, exp)
			}
			if in {
				delete(mEh, id)
				if exp > mn {
					removedNonMin = true
					labels["remove-non-minimum"] = true
				} else {
					labels["remove-minimum"] = true
				}
			} else {
				labels["remove-absent"] = true
			}
			for _, hm := range []struct {
				h *heap.Heap[c25Item, int64]
				m c25Model
				n string
			}{{minH, mMin, "min Heap"}, {maxH, mMax, "max Heap"}} {
				e, ok := hm.h.Get(id)
				_, in := hm.m[id]
				if ok != in {
					return fmt.Errorf("%s: %s Get(%d) ok=%v, model %v", where, hm.n, op.ID, ok, in)
				}
				if ok {
					r := hm.h.Remove(e.Index)
					if r == nil || r.ID != id {
						return fmt.Errorf("%s: %s Remove(Get(%d).Index) removed %v", where, hm.n, op.ID, r)
					}
					delete(hm.m, id)
				}
			}
		case "setmin":
			t := op.T
			mn, has := mEh.min()
			mx, _ := mEh.max()
			switch {
			case !has:
				labels["setmin-on-empty"] = true
			case t <= mn:
				labels["setmin-below-all"] = true
			case t > mx:
				labels["setmin-above-all"] = true
			default:
				labels["setmin-between"] = true
			}
			wantEm := mEm.below(t)
			gotEm := em.SetMin(t)
			if !c25SameSet(gotEm, wantEm) {
				return fmt.Errorf("%s: EMap.SetMin(%d) returned %v, the entries with expiry below it are %v", where, t, gotEm, wantEm)
			}
			for _, id := range wantEm {
				delete(mEm, id)
				evictedOnce[id] = true
			}
			wantEh := mEh.below(t)
			gotItems := eh.SetMin(t)
			gotEh := make([]ids.ID, 0, len(gotItems))
			for _, it := range gotItems {
				if e, in := mEh[it.id]; !in || e != it.exp {
					return fmt.Errorf("%s: ExpiryHeap.SetMin(%d) returned %s/%d, model has %d (present %v)", where, t, it.id, it.exp, e, in)
				}
				gotEh = append(gotEh, it.id)
			}
			if !c25SameSet(gotEh, wantEh) {
				return fmt.Errorf("%s: ExpiryHeap.SetMin(%d) returned %v, the entries with expiry below it are %v", where, t, gotEh, wantEh)
			}
			for _, id := range wantEh {
				delete(mEh, id)
			}
			if removedNonMin && len(wantEh) > 0 {
				labels["remove-non-minimum-then-evicting-setmin"] = true
				nt = true
			}
			if len(wantEh) > 0 && len(mEh) > 0 {
				labels["setmin-evicts-some-keeps-some"] = true
			}
			// equal-to-boundary: an entry with expiry == t must stay
			for _, e := range mEh {
				if e == t {
					labels["setmin-equal-expiry-kept"] = true
				}
			}
		case "pop":
			mn, has := mEh.min()
			it, ok := eh.PopMin()
			if ok != has {
				return fmt.Errorf("%s: ExpiryHeap.PopMin ok=%v, model non-empty=%v", where, ok, has)
			}
			if ok {
				if e, in := mEh[it.id]; !in || e != it.exp || it.exp != mn {
					return fmt.Errorf("%s: ExpiryHeap.PopMin returned %s/%d, model minimum %d", where, it.id, it.exp, mn)
				}
				delete(mEh, it.id)
			}
			for _, hm := range []struct {
				h     *heap.Heap[c25Item, int64]
				m     c25Model
				n     string
				isMin bool
			}{{minH, mMin, "min Heap", true}, {maxH, mMax, "max Heap", false}} {
				want, has := hm.m.min()
				if !hm.isMin {
					want, has = hm.m.max()
				}
				e := hm.h.Pop()
				if (e != nil) != has {
					return fmt.Errorf("%s: %s Pop non-nil=%v, model non-empty=%v", where, hm.n, e != nil, has)
				}
				if e != nil {
					if me, in := hm.m[e.ID]; !in || me != e.Val || e.Val != want {
						return fmt.Errorf("%s: %s Pop returned %s/%d, model extreme %d", where, hm.n, e.ID, e.Val, want)
					}
					delete(hm.m, e.ID)
				}
			}
		case "query":
			items := make([]c25Item, len(op.IDs))
			anyWant := false
			for i, x := range op.IDs {
				items[i] = c25Item{id: c25ID(x), exp: 5}
				if _, in := mEm[items[i].id]; in {
					anyWant = true
				}
			}
			if got := em.Any(items); got != anyWant {
				return fmt.Errorf("%s: EMap.Any=%v, model %v", where, got, anyWant)
			}
			marker := set.NewBits()
			pre := map[int]bool{}
			for _, p := range op.Marker {
				if len(items) > 0 {
					if p < 0 {
						p = -p
					}
					p %= len(items)
					marker.Add(p)
					pre[p] = true
				}
			}
			res := em.Contains(items, marker, op.Stop)
			fresh, freshWant := 0, 0
			for i := range items {
				_, in := mEm[items[i].id]
				if !pre[i] && in {
					freshWant++
				}
				switch {
				case pre[i]:
					if !res.Contains(i) {
						return fmt.Errorf("%s: EMap.Contains dropped pre-marked position %d", where, i)
					}
				case res.Contains(i):
					fresh++
					if !in {
						return fmt.Errorf("%s: EMap.Contains marks position %d (id %d) which is not in the set", where, i, op.IDs[i])
					}
				case !op.Stop && in:
					return fmt.Errorf("%s: EMap.Contains misses position %d (id %d) which is in the set", where, i, op.IDs[i])
				}
			}
			if op.Stop && (fresh > 0) != (freshWant > 0) {
				return fmt.Errorf("%s: EMap.Contains(stop) marked %d new positions, %d unmarked members present", where, fresh, freshWant)
			}
			if op.Stop {
				labels["contains-stop"] = true
			}
			if len(pre) > 0 {
				labels["contains-premarked"] = true
			}
		default:
			st.Skip("unknown-op")
			continue
		}
		if err := checkAll(where); err != nil {
			return err
		}
	}

	// drain: everything still tracked comes out, in expiry order for the heaps
	wantEm := mEm.below(math.MaxInt64)
	if got := em.SetMin(math.MaxInt64); !c25SameSet(got, wantEm) {
		return fmt.Errorf("final drain: EMap.SetMin(max) returned %v, model %v", got, wantEm)
	}
	prev := int64(math.MinInt64)
	for len(mEh) > 0 {
		it, ok := eh.PopMin()
		if !ok {
			return fmt.Errorf("final drain: ExpiryHeap empty with %d model entries left", len(mEh))
		}
		if e, in := mEh[it.id]; !in || e != it.exp || it.exp < prev {
			return fmt.Errorf("final drain: ExpiryHeap popped %s/%d after %d (model has %v)", it.id, it.exp, prev, in)
		}
		prev = it.exp
		delete(mEh, it.id)
	}
	if _, ok := eh.PopMin(); ok || eh.Len() != 0 {
		return fmt.Errorf("final drain: ExpiryHeap not empty after the model is")
	}
	for _, hm := range []struct {
		h     *heap.Heap[c25Item, int64]
		m     c25Model
		n     string
		isMin bool
	}{{minH, mMin, "min Heap", true}, {maxH, mMax, "max Heap", false}} {
		var last *int64
		for len(hm.m) > 0 {
			e := hm.h.Pop()
			if e == nil {
				return fmt.Errorf("final drain: %s empty with %d model entries left", hm.n, len(hm.m))
			}
			me, in := hm.m[e.ID]
			if !in || me != e.Val {
				return fmt.Errorf("final drain: %s popped %s/%d not in model", hm.n, e.ID, e.Val)
			}
			if last != nil && ((hm.isMin && e.Val < *last) || (!hm.isMin && e.Val > *last)) {
				return fmt.Errorf("final drain: %s popped %d after %d", hm.n, e.Val, *last)
			}
			v := e.Val
			last = &v
			delete(hm.m, e.ID)
		}
		if hm.h.Pop() != nil || hm.h.Len() != 0 {
			return fmt.Errorf("final drain: %s not empty after the model is", hm.n)
		}
	}

	ls := make([]string, 0, len(labels))
	for l := range labels {
		ls = append(ls, l)
	}
	sort.Strings(ls)
	canon, _ := json.Marshal(c)
	st.Case(nt, string(canon), ls...)
	st.Sample(nt, map[string]any{"ops": len(c.Ops), "labels": strings.Join(ls, ",")})
	return nil
}

func c25Gen(rt *rapid.T) c25Case {
	expGen := rapid.OneOf(
		rapid.Int64Range(0, 6), rapid.Int64Range(1, 4),
		rapid.SampledFrom([]int64{0, 1, 1 << 40, math.MaxInt64 - 1, math.MaxInt64}),
	)
	idGen := rapid.IntRange(0, c25IDs-1)
	opGen := rapid.Custom(func(rt *rapid.T) c25Op {
		var op c25Op
		op.Kind = rapid.SampledFrom([]string{"add", "add", "add", "add", "add", "add", "remove", "remove", "remove", "setmin", "setmin", "pop", "query", "query"}).Draw(rt, "kind")
		switch op.Kind {
		case "add":
			n := rapid.IntRange(1, 4).Draw(rt, "n")
			for i := 0; i < n; i++ {
				op.Adds = append(op.Adds, c25Add{ID: idGen.Draw(rt, "id"), Exp: expGen.Draw(rt, "exp")})
			}
		case "remove":
			op.ID = idGen.Draw(rt, "id")
		case "setmin":
			op.T = rapid.OneOf(rapid.Int64Range(0, 8), rapid.Int64Range(1, 4), rapid.Int64Range(1, 3), rapid.SampledFrom([]int64{math.MinInt64, -1, 0, 1 << 40, (1 << 40) + 1, math.MaxInt64 - 1, math.MaxInt64})).Draw(rt, "t")
		case "query":
			op.IDs = rapid.SliceOfN(idGen, 0, 6).Draw(rt, "ids")
			op.Marker = rapid.SliceOfN(rapid.IntRange(0, 5), 0, 2).Draw(rt, "marker")
			op.Stop = rapid.Bool().Draw(rt, "stop")
		}
		return op
	})
	return c25Case{Ops: rapid.SliceOfN(opGen, 4, 60).Draw(rt, "ops")}
}

func TestC25(t *testing.T) {
	st := vstat.New(t, "C25", "op lists (4..60 ops over 12 ids: batched add with expiries 0..6 / 2^40 / max, remove, set-min, pop-min, membership queries with pre-marked positions and stop flag) interpreted against emap.EMap, eheap.ExpiryHeap and heap.Heap (min and max), each compared after every op with a map id->expiry model (first expiry wins; EMap ignores expiry 0), followed by a full drain; non-trivial = a removal of a non-minimum entry followed by a set-min that evicts something, or >=3 ids sharing one expiry in both EMap and ExpiryHeap; distinct by the op list")
	rapid.Check(t, func(rt *rapid.T) {
		c := c25Gen(rt)
		vstat.Run(rt, st, c, func() error { return c25Run(c, st) })
	})
}

func TestC25Replay(t *testing.T) {
	vstat.Replay(t, "C25", func(raw []byte) error {
		var c c25Case
		if err := json.Unmarshal(raw, &c); err != nil {
			return err
		}
		return c25Run(c, vstat.New(nil, "C25", ""))
	})
}
