package light

import (
	"bytes"
	"encoding/json"
	"fmt"
	"testing"

	"pgregory.net/rapid"

	"github.com/ava-labs/hypersdk/state/metadata"
	"github.com/ava-labs/hypersdk/verifharness/vstat"
)

// C39: the prefix-conflict check reports a conflict iff one of the metadata /
// VM prefixes is a prefix of another (including equal prefixes).

type c39Case struct {
	Height, Fee, Timestamp []byte
	VM                     [][]byte
}

func c39Oracle(c c39Case) (bool, string) {
	all := append([][]byte{c.Height, c.Fee, c.Timestamp}, c.VM...)
	conflict := false
	kind := ""
	for i := range all {
		for j := range all {
			if i != j && bytes.HasPrefix(all[j], all[i]) {
				conflict = true
				switch {
				case bytes.Equal(all[i], all[j]):
					kind = "equal"
				case (i < 3) != (j < 3):
					if kind == "" {
						kind = "meta-vs-vm"
					}
				default:
					if kind == "" {
						kind = "same-class"
					}
				}
			}
		}
	}
	return conflict, kind
}

func c39Run(c c39Case, st *vstat.Stats) error {
	want, kind := c39Oracle(c)
	got := metadata.HasConflictingPrefixes(metadata.NewManager(c.Height, c.Fee, c.Timestamp), c.VM)
	nt := want && (kind == "equal" || kind == "meta-vs-vm")
	lbl := "no-conflict"
	if want {
		lbl = "conflict-" + kind
	}
	canon := fmt.Sprintf("%x|%x|%x|%x", c.Height, c.Fee, c.Timestamp, c.VM)
	st.Case(nt, canon, lbl)
	st.Sample(nt, map[string]any{"height": fmt.Sprintf("%x", c.Height), "fee": fmt.Sprintf("%x", c.Fee), "timestamp": fmt.Sprintf("%x", c.Timestamp), "vm": fmt.Sprintf("%x", c.VM), "conflict": want})
	if got != want {
		return fmt.Errorf("HasConflictingPrefixes=%v, brute force says %v (%s)", got, want, kind)
	}
	return nil
}

func c39Prefix() *rapid.Generator[[]byte] {
	return rapid.OneOf(
		rapid.SliceOfN(rapid.SampledFrom([]byte{0, 1}), 0, 3),
		rapid.SliceOfN(rapid.SampledFrom([]byte{0, 1, 2, 0xff}), 1, 4),
	)
}

func TestC39(t *testing.T) {
	st := vstat.New(t, "C39", "prefix lists (3 metadata slots + 0..8 VM prefixes, length 0..4 over a 2..4 symbol alphabet) compared with a brute-force pairwise prefix test; non-trivial = a conflict that involves equal prefixes or a metadata prefix against a VM prefix; distinct by the full prefix list")
	rapid.Check(t, func(rt *rapid.T) {
		c := c39Case{
			Height:    c39Prefix().Draw(rt, "height"),
			Fee:       c39Prefix().Draw(rt, "fee"),
			Timestamp: c39Prefix().Draw(rt, "timestamp"),
			VM:        rapid.SliceOfN(c39Prefix(), 0, 8).Draw(rt, "vm"),
		}
		vstat.Run(rt, st, c, func() error { return c39Run(c, st) })
	})
}

// TestC39Exhaustive enumerates every assignment of prefixes of length <= 2
// over {0,1} to the three metadata slots and up to two VM prefixes.
func TestC39Exhaustive(t *testing.T) {
	st := vstat.New(t, "C39", "exhaustive: all prefixes of length <=2 over {0,1} in 3 metadata slots and 0..2 VM prefixes")
	st.Exhaustive = true
	var univ [][]byte
	univ = append(univ, []byte{})
	for _, a := range []byte{0, 1} {
		univ = append(univ, []byte{a})
		for _, b := range []byte{0, 1} {
			univ = append(univ, []byte{a, b})
		}
	}
	n := len(univ)
	for h := 0; h < n; h++ {
		for f := 0; f < n; f++ {
			for ts := 0; ts < n; ts++ {
				for nvm := 0; nvm <= 2; nvm++ {
					lim := 1
					for i := 0; i < nvm; i++ {
						lim *= n
					}
					for code := 0; code < lim; code++ {
						vm := [][]byte{}
						x := code
						for i := 0; i < nvm; i++ {
							vm = append(vm, univ[x%n])
							x /= n
						}
						c := c39Case{Height: univ[h], Fee: univ[f], Timestamp: univ[ts], VM: vm}
						vstat.Run(t, st, c, func() error { return c39Run(c, st) })
					}
				}
			}
		}
	}
}

func TestC39Replay(t *testing.T) {
	vstat.Replay(t, "C39", func(raw []byte) error {
		var c c39Case
		if err := json.Unmarshal(raw, &c); err != nil {
			return err
		}
		return c39Run(c, vstat.New(nil, "C39", ""))
	})
}
