// Package codecprops holds the checks of C14 (generated transactions budget
// enough fee) and C15 (one canonical encoding for transactions, blocks,
// batches and execution results).
package codecprops

import (
	"crypto/elliptic"
	"crypto/sha256"
	"fmt"
	"math/big"
	"sync"

	stded "crypto/ed25519"

	"github.com/ava-labs/hypersdk/auth"
	"github.com/ava-labs/hypersdk/chain"
	"github.com/ava-labs/hypersdk/chain/chaintest"
	"github.com/ava-labs/hypersdk/codec"
	"github.com/ava-labs/hypersdk/crypto/bls"
	"github.com/ava-labs/hypersdk/crypto/ed25519"
	"github.com/ava-labs/hypersdk/crypto/secp256r1"
	"github.com/ava-labs/hypersdk/verifharness/fixture"

	mactions "github.com/ava-labs/hypersdk/examples/morpheusvm/actions"
	mconsts "github.com/ava-labs/hypersdk/examples/morpheusvm/consts"
)

const (
	schemeEd   = 0
	schemeSecp = 1
	schemeBLS  = 2
	schemeStub = 3
)

var schemeNames = [...]string{"ed25519", "secp256r1", "bls", "stub"}

var (
	secpN   = elliptic.P256().Params().N
	blsR, _ = new(big.Int).SetString("73eda753299d7d483339d80809a1d80553bda402fffe5bfeffffffff00000001", 16)
	bigOne  = big.NewInt(1)
)

// Honest keys, deterministic from a label: ed25519 uses the RFC 8032 seed,
// secp256r1 / BLS a uniformly distributed valid scalar (seed mod (order-1) + 1).
func scalarFromSeed(seed [32]byte, order *big.Int) []byte {
	x := new(big.Int).SetBytes(seed[:])
	x.Mod(x, new(big.Int).Sub(order, bigOne))
	x.Add(x, bigOne)
	out := make([]byte, 32)
	x.FillBytes(out)
	return out
}

func factoryFromSeed(scheme int, seed [32]byte) chain.AuthFactory {
	switch scheme {
	case schemeEd:
		return auth.NewED25519Factory(ed25519.PrivateKey(stded.NewKeyFromSeed(seed[:])))
	case schemeSecp:
		return auth.NewSECP256R1Factory(secp256r1.PrivateKey(scalarFromSeed(seed, secpN)))
	case schemeBLS:
		k, err := bls.PrivateKeyFromBytes(scalarFromSeed(seed, blsR))
		if err != nil {
			panic(fmt.Sprintf("bls key from seed: %v", err))
		}
		return auth.NewBLSFactory(k)
	}
	panic("no factory for scheme")
}

const poolSize = 4

var (
	poolOnce      sync.Once
	poolFactories [3][poolSize]chain.AuthFactory
)

// keyPool returns the i-th real auth factory of a scheme.
func keyPool(scheme, i int) chain.AuthFactory {
	poolOnce.Do(func() {
		for s := 0; s < 3; s++ {
			for k := 0; k < poolSize; k++ {
				seed := sha256.Sum256([]byte(fmt.Sprintf("verif-codecprops-key-%d-%d", s, k)))
				poolFactories[s][k] = factoryFromSeed(s, seed)
			}
		}
	})
	return poolFactories[scheme][((i%poolSize)+poolSize)%poolSize]
}

// refAddr is a small pool of recipient addresses for Transfer actions.
func refAddr(i int) codec.Address {
	var a codec.Address
	a[0] = auth.ED25519ID
	a[1] = byte(0x50 + i)
	a[codec.AddressLen-1] = byte(i)
	return a
}

// Reference-VM action sets. MorpheusVM's Transfer and chaintest.TestAction
// both use type id 0, so a parser knows at most one of them.
const (
	refNone     = 0 // framework layer only: ProgAction
	refTransfer = 1 // + examples/morpheusvm/actions.Transfer
	refTestAct  = 2 // + chain/chaintest.TestAction
)

var refNames = [...]string{"none", "transfer", "testaction"}

// fixtureParser is the harness parser: ProgAction and StubAuth natively, the
// real auth parsers always, one reference-VM action type if asked for.
func fixtureParser(ref int) *fixture.Parser {
	p := &fixture.Parser{
		ExtraActions: map[uint8]func([]byte) (chain.Action, error){},
		ExtraAuths: map[uint8]func([]byte) (chain.Auth, error){
			auth.ED25519ID:   auth.UnmarshalED25519,
			auth.SECP256R1ID: auth.UnmarshalSECP256R1,
			auth.BLSID:       auth.UnmarshalBLS,
		},
	}
	switch ref {
	case refTransfer:
		p.ExtraActions[mconsts.TransferID] = mactions.UnmarshalTransfer
	case refTestAct:
		p.ExtraActions[chaintest.TestActionID] = chaintest.UnmarshalTestAction
	}
	return p
}

// typeParser is the production parser shape: chain.TxTypeParser over two
// codec.TypeParser registries (codec/type_parser.go is part of C15's anchors).
func typeParser(ref int) *chain.TxTypeParser {
	ar := codec.NewTypeParser[chain.Action]()
	au := codec.NewTypeParser[chain.Auth]()
	must := func(err error) {
		if err != nil {
			panic(err)
		}
	}
	must(ar.Register(&fixture.ProgAction{}, fixture.UnmarshalProgAction))
	switch ref {
	case refTransfer:
		must(ar.Register(&mactions.Transfer{}, mactions.UnmarshalTransfer))
	case refTestAct:
		must(ar.Register(&chaintest.TestAction{}, chaintest.UnmarshalTestAction))
	}
	must(au.Register(&fixture.StubAuth{}, fixture.UnmarshalStubAuth))
	must(au.Register(&auth.ED25519{}, auth.UnmarshalED25519))
	must(au.Register(&auth.SECP256R1{}, auth.UnmarshalSECP256R1))
	must(au.Register(&auth.BLS{}, auth.UnmarshalBLS))
	return chain.NewTxTypeParser(ar, au)
}

var (
	parsersOnce sync.Once
	parsers     [3][2]chain.Parser // [ref][useTypeParser]
)

func parserFor(ref int, useTypeParser bool) chain.Parser {
	parsersOnce.Do(func() {
		for r := 0; r < 3; r++ {
			parsers[r][0] = fixtureParser(r)
			parsers[r][1] = typeParser(r)
		}
	})
	t := 0
	if useTypeParser {
		t = 1
	}
	return parsers[ref][t]
}
