package codecprops

// Fixed seed cases of the defects C14 / C15 found on the pinned tree (F2b, F15).
// They are replayed as plain regression stages so that a re-introduction is
// reported at any seed.

import (
	"fmt"
	"testing"

	"github.com/ava-labs/hypersdk/verifharness/fixture"
	"github.com/ava-labs/hypersdk/verifharness/vstat"
)

type c14Seed struct {
	Name string
	Case c14Case
}

func c14SeedCases() []c14Seed {
	blob := func(n, size int) []c14Act {
		out := make([]c14Act, n)
		for i := range out {
			out[i] = c14Act{Kind: c14Blob, Size: size, Fill: 7, Compute: 1, Nonce: uint64(i)}
		}
		return out
	}
	base := c14Case{BaseCompute: 1, Storage: [6]uint64{5, 2, 20, 5, 10, 3}, Scheme: schemeEd, Prices: [5]uint64{100, 100, 100, 100, 100},
		Now: 1_724_315_246_000, Window: 60_000}
	mk := func(max uint8, acts []c14Act, scheme int) c14Case {
		c := base
		c.MaxActions, c.Actions, c.Scheme = max, acts, scheme
		return c
	}
	return []c14Seed{
		// default rules (16 actions per tx) already under-estimate once actions need a 2-byte length
		{"F2b-default-rules-16x200B-ed25519", mk(16, blob(16, 200), schemeEd)},
		{"F2b-default-rules-10x16KiB-bls", mk(16, blob(10, 16384), schemeBLS)},
		{"F2b-32x1B-secp256r1", mk(32, blob(32, 1), schemeSecp)},
		{"F2b-255x127B-stub", mk(255, blob(255, 127), schemeStub)},
	}
}

func TestC14Regression(t *testing.T) {
	st := vstat.New(t, "C14", "fixed seed cases of F2b (per-action framing missing from the bandwidth estimate): default rules with 16 x 200 B and 10 x 16 KiB actions, 32 x 1 B, 255 x 127 B")
	for _, sc := range c14SeedCases() {
		t.Run(sc.Name, func(t *testing.T) {
			vstat.Run(t, st, sc.Case, func() error {
				if err := c14Run(sc.Case, st); err != nil {
					return fmt.Errorf("seed case %s: %w", sc.Name, err)
				}
				return nil
			})
		})
	}
}

type c15Seed struct {
	Name string
	Case c15Case
}

func c15SeedCases() []c15Seed {
	stubTx := func(acts ...actSpec) txSpec {
		s := txSpec{Timestamp: 1_700_000_000_000, ChainID: fixture.ChainID[:], MaxFee: 1000, Actions: acts, Scheme: schemeStub,
			Stub: stubSpec{Sponsor: 1, Actor: 1, Compute: 1, Start: -1, End: -1, Valid: true}}
		s.sign()
		return s
	}
	transfer := actSpec{Kind: actTransfer, To: 1, Value: 5, Memo: []byte("m")}
	testAct := actSpec{Kind: actTestAction, TA: &taSpec{Compute: 1, Start: -1, End: -1}}
	prog := actSpec{Kind: actProg, Prog: &fixture.ActSpec{Compute: 1, Start: -1, End: -1}}
	trailing := []mutSpec{{Path: []int{1}, Op: "append", Data: []byte{0}}}
	return []c15Seed{
		{"F15-transfer-trailing-byte", c15Case{Ref: refTransfer, Kind: kindTx, Txs: []txSpec{stubTx(transfer)}, Muts: trailing}},
		{"F15-testaction-trailing-byte", c15Case{Ref: refTestAct, Kind: kindTx, TypeParser: true, Txs: []txSpec{stubTx(testAct)}, Muts: trailing}},
		{"F15-transfer-trailing-in-block", c15Case{Ref: refTransfer, Kind: kindBlock, Txs: []txSpec{stubTx(prog, transfer)},
			Hdr:  hdrSpec{Parent: filled(32, 1), Timestamp: 5, Height: 2, StateRoot: filled(32, 2)},
			Muts: []mutSpec{{Path: []int{3, 2}, Op: "append", Data: []byte{0xff, 0xff}}}}},
		{"framework-prog-trailing-byte", c15Case{Ref: refNone, Kind: kindTx, Txs: []txSpec{stubTx(prog)}, Muts: trailing}},
	}
}

func TestC15Regression(t *testing.T) {
	st := vstat.New(t, "C15", "fixed seed cases of F15 (reference action parsers accepted trailing bytes): Transfer / TestAction with one trailing byte in a tx, Transfer with two in a block; plus the framework twin (ProgAction)")
	for _, sc := range c15SeedCases() {
		t.Run(sc.Name, func(t *testing.T) {
			vstat.Run(t, st, sc.Case, func() error {
				if err := c15Run(sc.Case, st); err != nil {
					return fmt.Errorf("seed case %s: %w", sc.Name, err)
				}
				return nil
			})
		})
	}
}
