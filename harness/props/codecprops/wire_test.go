package codecprops

// Harness-side model of the canoto / protobuf wire format, written without
// the canoto library: a message is a tree of fields; the tree is what the
// mutation grammar edits, and encoding the tree re-frames every enclosing
// length prefix automatically.

import (
	"encoding/binary"
	"errors"
	"fmt"
)

const (
	wtVarint = 0
	wtI64    = 1
	wtLen    = 2
	wtI32    = 5
)

// node is one field of a message (or the root message when Root is set).
type node struct {
	Root   bool
	Field  uint32
	WT     uint8
	Schema string  // message schema of the payload ("" for a leaf)
	Level  string  // nesting level used for labels: tx, base, action, auth, block, ...
	Kids   []*node // payload of a message node
	Val    []byte  // payload of a leaf: raw varint bytes, fixed bytes, or the bytes of a Len field
	Tail   []byte  // raw bytes appended to the payload after the children (message nodes)
	TagRaw []byte  // override of the encoded tag
	LenRaw []byte  // override of the encoded length prefix (Len fields)
	Cut    int     // bytes removed from the end of the payload before framing
}

func uvarint(v uint64) []byte { return binary.AppendUvarint(nil, v) }

// paddedUvarint is a non-minimal encoding of v: the minimal one with the
// continuation bit set on its last byte followed by `pad` zero groups.
func paddedUvarint(v uint64, pad int) []byte {
	b := uvarint(v)
	if pad < 1 {
		pad = 1
	}
	b[len(b)-1] |= 0x80
	for i := 0; i < pad-1; i++ {
		b = append(b, 0x80)
	}
	return append(b, 0x00)
}

func zigzag(v int64) uint64 { return uint64(v<<1) ^ uint64(v>>63) }

func (n *node) isMsg() bool { return n.Root || n.Schema != "" }

func (n *node) payload() []byte {
	var p []byte
	if n.isMsg() {
		for _, k := range n.Kids {
			p = k.encode(p)
		}
		p = append(p, n.Tail...)
	} else {
		p = append(p, n.Val...)
	}
	if n.Cut > 0 {
		if n.Cut >= len(p) {
			p = p[:0]
		} else {
			p = p[:len(p)-n.Cut]
		}
	}
	return p
}

func (n *node) encode(dst []byte) []byte {
	p := n.payload()
	if n.Root {
		return append(dst, p...)
	}
	if n.TagRaw != nil {
		dst = append(dst, n.TagRaw...)
	} else {
		dst = append(dst, uvarint(uint64(n.Field)<<3|uint64(n.WT))...)
	}
	if n.WT == wtLen {
		if n.LenRaw != nil {
			dst = append(dst, n.LenRaw...)
		} else {
			dst = append(dst, uvarint(uint64(len(p)))...)
		}
	}
	return append(dst, p...)
}

func (n *node) clone() *node {
	c := *n
	c.Val = append([]byte(nil), n.Val...)
	c.Tail = append([]byte(nil), n.Tail...)
	c.TagRaw = append([]byte(nil), n.TagRaw...)
	c.LenRaw = append([]byte(nil), n.LenRaw...)
	if n.TagRaw == nil {
		c.TagRaw = nil
	}
	if n.LenRaw == nil {
		c.LenRaw = nil
	}
	c.Kids = make([]*node, len(n.Kids))
	for i, k := range n.Kids {
		c.Kids[i] = k.clone()
	}
	return &c
}

// ---- constructors (canonical encodings: zero-valued singular fields are omitted) ----

func leafVarint(level string, field uint32, v uint64) *node {
	return &node{Field: field, WT: wtVarint, Level: level, Val: uvarint(v)}
}

func leafFixed64(level string, field uint32, v uint64) *node {
	return &node{Field: field, WT: wtI64, Level: level, Val: binary.LittleEndian.AppendUint64(nil, v)}
}

func leafBytes(level string, field uint32, b []byte) *node {
	return &node{Field: field, WT: wtLen, Level: level, Val: append([]byte{}, b...)}
}

func msgNode(level, schema string, field uint32, kids []*node) *node {
	return &node{Field: field, WT: wtLen, Level: level, Schema: schema, Kids: kids}
}

func rootNode(level, schema string, kids []*node) *node {
	return &node{Root: true, Level: level, Schema: schema, Kids: kids}
}

func isZero(b []byte) bool {
	for _, x := range b {
		if x != 0 {
			return false
		}
	}
	return true
}

func packed5(v [5]uint64) []byte {
	var b []byte
	for _, x := range v {
		b = binary.LittleEndian.AppendUint64(b, x)
	}
	return b
}

// ---- schemas: what an explicit zero value of each known field looks like ----

type fieldDef struct {
	Field uint32
	WT    uint8
	Zero  int // length of an explicit all-zero payload
}

var schemas = map[string][]fieldDef{
	"tx":     {{1, wtLen, 0}, {2, wtLen, 0}, {3, wtLen, 0}},
	"base":   {{1, wtVarint, 1}, {2, wtLen, 32}, {3, wtI64, 8}},
	"block":  {{1, wtLen, 32}, {2, wtI64, 8}, {3, wtI64, 8}, {4, wtLen, 0}, {5, wtLen, 0}, {6, wtLen, 32}},
	"ctx":    {{1, wtVarint, 1}},
	"batch":  {{1, wtLen, 0}},
	"result": {{1, wtVarint, 1}, {2, wtLen, 0}, {3, wtLen, 0}, {4, wtLen, 40}, {5, wtI64, 8}},
	"er":     {{1, wtLen, 0}, {2, wtLen, 40}, {3, wtLen, 40}},
	"eb":     {{1, wtLen, 0}, {2, wtLen, 0}},
}

// ---- lenient reader, independent of canoto: top-level field spans of a message ----

type span struct {
	Field      uint64
	WT         uint8
	Start      int // first byte of the tag
	PayloadOff int // first byte of the payload (after tag and length prefix)
	End        int // one past the last byte of the field
}

var errWire = errors.New("not a well-formed sequence of wire fields")

func walkFields(b []byte) ([]span, error) {
	var out []span
	off := 0
	for off < len(b) {
		tag, n := binary.Uvarint(b[off:])
		if n <= 0 {
			return nil, fmt.Errorf("%w: bad tag at %d", errWire, off)
		}
		s := span{Field: tag >> 3, WT: uint8(tag & 7), Start: off}
		off += n
		switch s.WT {
		case wtVarint:
			_, m := binary.Uvarint(b[off:])
			if m <= 0 {
				return nil, fmt.Errorf("%w: bad varint at %d", errWire, off)
			}
			s.PayloadOff, s.End = off, off+m
		case wtI64:
			s.PayloadOff, s.End = off, off+8
		case wtI32:
			s.PayloadOff, s.End = off, off+4
		case wtLen:
			l, m := binary.Uvarint(b[off:])
			if m <= 0 || l > uint64(len(b)) {
				return nil, fmt.Errorf("%w: bad length at %d", errWire, off)
			}
			s.PayloadOff, s.End = off+m, off+m+int(l)
		default:
			return nil, fmt.Errorf("%w: wire type %d at %d", errWire, s.WT, s.Start)
		}
		if s.End > len(b) {
			return nil, fmt.Errorf("%w: field at %d overruns the message", errWire, s.Start)
		}
		off = s.End
		out = append(out, s)
	}
	return out, nil
}

// withoutField returns b with every top-level occurrence of the field removed.
func withoutField(b []byte, field uint64) ([]byte, int, error) {
	spans, err := walkFields(b)
	if err != nil {
		return nil, 0, err
	}
	out := make([]byte, 0, len(b))
	removed := 0
	for _, s := range spans {
		if s.Field == field {
			removed++
			continue
		}
		out = append(out, b[s.Start:s.End]...)
	}
	return out, removed, nil
}

// payloadsOf returns the payload bytes of every top-level occurrence of a field.
func payloadsOf(b []byte, field uint64) ([][]byte, error) {
	spans, err := walkFields(b)
	if err != nil {
		return nil, err
	}
	var out [][]byte
	for _, s := range spans {
		if s.Field == field {
			out = append(out, b[s.PayloadOff:s.End])
		}
	}
	return out, nil
}
