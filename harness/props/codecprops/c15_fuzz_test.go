package codecprops

// Native fuzz targets of C15 (thorough tier). They run the acceptance oracle
// of c15_test.go on arbitrary bytes. The committed seed corpora under
// testdata/fuzz/ are produced by the rapid mutation grammar
// (TestC15WriteCorpus): clean encodings, accepted-but-odd and rejected mutants.

import (
	"crypto/sha256"
	"encoding/hex"
	"fmt"
	"os"
	"path/filepath"
	"strconv"
	"testing"

	"pgregory.net/rapid"
)

func fuzzOracle(t *testing.T, b []byte, kinds []int, refs []int) {
	for _, ref := range refs {
		for _, tp := range []bool{false, true} {
			p := parserFor(ref, tp)
			for _, k := range kinds {
				if _, _, viol := checkBytes(k, b, p); viol != nil {
					layer := "framework"
					if ref != refNone {
						layer = "reference-action:" + refNames[ref]
					}
					t.Fatalf("[%s layer] %s decoder (TxTypeParser=%v): %v", layer, kindNames[k], tp, viol)
				}
			}
		}
	}
}

func FuzzC15Tx(f *testing.F) {
	f.Add([]byte{0x1a, 0x01, 0x09})
	f.Fuzz(func(t *testing.T, b []byte) { fuzzOracle(t, b, []int{kindTx, kindBatch}, []int{refNone}) })
}

func FuzzC15Block(f *testing.F) {
	f.Add([]byte{0x11, 1, 0, 0, 0, 0, 0, 0, 0})
	f.Fuzz(func(t *testing.T, b []byte) { fuzzOracle(t, b, []int{kindBlock, kindExecutedBlock}, []int{refNone}) })
}

func FuzzC15Result(f *testing.F) {
	f.Add([]byte{0x08, 0x01})
	f.Fuzz(func(t *testing.T, b []byte) { fuzzOracle(t, b, []int{kindResult, kindExecResults}, []int{refNone}) })
}

// FuzzC15TxRef is the reference-VM layer (actions.Transfer / chaintest.TestAction parsers).
func FuzzC15TxRef(f *testing.F) {
	f.Add([]byte{0x12, 0x01, 0x00})
	f.Fuzz(func(t *testing.T, b []byte) {
		fuzzOracle(t, b, []int{kindTx, kindBatch, kindBlock}, []int{refTransfer, refTestAct})
	})
}

// TestC15WriteCorpus regenerates the committed seed corpora (only when
// VERIF_WRITE_CORPUS=1): grammar-produced inputs, deterministic per index.
func TestC15WriteCorpus(t *testing.T) {
	if os.Getenv("VERIF_WRITE_CORPUS") != "1" {
		t.Skip("VERIF_WRITE_CORPUS != 1")
	}
	type target struct {
		name  string
		kinds map[int]bool
		refs  []int
	}
	targets := []target{
		{"FuzzC15Tx", map[int]bool{kindTx: true, kindBatch: true}, []int{refNone}},
		{"FuzzC15Block", map[int]bool{kindBlock: true, kindExecutedBlock: true}, []int{refNone}},
		{"FuzzC15Result", map[int]bool{kindResult: true, kindExecResults: true}, []int{refNone}},
		{"FuzzC15TxRef", map[int]bool{kindTx: true, kindBatch: true, kindBlock: true}, []int{refTransfer, refTestAct}},
	}
	for _, tg := range targets {
		dir := filepath.Join("testdata", "fuzz", tg.name)
		_ = os.RemoveAll(dir)
		if err := os.MkdirAll(dir, 0o755); err != nil {
			t.Fatal(err)
		}
		quota := map[string]int{"clean": 8, "accepted": 30, "rejected": 14}
		written := 0
		for seed := 1; seed < 4000 && (quota["clean"] > 0 || quota["accepted"] > 0 || quota["rejected"] > 0); seed++ {
			ref := tg.refs[seed%len(tg.refs)]
			c := rapid.Custom(func(rt *rapid.T) c15Case { return c15Gen(rt, ref) }).Example(seed)
			if !tg.kinds[c.Kind] {
				continue
			}
			parser := parserFor(c.Ref, false)
			clean, _, err := c.buildClean(parser)
			if err != nil {
				t.Fatal(err)
			}
			mut, _, desc := c.mutate(c.tree(), nil)
			if len(mut) > 1500 || len(clean) > 1500 {
				continue
			}
			acc, _, viol := checkBytes(c.Kind, mut, parser)
			if viol != nil {
				continue // never seed the corpus with a failing input
			}
			put := func(class string, b []byte) {
				if quota[class] <= 0 {
					return
				}
				quota[class]--
				h := sha256.Sum256(b)
				name := filepath.Join(dir, fmt.Sprintf("%s-%s", class, hex.EncodeToString(h[:6])))
				body := "go test fuzz v1\n[]byte(" + strconv.Quote(string(b)) + ")\n"
				if err := os.WriteFile(name, []byte(body), 0o644); err != nil {
					t.Fatal(err)
				}
				written++
			}
			switch {
			case string(mut) == string(clean):
				put("clean", clean)
			case acc != nil:
				put("accepted", mut)
				put("clean", clean)
			default:
				put("rejected", mut)
			}
			_ = desc
		}
		t.Logf("%s: %d seed inputs", tg.name, written)
	}
}
