package codecprops

// The mutation grammar of C15: edits of the harness wire tree at a chosen
// nesting level (field order, duplicates, explicit zero values, non-minimal
// varints, trailing bytes, truncation, oversized / empty payloads, ...). Every
// enclosing length prefix is re-framed when the tree is encoded.

import (
	"encoding/binary"

	"pgregory.net/rapid"
)

type mutSpec struct {
	Path []int  // child indices from the root; empty = the root message
	Op   string // see applyMut
	I, J int
	Data []byte `json:",omitempty"`
}

var (
	byteOps = []string{"bcut", "bflip", "bappend"}
)

func resolve(root *node, path []int) *node {
	cur := root
	for _, p := range path {
		if !cur.isMsg() || len(cur.Kids) == 0 {
			return nil
		}
		cur = cur.Kids[((p%len(cur.Kids))+len(cur.Kids))%len(cur.Kids)]
	}
	return cur
}

func decodeUvarintLenient(b []byte) uint64 {
	v, n := binary.Uvarint(b)
	if n <= 0 {
		return 0
	}
	return v
}

// applyMut edits the tree in place; false = not applicable to this tree.
func applyMut(root *node, m mutSpec) bool {
	t := resolve(root, m.Path)
	if t == nil {
		return false
	}
	idx := func(n int) (int, bool) {
		if n <= 0 {
			return 0, false
		}
		return ((m.I % n) + n) % n, true
	}
	switch m.Op {
	// ---- message level
	case "swap":
		if !t.isMsg() || len(t.Kids) < 2 {
			return false
		}
		i, _ := idx(len(t.Kids) - 1)
		t.Kids[i], t.Kids[i+1] = t.Kids[i+1], t.Kids[i]
	case "dup", "dupend":
		if !t.isMsg() || len(t.Kids) < 1 {
			return false
		}
		i, _ := idx(len(t.Kids))
		c := t.Kids[i].clone()
		if m.Op == "dupend" {
			t.Kids = append(t.Kids, c)
		} else {
			t.Kids = append(t.Kids[:i+1], append([]*node{c}, t.Kids[i+1:]...)...)
		}
	case "del":
		if !t.isMsg() || len(t.Kids) < 1 {
			return false
		}
		i, _ := idx(len(t.Kids))
		t.Kids = append(t.Kids[:i:i], t.Kids[i+1:]...)
	case "move":
		if !t.isMsg() || len(t.Kids) < 2 {
			return false
		}
		i, _ := idx(len(t.Kids))
		k := t.Kids[i]
		rest := append(t.Kids[:i:i], t.Kids[i+1:]...)
		j := ((m.J % (len(rest) + 1)) + len(rest) + 1) % (len(rest) + 1)
		t.Kids = append(rest[:j:j], append([]*node{k}, rest[j:]...)...)
	case "zerofield":
		defs := schemas[t.Schema]
		if !t.isMsg() || len(defs) == 0 {
			return false
		}
		i, _ := idx(len(defs))
		d := defs[i]
		z := &node{Field: d.Field, WT: d.WT, Level: t.Level + ".zero", Val: make([]byte, d.Zero)}
		pos := len(t.Kids)
		if m.J%2 == 0 { // canonical position: before the first field with a larger number
			for k, kid := range t.Kids {
				if kid.Field > d.Field {
					pos = k
					break
				}
			}
		}
		t.Kids = append(t.Kids[:pos:pos], append([]*node{z}, t.Kids[pos:]...)...)
	case "tail", "tailfield":
		if !t.isMsg() || len(m.Data) == 0 {
			return false
		}
		t.Tail = append(t.Tail, m.Data...)
	case "cut":
		if !t.isMsg() || m.I <= 0 {
			return false
		}
		t.Cut = m.I
	case "empty":
		if !t.isMsg() || t.Root {
			return false
		}
		t.Kids, t.Tail = nil, nil
	// ---- field framing
	case "padtag":
		if t.Root {
			return false
		}
		t.TagRaw = paddedUvarint(uint64(t.Field)<<3|uint64(t.WT), 1+abs(m.I)%3)
	case "padlen":
		if t.Root || t.WT != wtLen {
			return false
		}
		t.LenRaw = paddedUvarint(uint64(len(t.payload())), 1+abs(m.I)%3)
	case "lendelta":
		if t.Root || t.WT != wtLen || m.I == 0 {
			return false
		}
		l := int64(len(t.payload())) + int64(m.I)
		if l < 0 {
			l = 0
		}
		t.LenRaw = uvarint(uint64(l))
	case "wt":
		if t.Root {
			return false
		}
		w := []uint8{wtVarint, wtI64, wtLen, wtI32, 3, 4, 6, 7}[abs(m.I)%8]
		if w == t.WT {
			return false
		}
		t.WT = w
	case "fieldnum":
		if t.Root {
			return false
		}
		f := uint32(abs(m.I) % 40)
		if f == t.Field {
			return false
		}
		t.Field = f
	// ---- leaf payload
	case "flip":
		if t.isMsg() || len(t.Val) == 0 {
			return false
		}
		i, _ := idx(len(t.Val))
		mask := byte(m.J)
		if mask == 0 {
			mask = 1
		}
		t.Val[i] ^= mask
	case "append":
		if t.isMsg() || len(m.Data) == 0 {
			return false
		}
		t.Val = append(t.Val, m.Data...)
	case "trunc":
		if t.isMsg() || len(t.Val) == 0 || m.I <= 0 {
			return false
		}
		k := m.I
		if k > len(t.Val) {
			k = len(t.Val)
		}
		t.Val = t.Val[:len(t.Val)-k]
	case "clear":
		if t.isMsg() || len(t.Val) == 0 {
			return false
		}
		t.Val = nil
	case "zero":
		if t.isMsg() || len(t.Val) == 0 || isZero(t.Val) {
			return false
		}
		for i := range t.Val {
			t.Val[i] = 0
		}
	case "padvarint":
		if t.isMsg() || t.WT != wtVarint {
			return false
		}
		t.Val = paddedUvarint(decodeUvarintLenient(t.Val), 1+abs(m.I)%3)
	case "replace":
		if t.isMsg() {
			return false
		}
		t.Val = append([]byte{}, m.Data...)
	default:
		return false
	}
	return true
}

func abs(x int) int {
	if x < 0 {
		if x == -x { // MinInt
			return 0
		}
		return -x
	}
	return x
}

// applyByteMut edits the final encoding.
func applyByteMut(b []byte, m mutSpec) ([]byte, bool) {
	switch m.Op {
	case "bcut":
		if len(b) == 0 || m.I <= 0 {
			return b, false
		}
		k := 1 + (m.I-1)%len(b)
		return append([]byte{}, b[:len(b)-k]...), true
	case "bflip":
		if len(b) == 0 {
			return b, false
		}
		out := append([]byte{}, b...)
		mask := byte(m.J)
		if mask == 0 {
			mask = 1
		}
		out[abs(m.I)%len(b)] ^= mask
		return out, true
	case "bappend":
		if len(m.Data) == 0 {
			return b, false
		}
		return append(append([]byte{}, b...), m.Data...), true
	}
	return b, false
}

// opClass maps an operation to the class of malformation named in the property text.
func opClass(op string) string {
	switch op {
	case "swap", "move":
		return "reordered-fields"
	case "dup", "dupend":
		return "duplicated-fields"
	case "del":
		return "missing-field"
	case "zerofield", "zero", "clear", "empty":
		return "zero-valued-or-empty"
	case "tail", "tailfield", "append", "bappend":
		return "trailing-bytes-or-oversized"
	case "cut", "trunc", "bcut", "lendelta":
		return "truncated-or-wrong-length"
	case "padtag", "padlen", "padvarint":
		return "non-minimal-varint"
	case "wt", "fieldnum":
		return "retyped-field"
	}
	return "value-change"
}

func isByteOp(op string) bool { return op == "bcut" || op == "bflip" || op == "bappend" }

// ---- generation of one mutation against a concrete tree ----

type located struct {
	n    *node
	path []int
}

func collect(n *node, path []int, out *[]located) {
	*out = append(*out, located{n, append([]int{}, path...)})
	if n.isMsg() {
		for i, k := range n.Kids {
			collect(k, append(path, i), out)
		}
	}
}

// levelClass groups the node levels into the nesting levels the labels report.
func levelClass(n *node) string {
	switch n.Level {
	case "base.timestamp", "base.chainid", "base.maxfee":
		return "base-field"
	case "block.parent", "block.timestamp", "block.height", "block.stateroot", "ctx.pchain":
		return "block-field"
	case "result.success", "result.error", "result.units", "result.fee", "er.prices", "er.consumed":
		return "result-field"
	case "result.output":
		return "output"
	}
	return n.Level
}

func genGarbage(rt *rapid.T, label string) []byte {
	switch rapid.IntRange(0, 4).Draw(rt, label+"kind") {
	case 0:
		return []byte{0}
	case 1:
		return []byte{rapid.Byte().Draw(rt, label+"b")}
	case 2:
		return rapid.SliceOfN(rapid.Byte(), 1, 4).Draw(rt, label+"bytes")
	case 3:
		n := rapid.SampledFrom([]int{8, 32, 64, 127, 128, 300, 5000}).Draw(rt, label+"n")
		return filled(n, rapid.Byte().Draw(rt, label+"fill"))
	default:
		return []byte{0x00, 0x00}
	}
}

// genUnknownField renders a well-formed field the schema does not know (or a
// known number with another wire type).
func genUnknownField(rt *rapid.T) []byte {
	f := rapid.SampledFrom([]uint64{0, 1, 2, 3, 4, 5, 6, 7, 8, 15, 16, 100}).Draw(rt, "ufield")
	switch rapid.IntRange(0, 2).Draw(rt, "uwt") {
	case 0:
		return append(uvarint(f<<3|wtVarint), 1)
	case 1:
		return append(uvarint(f<<3|wtLen), 1, 0xAA)
	default:
		return append(uvarint(f<<3|wtI64), 1, 2, 3, 4, 5, 6, 7, 8)
	}
}

func genMut(rt *rapid.T, root *node) mutSpec {
	if rapid.IntRange(0, 11).Draw(rt, "bytelevel") == 11 {
		m := mutSpec{Op: rapid.SampledFrom(byteOps).Draw(rt, "byteop")}
		m.I = rapid.IntRange(1, 1<<16).Draw(rt, "bi")
		m.J = int(rapid.SampledFrom([]byte{1, 0x80, 0xff, 0x10}).Draw(rt, "bmask"))
		if m.Op == "bappend" {
			m.Data = genGarbage(rt, "bapp")
		}
		return m
	}
	var all []located
	collect(root, nil, &all)
	// choose the nesting level first so that deep levels are not drowned out
	classes := []string{}
	byClass := map[string][]located{}
	for _, l := range all {
		c := levelClass(l.n)
		if _, ok := byClass[c]; !ok {
			classes = append(classes, c)
		}
		byClass[c] = append(byClass[c], l)
	}
	cl := rapid.SampledFrom(classes).Draw(rt, "level")
	cand := byClass[cl]
	loc := cand[rapid.IntRange(0, len(cand)-1).Draw(rt, "node")]
	t := loc.n
	m := mutSpec{Path: loc.path}
	// only operations applicable to the chosen node are offered
	var ops []string
	if t.isMsg() {
		for w := 0; w < 2; w++ { // message-level ops twice as likely as framing ops
			ops = append(ops, "zerofield", "tail", "tailfield", "cut")
			if len(t.Kids) >= 1 {
				ops = append(ops, "dup", "dupend", "del")
			}
			if len(t.Kids) >= 2 {
				ops = append(ops, "swap", "move")
			}
			if !t.Root && len(t.Kids) >= 1 {
				ops = append(ops, "empty")
			}
		}
	} else {
		for w := 0; w < 2; w++ {
			ops = append(ops, "append", "replace")
			if len(t.Val) > 0 {
				ops = append(ops, "flip", "trunc", "clear")
				if !isZero(t.Val) {
					ops = append(ops, "zero")
				}
			}
			if t.WT == wtVarint {
				ops = append(ops, "padvarint", "padvarint")
			}
		}
	}
	if !t.Root {
		ops = append(ops, "padtag", "padtag", "wt", "fieldnum")
		if t.WT == wtLen {
			ops = append(ops, "padlen", "padlen", "lendelta")
		}
	}
	m.Op = rapid.SampledFrom(ops).Draw(rt, "op")
	switch m.Op {
	case "swap", "dup", "dupend", "del":
		m.I = rapid.IntRange(0, max(0, len(t.Kids)-1)).Draw(rt, "i")
	case "move":
		m.I = rapid.IntRange(0, max(0, len(t.Kids)-1)).Draw(rt, "i")
		m.J = rapid.IntRange(0, max(0, len(t.Kids)-1)).Draw(rt, "j")
	case "zerofield":
		m.I = rapid.IntRange(0, max(0, len(schemas[t.Schema])-1)).Draw(rt, "i")
		m.J = rapid.IntRange(0, 1).Draw(rt, "j")
	case "tail":
		m.Data = genGarbage(rt, "tail")
	case "tailfield":
		m.Data = genUnknownField(rt)
	case "cut":
		m.I = rapid.SampledFrom([]int{1, 1, 2, 8, 33}).Draw(rt, "i")
	case "padtag", "padlen", "padvarint":
		m.I = rapid.IntRange(0, 2).Draw(rt, "i")
	case "lendelta":
		m.I = rapid.SampledFrom([]int{-1, 1, -2, 2, 127, 1 << 20}).Draw(rt, "i")
	case "wt":
		m.I = rapid.IntRange(0, 7).Draw(rt, "i")
	case "fieldnum":
		m.I = rapid.SampledFrom([]int{0, 1, 2, 3, 4, 5, 6, 7, 16, 39}).Draw(rt, "i")
	case "flip":
		m.I = rapid.IntRange(0, max(0, len(t.Val)-1)).Draw(rt, "i")
		m.J = int(rapid.SampledFrom([]byte{1, 0x80, 0xff, 0x10, 2}).Draw(rt, "mask"))
	case "append":
		m.Data = genGarbage(rt, "app")
	case "trunc":
		m.I = rapid.SampledFrom([]int{1, 1, 2, 8, 1 << 20}).Draw(rt, "i")
	case "replace":
		m.Data = genGarbage(rt, "rep")
	}
	return m
}
