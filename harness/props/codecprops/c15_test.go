package codecprops

// C15: every byte string accepted as a transaction, block, batch or execution
// result decodes to a value that re-encodes to the identical bytes, its ID is
// the hash of those bytes, and the message a transaction's signature covers is
// exactly its encoding without the auth field.
//
// Two verdicts are kept apart:
//   TestC15     framework layer  - canoto framing + ProgAction (strictly canonical
//                                  harness action) + StubAuth / real auth parsers
//   TestC15Ref  reference-VM layer - the same grammar over transactions that carry
//                                  MorpheusVM's actions.Transfer or chaintest.TestAction

import (
	"bytes"
	"context"
	"crypto/sha256"
	"encoding/hex"
	"encoding/json"
	"errors"
	"fmt"
	"io"
	"strings"
	"testing"

	"github.com/StephenButtolph/canoto"
	"github.com/ava-labs/avalanchego/ids"
	"pgregory.net/rapid"

	"github.com/ava-labs/hypersdk/chain"
	"github.com/ava-labs/hypersdk/fees"
	"github.com/ava-labs/hypersdk/state"
	"github.com/ava-labs/hypersdk/verifharness/fixture"
	"github.com/ava-labs/hypersdk/verifharness/vstat"

	mactions "github.com/ava-labs/hypersdk/examples/morpheusvm/actions"
)

const (
	kindTx = iota
	kindBlock
	kindBatch
	kindResult
	kindExecResults
	kindExecutedBlock
)

var kindNames = [...]string{"tx", "block", "batch", "result", "execresults", "executedblock"}

type c15Case struct {
	Ref        int  // refNone = framework layer; refTransfer / refTestAct = reference-VM layer
	TypeParser bool // chain.TxTypeParser over codec.TypeParser instead of the fixture parser
	Kind       int
	Txs        []txSpec  `json:",omitempty"`
	Hdr        hdrSpec   // block header (block, executed block)
	Results    []resSpec `json:",omitempty"`
	Prices     [5]uint64
	Consumed   [5]uint64
	NoBlock    bool // executed block without its block field
	NoResults  bool // executed block without its results field
	Muts       []mutSpec
}

func (c c15Case) layer() string {
	if c.Ref == refNone {
		return "framework"
	}
	return "reference-action:" + refNames[c.Ref]
}

// tree is the harness encoding of the structured value of the case.
func (c c15Case) tree() *node {
	switch c.Kind {
	case kindTx:
		return c.Txs[0].tree(0)
	case kindBlock:
		return blockTree(c.Hdr, c.Txs, 0)
	case kindBatch:
		var kids []*node
		for _, t := range c.Txs {
			kids = append(kids, t.tree(1))
		}
		return rootNode("batch", "batch", kids)
	case kindResult:
		return c.Results[0].tree(0)
	case kindExecResults:
		return execResultsTree(c.Results, c.Prices, c.Consumed, 0)
	default:
		var kids []*node
		if !c.NoBlock {
			if b := blockTree(c.Hdr, c.Txs, 1); !emptyMsg(b) {
				kids = append(kids, b)
			}
		}
		if !c.NoResults {
			if e := execResultsTree(c.Results, c.Prices, c.Consumed, 2); !emptyMsg(e) {
				kids = append(kids, e)
			}
		}
		return rootNode("eb", "eb", kids)
	}
}

// ---------------------------------------------------------------- generators

func genID(rt *rapid.T, label string) []byte {
	switch rapid.IntRange(0, 5).Draw(rt, label+"kind") {
	case 0:
		return make([]byte, 32)
	case 1:
		b := make([]byte, 32)
		b[31] = 1
		return b
	case 2:
		return append([]byte{}, fixture.ChainID[:]...)
	default:
		return filled(32, rapid.Byte().Draw(rt, label+"fill"))
	}
}

var (
	genI64 = rapid.OneOf(
		rapid.SampledFrom([]int64{0, 0, 1, -1, 63, 64, -64, -65, 1_000, 1_700_000_000_000, 1<<63 - 1, -1 << 63}),
		rapid.Int64())
	genU64 = rapid.OneOf(
		rapid.SampledFrom([]uint64{0, 0, 1, 127, 128, 255, 1 << 32, 1 << 63, 1<<64 - 1}),
		rapid.Uint64())
)

func genBlob(rt *rapid.T, label string) []byte {
	n := rapid.SampledFrom([]int{0, 0, 1, 1, 2, 8, 33, 127, 128, 200}).Draw(rt, label+"len")
	return filled(n, rapid.Byte().Draw(rt, label+"fill"))
}

func genProgSpec(rt *rapid.T, nonce uint64) *fixture.ActSpec {
	s := &fixture.ActSpec{
		Compute: genU64.Draw(rt, "compute"),
		Start:   rapid.SampledFrom([]int64{-1, 0, 5}).Draw(rt, "start"),
		End:     rapid.SampledFrom([]int64{-1, 0, 1 << 40}).Draw(rt, "end"),
		Nonce:   nonce,
	}
	nk := rapid.IntRange(0, 3).Draw(rt, "nkeys")
	for i := 0; i < nk; i++ {
		s.Keys = append(s.Keys, fixture.KeyDecl{
			Key:  fixture.UKey(rapid.SampledFrom([]byte("abc")).Draw(rt, "kname"), rapid.SampledFrom([]uint16{0, 1, 2}).Draw(rt, "kchunks")),
			Perm: rapid.SampledFrom([]uint8{uint8(state.Read), uint8(state.Write), uint8(state.All), 0, 0xff}).Draw(rt, "perm"),
		})
	}
	no := rapid.IntRange(0, 3).Draw(rt, "nops")
	for i := 0; i < no; i++ {
		kind := rapid.SampledFrom([]uint8{fixture.OpGet, fixture.OpPut, fixture.OpDel, fixture.OpFail}).Draw(rt, "opkind")
		op := fixture.Op{Kind: kind}
		if kind != fixture.OpFail {
			op.Key = fixture.UKey(rapid.SampledFrom([]byte("abc")).Draw(rt, "okname"), 1)
		}
		if kind == fixture.OpPut {
			op.Val = genBlob(rt, "oval")
		}
		s.Ops = append(s.Ops, op)
	}
	return s
}

func genTestActionSpec(rt *rapid.T, nonce uint64) *taSpec {
	s := &taSpec{
		Compute: genU64.Draw(rt, "compute"),
		Err:     rapid.Bool().Draw(rt, "err"),
		Nonce:   nonce,
		Start:   rapid.SampledFrom([]int64{-1, 0, 7}).Draw(rt, "start"),
		End:     rapid.SampledFrom([]int64{-1, 0, 1 << 40}).Draw(rt, "end"),
	}
	nk := rapid.IntRange(0, 2).Draw(rt, "nkeys")
	for i := 0; i < nk; i++ {
		s.Keys = append(s.Keys, fixture.UKey(rapid.SampledFrom([]byte("abc")).Draw(rt, "kname"), 1))
		s.Perms = append(s.Perms, rapid.SampledFrom([]byte{1, 3, 5, 7}).Draw(rt, "perm"))
	}
	if rapid.Bool().Draw(rt, "reads") {
		s.Reads = append(s.Reads, fixture.UKey('a', 1))
	}
	nw := rapid.IntRange(0, 2).Draw(rt, "nwrites")
	for i := 0; i < nw; i++ {
		s.WKeys = append(s.WKeys, fixture.UKey('b', 1))
		s.WVals = append(s.WVals, genBlob(rt, "wval"))
	}
	return s
}

func genAct(rt *rapid.T, ref int, nonce uint64) actSpec {
	kind := actProg
	if ref != refNone && rapid.IntRange(0, 3).Draw(rt, "refact") != 0 {
		kind = ref // refTransfer == actTransfer, refTestAct == actTestAction
	}
	switch kind {
	case actTransfer:
		memo := genBlob(rt, "memo")
		if rapid.IntRange(0, 9).Draw(rt, "maxmemo") == 9 {
			memo = filled(mactions.MaxMemoSize, 0x4d)
		}
		return actSpec{Kind: actTransfer, To: rapid.IntRange(0, 3).Draw(rt, "to"), Value: genU64.Draw(rt, "value"), Memo: memo}
	case actTestAction:
		return actSpec{Kind: actTestAction, TA: genTestActionSpec(rt, nonce)}
	}
	return actSpec{Kind: actProg, Prog: genProgSpec(rt, nonce)}
}

func genTx(rt *rapid.T, ref int, maxActions int) txSpec {
	s := txSpec{
		Timestamp: genI64.Draw(rt, "timestamp"),
		ChainID:   genID(rt, "chainid"),
		MaxFee:    genU64.Draw(rt, "maxfee"),
		Scheme:    rapid.SampledFrom([]int{schemeEd, schemeSecp, schemeBLS, schemeStub, schemeStub}).Draw(rt, "scheme"),
		Key:       rapid.IntRange(0, poolSize-1).Draw(rt, "key"),
		Stub: stubSpec{
			Sponsor: rapid.IntRange(0, 3).Draw(rt, "sponsor"),
			Actor:   rapid.IntRange(0, 3).Draw(rt, "actor"),
			Compute: genU64.Draw(rt, "authcompute"),
			Start:   rapid.SampledFrom([]int64{-1, 0}).Draw(rt, "authstart"),
			End:     rapid.SampledFrom([]int64{-1, 1 << 40}).Draw(rt, "authend"),
			Valid:   rapid.Bool().Draw(rt, "authvalid"),
		},
	}
	n := rapid.IntRange(0, maxActions).Draw(rt, "nactions")
	for i := 0; i < n; i++ {
		s.Actions = append(s.Actions, genAct(rt, ref, uint64(i)))
	}
	if ref != refNone && n > 0 {
		// the reference layer always carries at least one reference action
		has := false
		for _, a := range s.Actions {
			has = has || a.Kind != actProg
		}
		if !has {
			i := rapid.IntRange(0, n-1).Draw(rt, "forceref")
			if ref == refTransfer {
				s.Actions[i] = actSpec{Kind: actTransfer, To: 1, Value: genU64.Draw(rt, "fvalue"), Memo: genBlob(rt, "fmemo")}
			} else {
				s.Actions[i] = actSpec{Kind: actTestAction, TA: genTestActionSpec(rt, uint64(i))}
			}
		}
	}
	s.sign()
	return s
}

func genRes(rt *rapid.T) resSpec {
	r := resSpec{
		Success: rapid.Bool().Draw(rt, "success"),
		Fee:     genU64.Draw(rt, "fee"),
	}
	if rapid.Bool().Draw(rt, "haserr") {
		r.Error = genBlob(rt, "err")
	}
	no := rapid.IntRange(0, 4).Draw(rt, "nout")
	for i := 0; i < no; i++ {
		r.Outputs = append(r.Outputs, genBlob(rt, "out"))
	}
	if rapid.IntRange(0, 3).Draw(rt, "zerounits") != 3 {
		for d := range r.Units {
			r.Units[d] = genU64.Draw(rt, "unit")
		}
	}
	return r
}

func genDims(rt *rapid.T, label string) [5]uint64 {
	var d [5]uint64
	if rapid.IntRange(0, 3).Draw(rt, label+"zero") == 3 {
		return d
	}
	for i := range d {
		d[i] = genU64.Draw(rt, label)
	}
	return d
}

func c15Gen(rt *rapid.T, ref int) c15Case {
	c := c15Case{Ref: ref, TypeParser: rapid.Bool().Draw(rt, "typeparser")}
	kinds := []int{kindTx, kindTx, kindTx, kindBlock, kindBlock, kindBatch, kindResult, kindExecResults, kindExecutedBlock}
	if ref != refNone {
		kinds = []int{kindTx, kindTx, kindTx, kindBlock, kindBatch, kindExecutedBlock}
	}
	c.Kind = rapid.SampledFrom(kinds).Draw(rt, "kind")
	switch c.Kind {
	case kindTx:
		c.Txs = []txSpec{genTx(rt, ref, 16)}
	case kindBlock, kindBatch, kindExecutedBlock:
		lo := 0
		if ref != refNone {
			lo = 1
		}
		n := rapid.IntRange(lo, 4).Draw(rt, "ntxs")
		for i := 0; i < n; i++ {
			c.Txs = append(c.Txs, genTx(rt, ref, 4))
		}
	}
	if c.Kind == kindBlock || c.Kind == kindExecutedBlock {
		c.Hdr = hdrSpec{
			Parent:    genID(rt, "parent"),
			Timestamp: genI64.Draw(rt, "blocktime"),
			Height:    genU64.Draw(rt, "height"),
			StateRoot: genID(rt, "root"),
			HasCtx:    rapid.Bool().Draw(rt, "hasctx"),
			PChain:    genU64.Draw(rt, "pchain"),
		}
	}
	switch c.Kind {
	case kindResult:
		c.Results = []resSpec{genRes(rt)}
	case kindExecResults, kindExecutedBlock:
		n := rapid.IntRange(0, 4).Draw(rt, "nresults")
		for i := 0; i < n; i++ {
			c.Results = append(c.Results, genRes(rt))
		}
		c.Prices = genDims(rt, "prices")
		c.Consumed = genDims(rt, "consumed")
	}
	if c.Kind == kindExecutedBlock {
		c.NoBlock = rapid.IntRange(0, 9).Draw(rt, "noblock") == 9 && ref == refNone
		c.NoResults = rapid.IntRange(0, 9).Draw(rt, "noresults") == 9
	}
	// 1..3 mutations, each drawn against the tree left by the previous ones
	tree := c.tree()
	nm := rapid.SampledFrom([]int{1, 1, 1, 1, 2, 3}).Draw(rt, "nmuts")
	for i := 0; i < nm; i++ {
		m := genMut(rt, tree)
		c.Muts = append(c.Muts, m)
		if !isByteOp(m.Op) {
			applyMut(tree, m)
		}
	}
	return c
}

// -------------------------------------------------------------------- oracle

func sha(b []byte) ids.ID { return ids.ID(sha256.Sum256(b)) }

func hx(b []byte) string {
	if len(b) > 400 {
		return hex.EncodeToString(b[:200]) + "..." + hex.EncodeToString(b[len(b)-200:]) + fmt.Sprintf("(%d bytes)", len(b))
	}
	return hex.EncodeToString(b)
}

func errClass(err error) string {
	for _, e := range []error{canoto.ErrInvalidFieldOrder, canoto.ErrUnexpectedWireType, canoto.ErrInvalidLength,
		canoto.ErrZeroValue, canoto.ErrUnknownField, canoto.ErrPaddedZeroes, canoto.ErrOverflow,
		canoto.ErrInvalidWireType, canoto.ErrInvalidBool, io.ErrUnexpectedEOF, chain.ErrNilTxInBlock} {
		if errors.Is(err, e) {
			return e.Error()
		}
	}
	s := err.Error()
	switch {
	case strings.Contains(s, "failed to parse action"):
		return "action parser"
	case strings.Contains(s, "failed to parse auth"):
		return "auth parser"
	}
	return "other"
}

// txFromDecoded is the harness encoding of a decoded transaction's fields.
func treeOfDecodedTx(tx *chain.Transaction, field uint32) *node {
	s := txSpec{Timestamp: tx.Base.Timestamp, ChainID: tx.Base.ChainID[:], MaxFee: tx.Base.MaxFee}
	ab := make([][]byte, len(tx.Actions))
	for i, a := range tx.Actions {
		ab[i] = a.Bytes()
	}
	kids := s.unsignedKids(ab)
	if au := tx.Auth.Bytes(); len(au) > 0 {
		kids = append(kids, leafBytes("auth", 3, au))
	}
	if field == 0 {
		return rootNode("tx", "tx", kids)
	}
	return msgNode("tx", "tx", field, kids)
}

// checkDecodedTx is the oracle for a transaction value the code produced from
// the bytes b (stand-alone or embedded in a block / batch).
func checkDecodedTx(tx *chain.Transaction, b []byte) error {
	if tx == nil {
		return fmt.Errorf("accepted a nil transaction for bytes %s", hx(b))
	}
	if tx.Auth == nil {
		return fmt.Errorf("accepted a transaction without auth")
	}
	if !bytes.Equal(tx.Bytes(), b) {
		return fmt.Errorf("tx.Bytes() differs from the accepted input:\n input %s\n bytes %s", hx(b), hx(tx.Bytes()))
	}
	if tx.Size() != len(b) {
		return fmt.Errorf("tx.Size() = %d, accepted input has %d bytes", tx.Size(), len(b))
	}
	if tx.GetID() != sha(b) {
		return fmt.Errorf("tx.GetID() = %s is not the hash %s of the accepted input %s", tx.GetID(), sha(b), hx(b))
	}
	re, err := chain.NewTransaction(tx.Base, tx.Actions, tx.Auth)
	if err != nil {
		return fmt.Errorf("NewTransaction of the decoded fields: %v", err)
	}
	if !bytes.Equal(re.Bytes(), b) {
		return fmt.Errorf("accepted input does not re-encode to itself (NewTransaction(base, actions, auth).Bytes()):\n input     %s\n re-encode %s", hx(b), hx(re.Bytes()))
	}
	if re.GetID() != tx.GetID() {
		return fmt.Errorf("id of the re-built transaction %s != id of the decoded one %s", re.GetID(), tx.GetID())
	}
	if own := treeOfDecodedTx(tx, 0).encode(nil); !bytes.Equal(own, b) {
		return fmt.Errorf("accepted input is not the canonical encoding of its decoded fields:\n input     %s\n canonical %s", hx(b), hx(own))
	}
	// the signed message
	unsigned := tx.UnsignedBytes()
	td := chain.NewTxData(tx.Base, tx.Actions)
	if want := td.UnsignedBytes(); !bytes.Equal(unsigned, want) {
		return fmt.Errorf("UnsignedBytes() of the decoded tx != NewTxData(base, actions).UnsignedBytes():\n decoded %s\n rebuilt %s", hx(unsigned), hx(want))
	}
	stripped, removed, err := withoutField(b, 3)
	if err != nil {
		return fmt.Errorf("accepted input is not well-formed wire data: %v (%s)", err, hx(b))
	}
	if removed != 1 {
		return fmt.Errorf("accepted input carries %d auth fields: %s", removed, hx(b))
	}
	if !bytes.Equal(unsigned, stripped) {
		return fmt.Errorf("UnsignedBytes() is not the input minus its auth field:\n unsigned %s\n expected %s", hx(unsigned), hx(stripped))
	}
	return nil
}

type accepted struct {
	tx  *chain.Transaction
	txs []*chain.Transaction
}

// checkBytes feeds b to the decoder of the kind; accepted=false means rejected
// (never a violation); a non-nil error is a violation of C15.
func checkBytes(kind int, b []byte, parser chain.Parser) (acc *accepted, rejErr error, violation error) {
	switch kind {
	case kindTx:
		tx, err := chain.UnmarshalTx(b, parser)
		if err != nil {
			return nil, err, nil
		}
		return &accepted{tx: tx}, nil, checkDecodedTx(tx, b)
	case kindBatch:
		ser := &chain.BatchedTransactionSerializer{Parser: parser}
		txs, err := ser.Unmarshal(b)
		if err != nil {
			return nil, err, nil
		}
		return &accepted{txs: txs}, nil, checkTxList("batch", txs, b, 1, ser.Marshal(txs))
	case kindBlock:
		blk, err := chain.UnmarshalBlock(b, parser)
		if err != nil {
			return nil, err, nil
		}
		return &accepted{txs: blk.Txs}, nil, checkDecodedBlock(blk, b)
	case kindResult:
		r, err := chain.UnmarshalResult(b)
		if err != nil {
			return nil, err, nil
		}
		return &accepted{}, nil, checkDecodedResult(r, b)
	case kindExecResults:
		er, err := chain.ParseExecutionResults(b)
		if err != nil {
			return nil, err, nil
		}
		return &accepted{}, nil, checkDecodedExecResults(er, b)
	default:
		eb, err := chain.UnmarshalExecutedBlock(b, parser)
		if err != nil {
			return nil, err, nil
		}
		a := &accepted{}
		if eb.Block != nil {
			a.txs = eb.Block.Txs
		}
		return a, nil, checkDecodedExecutedBlock(eb, b)
	}
}

// checkTxList: the accepted container re-encodes to itself and every embedded
// transaction is, on its own bytes, an accepted canonical transaction.
func checkTxList(what string, txs []*chain.Transaction, b []byte, field uint64, re []byte) error {
	if !bytes.Equal(re, b) {
		return fmt.Errorf("accepted %s does not re-encode to itself:\n input     %s\n re-encode %s", what, hx(b), hx(re))
	}
	spans, err := payloadsOf(b, field)
	if err != nil {
		return fmt.Errorf("accepted %s is not well-formed wire data: %v (%s)", what, err, hx(b))
	}
	if len(spans) != len(txs) {
		return fmt.Errorf("accepted %s decodes to %d transactions but carries %d transaction fields", what, len(txs), len(spans))
	}
	for i, tx := range txs {
		if tx == nil {
			return fmt.Errorf("accepted %s holds a nil transaction at index %d (input %s)", what, i, hx(b))
		}
		if err := checkDecodedTx(tx, spans[i]); err != nil {
			return fmt.Errorf("%s tx %d: %w", what, i, err)
		}
	}
	return nil
}

func checkDecodedBlock(blk *chain.StatelessBlock, b []byte) error {
	if !bytes.Equal(blk.GetBytes(), b) {
		return fmt.Errorf("block.GetBytes() differs from the accepted input")
	}
	if blk.Size() != len(b) {
		return fmt.Errorf("block.Size() = %d, input has %d bytes", blk.Size(), len(b))
	}
	if blk.GetID() != sha(b) {
		return fmt.Errorf("block.GetID() = %s is not the hash %s of the accepted input %s", blk.GetID(), sha(b), hx(b))
	}
	for i, tx := range blk.Txs {
		if tx == nil {
			return fmt.Errorf("accepted block holds a nil transaction at index %d (input %s)", i, hx(b))
		}
	}
	re, err := chain.NewStatelessBlock(blk.Prnt, blk.Tmstmp, blk.Hght, blk.Txs, blk.StateRoot, blk.BlockContext)
	if err != nil {
		return fmt.Errorf("NewStatelessBlock of the decoded fields: %v", err)
	}
	if re.GetID() != blk.GetID() {
		return fmt.Errorf("id of the re-built block %s != id of the decoded block %s (input %s, re-encode %s)", re.GetID(), blk.GetID(), hx(b), hx(re.GetBytes()))
	}
	if err := checkTxList("block", blk.Txs, b, 5, re.GetBytes()); err != nil {
		return err
	}
	if m := blk.MarshalCanoto(); !bytes.Equal(m, b) {
		return fmt.Errorf("decoded block marshals to different bytes:\n input   %s\n marshal %s", hx(b), hx(m))
	}
	// harness encoding of the decoded header around the (already checked) tx bytes
	h := hdrSpec{Parent: blk.Prnt[:], Timestamp: blk.Tmstmp, Height: blk.Hght, StateRoot: blk.StateRoot[:]}
	if blk.BlockContext != nil {
		h.HasCtx, h.PChain = true, blk.BlockContext.PChainHeight
	}
	own := blockTree(h, nil, 0)
	var kids []*node
	placed := false
	for _, k := range own.Kids {
		if k.Field > 5 && !placed {
			for _, tx := range blk.Txs {
				kids = append(kids, &node{Field: 5, WT: wtLen, Val: tx.Bytes()})
			}
			placed = true
		}
		kids = append(kids, k)
	}
	if !placed {
		for _, tx := range blk.Txs {
			kids = append(kids, &node{Field: 5, WT: wtLen, Val: tx.Bytes()})
		}
	}
	own.Kids = kids
	if o := own.encode(nil); !bytes.Equal(o, b) {
		return fmt.Errorf("accepted block is not the canonical encoding of its decoded fields:\n input     %s\n canonical %s", hx(b), hx(o))
	}
	return nil
}

func checkDecodedResult(r *chain.Result, b []byte) error {
	if m := r.Marshal(); !bytes.Equal(m, b) {
		return fmt.Errorf("accepted result does not re-encode to itself:\n input     %s\n re-encode %s", hx(b), hx(m))
	}
	cp := &chain.Result{Success: r.Success, Error: r.Error, Outputs: r.Outputs, Units: r.Units, Fee: r.Fee}
	if m := cp.Marshal(); !bytes.Equal(m, b) {
		return fmt.Errorf("a fresh Result with the decoded fields encodes differently:\n input %s\n fresh %s", hx(b), hx(m))
	}
	// the JSON form the indexer API serves must carry the same value: through
	// MarshalJSON / UnmarshalJSON and back to the binary form gives b again
	js, err := json.Marshal(r)
	if err != nil {
		return fmt.Errorf("accepted result has no JSON form: %v", err)
	}
	var back chain.Result
	if err := json.Unmarshal(js, &back); err != nil {
		return fmt.Errorf("JSON form of an accepted result is not accepted back: %v (%s)", err, js)
	}
	if m := back.Marshal(); !bytes.Equal(m, b) {
		return fmt.Errorf("result changed on the way through its JSON form:\n input %s\n json  %s\n after %s", hx(b), js, hx(m))
	}
	own := rootNode("result", "result", resultKids(r.Success, r.Error, r.Outputs, [5]uint64(r.Units), r.Fee)).encode(nil)
	if !bytes.Equal(own, b) {
		return fmt.Errorf("accepted result is not the canonical encoding of its decoded fields:\n input     %s\n canonical %s", hx(b), hx(own))
	}
	return nil
}

func checkDecodedExecResults(er *chain.ExecutionResults, b []byte) error {
	if m := er.Marshal(); !bytes.Equal(m, b) {
		return fmt.Errorf("accepted execution results do not re-encode to themselves:\n input     %s\n re-encode %s", hx(b), hx(m))
	}
	if m := chain.NewExecutionResults(er.Results, er.UnitPrices, er.UnitsConsumed).Marshal(); !bytes.Equal(m, b) {
		return fmt.Errorf("NewExecutionResults of the decoded fields encodes differently:\n input %s\n fresh %s", hx(b), hx(m))
	}
	spans, err := payloadsOf(b, 1)
	if err != nil {
		return fmt.Errorf("accepted execution results are not well-formed wire data: %v", err)
	}
	if len(spans) != len(er.Results) {
		return fmt.Errorf("decoded %d results from %d result fields", len(er.Results), len(spans))
	}
	for i, r := range er.Results {
		if r == nil {
			if len(spans[i]) != 0 {
				return fmt.Errorf("result %d decoded as nil from non-empty bytes %s", i, hx(spans[i]))
			}
			continue
		}
		if err := checkDecodedResult(r, spans[i]); err != nil {
			return fmt.Errorf("result %d: %w", i, err)
		}
	}
	return nil
}

func checkDecodedExecutedBlock(eb *chain.ExecutedBlock, b []byte) error {
	m, err := eb.Marshal()
	if err != nil {
		return fmt.Errorf("Marshal of the decoded executed block: %v", err)
	}
	if !bytes.Equal(m, b) {
		return fmt.Errorf("accepted executed block does not re-encode to itself:\n input     %s\n re-encode %s", hx(b), hx(m))
	}
	blocks, err := payloadsOf(b, 1)
	if err != nil {
		return fmt.Errorf("accepted executed block is not well-formed wire data: %v", err)
	}
	results, _ := payloadsOf(b, 2)
	if (eb.Block != nil) != (len(blocks) == 1) || len(blocks) > 1 {
		return fmt.Errorf("decoded block present=%v from %d block fields", eb.Block != nil, len(blocks))
	}
	if (eb.ExecutionResults != nil) != (len(results) == 1) || len(results) > 1 {
		return fmt.Errorf("decoded results present=%v from %d result fields", eb.ExecutionResults != nil, len(results))
	}
	if eb.Block != nil {
		if err := checkDecodedBlock(eb.Block, blocks[0]); err != nil {
			return fmt.Errorf("embedded block: %w", err)
		}
	}
	if eb.ExecutionResults != nil {
		if err := checkDecodedExecResults(eb.ExecutionResults, results[0]); err != nil {
			return fmt.Errorf("embedded results: %w", err)
		}
		if eb.Block != nil {
			re, err := chain.NewExecutedBlock(eb.Block, eb.ExecutionResults.Results, eb.ExecutionResults.UnitPrices, eb.ExecutionResults.UnitsConsumed).Marshal()
			if err != nil || !bytes.Equal(re, b) {
				return fmt.Errorf("NewExecutedBlock of the decoded fields encodes differently (%v):\n input %s\n fresh %s", err, hx(b), hx(re))
			}
		}
	}
	return nil
}

// buildClean produces the encoding of the structured value through the real
// constructors.
func (c c15Case) buildClean(parser chain.Parser) ([]byte, []*chain.Transaction, error) {
	txs := make([]*chain.Transaction, len(c.Txs))
	for i, s := range c.Txs {
		tx, err := s.build(parser)
		if err != nil {
			return nil, nil, err
		}
		txs[i] = tx
	}
	results := make([]*chain.Result, len(c.Results))
	for i, r := range c.Results {
		results[i] = r.result()
	}
	switch c.Kind {
	case kindTx:
		return txs[0].Bytes(), txs, nil
	case kindBatch:
		return (&chain.BatchedTransactionSerializer{Parser: parser}).Marshal(txs), txs, nil
	case kindBlock:
		blk, err := chain.NewStatelessBlock(id32(c.Hdr.Parent), c.Hdr.Timestamp, c.Hdr.Height, txs, id32(c.Hdr.StateRoot), c.Hdr.ctx())
		if err != nil {
			return nil, nil, err
		}
		if blk.GetID() != sha(blk.GetBytes()) {
			return nil, nil, fmt.Errorf("NewStatelessBlock: id %s is not the hash of its bytes", blk.GetID())
		}
		return blk.GetBytes(), txs, nil
	case kindResult:
		return results[0].Marshal(), txs, nil
	case kindExecResults:
		return chain.NewExecutionResults(results, fees.Dimensions(c.Prices), fees.Dimensions(c.Consumed)).Marshal(), txs, nil
	default:
		blk, err := chain.NewStatelessBlock(id32(c.Hdr.Parent), c.Hdr.Timestamp, c.Hdr.Height, txs, id32(c.Hdr.StateRoot), c.Hdr.ctx())
		if err != nil {
			return nil, nil, err
		}
		eb := chain.NewExecutedBlock(blk, results, fees.Dimensions(c.Prices), fees.Dimensions(c.Consumed))
		if c.NoBlock {
			eb.Block = nil
		}
		if c.NoResults {
			eb.ExecutionResults = nil
		}
		b, err := eb.Marshal()
		return b, txs, err
	}
}

// mutate applies the case's mutations to the tree of the structured value and
// returns the resulting bytes (st may be nil).
func (c c15Case) mutate(tree *node, st *vstat.Stats) (mut []byte, labels, desc []string) {
	skip := func(name string) {
		if st != nil {
			st.Skip(name)
		}
	}
	treeDone := false
	for _, m := range c.Muts {
		if isByteOp(m.Op) {
			if !treeDone {
				mut = tree.encode(nil)
				treeDone = true
			}
			nb, ok := applyByteMut(mut, m)
			if !ok {
				skip(m.Op)
				continue
			}
			mut = nb
			labels = append(labels, "op:"+m.Op, "class:"+opClass(m.Op), "level:bytes")
			desc = append(desc, m.Op)
			continue
		}
		if treeDone {
			skip(m.Op + "-after-byte-op")
			continue
		}
		t := resolve(tree, m.Path)
		if t == nil || !applyMut(tree, m) {
			skip(m.Op)
			continue
		}
		lv := levelClass(t)
		labels = append(labels, "op:"+m.Op, "class:"+opClass(m.Op), "level:"+lv)
		desc = append(desc, m.Op+"@"+lv)
	}
	if !treeDone {
		mut = tree.encode(nil)
	}
	return mut, labels, desc
}

func c15Run(c c15Case, st *vstat.Stats) (rerr error) {
	parser := parserFor(c.Ref, c.TypeParser)
	layer := c.layer()
	labels := []string{"layer:" + layer, "kind:" + kindNames[c.Kind]}
	nActions := 0
	for _, t := range c.Txs {
		nActions += len(t.Actions)
		labels = append(labels, "auth:"+schemeNames[t.Scheme])
	}
	if c.TypeParser {
		labels = append(labels, "parser:TxTypeParser")
	} else {
		labels = append(labels, "parser:fixture")
	}
	mutAccepted := false
	verdict := "held"
	var mutDesc []string
	defer func() {
		if rerr != nil {
			rerr = fmt.Errorf("[%s layer] %w", layer, rerr)
			verdict = "violation"
		}
		nt := mutAccepted || nActions >= 2
		canon, _ := json.Marshal(c)
		st.Case(nt, string(canon), append(labels, verdict)...)
		st.Sample(nt, map[string]any{"layer": layer, "kind": kindNames[c.Kind], "txs": len(c.Txs), "actions": nActions,
			"results": len(c.Results), "mutations": strings.Join(mutDesc, " ; "), "mutant_accepted": mutAccepted})
	}()

	// ---- structured round trip
	clean, txs, err := c.buildClean(parser)
	if err != nil {
		return fmt.Errorf("building the structured value: %w", err)
	}
	tree := c.tree()
	if own := tree.encode(nil); !bytes.Equal(own, clean) {
		return fmt.Errorf("structured %s: the encoder's bytes differ from the independent wire encoding:\n encoder %s\n harness %s", kindNames[c.Kind], hx(clean), hx(own))
	}
	for i, tx := range txs {
		s := c.Txs[i]
		if !bytes.Equal(tx.UnsignedBytes(), s.unsignedBytes()) {
			return fmt.Errorf("structured tx %d: UnsignedBytes() differ from the independent encoding of base+actions", i)
		}
		if tx.GetID() != sha(tx.Bytes()) {
			return fmt.Errorf("structured tx %d: id is not the hash of its bytes", i)
		}
		if s.Scheme != schemeStub && s.Scheme != schemeBLS || s.Scheme == schemeBLS && i == 0 {
			// the real signature was made over the harness-encoded body
			if err := tx.VerifyAuth(context.Background()); err != nil {
				return fmt.Errorf("structured tx %d (%s): signature over the encoding without the auth field does not verify: %v", i, schemeNames[s.Scheme], err)
			}
		}
	}
	accClean, rej, viol := checkBytes(c.Kind, clean, parser)
	if viol != nil {
		return fmt.Errorf("structured round trip: %w", viol)
	}
	if accClean == nil {
		return fmt.Errorf("structured round trip: the encoding of a constructed %s is rejected by its decoder: %v (%s)", kindNames[c.Kind], rej, hx(clean))
	}

	// ---- mutated encoding
	mut, mutLabels, desc := c.mutate(tree, st)
	labels = append(labels, mutLabels...)
	mutDesc = desc
	if bytes.Equal(mut, clean) {
		labels = append(labels, "mutant:identical")
		return nil
	}
	accMut, rej, viol := checkBytes(c.Kind, mut, parser)
	if viol != nil {
		return fmt.Errorf("mutated %s (%s): %w", kindNames[c.Kind], strings.Join(mutDesc, " ; "), viol)
	}
	if accMut == nil {
		labels = append(labels, "mutant:rejected", "reject:"+errClass(rej))
		return nil
	}
	mutAccepted = true
	labels = append(labels, "mutant:accepted")
	// no two distinct accepted encodings share a body and a signature
	if c.Kind == kindTx {
		a, b := accClean.tx, accMut.tx
		if bytes.Equal(a.UnsignedBytes(), b.UnsignedBytes()) && bytes.Equal(a.Auth.Bytes(), b.Auth.Bytes()) {
			return fmt.Errorf("two distinct accepted encodings share body and signature:\n %s\n %s", hx(clean), hx(mut))
		}
	}
	return nil
}

const c15Rule = "structured values (tx with 0..16 actions, block / batch / executed block of 0..4 txs, result, execution results; boundary-biased integers, zero-valued fields, ed25519/secp256r1/BLS/stub auth) are encoded by the real constructors and compared with an independent wire encoder, decoded and re-encoded; then 1..3 grammar mutations (swap/dup/del/move fields, explicit zero fields, trailing garbage or unknown fields, payload cut, non-minimal tag/length/varint, wrong length, wire type / field number change, flip/append/truncate/zero/replace of a leaf, byte-level cut/flip/append) are applied at a nesting level chosen first (container, tx, base, base field, action, auth, header field, result, output) with all enclosing lengths re-framed; oracle: accepted => Bytes()/re-built bytes/independent canonical encoding == input, ID == sha256(input), UnsignedBytes == NewTxData(...).UnsignedBytes() == input minus the auth field, embedded txs satisfy the same on their own spans; non-trivial = a mutated input that is still accepted, or a structured value with >=2 actions; distinct by the whole case"

func c15Test(t *testing.T, refs []int, rule string) {
	st := vstat.New(t, "C15", rule)
	st.Assumption("accepted = the decoder returned no error; a rejection is never a violation")
	rapid.Check(t, func(rt *rapid.T) {
		ref := refs[0]
		if len(refs) > 1 {
			ref = rapid.SampledFrom(refs).Draw(rt, "ref")
		}
		c := c15Gen(rt, ref)
		vstat.Run(rt, st, c, func() error { return c15Run(c, st) })
	})
}

// TestC15 decides the framework layer: canoto framing of SerializeTx / Block /
// BatchedTransactions / Result / ExecutionResults / ExecutedBlock, the tail
// slicing of the unsigned bytes, cached bytes and IDs, with the strictly
// canonical ProgAction as the only action type.
func TestC15(t *testing.T) {
	c15Test(t, []int{refNone}, "[framework layer: ProgAction only] "+c15Rule)
}

// TestC15Ref decides the reference-VM layer: the same grammar over
// transactions that carry actions.Transfer (MorpheusVM) or chaintest.TestAction.
func TestC15Ref(t *testing.T) {
	c15Test(t, []int{refTransfer, refTestAct}, "[reference-action layer: every tx list carries MorpheusVM actions.Transfer or chaintest.TestAction] "+c15Rule)
}

func TestC15Replay(t *testing.T) {
	vstat.Replay(t, "C15", func(raw []byte) error {
		var c c15Case
		if err := json.Unmarshal(raw, &c); err != nil {
			return err
		}
		return c15Run(c, vstat.New(nil, "C15", ""))
	})
}
