package codecprops

// Structured values of the C15 check: JSON-serialisable specs, the real values
// built from them through the constructors under test, and the harness's own
// wire tree of the same value (independent encoder).

import (
	"fmt"

	"github.com/ava-labs/avalanchego/ids"
	"github.com/ava-labs/avalanchego/snow/engine/snowman/block"

	"github.com/ava-labs/hypersdk/chain"
	"github.com/ava-labs/hypersdk/chain/chaintest"
	"github.com/ava-labs/hypersdk/fees"
	"github.com/ava-labs/hypersdk/state"
	"github.com/ava-labs/hypersdk/verifharness/fixture"

	mactions "github.com/ava-labs/hypersdk/examples/morpheusvm/actions"
)

const (
	actProg = iota
	actTransfer
	actTestAction
)

type taSpec struct {
	Compute uint64
	Keys    [][]byte `json:",omitempty"`
	Perms   []byte   `json:",omitempty"`
	Reads   [][]byte `json:",omitempty"`
	WKeys   [][]byte `json:",omitempty"`
	WVals   [][]byte `json:",omitempty"`
	Err     bool
	Nonce   uint64
	Start   int64
	End     int64
}

type actSpec struct {
	Kind  int
	Prog  *fixture.ActSpec `json:",omitempty"`
	To    int              `json:",omitempty"`
	Value uint64           `json:",omitempty"`
	Memo  []byte           `json:",omitempty"`
	TA    *taSpec          `json:",omitempty"`
}

func (a actSpec) action() chain.Action {
	switch a.Kind {
	case actTransfer:
		return &mactions.Transfer{To: refAddr(a.To), Value: a.Value, Memo: append([]byte{}, a.Memo...)}
	case actTestAction:
		s := a.TA
		t := &chaintest.TestAction{
			NumComputeUnits:              s.Compute,
			SpecifiedStateKeys:           []string{},
			SpecifiedStateKeyPermissions: []state.Permissions{},
			ReadKeys:                     [][]byte{},
			WriteKeys:                    [][]byte{},
			WriteValues:                  [][]byte{},
			ExecuteErr:                   s.Err,
			Nonce:                        s.Nonce,
			Start:                        s.Start,
			End:                          s.End,
		}
		for _, k := range s.Keys {
			t.SpecifiedStateKeys = append(t.SpecifiedStateKeys, string(k))
		}
		for _, p := range s.Perms {
			t.SpecifiedStateKeyPermissions = append(t.SpecifiedStateKeyPermissions, state.Permissions(p))
		}
		t.ReadKeys = append(t.ReadKeys, s.Reads...)
		t.WriteKeys = append(t.WriteKeys, s.WKeys...)
		t.WriteValues = append(t.WriteValues, s.WVals...)
		return t
	default:
		return a.Prog.Action()
	}
}

type stubSpec struct {
	Sponsor, Actor int
	Compute        uint64
	Start, End     int64
	Valid          bool
}

type txSpec struct {
	Timestamp int64
	ChainID   []byte // 32 bytes
	MaxFee    uint64
	Actions   []actSpec `json:",omitempty"`
	Scheme    int
	Key       int
	Stub      stubSpec
	// AuthBytes is the auth encoding, produced at generation time by signing
	// the harness-encoded unsigned transaction with the real factory (ECDSA
	// nonces are random, so the artefact itself is recorded).
	AuthBytes []byte
}

func (s txSpec) base() chain.Base {
	var id ids.ID
	copy(id[:], s.ChainID)
	return chain.Base{Timestamp: s.Timestamp, ChainID: id, MaxFee: s.MaxFee}
}

func (s txSpec) actions() []chain.Action {
	out := make([]chain.Action, len(s.Actions))
	for i, a := range s.Actions {
		out[i] = a.action()
	}
	return out
}

// unsignedTree is the harness encoding of the unsigned transaction.
func (s txSpec) unsignedKids(actionBytes [][]byte) []*node {
	var kids []*node
	var bk []*node
	if s.Timestamp != 0 {
		bk = append(bk, leafVarint("base.timestamp", 1, zigzag(s.Timestamp)))
	}
	id := make([]byte, 32)
	copy(id, s.ChainID)
	if !isZero(id) {
		bk = append(bk, leafBytes("base.chainid", 2, id))
	}
	if s.MaxFee != 0 {
		bk = append(bk, leafFixed64("base.maxfee", 3, s.MaxFee))
	}
	if len(bk) > 0 {
		kids = append(kids, msgNode("base", "base", 1, bk))
	}
	for _, ab := range actionBytes {
		kids = append(kids, leafBytes("action", 2, ab))
	}
	return kids
}

func (s txSpec) actionBytes() [][]byte {
	out := make([][]byte, len(s.Actions))
	for i, a := range s.Actions {
		out[i] = a.action().Bytes()
	}
	return out
}

func (s txSpec) unsignedBytes() []byte {
	return rootNode("tx", "tx", s.unsignedKids(s.actionBytes())).encode(nil)
}

// tree is the harness encoding of the signed transaction: the root message
// when field == 0, otherwise an embedded message field.
func (s txSpec) tree(field uint32) *node {
	kids := s.unsignedKids(s.actionBytes())
	if len(s.AuthBytes) > 0 {
		kids = append(kids, leafBytes("auth", 3, s.AuthBytes))
	}
	if field == 0 {
		return rootNode("tx", "tx", kids)
	}
	return msgNode("tx", "tx", field, kids)
}

// sign fills AuthBytes (generation time).
func (s *txSpec) sign() {
	if s.Scheme == schemeStub {
		a := &fixture.StubAuth{SponsorAddr: fixture.Addr(s.Stub.Sponsor), ActorAddr: fixture.Addr(s.Stub.Actor),
			Compute: s.Stub.Compute, Start: s.Stub.Start, End: s.Stub.End, Valid: s.Stub.Valid}
		s.AuthBytes = a.Bytes()
		return
	}
	a, err := keyPool(s.Scheme, s.Key).Sign(s.unsignedBytes())
	if err != nil {
		panic(fmt.Sprintf("sign: %v", err))
	}
	s.AuthBytes = a.Bytes()
}

// build constructs the real transaction through the parser's auth decoder and
// chain.NewTransaction.
func (s txSpec) build(p chain.Parser) (*chain.Transaction, error) {
	au, err := p.ParseAuth(s.AuthBytes)
	if err != nil {
		return nil, fmt.Errorf("auth produced by the real factory is rejected by its parser: %w", err)
	}
	return chain.NewTransaction(s.base(), s.actions(), au)
}

type hdrSpec struct {
	Parent    []byte // 32
	Timestamp int64
	Height    uint64
	StateRoot []byte // 32
	HasCtx    bool
	PChain    uint64
}

func (h hdrSpec) ctx() *block.Context {
	if !h.HasCtx {
		return nil
	}
	return &block.Context{PChainHeight: h.PChain}
}

func id32(b []byte) ids.ID {
	var id ids.ID
	copy(id[:], b)
	return id
}

func blockTree(h hdrSpec, txs []txSpec, field uint32) *node {
	var kids []*node
	if p := id32(h.Parent); p != ids.Empty {
		kids = append(kids, leafBytes("block.parent", 1, p[:]))
	}
	if h.Timestamp != 0 {
		kids = append(kids, leafFixed64("block.timestamp", 2, uint64(h.Timestamp)))
	}
	if h.Height != 0 {
		kids = append(kids, leafFixed64("block.height", 3, h.Height))
	}
	if h.HasCtx && h.PChain != 0 {
		kids = append(kids, msgNode("ctx", "ctx", 4, []*node{leafVarint("ctx.pchain", 1, h.PChain)}))
	}
	for _, t := range txs {
		kids = append(kids, t.tree(5))
	}
	if r := id32(h.StateRoot); r != ids.Empty {
		kids = append(kids, leafBytes("block.stateroot", 6, r[:]))
	}
	if field == 0 {
		return rootNode("block", "block", kids)
	}
	return msgNode("block", "block", field, kids)
}

type resSpec struct {
	Success bool
	Error   []byte   `json:",omitempty"`
	Outputs [][]byte `json:",omitempty"`
	Units   [5]uint64
	Fee     uint64
}

func (r resSpec) result() *chain.Result {
	out := &chain.Result{Success: r.Success, Error: r.Error, Units: fees.Dimensions(r.Units), Fee: r.Fee}
	for _, o := range r.Outputs {
		out.Outputs = append(out.Outputs, append([]byte{}, o...))
	}
	return out
}

func resultKids(success bool, errb []byte, outputs [][]byte, units [5]uint64, fee uint64) []*node {
	var kids []*node
	if success {
		kids = append(kids, leafVarint("result.success", 1, 1))
	}
	if len(errb) > 0 {
		kids = append(kids, leafBytes("result.error", 2, errb))
	}
	for _, o := range outputs {
		kids = append(kids, leafBytes("result.output", 3, o))
	}
	if units != [5]uint64{} {
		kids = append(kids, leafBytes("result.units", 4, packed5(units)))
	}
	if fee != 0 {
		kids = append(kids, leafFixed64("result.fee", 5, fee))
	}
	return kids
}

func (r resSpec) tree(field uint32) *node {
	kids := resultKids(r.Success, r.Error, r.Outputs, r.Units, r.Fee)
	if field == 0 {
		return rootNode("result", "result", kids)
	}
	return msgNode("result", "result", field, kids)
}

func execResultsTree(rs []resSpec, prices, consumed [5]uint64, field uint32) *node {
	var kids []*node
	for _, r := range rs {
		kids = append(kids, r.tree(1))
	}
	if prices != [5]uint64{} {
		kids = append(kids, leafBytes("er.prices", 2, packed5(prices)))
	}
	if consumed != [5]uint64{} {
		kids = append(kids, leafBytes("er.consumed", 3, packed5(consumed)))
	}
	if field == 0 {
		return rootNode("er", "er", kids)
	}
	return msgNode("er", "er", field, kids)
}

func emptyMsg(n *node) bool { return len(n.Kids) == 0 && len(n.Tail) == 0 }
