package codecprops

// C14: the unit estimate used to set a generated transaction's maximum fee
// (chain.EstimateUnits, used by chain.GenerateTransaction) is never below the
// units the signed transaction actually consumes (Transaction.Units) under the
// same rules, in any dimension; hence MaxFee >= the fee at the given prices.

import (
	"context"
	"encoding/json"
	"fmt"
	"math/big"
	"strings"
	"testing"

	"github.com/ava-labs/avalanchego/ids"
	"pgregory.net/rapid"

	"github.com/ava-labs/hypersdk/chain"
	"github.com/ava-labs/hypersdk/chain/chaintest"
	"github.com/ava-labs/hypersdk/codec"
	"github.com/ava-labs/hypersdk/fees"
	"github.com/ava-labs/hypersdk/genesis"
	"github.com/ava-labs/hypersdk/state"
	"github.com/ava-labs/hypersdk/verifharness/fixture"
	"github.com/ava-labs/hypersdk/verifharness/vstat"

	mactions "github.com/ava-labs/hypersdk/examples/morpheusvm/actions"
)

// blobAction is an action whose encoding is an arbitrary byte string of a chosen
// length (>= 1: the type id), so that every length-prefix width is reachable.
// Neither EstimateUnits nor Units parses actions.
type blobAction struct {
	B       []byte
	Keys    state.Keys
	Compute uint64
	// PerID: the action also declares a key derived from its action id (a per-invocation record),
	// so the declared key set differs between actions of one tx and is unknown before signing
	PerID bool
}

var _ chain.Action = (*blobAction)(nil)

func (a *blobAction) GetTypeID() uint8                    { return a.B[0] }
func (*blobAction) ValidRange(chain.Rules) (int64, int64) { return -1, -1 }
func (a *blobAction) ComputeUnits(chain.Rules) uint64     { return a.Compute }
func (a *blobAction) StateKeys(_ codec.Address, id ids.ID) state.Keys {
	if !a.PerID {
		return a.Keys
	}
	ks := state.Keys{}
	for k, v := range a.Keys {
		ks[k] = v
	}
	k := append([]byte{0x77}, id[:12]...)
	ks[string(append(k, 0, 2))] = state.All // 2 chunks
	return ks
}
func (a *blobAction) Bytes() []byte { return a.B }
func (*blobAction) Execute(context.Context, chain.Rules, state.Mutable, int64, codec.Address, ids.ID) ([]byte, error) {
	return nil, nil
}

const (
	c14Blob = iota
	c14Prog
	c14Transfer
	c14TestAction
)

type c14Act struct {
	Kind    int
	Size    int // blob: encoded size; transfer: memo length; prog / test action: value length
	Fill    byte
	Compute uint64
	Keys    []fixture.KeyDecl `json:",omitempty"`
	To      int               `json:",omitempty"`
	Nonce   uint64            `json:",omitempty"`
	PerID   bool              `json:",omitempty"`
}

type c14Case struct {
	MaxActions  uint8
	BaseCompute uint64
	Storage     [6]uint64 // key read, value read, key alloc, value alloc, key write, value write
	Scheme      int
	Key         int
	StubCompute uint64
	Prices      [5]uint64
	Now         int64
	Window      int64
	Actions     []c14Act
}

func (c c14Case) rules() *genesis.Rules {
	r := genesis.NewDefaultRules()
	r.ChainID = fixture.ChainID
	r.MaxActionsPerTx = c.MaxActions
	r.ValidityWindow = c.Window
	r.BaseComputeUnits = c.BaseCompute
	r.StorageKeyReadUnits, r.StorageValueReadUnits = c.Storage[0], c.Storage[1]
	r.StorageKeyAllocateUnits, r.StorageValueAllocateUnits = c.Storage[2], c.Storage[3]
	r.StorageKeyWriteUnits, r.StorageValueWriteUnits = c.Storage[4], c.Storage[5]
	// the balance handler of the fixture declares one sponsor key of one chunk
	r.SponsorStateKeysMaxChunks = []uint16{1}
	return r
}

func filled(n int, b byte) []byte {
	v := make([]byte, n)
	for i := range v {
		v[i] = b
	}
	return v
}

func (a c14Act) action() chain.Action {
	switch a.Kind {
	case c14Blob:
		ks := state.Keys{}
		for _, k := range a.Keys {
			ks[string(k.Key)] |= state.Permissions(k.Perm)
		}
		n := a.Size
		if n < 1 {
			n = 1
		}
		return &blobAction{B: filled(n, a.Fill), Keys: ks, Compute: a.Compute, PerID: a.PerID}
	case c14Prog:
		ops := []fixture.Op{}
		if a.Size > 0 && len(a.Keys) > 0 {
			ops = append(ops, fixture.Op{Kind: fixture.OpPut, Key: a.Keys[0].Key, Val: filled(a.Size, a.Fill)})
		}
		return fixture.NewProgAction(a.Compute, -1, -1, a.Nonce, a.Keys, ops)
	case c14Transfer:
		n := a.Size
		if n > mactions.MaxMemoSize {
			n = mactions.MaxMemoSize
		}
		return &mactions.Transfer{To: refAddr(a.To), Value: a.Compute, Memo: filled(n, a.Fill)}
	default:
		t := &chaintest.TestAction{
			NumComputeUnits:              a.Compute,
			SpecifiedStateKeys:           []string{},
			SpecifiedStateKeyPermissions: []state.Permissions{},
			ReadKeys:                     [][]byte{},
			WriteKeys:                    [][]byte{},
			WriteValues:                  [][]byte{},
			Nonce:                        a.Nonce,
			Start:                        -1,
			End:                          -1,
		}
		for _, k := range a.Keys {
			t.SpecifiedStateKeys = append(t.SpecifiedStateKeys, string(k.Key))
			t.SpecifiedStateKeyPermissions = append(t.SpecifiedStateKeyPermissions, state.Permissions(k.Perm))
		}
		if a.Size > 0 {
			t.WriteKeys = append(t.WriteKeys, fixture.UKey('w', 0))
			t.WriteValues = append(t.WriteValues, filled(a.Size, a.Fill))
		}
		return t
	}
}

func (c c14Case) factory() chain.AuthFactory {
	if c.Scheme == schemeStub {
		ad := fixture.Addr(c.Key)
		return &fixture.StubAuthFactory{Auth: &fixture.StubAuth{SponsorAddr: ad, ActorAddr: ad, Compute: c.StubCompute, Start: -1, End: -1, Valid: true}}
	}
	return keyPool(c.Scheme, c.Key)
}

// key universe: a few names x chunk suffixes, so that actions overlap
var c14Universe = func() [][]byte {
	var u [][]byte
	for _, n := range []byte("abcdef") {
		for _, ch := range []uint16{0, 1, 2, 7} {
			u = append(u, fixture.UKey(n, ch))
		}
	}
	u = append(u, fixture.UKey('z', 65535), fixture.BalanceKey(0), fixture.BalanceKey(1))
	return u
}()

func c14GenAct(rt *rapid.T, i int, big *int, huge bool) c14Act {
	a := c14Act{
		Kind:    rapid.SampledFrom([]int{c14Blob, c14Blob, c14Blob, c14Prog, c14Transfer, c14TestAction}).Draw(rt, "kind"),
		Fill:    rapid.Byte().Draw(rt, "fill"),
		Compute: rapid.SampledFrom([]uint64{0, 1, 1, 5, 1000, 1 << 20}).Draw(rt, "compute"),
		To:      rapid.IntRange(0, 3).Draw(rt, "to"),
		Nonce:   uint64(i),
	}
	if a.Kind == c14Blob && rapid.IntRange(0, 2).Draw(rt, "perid") == 0 {
		a.PerID = true
	}
	if huge && rapid.IntRange(0, 3).Draw(rt, "hugecompute") == 3 {
		a.Compute = rapid.SampledFrom([]uint64{1 << 56, 1 << 62, 1<<64 - 1}).Draw(rt, "computehuge")
	}
	// encoded-size classes: 1-byte, 2-byte and 3-byte length prefixes, with the edges
	class := rapid.SampledFrom([]int{0, 0, 0, 0, 1, 1, 2}).Draw(rt, "sizeclass")
	if class == 2 {
		if *big <= 0 {
			class = 1
		} else {
			*big--
		}
	}
	switch class {
	case 0:
		a.Size = rapid.SampledFrom([]int{1, 1, 2, 8, 40, 100, 126, 127}).Draw(rt, "size")
	case 1:
		a.Size = rapid.SampledFrom([]int{128, 129, 200, 256, 1000, 2000, 16383}).Draw(rt, "size")
	default:
		a.Size = rapid.SampledFrom([]int{16384, 16385, 20000}).Draw(rt, "size")
	}
	nk := rapid.SampledFrom([]int{0, 0, 1, 1, 2, 3, 6}).Draw(rt, "nkeys")
	for k := 0; k < nk; k++ {
		key := rapid.SampledFrom(c14Universe).Draw(rt, "key")
		perm := rapid.SampledFrom([]uint8{uint8(state.Read), uint8(state.Write), uint8(state.Allocate), uint8(state.All)}).Draw(rt, "perm")
		a.Keys = append(a.Keys, fixture.KeyDecl{Key: key, Perm: perm})
	}
	return a
}

func c14Gen(rt *rapid.T) c14Case {
	small := rapid.SampledFrom([]uint64{0, 1, 2, 5, 20, 1000})
	// one case in ten explores the uint64 overflow region of the sums
	huge := rapid.IntRange(0, 9).Draw(rt, "huge") == 9
	c := c14Case{
		MaxActions:  rapid.OneOf(rapid.SampledFrom([]uint8{0, 1, 2, 16, 17, 18, 22, 23, 24, 32, 64, 128, 254, 255}), rapid.Uint8()).Draw(rt, "maxactions"),
		BaseCompute: small.Draw(rt, "basecompute"),
		Scheme:      rapid.IntRange(0, 3).Draw(rt, "scheme"),
		Key:         rapid.IntRange(0, poolSize-1).Draw(rt, "key"),
		StubCompute: small.Draw(rt, "stubcompute"),
		Now:         rapid.SampledFrom([]int64{0, 1, 999, 1_000, 1_700_000_000_000, 1_724_315_246_123, 1 << 53, 1<<62 - 1}).Draw(rt, "now"),
		Window:      rapid.SampledFrom([]int64{0, 1_000, 60_000, 1 << 40}).Draw(rt, "window"),
	}
	for i := range c.Storage {
		c.Storage[i] = small.Draw(rt, "storage")
		if huge && rapid.IntRange(0, 2).Draw(rt, "hugestorage") == 2 {
			c.Storage[i] = rapid.SampledFrom([]uint64{1 << 20, 1 << 44, 1 << 60}).Draw(rt, "storagehuge")
		}
	}
	for i := range c.Prices {
		c.Prices[i] = rapid.SampledFrom([]uint64{0, 1, 1, 100, 100, 1000, 1 << 20}).Draw(rt, "price")
		if huge && rapid.IntRange(0, 2).Draw(rt, "hugeprice") == 2 {
			c.Prices[i] = rapid.SampledFrom([]uint64{1 << 42, 1 << 63}).Draw(rt, "pricehuge")
		}
	}
	// number of actions: anywhere in 0..MaxActions, biased to the limit
	n := int(c.MaxActions)
	switch rapid.IntRange(0, 3).Draw(rt, "nmode") {
	case 0:
		n = rapid.IntRange(0, int(c.MaxActions)).Draw(rt, "n")
	case 1:
		if n > 0 {
			n = rapid.IntRange((n+1)/2, n).Draw(rt, "nhigh")
		}
	}
	big := rapid.SampledFrom([]int{0, 0, 1, 3, 20}).Draw(rt, "bigbudget")
	for i := 0; i < n; i++ {
		c.Actions = append(c.Actions, c14GenAct(rt, i, &big, huge))
	}
	return c
}

func nActionsBucket(n int) string {
	switch {
	case n == 0:
		return "actions=0"
	case n == 1:
		return "actions=1"
	case n <= 16:
		return "actions=2..16"
	case n <= 22:
		return "actions=17..22"
	case n <= 64:
		return "actions=23..64"
	case n <= 254:
		return "actions=65..254"
	}
	return "actions=255"
}

var dimNames = [...]string{"bandwidth", "compute", "storage-read", "storage-allocate", "storage-write"}

func c14Run(c c14Case, st *vstat.Stats) error {
	rules := c.rules()
	bh := fixture.BalanceHandler()
	factory := c.factory()
	actions := make([]chain.Action, len(c.Actions))
	labels := []string{nActionsBucket(len(c.Actions)), "scheme:" + schemeNames[c.Scheme]}
	var has1, has2, has3, overlap bool
	seen := map[string]bool{}
	total := 0
	for i, a := range c.Actions {
		actions[i] = a.action()
		l := len(actions[i].Bytes())
		total += l
		switch {
		case l < 128:
			has1 = true
		case l < 16384:
			has2 = true
		default:
			has3 = true
		}
		for _, k := range a.Keys {
			if seen[string(k.Key)] {
				overlap = true
			}
			seen[string(k.Key)] = true
		}
	}
	for _, x := range []struct {
		on bool
		l  string
	}{{has1, "has-action<128B"}, {has2, "has-action-128B..16KiB"}, {has3, "has-action>=16KiB"}, {overlap, "overlapping-keys"},
		{len(c.Actions) == int(c.MaxActions), "actions==MaxActionsPerTx"}, {len(c.Actions) >= 23, "actions>=23"}} {
		if x.on {
			labels = append(labels, x.l)
		}
	}
	nt := len(c.Actions) >= 17 || has2 || has3
	canon, _ := json.Marshal(c)
	verdict := "held"
	defer func() {
		st.Case(nt, string(canon), append(labels, verdict)...)
		st.Sample(nt, map[string]any{"max_actions": c.MaxActions, "actions": len(c.Actions), "action_bytes": total,
			"scheme": schemeNames[c.Scheme], "verdict": verdict})
	}()

	est, eerr := chain.EstimateUnits(rules, actions, factory)
	tx, gerr := chain.GenerateTransaction(fixture.RuleFactory{R: rules}, fees.Dimensions(c.Prices), c.Now, actions, factory)
	if eerr != nil {
		// no estimate is produced (pessimistic sums exceed uint64): nothing is budgeted,
		// and GenerateTransaction must refuse as well
		verdict = "estimate-error"
		if gerr == nil {
			return fmt.Errorf("EstimateUnits failed (%v) but GenerateTransaction succeeded", eerr)
		}
		return nil
	}
	if gerr != nil {
		// price x estimate overflows uint64: no transaction is produced
		verdict = "generate-error"
		prod := new(big.Int)
		for d := range est {
			prod.Add(prod, new(big.Int).Mul(new(big.Int).SetUint64(c.Prices[d]), new(big.Int).SetUint64(est[d])))
		}
		if prod.IsUint64() {
			return fmt.Errorf("GenerateTransaction failed (%v) although prices x estimate = %s fits uint64", gerr, prod)
		}
		// still compare the estimate with a manually generated transaction
		var merr error
		tx, merr = chain.GenerateTransactionManual(rules, c.Now, actions, factory, 0)
		if merr != nil {
			return fmt.Errorf("GenerateTransactionManual: %v", merr)
		}
	}
	if len(tx.Actions) != len(actions) {
		return fmt.Errorf("generated tx has %d actions, want %d", len(tx.Actions), len(actions))
	}
	actual, uerr := tx.Units(bh, rules)
	if uerr != nil {
		return fmt.Errorf("estimate succeeded (%v) but Units of the signed tx failed: %v", est, uerr)
	}
	if actual[fees.Bandwidth] != uint64(len(tx.Bytes())) {
		return fmt.Errorf("bandwidth units %d != encoded size %d", actual[fees.Bandwidth], len(tx.Bytes()))
	}
	var under []string
	for d := range est {
		if est[d] < actual[d] {
			under = append(under, fmt.Sprintf("%s: estimate %d < actual %d (short by %d)", dimNames[d], est[d], actual[d], actual[d]-est[d]))
		}
	}
	if len(under) > 0 {
		verdict = "under-estimate"
		return fmt.Errorf("EstimateUnits under-estimates a tx of %d actions (%d action bytes, auth %s, MaxActionsPerTx %d): %s",
			len(actions), total, schemeNames[c.Scheme], c.MaxActions, strings.Join(under, "; "))
	}
	if gerr == nil {
		// MaxFee (prices x estimate) must cover the fee of the actual units at the same prices
		fee := new(big.Int)
		for d := range actual {
			fee.Add(fee, new(big.Int).Mul(new(big.Int).SetUint64(c.Prices[d]), new(big.Int).SetUint64(actual[d])))
		}
		if new(big.Int).SetUint64(tx.Base.MaxFee).Cmp(fee) < 0 {
			verdict = "maxfee-below-fee"
			return fmt.Errorf("GenerateTransaction MaxFee %d < fee %s of the actual units %v at prices %v", tx.Base.MaxFee, fee, actual, c.Prices)
		}
	}
	return nil
}

func TestC14(t *testing.T) {
	st := vstat.New(t, "C14", "rules with MaxActionsPerTx over the whole uint8 range and generated unit costs; 0..MaxActionsPerTx actions (raw-blob actions of 1 B..20 KB covering 1/2/3-byte length prefixes, ProgAction, MorpheusVM Transfer, chaintest.TestAction) with 0..6 overlapping declared keys; signed by the real ed25519/secp256r1/BLS factories or StubAuthFactory through GenerateTransaction; oracle EstimateUnits[d] >= Units[d] for all d and MaxFee >= sum price*units (math/big); non-trivial = >=17 actions or an action >=128 bytes; distinct by the whole case")
	st.Assumption("rules.SponsorStateKeysMaxChunks matches the balance handler in use ([1] for balance.PrefixBalanceHandler)")
	rapid.Check(t, func(rt *rapid.T) {
		c := c14Gen(rt)
		vstat.Run(rt, st, c, func() error { return c14Run(c, st) })
	})
}

func TestC14Replay(t *testing.T) {
	vstat.Replay(t, "C14", func(raw []byte) error {
		var c c14Case
		if err := json.Unmarshal(raw, &c); err != nil {
			return err
		}
		return c14Run(c, vstat.New(nil, "C14", ""))
	})
}
