package cryptoauth

// C17: signatures are non-malleable and bound to the actor's address.
//
// For an honestly generated key and an honest signature (msg, pk, sig) of each scheme, every
// algebraic re-encoding / byte mutation (pk', sig') != (pk, sig) — and the honest pair over a
// changed message — must be rejected (at decode or by Verify); whatever decodes re-encodes to
// the same bytes; Actor()==Sponsor() = typeID || sha256(public key bytes) = New*Address(pk);
// Unmarshal(auth.Bytes()) round-trips. Arbitrary byte strings fed to the three Unmarshal
// functions never panic and obey the same decode => canonical/re-encode/address rules.

import (
	"bytes"
	"context"
	"crypto/ecdsa"
	"crypto/elliptic"
	"crypto/sha256"
	"encoding/hex"
	"encoding/json"
	"errors"
	"fmt"
	"math/big"
	"sort"
	"sync"
	"testing"

	"filippo.io/edwards25519"
	blst "github.com/supranational/blst/bindings/go"
	"pgregory.net/rapid"

	"github.com/ava-labs/hypersdk/auth"
	"github.com/ava-labs/hypersdk/chain"
	"github.com/ava-labs/hypersdk/codec"
	"github.com/ava-labs/hypersdk/crypto/bls"
	"github.com/ava-labs/hypersdk/crypto/ed25519"
	"github.com/ava-labs/hypersdk/crypto/secp256r1"
	"github.com/ava-labs/hypersdk/verifharness/vstat"
)

// ------------------------------------------------------------------ scheme table

type c17Scheme struct {
	name      string
	typeID    uint8
	pkLen     int
	sigLen    int
	unmarshal func([]byte) (chain.Auth, error)
}

var c17Schemes = [3]c17Scheme{
	{"ed25519", auth.ED25519ID, ed25519.PublicKeyLen, ed25519.SignatureLen, auth.UnmarshalED25519},
	{"secp256r1", auth.SECP256R1ID, secp256r1.PublicKeyLen, secp256r1.SignatureLen, auth.UnmarshalSECP256R1},
	{"bls", auth.BLSID, bls.PublicKeyLen, bls.SignatureLen, auth.UnmarshalBLS},
}

// the property's own statement of the type ids (docs/explanation/features.md, auth/consts.go)
var c17WantTypeID = [3]uint8{0, 1, 2}

// ------------------------------------------------------------------ case

// op kinds. 0..19 algebraic (meaning depends on the scheme), 100 byte mutation, 101 message mutation.
const (
	c17OpByteMut = 100
	c17OpMsgMut  = 101
)

type c17Op struct {
	Kind    int
	A, B, C int
}

type c17Case struct {
	Mode   string // "sig": honest signature + re-encodings; "raw": arbitrary bytes to Unmarshal
	Scheme int
	Seed   []byte // 32 bytes -> key through the scheme's own derivation
	Msg    []byte
	Ops    []c17Op
	Raw    []byte // mode raw
	// mode "secp-s": a genuine secp256r1 signature constructed for a chosen s (Seed = nonce seed):
	// s = c17SecpSTargets[STarget] + SDelta, or N/2 + 1 + (SRand mod (2^255 - N/2 - 1)) for STarget == -1
	STarget int
	SDelta  int
	SRand   []byte
}

var c17AlgKinds = [3]int{9, 10, 14} // number of algebraic op kinds per scheme

func c17MsgGen() *rapid.Generator[[]byte] {
	return rapid.Custom(func(rt *rapid.T) []byte {
		n := rapid.OneOf(
			rapid.SampledFrom([]int{0, 1, 2, 31, 32, 33, 55, 56, 63, 64, 65, 111, 112, 127, 128, 129, 255, 256, 1000, 1999, 2000}),
			rapid.IntRange(0, 2000),
		).Draw(rt, "msgLen")
		seed := rapid.SliceOfN(rapid.Byte(), 8, 8).Draw(rt, "msgSeed")
		out := make([]byte, 0, n+32)
		for ctr := 0; len(out) < n; ctr++ {
			h := sha256.Sum256(append(append([]byte{}, seed...), byte(ctr), byte(ctr>>8)))
			out = append(out, h[:]...)
		}
		return out[:n]
	})
}

func c17Gen(rt *rapid.T) c17Case {
	c := c17Case{Scheme: rapid.SampledFrom([]int{0, 0, 0, 1, 1, 1, 2, 2}).Draw(rt, "scheme")}
	sc := c17Schemes[c.Scheme]
	// (rapid favours small indices: "sig" first keeps it the bulk of the cases)
	mode := rapid.SampledFrom([]string{"sig", "sig", "sig", "sig", "sig", "sig", "sig", "sig", "sig", "sig", "sig", "sig", "secp-s", "secp-s", "raw", "raw", "raw", "raw"}).Draw(rt, "mode")
	if mode == "secp-s" {
		// constructed boundary signature: the region (N/2, 2^255) is ~2^-33 of honest signatures
		c.Mode, c.Scheme = "secp-s", schemeSecp
		c.Seed = rapid.SliceOfN(rapid.Byte(), 32, 32).Draw(rt, "nonceSeed")
		c.Msg = c17MsgGen().Draw(rt, "msg")
		c.STarget = rapid.IntRange(0, len(c17SecpSTargets)).Draw(rt, "sTarget")
		c.SDelta = rapid.IntRange(-2, 2).Draw(rt, "sDelta")
		if c.STarget == len(c17SecpSTargets) {
			c.STarget = -1
			c.SRand = rapid.SliceOfN(rapid.Byte(), 32, 32).Draw(rt, "sRand")
		}
		return c
	}
	if mode == "raw" {
		c.Mode = "raw"
		size := 1 + sc.pkLen + sc.sigLen
		switch rapid.IntRange(0, 9).Draw(rt, "rawClass") {
		case 0: // wrong length
			l := rapid.SampledFrom([]int{0, 1, size - 1, size + 1, 2 * size, sc.pkLen, sc.sigLen}).Draw(rt, "rawLen")
			c.Raw = rapid.SliceOfN(rapid.Byte(), l, l).Draw(rt, "raw")
			if l > 0 && rapid.Bool().Draw(rt, "rawTypeOK") {
				c.Raw[0] = sc.typeID
			}
		case 1: // wrong type id
			c.Raw = rapid.SliceOfN(rapid.Byte(), size, size).Draw(rt, "raw")
		case 2, 3, 4: // honest public key of one pool key spliced with an honest signature of another key / message (always decodable)
			i, j, k := rapid.IntRange(0, poolSize-1).Draw(rt, "rawPk"), rapid.IntRange(0, poolSize-1).Draw(rt, "rawSigKey"), rapid.IntRange(0, 7).Draw(rt, "rawSigMsg")
			a := c17PoolAuth(c.Scheme, i, 0)
			b := c17PoolAuth(c.Scheme, j, k)
			c.Raw = append(append([]byte{sc.typeID}, a[1:1+sc.pkLen]...), b[1+sc.pkLen:]...)
			if rapid.Bool().Draw(rt, "rawMutate") {
				c.Raw[rapid.IntRange(1, size-1).Draw(rt, "rawPos")] ^= 1 << rapid.IntRange(0, 7).Draw(rt, "rawBit")
			}
		default: // right length and type id, arbitrary body (edge-biased bytes)
			c.Raw = rapid.SliceOfN(rapid.OneOf(rapid.Byte(), rapid.SampledFrom([]byte{0, 0xff, 0x80, 0x7f, 1, 2, 3, 0xc0})), size, size).Draw(rt, "raw")
			c.Raw[0] = sc.typeID
		}
		return c
	}
	c.Mode = "sig"
	c.Seed = rapid.SliceOfN(rapid.Byte(), 32, 32).Draw(rt, "seed")
	c.Msg = c17MsgGen().Draw(rt, "msg")
	nOps := rapid.IntRange(3, 8).Draw(rt, "nOps")
	for i := 0; i < nOps; i++ {
		var op c17Op
		switch k := rapid.IntRange(0, 9).Draw(rt, "opClass"); {
		case k < 6:
			op.Kind = rapid.IntRange(0, c17AlgKinds[c.Scheme]-1).Draw(rt, "algKind")
			if c.Scheme == schemeBLS { // rapid favours small values: keep the constructed torsion kinds (12, 13) well represented
				op.Kind = []int{0, 12, 1, 13, 2, 3, 4, 5, 6, 7, 8, 9, 10, 11}[op.Kind]
			}
		case k < 9:
			op.Kind = c17OpByteMut
		default:
			op.Kind = c17OpMsgMut
		}
		op.A = rapid.IntRange(0, 1<<16).Draw(rt, "a")
		op.B = rapid.IntRange(0, 1<<16).Draw(rt, "b")
		op.C = rapid.IntRange(0, 1<<16).Draw(rt, "c")
		c.Ops = append(c.Ops, op)
	}
	return c
}

var c17PoolMem = map[[3]int][]byte{}

// c17PoolAuth returns the encoded honest auth of pool key i over the fixed message number k.
func c17PoolAuth(scheme, i, k int) []byte {
	c16Mu.Lock()
	defer c16Mu.Unlock()
	key := [3]int{scheme, i, k}
	if b, ok := c17PoolMem[key]; ok {
		return b
	}
	a, err := pool(scheme, i).Sign([]byte(fmt.Sprintf("verif raw message %d", k)))
	if err != nil {
		panic(err)
	}
	c17PoolMem[key] = a.Bytes()
	return c17PoolMem[key]
}

// ------------------------------------------------------------------ curve helpers

var c17Torsion [8]*edwards25519.Point // the eight 8-torsion points of edwards25519 (index 0 = identity)

func init() {
	enc := []string{
		"0100000000000000000000000000000000000000000000000000000000000000",
		"ecffffffffffffffffffffffffffffffffffffffffffffffffffffffffffff7f",
		"0000000000000000000000000000000000000000000000000000000000000000",
		"0000000000000000000000000000000000000000000000000000000000000080",
		"26e8958fc2b227b045c3f489f2ef98f0d5dfac05d3c63339b13802886d53fc05",
		"26e8958fc2b227b045c3f489f2ef98f0d5dfac05d3c63339b13802886d53fc85",
		"c7176a703d4dd84fba3c0b760d10670f2a2053fa2c39ccc64ec7fd7792ac037a",
		"c7176a703d4dd84fba3c0b760d10670f2a2053fa2c39ccc64ec7fd7792ac03fa",
	}
	id := edwards25519.NewIdentityPoint()
	for i, e := range enc {
		b, _ := hex.DecodeString(e)
		p, err := new(edwards25519.Point).SetBytes(b)
		if err != nil {
			panic(fmt.Sprintf("torsion point %d: %v", i, err))
		}
		if new(edwards25519.Point).MultByCofactor(p).Equal(id) != 1 {
			panic(fmt.Sprintf("torsion point %d is not of small order", i))
		}
		c17Torsion[i] = p
	}
}

func c17EdAddTorsion(enc []byte, idx int) ([]byte, bool) {
	p, err := new(edwards25519.Point).SetBytes(enc)
	if err != nil {
		return nil, false
	}
	return new(edwards25519.Point).Add(p, c17Torsion[1+idx%7]).Bytes(), true
}

func c17EdNeg(enc []byte) ([]byte, bool) {
	p, err := new(edwards25519.Point).SetBytes(enc)
	if err != nil {
		return nil, false
	}
	return new(edwards25519.Point).Negate(p).Bytes(), true
}

// c17EdNonCanonY returns the encoding y+p (same sign bit) if y < 19.
func c17EdNonCanonY(enc []byte) ([]byte, bool) {
	b := append([]byte{}, enc...)
	sign := b[31] & 0x80
	b[31] &= 0x7f
	y := fromLE(b)
	if y.Cmp(big.NewInt(19)) >= 0 {
		return nil, false
	}
	out, err := le32(new(big.Int).Add(y, edP))
	if err != nil {
		return nil, false
	}
	out[31] |= sign
	return out, true
}

var blsP, _ = new(big.Int).SetString("1a0111ea397fe69a4b1ba7b6434bacd764774b84f38512bf6730d2a0f6b0f6241eabfffeb153ffffb9feffffffffaaab", 16)

// c17BLSAddP adds the field modulus to the 48-byte big-endian coordinate at b[off:off+48]; when
// flagged is true the top three bits of the first byte are flags and only 381 bits are available.
func c17BLSAddP(b []byte, off int, flagged bool) ([]byte, bool) {
	out := append([]byte{}, b...)
	co := append([]byte{}, out[off:off+48]...)
	var flags byte
	limit := new(big.Int).Lsh(bigOne, 384)
	if flagged {
		flags = co[0] & 0xe0
		co[0] &= 0x1f
		limit = new(big.Int).Lsh(bigOne, 381)
	}
	x := new(big.Int).Add(new(big.Int).SetBytes(co), blsP)
	if x.Cmp(limit) >= 0 {
		return nil, false
	}
	x.FillBytes(co)
	co[0] |= flags
	copy(out[off:], co)
	return out, true
}

// ---- BLS12-381 cofactor torsion: points on the curve but outside the prime-order subgroup.
// T = [r]P for an arbitrary curve point P (r = group order) lies in the cofactor subgroup; adding it
// to an honest key / signature gives a different encoding of a point OUTSIDE G1 / G2 for which the
// pairing equation still holds (the final exponentiation kills the torsion component), so only
// the subgroup check at decode time rejects it.

var (
	c17TorsionOnce   sync.Once
	c17TorsionG1     []*blst.P1
	c17TorsionG2     []*blst.P2
	blsG1Cofactor, _ = new(big.Int).SetString("396c8c005555e1568c00aaab0000aaab", 16)
)

func leBytes(x *big.Int, n int) []byte {
	b := make([]byte, n)
	x.FillBytes(b)
	for i, j := 0, n-1; i < j; i, j = i+1, j-1 {
		b[i], b[j] = b[j], b[i]
	}
	return b
}

func c17IsInfG1(p *blst.P1) bool { return p.ToAffine().Compress()[0]&0x40 != 0 }
func c17IsInfG2(p *blst.P2) bool { return p.ToAffine().Compress()[0]&0x40 != 0 }

// c17Torsion builds (once, deterministically) four non-trivial torsion points of E(F_p) and of E'(F_p2).
func c17TorsionPoints() ([]*blst.P1, []*blst.P2) {
	c17TorsionOnce.Do(func() {
		rLE := leBytes(blsR, 32)
		for ctr := 0; len(c17TorsionG1) < 4 && ctr < 10000; ctr++ {
			h1 := sha256.Sum256([]byte(fmt.Sprintf("verif-bls-g1-candidate-%d-a", ctr)))
			h2 := sha256.Sum256([]byte(fmt.Sprintf("verif-bls-g1-candidate-%d-b", ctr)))
			cand := append(h1[:], h2[:16]...)
			cand[0] = 0x80 | (cand[0] & 0x1f)
			aff := new(blst.P1Affine).Uncompress(cand) // on curve, subgroup not checked
			if aff == nil {
				continue
			}
			var p blst.P1
			p.FromAffine(aff)
			t := p.Mult(rLE)
			if c17IsInfG1(t) {
				continue
			}
			// sanity of the arithmetic: T is on the curve, outside G1, and killed by the cofactor
			ta := t.ToAffine()
			if new(blst.P1Affine).Uncompress(ta.Compress()) == nil || ta.InG1() || !c17IsInfG1(t.Mult(leBytes(blsG1Cofactor, 16))) {
				panic("blst arithmetic on non-subgroup G1 points is not usable")
			}
			c17TorsionG1 = append(c17TorsionG1, t)
		}
		for ctr := 0; len(c17TorsionG2) < 4 && ctr < 10000; ctr++ {
			var cand []byte
			for i := 0; i < 3; i++ {
				h := sha256.Sum256([]byte(fmt.Sprintf("verif-bls-g2-candidate-%d-%d", ctr, i)))
				cand = append(cand, h[:]...)
			}
			cand[0] = 0x80 | (cand[0] & 0x1f)
			cand[48] &= 0x1f
			aff := new(blst.P2Affine).Uncompress(cand)
			if aff == nil {
				continue
			}
			var p blst.P2
			p.FromAffine(aff)
			t := p.Mult(rLE)
			if c17IsInfG2(t) {
				continue
			}
			ta := t.ToAffine()
			if new(blst.P2Affine).Uncompress(ta.Compress()) == nil || ta.InG2() {
				panic("blst arithmetic on non-subgroup G2 points is not usable")
			}
			c17TorsionG2 = append(c17TorsionG2, t)
		}
		if len(c17TorsionG1) == 0 || len(c17TorsionG2) == 0 {
			panic("no BLS torsion points found")
		}
	})
	return c17TorsionG1, c17TorsionG2
}

// c17BLSAddTorsionPK returns compress(pk + [k]T) for torsion point number idx.
func c17BLSAddTorsionPK(pk []byte, idx, k int) ([]byte, bool) {
	ts, _ := c17TorsionPoints()
	aff := new(blst.P1Affine).Uncompress(pk)
	if aff == nil {
		return nil, false
	}
	var p blst.P1
	p.FromAffine(aff)
	kt := ts[idx%len(ts)].Mult([]byte{byte(k)})
	if c17IsInfG1(kt) {
		return nil, false
	}
	return p.Add(kt).ToAffine().Compress(), true
}

func c17BLSAddTorsionSig(sig []byte, idx, k int) ([]byte, bool) {
	_, ts := c17TorsionPoints()
	aff := new(blst.P2Affine).Uncompress(sig)
	if aff == nil {
		return nil, false
	}
	var p blst.P2
	p.FromAffine(aff)
	kt := ts[idx%len(ts)].Mult([]byte{byte(k)})
	if c17IsInfG2(kt) {
		return nil, false
	}
	return p.Add(kt).ToAffine().Compress(), true
}

// c17SecpSecondKey returns the other public key under which the ECDSA signature (r,s) verifies
// for msg: Q2 = r^-1 (s(-R) - zG) where R = u1 G + u2 Q. Not an encoding of Q: a different key.
func c17SecpSecondKey(pk []byte, sig []byte, msg []byte) ([]byte, bool) {
	cv := elliptic.P256()
	qx, qy := elliptic.UnmarshalCompressed(cv, pk)
	if qx == nil {
		return nil, false
	}
	r := new(big.Int).SetBytes(sig[:32])
	s := new(big.Int).SetBytes(sig[32:])
	if r.Sign() == 0 || s.Sign() == 0 {
		return nil, false
	}
	d := sha256.Sum256(msg)
	z := new(big.Int).SetBytes(d[:])
	sInv := new(big.Int).ModInverse(s, secpN)
	u1 := new(big.Int).Mod(new(big.Int).Mul(z, sInv), secpN)
	u2 := new(big.Int).Mod(new(big.Int).Mul(r, sInv), secpN)
	x1, y1 := cv.ScalarBaseMult(u1.Bytes())
	x2, y2 := cv.ScalarMult(qx, qy, u2.Bytes())
	rx, ry := cv.Add(x1, y1, x2, y2)
	negRy := new(big.Int).Sub(secpP, ry)
	ax, ay := cv.ScalarMult(rx, negRy, s.Bytes()) // s(-R)
	zx, zy := cv.ScalarBaseMult(z.Bytes())
	zy = new(big.Int).Sub(secpP, zy) // -zG
	bx, by := cv.Add(ax, ay, zx, zy)
	rInv := new(big.Int).ModInverse(r, secpN)
	q2x, q2y := cv.ScalarMult(bx, by, rInv.Bytes())
	if q2x.Sign() == 0 && q2y.Sign() == 0 {
		return nil, false
	}
	return elliptic.MarshalCompressed(cv, q2x, q2y), true
}

// ------------------------------------------------------------------ deriving (pk', sig') from (pk, sig)

type c17Derived struct {
	label      string
	pk, sig    []byte
	msg        []byte // nil = the signed message
	relatedKey bool   // a transformation to a different abstract public key that is expected to verify: observed, not asserted
}

// c17Apply interprets an op. ok=false: inapplicable to this key/signature (counted as skipped).
func c17Apply(scheme int, op c17Op, pk, sig, msg []byte) (c17Derived, bool) {
	d := c17Derived{pk: append([]byte{}, pk...), sig: append([]byte{}, sig...)}
	switch op.Kind {
	case c17OpByteMut:
		n := 1 + op.C%3
		pos := []int{op.A, op.B, op.A + op.B + 1}
		msk := []int{op.B, op.C, op.A}
		body := append(append([]byte{}, pk...), sig...)
		for i := 0; i < n; i++ {
			m := byte(1 << (msk[i] % 8))
			if (msk[i]/8)%3 == 0 { // a third of the mutations replace the byte by an arbitrary different one
				m = byte(1 + (msk[i]/24)%255)
			}
			body[pos[i]%len(body)] ^= m
		}
		d.label = fmt.Sprintf("byte-mutation-x%d", n)
		d.pk, d.sig = body[:len(pk)], body[len(pk):]
		return d, true
	case c17OpMsgMut:
		var m []byte
		switch op.A % 6 {
		case 0:
			if len(msg) == 0 {
				return d, false
			}
			m = append([]byte{}, msg...)
			m[op.B%len(m)] ^= 1 << (op.C % 8)
			d.label = "msg-bit-flip"
		case 1:
			if len(msg) == 0 {
				return d, false
			}
			m = append([]byte{}, msg[:len(msg)-1]...)
			d.label = "msg-truncated"
		case 2:
			m = append(append([]byte{}, msg...), byte(op.B))
			d.label = "msg-extended"
		case 3:
			m = append([]byte{byte(op.B)}, msg...)
			d.label = "msg-prefixed"
		case 4:
			if len(msg) == 0 {
				return d, false
			}
			m = []byte{}
			d.label = "msg-empty"
		default:
			m = append(append([]byte{}, msg...), msg...)
			if len(msg) == 0 {
				m = []byte{0}
			}
			d.label = "msg-doubled"
		}
		d.msg = m
		return d, true
	}
	switch scheme {
	case schemeEd:
		R, S := d.sig[:32], d.sig[32:]
		switch op.Kind {
		case 0: // s + k*l
			k := int64(1 + op.A%15)
			v, err := le32(new(big.Int).Add(fromLE(S), new(big.Int).Mul(big.NewInt(k), edL)))
			if err != nil {
				return d, false
			}
			copy(S, v)
			d.label = "ed:s+k*l"
		case 1:
			R[31] ^= 0x80
			d.label = "ed:R-sign-bit"
		case 2:
			d.pk[31] ^= 0x80
			d.label = "ed:A-sign-bit"
		case 3:
			v, ok := c17EdAddTorsion(R, op.A)
			if !ok {
				return d, false
			}
			copy(R, v)
			d.label = "ed:R+torsion"
		case 4:
			v, ok := c17EdAddTorsion(d.pk, op.A)
			if !ok {
				return d, false
			}
			copy(d.pk, v)
			d.label = "ed:A+torsion"
		case 5: // (-R, l-s)
			v, ok := c17EdNeg(R)
			if !ok {
				return d, false
			}
			copy(R, v)
			ns, _ := le32(new(big.Int).Mod(new(big.Int).Sub(edL, fromLE(S)), edL))
			copy(S, ns)
			d.label = "ed:(-R,l-s)"
		case 6:
			ns, _ := le32(new(big.Int).Mod(new(big.Int).Sub(edL, fromLE(S)), edL))
			copy(S, ns)
			d.label = "ed:l-s"
		case 7: // non-canonical y+p of R or A (needs y < 19: never for honest keys/signatures)
			tgt := R
			if op.A%2 == 1 {
				tgt = d.pk
			}
			v, ok := c17EdNonCanonY(tgt)
			if !ok {
				return d, false
			}
			copy(tgt, v)
			d.label = "ed:noncanonical-y"
		default: // degenerate signatures
			switch op.A % 3 {
			case 0:
				copy(S, make([]byte, 32))
				d.label = "ed:s=0"
			case 1:
				copy(R, c17Torsion[0].Bytes())
				copy(S, make([]byte, 32))
				d.label = "ed:(identity,0)"
			default:
				copy(R, c17Torsion[op.B%8].Bytes())
				d.label = "ed:R=small-order"
			}
		}
	case schemeSecp:
		R, S := d.sig[:32], d.sig[32:]
		r, s := new(big.Int).SetBytes(R), new(big.Int).SetBytes(S)
		put := func(dst []byte, v *big.Int) bool {
			b, err := be32(v)
			if err != nil {
				return false
			}
			copy(dst, b)
			return true
		}
		switch op.Kind {
		case 0:
			put(S, new(big.Int).Sub(secpN, s))
			d.label = "secp:(r,n-s)"
		case 1:
			if !put(R, new(big.Int).Add(r, secpN)) {
				return d, false
			}
			d.label = "secp:(r+n,s)"
		case 2:
			if !put(S, new(big.Int).Add(s, secpN)) {
				return d, false
			}
			d.label = "secp:(r,s+n)"
		case 3:
			switch op.A % 5 {
			case 0:
				put(S, new(big.Int))
				d.label = "secp:s=0"
			case 1:
				put(R, new(big.Int))
				d.label = "secp:r=0"
			case 2:
				put(R, new(big.Int))
				put(S, new(big.Int))
				d.label = "secp:(0,0)"
			case 3:
				put(S, secpN)
				d.label = "secp:s=n"
			default:
				put(R, secpN)
				d.label = "secp:r=n"
			}
		case 4:
			put(R, new(big.Int).Sub(secpN, r))
			d.label = "secp:(n-r,s)"
			if op.A%2 == 1 {
				put(S, new(big.Int).Sub(secpN, s))
				d.label = "secp:(n-r,n-s)"
			}
		case 5:
			d.pk[0] ^= 0x01 // 02 <-> 03
			d.label = "secp:prefix-02<->03"
		case 6:
			d.pk[0] = []byte{0x00, 0x04, 0x05, 0x06, 0x07, 0x82, 0x83, 0x01}[op.A%8]
			d.label = "secp:prefix-invalid"
		case 7:
			if !put(d.pk[1:], new(big.Int).Add(new(big.Int).SetBytes(pk[1:]), secpP)) {
				return d, false
			}
			d.label = "secp:x+p"
		case 8:
			q2, ok := c17SecpSecondKey(pk, sig, msg)
			if !ok || bytes.Equal(q2, pk) {
				return d, false
			}
			copy(d.pk, q2)
			d.label = "secp:second-recoverable-key"
			d.relatedKey = true
		default: // swap r and s
			copy(R, sig[32:])
			copy(S, sig[:32])
			d.label = "secp:(s,r)"
		}
	case schemeBLS:
		switch op.Kind {
		case 0:
			d.sig[0] ^= 0x20
			d.label = "bls:sig-sign-flag"
		case 1:
			d.pk[0] ^= 0x20
			d.label = "bls:pk-sign-flag"
		case 2:
			d.sig[0] ^= 0x20
			d.pk[0] ^= 0x20
			d.label = "bls:(-pk,-sig)"
			d.relatedKey = true
		case 3:
			d.sig[0] &^= 0x80
			d.label = "bls:sig-compression-flag-cleared"
		case 4:
			d.pk[0] &^= 0x80
			d.label = "bls:pk-compression-flag-cleared"
		case 5:
			d.sig[0] |= 0x40
			d.label = "bls:sig-infinity-flag-set"
		case 6:
			d.pk[0] |= 0x40
			d.label = "bls:pk-infinity-flag-set"
		case 7:
			inf := make([]byte, len(d.sig))
			inf[0] = 0xc0
			d.sig = inf
			d.label = "bls:sig=infinity"
			if op.A%2 == 1 {
				inf[0] = 0xe0
				d.label = "bls:sig=infinity+sign"
			}
		case 8:
			inf := make([]byte, len(d.pk))
			inf[0] = 0xc0
			d.pk = inf
			d.label = "bls:pk=infinity"
			if op.A%2 == 1 {
				s := make([]byte, len(d.sig))
				s[0] = 0xc0
				d.sig = s
				d.label = "bls:(infinity,infinity)"
			}
		case 9:
			v, ok := c17BLSAddP(d.pk, 0, true)
			if !ok {
				return d, false
			}
			d.pk = v
			d.label = "bls:pk-x+p"
		case 10:
			v, ok := c17BLSAddP(d.sig, 48, false) // c0 of x has no flag bits: x_c0+p always fits
			if !ok {
				return d, false
			}
			d.sig = v
			d.label = "bls:sig-x.c0+p"
		case 11:
			v, ok := c17BLSAddP(d.sig, 0, true)
			if !ok {
				return d, false
			}
			d.sig = v
			d.label = "bls:sig-x.c1+p"
		case 12: // honest key plus a non-trivial cofactor-torsion point: on the curve, outside G1
			v, ok := c17BLSAddTorsionPK(d.pk, op.A, 1+op.B%5)
			if !ok {
				return d, false
			}
			d.pk = v
			d.label = "bls:pk+torsion"
		default: // honest signature plus a torsion point of E'(F_p2): outside G2
			v, ok := c17BLSAddTorsionSig(d.sig, op.A, 1+op.B%5)
			if !ok {
				return d, false
			}
			d.sig = v
			d.label = "bls:sig+torsion"
		}
	}
	return d, true
}

// ------------------------------------------------------------------ constructed secp256r1 boundary signatures

var (
	secpHalf = new(big.Int).Rsh(secpN, 1) // floor(N/2): the largest accepted s
	two255   = new(big.Int).Lsh(bigOne, 255)
	// c17SecpSTargets: values of s around which genuine signatures are constructed
	c17SecpSTargets = []*big.Int{
		big.NewInt(1),
		big.NewInt(3),
		new(big.Int).Sub(secpHalf, bigOne),
		new(big.Int).Set(secpHalf),
		new(big.Int).Add(secpHalf, bigOne),
		new(big.Int).Add(secpHalf, big.NewInt(3)),
		new(big.Int).Add(secpHalf, new(big.Int).Lsh(bigOne, 64)),
		new(big.Int).Add(secpHalf, new(big.Int).Lsh(bigOne, 200)),
		new(big.Int).Add(secpHalf, new(big.Int).Lsh(bigOne, 222)),
		new(big.Int).Sub(two255, big.NewInt(3)),
		new(big.Int).Sub(two255, bigOne),
		new(big.Int).Set(two255),
		new(big.Int).Add(two255, bigOne),
		new(big.Int).Add(two255, new(big.Int).Lsh(bigOne, 200)),
		new(big.Int).Sub(secpN, big.NewInt(3)),
		new(big.Int).Sub(secpN, bigOne),
	}
)

// c17SecpConstruct returns a public key and a genuine ECDSA signature (r, s) of msg with the
// requested s: for nonce k, R = kG, r = x(R) mod N, z = sha256(msg) as crypto/secp256r1 hashes
// it, and private key d = (s*k - z) * r^-1 mod N, so that s = k^-1 (z + r d). ok=false if r or d is 0.
func c17SecpConstruct(nonceSeed [32]byte, msg []byte, sTarget *big.Int) (pk []byte, r, s, d *big.Int, ok bool) {
	cv := elliptic.P256()
	k := new(big.Int).SetBytes(scalarFromSeed(nonceSeed, secpN))
	rx, _ := cv.ScalarBaseMult(k.Bytes())
	r = new(big.Int).Mod(rx, secpN)
	if r.Sign() == 0 {
		return nil, nil, nil, nil, false
	}
	dg := sha256.Sum256(msg)
	z := new(big.Int).SetBytes(dg[:])
	s = new(big.Int).Set(sTarget)
	d = new(big.Int).Mul(s, k)
	d.Sub(d, z)
	d.Mul(d, new(big.Int).ModInverse(r, secpN))
	d.Mod(d, secpN)
	if d.Sign() == 0 {
		return nil, nil, nil, nil, false
	}
	qx, qy := cv.ScalarBaseMult(d.Bytes())
	return elliptic.MarshalCompressed(cv, qx, qy), r, s, d, true
}

func c17RunSecpS(c c17Case, st *vstat.Stats) error {
	sc := c17Schemes[schemeSecp]
	ctx := context.Background()
	if len(c.Seed) != 32 {
		return fmt.Errorf("fixture: nonce seed must be 32 bytes")
	}
	var seed [32]byte
	copy(seed[:], c.Seed)
	var target *big.Int
	region := ""
	if c.STarget < 0 || c.STarget >= len(c17SecpSTargets) {
		width := new(big.Int).Sub(two255, secpHalf)
		width.Sub(width, bigOne) // number of values in (N/2, 2^255)
		target = new(big.Int).Mod(new(big.Int).SetBytes(c.SRand), width)
		target.Add(target, secpHalf).Add(target, bigOne)
	} else {
		target = new(big.Int).Add(c17SecpSTargets[c.STarget], big.NewInt(int64(c.SDelta)))
	}
	if target.Sign() <= 0 {
		target = big.NewInt(1)
	}
	if target.Cmp(secpN) >= 0 {
		target = new(big.Int).Sub(secpN, bigOne)
	}
	switch {
	case target.Cmp(secpHalf) <= 0:
		region = "s<=N/2"
	case target.Cmp(two255) < 0:
		region = "N/2<s<2^255"
	default:
		region = "s>=2^255"
	}
	pk, r, s, d, ok := c17SecpConstruct(seed, c.Msg, target)
	if !ok {
		st.Skip("secp-constructed:degenerate-r-or-d")
		st.Case(false, "", "mode=secp-s")
		return nil
	}
	// independent oracle: the standard library agrees that (r, s) and (r, N-s) are genuine signatures of msg
	qx, qy := elliptic.UnmarshalCompressed(elliptic.P256(), pk)
	if qx == nil {
		return fmt.Errorf("fixture: constructed public key does not decompress")
	}
	std := &ecdsa.PublicKey{Curve: elliptic.P256(), X: qx, Y: qy}
	dg := sha256.Sum256(c.Msg)
	twin := new(big.Int).Sub(secpN, s)
	if !ecdsa.Verify(std, dg[:], r, s) || !ecdsa.Verify(std, dg[:], r, twin) {
		return fmt.Errorf("fixture: constructed signature is not genuine according to crypto/ecdsa (d=%x r=%x s=%x)", d, r, s)
	}
	// the private key derived this way is an ordinary key: hypersdk's own derivation gives the same public key
	var dk secp256r1.PrivateKey
	d.FillBytes(dk[:])
	if hp := dk.PublicKey(); !bytes.Equal(hp[:], pk) {
		return fmt.Errorf("secp256r1: PrivateKey(%x).PublicKey()=%x, want %x", d, hp[:], pk)
	}
	labels := []string{"mode=secp-s", "secp-constructed-boundary-s", "secp-constructed:" + region}
	if c.STarget < 0 {
		labels = append(labels, "secp-constructed:random-in-(N/2,2^255)")
	}
	accepted := 0
	for _, v := range []*big.Int{s, twin} {
		rb, _ := be32(r)
		sb, _ := be32(v)
		raw := append(append(append([]byte{sc.typeID}, pk...), rb...), sb...)
		au, err := sc.unmarshal(raw)
		if err != nil {
			return fmt.Errorf("secp256r1: Unmarshal of a well-formed auth fails: %v", err)
		}
		if err := c17CheckDecoded(schemeSecp, raw, au); err != nil {
			return err
		}
		verr := au.Verify(ctx, c.Msg)
		want := v.Cmp(secpHalf) <= 0
		if (verr == nil) != want {
			return fmt.Errorf("secp256r1: genuine signature (crypto/ecdsa accepts it) with s=%x (N/2=%x): Verify accepted=%v, the low-S rule demands accepted=%v; msg=%x pk=%x r=%x (private key %x, twin s=%x)",
				v, secpHalf, verr == nil, want, c.Msg, pk, r, d, new(big.Int).Sub(secpN, v))
		}
		if verr == nil {
			accepted++
			if e := c17Canonical(schemeSecp, pk, raw[1+sc.pkLen:]); e != nil {
				return e
			}
		}
	}
	if accepted != 1 {
		return fmt.Errorf("secp256r1: %d of the two encodings (r,s),(r,N-s) verify, want exactly 1", accepted)
	}
	canon, _ := json.Marshal(c)
	st.Case(true, string(canon), labels...)
	st.Sample(true, map[string]any{"scheme": "secp256r1", "mode": "secp-s", "s": fmt.Sprintf("%x", s), "region": region, "msgLen": len(c.Msg)})
	return nil
}

// ------------------------------------------------------------------ oracles

func c17WantAddr(scheme int, pk []byte) codec.Address {
	var a codec.Address
	a[0] = c17WantTypeID[scheme]
	h := sha256.Sum256(pk)
	copy(a[1:], h[:])
	return a
}

func hx(a codec.Address) []byte { return a[:] }

// c17CheckDecoded checks what must hold for anything an Unmarshal function accepts.
func c17CheckDecoded(scheme int, raw []byte, au chain.Auth) error {
	sc := c17Schemes[scheme]
	if au == nil {
		return fmt.Errorf("%s: Unmarshal returned nil auth and nil error", sc.name)
	}
	if len(raw) != 1+sc.pkLen+sc.sigLen || raw[0] != c17WantTypeID[scheme] {
		return fmt.Errorf("%s: Unmarshal accepted %d bytes with type byte %d", sc.name, len(raw), raw[0])
	}
	if got := au.Bytes(); !bytes.Equal(got, raw) {
		return fmt.Errorf("%s: accepted encoding %x re-encodes as %x", sc.name, raw, got)
	}
	if au.GetTypeID() != c17WantTypeID[scheme] {
		return fmt.Errorf("%s: GetTypeID=%d", sc.name, au.GetTypeID())
	}
	want := c17WantAddr(scheme, raw[1:1+sc.pkLen])
	if au.Actor() != want || au.Sponsor() != want {
		return fmt.Errorf("%s: actor=%x sponsor=%x, want typeID||sha256(pk)=%x", sc.name, hx(au.Actor()), hx(au.Sponsor()), hx(want))
	}
	if a2 := au.Actor(); a2 != want { // second call (cached path)
		return fmt.Errorf("%s: second Actor() call returns %x", sc.name, hx(a2))
	}
	return nil
}

// c17Canonical: necessary conditions for an accepted (verifying) auth to be the unique encoding.
func c17Canonical(scheme int, pk, sig []byte) error {
	switch scheme {
	case schemeEd:
		if fromLE(sig[32:]).Cmp(edL) >= 0 {
			return errors.New("ed25519 signature with s >= l verifies")
		}
	case schemeSecp:
		r, s := new(big.Int).SetBytes(sig[:32]), new(big.Int).SetBytes(sig[32:])
		half := new(big.Int).Rsh(secpN, 1)
		if r.Sign() == 0 || r.Cmp(secpN) >= 0 || s.Sign() == 0 || s.Cmp(half) > 0 {
			return errors.New("secp256r1 signature with r or s outside [1,n-1] x [1,n/2] verifies")
		}
		if pk[0] != 2 && pk[0] != 3 {
			return errors.New("secp256r1 key with prefix other than 02/03 verifies")
		}
		if new(big.Int).SetBytes(pk[1:]).Cmp(secpP) >= 0 {
			return errors.New("secp256r1 key with x >= p verifies")
		}
	case schemeBLS:
		if a := new(blst.P1Affine).Uncompress(pk); a == nil || !a.InG1() || a.Compress()[0]&0x40 != 0 {
			return errors.New("BLS public key outside the prime-order subgroup G1 (or infinity) verifies")
		}
		if a := new(blst.P2Affine).Uncompress(sig); a == nil || !a.InG2() {
			return errors.New("BLS signature outside the prime-order subgroup G2 verifies")
		}
	}
	return nil
}

// ------------------------------------------------------------------ run

func c17Run(c c17Case, st *vstat.Stats) error {
	st.Assumption("keys come from each scheme's own derivation of a uniformly drawn 32-byte seed; small-order / identity ed25519 public keys (accepted by ZIP-215 for every message) are outside the domain")
	st.Assumption("a joint transformation of key AND signature to a different abstract public key (BLS (-pk,-sig); the second recoverable ECDSA key) is a signature of another key, not an alternative encoding: observed and labelled, not asserted")
	if c.Mode == "secp-s" {
		return c17RunSecpS(c, st)
	}
	sc := c17Schemes[c.Scheme]
	ctx := context.Background()
	if c.Mode == "raw" {
		au, err := sc.unmarshal(c.Raw)
		lbl := sc.name + ":raw-rejected"
		nt := false
		if err == nil {
			lbl = sc.name + ":raw-accepted"
			if e := c17CheckDecoded(c.Scheme, c.Raw, au); e != nil {
				return e
			}
			verr := au.Verify(ctx, []byte("verif raw message 0"))
			if verr == nil {
				if e := c17Canonical(c.Scheme, c.Raw[1:1+sc.pkLen], c.Raw[1+sc.pkLen:]); e != nil {
					return e
				}
				lbl = sc.name + ":raw-verifies"
			}
		} else if au != nil {
			return fmt.Errorf("%s: Unmarshal returned an auth together with error %v", sc.name, err)
		}
		st.Case(nt, "", "mode=raw", lbl)
		st.Sample(nt, map[string]any{"scheme": sc.name, "mode": "raw", "len": len(c.Raw), "outcome": lbl})
		return nil
	}

	if len(c.Seed) != 32 {
		return fmt.Errorf("fixture: seed must be 32 bytes")
	}
	var seed [32]byte
	copy(seed[:], c.Seed)
	f := factoryFromSeed(c.Scheme, seed)
	au, err := f.Sign(c.Msg)
	if err != nil {
		return fmt.Errorf("fixture: sign: %w", err)
	}
	raw := au.Bytes()
	if len(raw) != 1+sc.pkLen+sc.sigLen {
		return fmt.Errorf("%s: Bytes() has length %d, want %d", sc.name, len(raw), 1+sc.pkLen+sc.sigLen)
	}
	pk, sig := raw[1:1+sc.pkLen], raw[1+sc.pkLen:]
	labels := map[string]bool{"mode=sig": true, "scheme=" + sc.name: true}

	// honest signature verifies; address binding on the signer's own object
	if err := au.Verify(ctx, c.Msg); err != nil {
		return fmt.Errorf("%s: honest signature does not verify: %v", sc.name, err)
	}
	if err := c17CheckDecoded(c.Scheme, raw, au); err != nil {
		return fmt.Errorf("signer-side auth: %w", err)
	}
	want := c17WantAddr(c.Scheme, pk)
	if f.Address() != want {
		return fmt.Errorf("%s: factory.Address()=%x want %x", sc.name, hx(f.Address()), hx(want))
	}
	var newAddr codec.Address
	switch a := au.(type) {
	case *auth.ED25519:
		newAddr = auth.NewED25519Address(a.Signer)
	case *auth.SECP256R1:
		newAddr = auth.NewSECP256R1Address(a.Signer)
	case *auth.BLS:
		newAddr = auth.NewBLSAddress(a.Signer)
	}
	if newAddr != want {
		return fmt.Errorf("%s: New*Address(pk)=%x want %x", sc.name, hx(newAddr), hx(want))
	}
	// round trip, directly and through the registry dispatch on the type byte
	for _, via := range []string{"direct", "registry"} {
		var au2 chain.Auth
		var err error
		if via == "direct" {
			au2, err = sc.unmarshal(raw)
		} else {
			au2, err = parser().AuthRegistry.Unmarshal(raw)
		}
		if err != nil {
			return fmt.Errorf("%s: Unmarshal(Bytes()) via %s fails: %v", sc.name, via, err)
		}
		if err := c17CheckDecoded(c.Scheme, raw, au2); err != nil {
			return fmt.Errorf("round trip via %s: %w", via, err)
		}
		if err := au2.Verify(ctx, c.Msg); err != nil {
			return fmt.Errorf("%s: round-tripped auth does not verify: %v", sc.name, err)
		}
	}

	// re-encodings
	algebraic := 0
	var applied []string
	for _, op := range c.Ops {
		d, ok := c17Apply(c.Scheme, op, pk, sig, c.Msg)
		if !ok {
			st.Skip(fmt.Sprintf("%s:op%d-inapplicable", sc.name, op.Kind))
			continue
		}
		msg := c.Msg
		if d.msg != nil {
			msg = d.msg
		} else if bytes.Equal(d.pk, pk) && bytes.Equal(d.sig, sig) {
			st.Skip(sc.name + ":op-is-identity")
			continue
		}
		if op.Kind < c17OpByteMut && !d.relatedKey {
			algebraic++
		}
		labels[d.label] = true
		applied = append(applied, d.label)
		raw2 := append(append([]byte{sc.typeID}, d.pk...), d.sig...)
		if sc.name == "bls" && !d.relatedKey && op.Kind == c17OpByteMut {
			// the one byte mutation that is the related-key pair flip (see assumptions)
			nraw := append([]byte{}, raw...)
			nraw[1] ^= 0x20
			nraw[1+sc.pkLen] ^= 0x20
			if bytes.Equal(nraw, raw2) {
				d.relatedKey = true
			}
		}
		au2, err := sc.unmarshal(raw2)
		if err != nil {
			labels["outcome=rejected-at-decode"] = true
			continue
		}
		if err := c17CheckDecoded(c.Scheme, raw2, au2); err != nil {
			return fmt.Errorf("after %s: %w", d.label, err)
		}
		verr := au2.Verify(ctx, msg)
		if d.relatedKey {
			if verr == nil {
				labels["observed:related-key-pair-verifies"] = true
				if au2.Actor() == want {
					return fmt.Errorf("%s: %s verifies AND keeps the actor address", sc.name, d.label)
				}
			} else {
				labels["observed:related-key-pair-rejected"] = true
			}
			continue
		}
		if verr == nil {
			return fmt.Errorf("%s: %s of a valid signature verifies for the same key material: msg=%x pk=%x sig=%x -> pk'=%x sig'=%x msg'=%x",
				sc.name, d.label, c.Msg, pk, sig, d.pk, d.sig, msg)
		}
		labels["outcome=rejected-at-verify"] = true
	}

	nt := algebraic > 0
	sort.Strings(applied)
	canon, _ := json.Marshal(c)
	ls := make([]string, 0, len(labels))
	for l := range labels {
		ls = append(ls, l)
	}
	sort.Strings(ls)
	st.Case(nt, string(canon), ls...)
	st.Sample(nt, map[string]any{"scheme": sc.name, "msgLen": len(c.Msg), "pk": hex.EncodeToString(pk), "ops": applied})
	return nil
}

const c17Rule = "per case one scheme (ed25519/secp256r1/BLS), a key derived from a drawn 32-byte seed through the scheme's own derivation, a message of 0-2000 bytes signed by the real auth factory, then 3-8 derived (pk',sig',msg'): algebraic re-encodings (ed25519 s+k*l, sign bits of R/A, R/A plus an 8-torsion point, (-R,l-s), l-s, s=0/identity/small-order R, y+p; secp256r1 n-s, r+n, s+n, 0/n scalars, n-r, prefix 02<->03 and invalid prefixes, x+p, (s,r); BLS sign/compression/infinity flags of key and signature, infinity encodings, x+p, honest key + k*T and honest signature + k*T' for constructed cofactor-torsion points T of E(F_p), T' of E'(F_p2) (on the curve, outside G1/G2)), 1-3 byte mutations of pk||sig, message mutations; each must be rejected and whatever decodes must re-encode identically with actor=sponsor=typeID||sha256(pk); plus Unmarshal(Bytes()) round trip and address = New*Address = factory.Address; 15% of the cases feed arbitrary bytes to the scheme's Unmarshal; 10% construct a genuine secp256r1 signature for a chosen s (nonce k, d=(s*k-z)/r; crypto/ecdsa confirms it) at 1, N/2-1..N/2+3, N/2+2^64/2^200/2^222, 2^255-3..2^255+1, N-3..N-1 (+-2) or uniform in (N/2,2^255), and demand Verify accepts (r,s) iff s<=N/2 and exactly one of (r,s),(r,N-s); non-trivial = at least one applicable algebraic re-encoding, or a constructed boundary signature; distinct by the whole case"

func TestC17(t *testing.T) {
	st := vstat.New(t, "C17", c17Rule)
	rapid.Check(t, func(rt *rapid.T) {
		c := c17Gen(rt)
		vstat.Run(rt, st, c, func() error { return c17Run(c, st) })
	})
}

func TestC17Replay(t *testing.T) {
	vstat.Replay(t, "C17", func(raw []byte) error {
		var c c17Case
		if err := json.Unmarshal(raw, &c); err != nil {
			return err
		}
		return c17Run(c, vstat.New(nil, "C17", ""))
	})
}
