package cryptoauth

// Native fuzz targets of C17 (thorough tier only): arbitrary bytes to the three auth
// Unmarshal functions. Whatever is accepted must re-encode to the same bytes, carry
// actor = sponsor = typeID || sha256(public key bytes), survive Verify without panicking,
// and — if it verifies for the fuzzed message — be canonically encoded (s < l; low S, r and s
// in range, 02/03 prefix, x < p). Seeds: honest auths and their algebraic re-encodings
// (testdata/fuzz/<target>/, written once by TestC17WriteFuzzSeeds).

import (
	"context"
	"fmt"
	"math/big"
	"os"
	"path/filepath"
	"strconv"
	"testing"

	"filippo.io/edwards25519"
)

func c17FuzzOne(t *testing.T, scheme int, data, msg []byte) {
	sc := c17Schemes[scheme]
	au, err := sc.unmarshal(data)
	if err != nil {
		if au != nil {
			t.Fatalf("%s: Unmarshal returned an auth together with error %v", sc.name, err)
		}
		return
	}
	if e := c17CheckDecoded(scheme, data, au); e != nil {
		t.Fatal(e)
	}
	pk, sig := data[1:1+sc.pkLen], data[1+sc.pkLen:]
	if au.Verify(context.Background(), msg) != nil {
		return
	}
	if scheme == schemeEd {
		// small-order public keys verify for every message under ZIP-215: outside the property's domain
		if p, err := new(edwards25519.Point).SetBytes(pk); err == nil &&
			new(edwards25519.Point).MultByCofactor(p).Equal(edwards25519.NewIdentityPoint()) == 1 {
			return
		}
	}
	if e := c17Canonical(scheme, pk, sig); e != nil {
		t.Fatalf("%v: data=%x msg=%x", e, data, msg)
	}
}

func c17FuzzSeeds(scheme int) [][2][]byte {
	sc := c17Schemes[scheme]
	var out [][2][]byte
	for k := 0; k < 2; k++ {
		msg := []byte(fmt.Sprintf("verif raw message %d", k))
		raw := c17PoolAuth(scheme, k, k)
		out = append(out, [2][]byte{raw, msg})
		pk, sig := raw[1:1+sc.pkLen], raw[1+sc.pkLen:]
		for kind := 0; kind < c17AlgKinds[scheme]; kind++ {
			d, ok := c17Apply(scheme, c17Op{Kind: kind, A: k}, pk, sig, msg)
			if !ok {
				continue
			}
			out = append(out, [2][]byte{append(append([]byte{sc.typeID}, d.pk...), d.sig...), msg})
		}
	}
	if scheme == schemeSecp {
		// genuine signatures constructed for boundary values of s (both encodings of each)
		msg := []byte("verif raw message 0")
		for i, tgt := range c17SecpSTargets {
			pk, r, s, _, ok := c17SecpConstruct(poolSeed(schemeSecp, 100+i), msg, tgt)
			if !ok {
				continue
			}
			for _, v := range []*big.Int{s, new(big.Int).Sub(secpN, s)} {
				rb, _ := be32(r)
				sb, _ := be32(v)
				out = append(out, [2][]byte{append(append(append([]byte{sc.typeID}, pk...), rb...), sb...), msg})
			}
		}
	}
	out = append(out, [2][]byte{{}, {}}, [2][]byte{{sc.typeID}, {}}, [2][]byte{make([]byte, 1+sc.pkLen+sc.sigLen), {}})
	return out
}

func c17Fuzz(f *testing.F, scheme int) {
	if scheme != schemeSecp { // secp256r1 signing is randomised: its seeds are the committed files only
		for _, s := range c17FuzzSeeds(scheme) {
			f.Add(s[0], s[1])
		}
	}
	f.Fuzz(func(t *testing.T, data []byte, msg []byte) { c17FuzzOne(t, scheme, data, msg) })
}

func FuzzC17UnmarshalED25519(f *testing.F)   { c17Fuzz(f, schemeEd) }
func FuzzC17UnmarshalSECP256R1(f *testing.F) { c17Fuzz(f, schemeSecp) }
func FuzzC17UnmarshalBLS(f *testing.F)       { c17Fuzz(f, schemeBLS) }

// TestC17WriteFuzzSeeds (re)generates the committed seed corpus; run by hand with
// VERIF_WRITE_FUZZ_SEEDS=1. Not part of any tier.
func TestC17WriteFuzzSeeds(t *testing.T) {
	if os.Getenv("VERIF_WRITE_FUZZ_SEEDS") == "" {
		t.Skip("set VERIF_WRITE_FUZZ_SEEDS=1 to rewrite testdata/fuzz seeds")
	}
	targets := [3]string{"FuzzC17UnmarshalED25519", "FuzzC17UnmarshalSECP256R1", "FuzzC17UnmarshalBLS"}
	for scheme, tgt := range targets {
		dir := filepath.Join("testdata", "fuzz", tgt)
		if err := os.MkdirAll(dir, 0o755); err != nil {
			t.Fatal(err)
		}
		for i, s := range c17FuzzSeeds(scheme) {
			body := "go test fuzz v1\n[]byte(" + strconv.Quote(string(s[0])) + ")\n[]byte(" + strconv.Quote(string(s[1])) + ")\n"
			if err := os.WriteFile(filepath.Join(dir, fmt.Sprintf("seed-%02d", i)), []byte(body), 0o644); err != nil {
				t.Fatal(err)
			}
		}
	}
}
