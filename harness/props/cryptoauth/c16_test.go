package cryptoauth

// C16: block verification accepts exactly the blocks whose signatures all verify.
//
// Differential check: the signature job of a block — started either by
// chain.Processor.Execute or by chain.NewAuthBatch + workers.Job used exactly as
// Processor.verifySignatures / waitSignatures use them — fails iff verifying every
// transaction's auth one by one over its unsigned bytes fails for some transaction.

import (
	"bytes"
	"context"
	"encoding/binary"
	"encoding/json"
	"errors"
	"fmt"
	"math"
	"math/big"
	"os"
	"runtime"
	"sort"
	"strings"
	"sync"
	"sync/atomic"
	"testing"
	"time"

	"github.com/ava-labs/avalanchego/database/memdb"
	"github.com/ava-labs/avalanchego/ids"
	"github.com/ava-labs/avalanchego/snow/engine/snowman/block"
	"github.com/ava-labs/avalanchego/trace"
	"github.com/ava-labs/avalanchego/utils/logging"
	"github.com/ava-labs/avalanchego/x/merkledb"
	"github.com/prometheus/client_golang/prometheus"
	"pgregory.net/rapid"

	"github.com/ava-labs/hypersdk/auth"
	"github.com/ava-labs/hypersdk/chain"
	"github.com/ava-labs/hypersdk/chain/chaintest"
	"github.com/ava-labs/hypersdk/crypto/bls"
	"github.com/ava-labs/hypersdk/crypto/ed25519"
	"github.com/ava-labs/hypersdk/crypto/secp256r1"
	"github.com/ava-labs/hypersdk/genesis"
	"github.com/ava-labs/hypersdk/internal/validitywindow/validitywindowtest"
	"github.com/ava-labs/hypersdk/internal/workers"
	"github.com/ava-labs/hypersdk/state"
	"github.com/ava-labs/hypersdk/state/balance"
	"github.com/ava-labs/hypersdk/state/metadata"
	"github.com/ava-labs/hypersdk/verifharness/vstat"
)

// ------------------------------------------------------------------ case

type c16Slot struct {
	Pick int // which of the schemes that still have transactions left comes next
	Key  int // index into the scheme's key pool
}

// fault kinds (interpreted per scheme, see c16Faulted)
const (
	c16FaultNone      = 0
	c16FaultBitFlip   = 1 // flip one bit of the signature
	c16FaultOtherMsg  = 2 // valid signature of a different message by the same key
	c16FaultWrongKey  = 3 // signer replaced by another honest public key
	c16FaultAlgebraic = 4 // ed25519 s+l, secp256r1 n-s, BLS negated signature
	c16FaultKeyBit    = 5 // flip one bit of the public key (ed25519, secp256r1)
	// object-identity kinds: the transaction handed to the verifier is an in-memory object (not re-parsed)
	c16FaultReusedVerified = 6 // valid auth OBJECT of another tx (same key), after a successful Verify over its own tx (as mempool admission does), attached to this tx
	c16FaultReusedFresh    = 7 // control: freshly parsed auth object of that other tx, never verified before
	c16PreVerified         = 8 // not a fault: this tx's own auth object was already verified once over its own bytes
	c16PreVerifiedProbed   = 9 // not a fault: verified, then probed with a wrong message (must fail), then verified again
)

func c16InMemoryKind(k int) bool { return k >= c16FaultReusedVerified && k <= c16PreVerifiedProbed }

// position selectors among the block's transactions of the targeted scheme
const (
	c16PosFirst          = 0
	c16PosLast           = 1
	c16PosEndFirstBatch  = 2 // index batchSize-1
	c16PosStartSecond    = 3 // index batchSize
	c16PosFirstOfPartial = 4 // first entry of the final partial batch
	c16PosLastOfFull     = 5 // last entry of the final full batch
	c16PosAny            = 6 // PosArg mod count
)

type c16Fault struct {
	Scheme int
	PosSel int
	PosArg int
	Kind   int
	Arg    int
}

type c16Block struct {
	Counts [4]int // ed25519, secp256r1, bls, stub
	Slots  []c16Slot
	Faults []c16Fault
}

type c16Case struct {
	Workers     int  // 0 = workers.NewSerial(), else workers.NewParallel(Workers, 100)
	BatchEngine bool // engines map contains the ed25519 batch engine (auth.DefaultEngines) or is empty
	Exec        bool // through chain.Processor.Execute instead of NewAuthBatch directly
	WaitEarly   bool // direct mode: Wait is called as soon as the transactions are added (else after the Done callback)
	Gate        bool // direct mode with WaitEarly: the batch verification tasks are held back until Wait has been entered
	// engines map with further batch-verified types: harness batch verifiers (collect in Add, every
	// ExtraBatchSize items hand out a closure that verifies them one by one with the real auth.Verify,
	// remainder in Done) for the listed schemes (1 secp256r1, 2 BLS, 3 stub)
	ExtraBatch     []int
	ExtraBatchSize int
	// Park = 1+scheme: that type's batch worker is held inside AuthBatchVerifier.Add of its LAST item
	// until the flush (AuthBatchVerifier.Done) of some type has been observed (bounded by 30 ms). 0 = free running
	Park   int
	Blocks []c16Block
}

type c16TxSpec struct {
	Scheme, Key, Msg int
	Fault, Arg       int
}

// ------------------------------------------------------------------ generator

func c16EdCountGen(cores int) *rapid.Generator[int] {
	cand := []int{0, 1, 3, 4, 5, 7, 8, 9, 11, 12, 13, 15, 16, 17, 20, 21, 24, 25}
	for _, bs := range []int{4, 5, 6, 8, 10} {
		for _, d := range []int{-1, 0, 1} {
			if c := bs*cores + d; c >= 0 && c <= 40 {
				cand = append(cand, c)
			}
		}
	}
	return rapid.OneOf(rapid.SampledFrom(cand), rapid.IntRange(0, 40))
}

func c16Gen(rt *rapid.T) c16Case {
	c := c16Case{
		Workers:     rapid.SampledFrom([]int{0, 0, 1, 1, 2, 2, 3, 4, 4, 5, 7, 8, 13, 16}).Draw(rt, "workers"),
		BatchEngine: rapid.SampledFrom([]bool{true, true, true, false}).Draw(rt, "batchEngine"),
		Exec:        rapid.IntRange(0, 4).Draw(rt, "exec") == 0,
		WaitEarly:   rapid.Bool().Draw(rt, "waitEarly"),
		Gate:        rapid.Bool().Draw(rt, "gate"),
	}
	cores := max(c.Workers, 1)
	switch rapid.SampledFrom([]int{0, 0, 0, 0, 1, 2, 3, 4, 5, 6, 7}).Draw(rt, "extraBatch") {
	case 1:
		c.ExtraBatch = []int{schemeSecp}
	case 2:
		c.ExtraBatch = []int{schemeStub}
	case 3:
		c.ExtraBatch = []int{schemeBLS}
	case 4:
		c.ExtraBatch = []int{schemeSecp, schemeStub}
	case 5:
		c.ExtraBatch = []int{schemeSecp, schemeBLS}
	case 6:
		c.ExtraBatch = []int{schemeBLS, schemeStub}
	case 7:
		c.ExtraBatch = []int{schemeSecp, schemeBLS, schemeStub}
	}
	parkable := append([]int{}, c.ExtraBatch...)
	if c.BatchEngine {
		parkable = append(parkable, schemeEd)
	}
	if len(c.ExtraBatch) > 0 {
		c.ExtraBatchSize = rapid.IntRange(1, 5).Draw(rt, "extraBatchSize")
	}
	if len(parkable) >= 2 && rapid.SampledFrom([]bool{false, false, false, true}).Draw(rt, "park") {
		c.Park = 1 + rapid.SampledFrom(parkable).Draw(rt, "parkScheme")
	}
	nBlocks := rapid.SampledFrom([]int{1, 1, 1, 2, 2, 3}).Draw(rt, "nBlocks")
	for b := 0; b < nBlocks; b++ {
		var blk c16Block
		profile := rapid.SampledFrom([]string{"ed-only", "ed-only", "mixed", "mixed", "mixed", "no-ed"}).Draw(rt, "profile")
		if profile != "no-ed" {
			blk.Counts[schemeEd] = c16EdCountGen(cores).Draw(rt, "ed")
		}
		if profile != "ed-only" {
			blk.Counts[schemeSecp] = rapid.IntRange(0, 6).Draw(rt, "secp")
			blk.Counts[schemeBLS] = rapid.IntRange(0, 4).Draw(rt, "bls")
			blk.Counts[schemeStub] = rapid.IntRange(0, 6).Draw(rt, "stub")
		}
		n := blk.Counts[0] + blk.Counts[1] + blk.Counts[2] + blk.Counts[3]
		blk.Slots = make([]c16Slot, n)
		for i := range blk.Slots {
			blk.Slots[i] = c16Slot{Pick: rapid.IntRange(0, 3).Draw(rt, "pick"), Key: rapid.IntRange(0, poolSize-1).Draw(rt, "key")}
		}
		if c.Park > 0 {
			// the parked type and at least one other batch-verified type must be in the block
			for _, sch := range parkable {
				if blk.Counts[sch] == 0 {
					blk.Counts[sch] = rapid.IntRange(1, 4).Draw(rt, "parkFill")
				}
			}
			n = blk.Counts[0] + blk.Counts[1] + blk.Counts[2] + blk.Counts[3]
			for len(blk.Slots) < n {
				blk.Slots = append(blk.Slots, c16Slot{Pick: rapid.IntRange(0, 3).Draw(rt, "pick"), Key: rapid.IntRange(0, poolSize-1).Draw(rt, "key")})
			}
			if rapid.IntRange(0, 3).Draw(rt, "parkFault") > 0 { // an invalid auth as the parked type's last item
				blk.Faults = append(blk.Faults, c16Fault{Scheme: 10 + c.Park - 1, PosSel: c16PosLast,
					Kind: rapid.SampledFrom([]int{1, 2, 3, 6}).Draw(rt, "fKind"), Arg: rapid.IntRange(0, 511).Draw(rt, "fArg")})
			}
		}
		nf := rapid.SampledFrom([]int{0, 0, 1, 1, 1, 1, 2, 2, 3}).Draw(rt, "nFaults")
		for f := 0; f < nf; f++ {
			blk.Faults = append(blk.Faults, c16Fault{
				Scheme: rapid.IntRange(0, 6).Draw(rt, "fScheme"),
				PosSel: rapid.IntRange(0, 6).Draw(rt, "fPosSel"),
				PosArg: rapid.IntRange(0, 63).Draw(rt, "fPosArg"),
				Kind:   rapid.SampledFrom([]int{1, 6, 2, 3, 4, 5, 7, 8, 9}).Draw(rt, "fKind"),
				Arg:    rapid.IntRange(0, 511).Draw(rt, "fArg"),
			})
		}
		c.Blocks = append(c.Blocks, blk)
	}
	return c
}

// ------------------------------------------------------------------ transactions

const (
	c16BlockTs = int64(1000)
	c16TxTs    = int64(61000) // multiple of 1000 inside [blockTs, blockTs+validityWindow]
)

var c16ChainID = ids.ID{0xc1, 0x6}

func c16TxData(msg int) chain.TransactionData {
	base := chain.Base{Timestamp: c16TxTs, ChainID: c16ChainID, MaxFee: uint64(msg) + 1}
	act := &chaintest.TestAction{
		NumComputeUnits:              1,
		SpecifiedStateKeys:           []string{},
		SpecifiedStateKeyPermissions: []state.Permissions{},
		ReadKeys:                     [][]byte{},
		WriteKeys:                    [][]byte{},
		WriteValues:                  [][]byte{},
		Nonce:                        uint64(msg),
		Start:                        -1,
		End:                          -1,
	}
	return chain.NewTxData(base, []chain.Action{act})
}

var (
	c16Mu        sync.Mutex
	c16AuthCache = map[[3]int]chain.Auth{} // (scheme,key,msg) -> honest auth over the unsigned bytes of msg
	c16OracleMem = map[ids.ID]error{}      // tx id (hash of signed bytes) -> one-by-one verdict
)

func c16ValidAuth(scheme, key, msg int) (chain.Auth, error) {
	c16Mu.Lock()
	defer c16Mu.Unlock()
	k := [3]int{scheme, key, msg}
	if a, ok := c16AuthCache[k]; ok {
		return a, nil
	}
	td := c16TxData(msg)
	a, err := pool(scheme, key).Sign(td.UnsignedBytes())
	if err != nil {
		return nil, err
	}
	c16AuthCache[k] = a
	return a, nil
}

// c16Faulted builds the auth of a transaction spec. The returned bool says whether the
// requested fault could be applied (else the honest auth is returned).
func c16Faulted(s c16TxSpec) (chain.Auth, bool, error) {
	if s.Scheme == schemeStub {
		return &stubAuth{Addr: stubAddr(s.Key), Bad: s.Fault != c16FaultNone}, true, nil
	}
	va, err := c16ValidAuth(s.Scheme, s.Key, s.Msg)
	if err != nil {
		return nil, false, err
	}
	if s.Fault == c16FaultNone {
		return va, true, nil
	}
	other := func() (chain.Auth, error) { return c16ValidAuth(s.Scheme, s.Key, s.Msg+100000) }
	wrong := func() (chain.Auth, error) { return c16ValidAuth(s.Scheme, s.Key+1, s.Msg) }
	switch s.Scheme {
	case schemeEd:
		a := *(va.(*auth.ED25519))
		a = auth.ED25519{Signer: a.Signer, Signature: a.Signature}
		switch s.Fault {
		case c16FaultBitFlip:
			a.Signature[(s.Arg/8)%ed25519.SignatureLen] ^= 1 << (s.Arg % 8)
		case c16FaultOtherMsg:
			o, err := other()
			if err != nil {
				return nil, false, err
			}
			a.Signature = o.(*auth.ED25519).Signature
		case c16FaultWrongKey:
			w, err := wrong()
			if err != nil {
				return nil, false, err
			}
			a.Signer = w.(*auth.ED25519).Signer
		case c16FaultAlgebraic:
			sPlus, err := le32(new(big.Int).Add(fromLE(a.Signature[32:]), edL))
			if err != nil {
				return va, false, nil
			}
			copy(a.Signature[32:], sPlus)
		case c16FaultKeyBit:
			a.Signer[(s.Arg/8)%ed25519.PublicKeyLen] ^= 1 << (s.Arg % 8)
		}
		return &a, true, nil
	case schemeSecp:
		o := va.(*auth.SECP256R1)
		a := auth.SECP256R1{Signer: o.Signer, Signature: o.Signature}
		switch s.Fault {
		case c16FaultBitFlip:
			a.Signature[(s.Arg/8)%secp256r1.SignatureLen] ^= 1 << (s.Arg % 8)
		case c16FaultOtherMsg:
			x, err := other()
			if err != nil {
				return nil, false, err
			}
			a.Signature = x.(*auth.SECP256R1).Signature
		case c16FaultWrongKey:
			w, err := wrong()
			if err != nil {
				return nil, false, err
			}
			a.Signer = w.(*auth.SECP256R1).Signer
		case c16FaultAlgebraic:
			ns, _ := be32(new(big.Int).Sub(secpN, new(big.Int).SetBytes(a.Signature[32:])))
			copy(a.Signature[32:], ns)
		case c16FaultKeyBit:
			a.Signer[(s.Arg/8)%secp256r1.PublicKeyLen] ^= 1 << (s.Arg % 8)
		}
		return &a, true, nil
	case schemeBLS:
		o := va.(*auth.BLS)
		a := auth.BLS{Signer: o.Signer, Signature: o.Signature}
		switch s.Fault {
		case c16FaultOtherMsg:
			x, err := other()
			if err != nil {
				return nil, false, err
			}
			a.Signature = x.(*auth.BLS).Signature
		case c16FaultWrongKey, c16FaultKeyBit:
			w, err := wrong()
			if err != nil {
				return nil, false, err
			}
			a.Signer = w.(*auth.BLS).Signer
		default: // bit flips of a compressed point rarely decode: negate the signature instead (sign flag of the encoding)
			sb := bls.SignatureToBytes(a.Signature)
			sb[0] ^= 0x20
			neg, err := bls.SignatureFromBytes(sb)
			if err != nil {
				return va, false, nil
			}
			a.Signature = neg
		}
		return &a, true, nil
	}
	return nil, false, fmt.Errorf("unknown scheme %d", s.Scheme)
}

// c16BuildTx produces the transaction exactly as a verifier sees it: signed bytes parsed by
// chain.UnmarshalTx with the registered auth parsers.
func c16BuildTx(s c16TxSpec) (*chain.Transaction, bool, error) {
	if c16InMemoryKind(s.Fault) {
		return c16BuildInMemoryTx(s)
	}
	a, applied, err := c16Faulted(s)
	if err != nil {
		return nil, false, err
	}
	td := c16TxData(s.Msg)
	tx, err := chain.NewTransaction(td.Base, td.Actions, a)
	if err != nil {
		return nil, false, err
	}
	parsed, err := chain.UnmarshalTx(tx.Bytes(), parser())
	if err != nil {
		if s.Fault != c16FaultNone { // mutated key/signature bytes that no longer decode cannot be in a parsed block
			s.Fault = c16FaultNone
			tx2, _, err2 := c16BuildTx(s)
			return tx2, false, err2
		}
		return nil, false, fmt.Errorf("honest tx does not parse: %w", err)
	}
	if parsed.GetID() != tx.GetID() {
		return nil, false, fmt.Errorf("tx id changed by parsing")
	}
	return parsed, applied, nil
}

// errC16Verdict marks an error that is a verdict about auth.Verify itself (not a fixture problem).
var errC16Verdict = errors.New("auth.Verify verdict depends on the object's history")

// c16ParsedHonestTx returns a freshly parsed (never verified) honest transaction for (scheme,key,msg).
func c16ParsedHonestTx(scheme, key, msg int) (*chain.Transaction, error) {
	var a chain.Auth
	if scheme == schemeStub {
		a = &stubAuth{Addr: stubAddr(key)}
	} else {
		va, err := c16ValidAuth(scheme, key, msg)
		if err != nil {
			return nil, err
		}
		a = va
	}
	td := c16TxData(msg)
	tx, err := chain.NewTransaction(td.Base, td.Actions, a) // only to obtain the signed bytes
	if err != nil {
		return nil, err
	}
	return chain.UnmarshalTx(tx.Bytes(), parser())
}

// c16BuildInMemoryTx builds the transactions whose auth OBJECT has a history (kinds 6..9). They
// are handed to the verifier as in-memory objects, as a node does with transactions that went
// through admission (VerifyAuth) and then into a block it built itself.
func c16BuildInMemoryTx(s c16TxSpec) (*chain.Transaction, bool, error) {
	ctx := context.Background()
	td := c16TxData(s.Msg)
	switch s.Fault {
	case c16FaultReusedVerified, c16FaultReusedFresh:
		other, err := c16ParsedHonestTx(s.Scheme, s.Key, s.Msg+100000)
		if err != nil {
			return nil, false, err
		}
		if s.Fault == c16FaultReusedVerified {
			if err := other.VerifyAuth(ctx); err != nil {
				return nil, false, fmt.Errorf("%w: honest %s tx does not verify: %v", errC16Verdict, schemeNames[s.Scheme], err)
			}
		}
		tx, err := chain.NewTransaction(td.Base, td.Actions, other.Auth) // the other tx's auth object on this tx's bytes
		return tx, true, err
	default:
		own, err := c16ParsedHonestTx(s.Scheme, s.Key, s.Msg)
		if err != nil {
			return nil, false, err
		}
		if err := own.VerifyAuth(ctx); err != nil {
			return nil, false, fmt.Errorf("%w: honest %s tx does not verify: %v", errC16Verdict, schemeNames[s.Scheme], err)
		}
		if s.Fault == c16PreVerifiedProbed && s.Scheme != schemeStub {
			wrong := c16TxData(s.Msg + 100000)
			if err := own.Auth.Verify(ctx, wrong.UnsignedBytes()); err == nil {
				return nil, false, fmt.Errorf("%w: %s auth object that verified over its own tx also verifies over another tx's unsigned bytes", errC16Verdict, schemeNames[s.Scheme])
			}
		}
		if err := own.VerifyAuth(ctx); err != nil { // idempotence: a second Verify over the right message still passes
			return nil, false, fmt.Errorf("%w: second Verify of a valid %s auth object over the same message fails: %v", errC16Verdict, schemeNames[s.Scheme], err)
		}
		return own, true, nil
	}
}

// c16Expand interprets one generated block as a list of transaction specs.
func c16Expand(c c16Case, bi int, st *vstat.Stats) []c16TxSpec {
	blk := c.Blocks[bi]
	left := blk.Counts
	var specs []c16TxSpec
	byScheme := [4][]int{}
	for i := 0; ; i++ {
		var avail []int
		for s := 0; s < 4; s++ {
			if left[s] > 0 {
				avail = append(avail, s)
			}
		}
		if len(avail) == 0 {
			break
		}
		slot := c16Slot{}
		if i < len(blk.Slots) {
			slot = blk.Slots[i]
		}
		s := avail[((slot.Pick%len(avail))+len(avail))%len(avail)]
		left[s]--
		byScheme[s] = append(byScheme[s], len(specs))
		specs = append(specs, c16TxSpec{Scheme: s, Key: slot.Key, Msg: bi*1000 + i})
	}
	cores := max(c.Workers, 1)
	var present []int
	for s := 0; s < 4; s++ {
		if len(byScheme[s]) > 0 {
			present = append(present, s)
		}
	}
	for _, f := range blk.Faults {
		if len(present) == 0 {
			st.Skip("fault-in-empty-block")
			continue
		}
		// selector 0..3 -> ed25519 when the block has any, else (and 4..6) any scheme present
		sel := ((f.Scheme % 7) + 7) % 7
		s := present[sel%len(present)]
		if sel < 4 && len(byScheme[schemeEd]) > 0 {
			s = schemeEd
		}
		if f.Scheme >= 10 { // 10+scheme: exactly that scheme
			s = (f.Scheme - 10) % 4
			if len(byScheme[s]) == 0 {
				st.Skip("fault-on-absent-scheme")
				continue
			}
		}
		n := len(byScheme[s])
		bs := max(n/cores, ed25519.MinBatchSize)
		k := -1
		switch f.PosSel {
		case c16PosFirst:
			k = 0
		case c16PosLast:
			k = n - 1
		case c16PosEndFirstBatch:
			k = bs - 1
		case c16PosStartSecond:
			k = bs
		case c16PosFirstOfPartial:
			if n%bs != 0 {
				k = (n / bs) * bs
			}
		case c16PosLastOfFull:
			k = (n/bs)*bs - 1
		}
		if k < 0 || k >= n {
			k = ((f.PosArg % n) + n) % n
		}
		sp := &specs[byScheme[s][k]]
		sp.Fault, sp.Arg = f.Kind, f.Arg
	}
	return specs
}

// ------------------------------------------------------------------ instrumented pool (hang evidence only)

type c16Job struct {
	inner                          workers.Job
	goIn, goOut, started, finished atomic.Int64
	doneCalled                     atomic.Int64
}

func (j *c16Job) Go(f func() error) {
	j.goIn.Add(1)
	j.inner.Go(func() error {
		j.started.Add(1)
		defer j.finished.Add(1)
		return f()
	})
	j.goOut.Add(1)
}
func (j *c16Job) Done(f func()) { j.inner.Done(f); j.doneCalled.Add(1) }
func (j *c16Job) Wait() error   { return j.inner.Wait() }
func (j *c16Job) Workers() int  { return j.inner.Workers() }
func (j *c16Job) snapshot() [5]int64 {
	return [5]int64{j.goIn.Load(), j.goOut.Load(), j.started.Load(), j.finished.Load(), j.doneCalled.Load()}
}

type c16Workers struct {
	inner workers.Workers
	mu    sync.Mutex
	last  *c16Job
}

func (w *c16Workers) NewJob(backlog int) (workers.Job, error) {
	j, err := w.inner.NewJob(backlog)
	if err != nil {
		return nil, err
	}
	ij := &c16Job{inner: j}
	w.mu.Lock()
	w.last = ij
	w.mu.Unlock()
	return ij, nil
}
func (w *c16Workers) Stop() { w.inner.Stop() }
func (w *c16Workers) lastJob() *c16Job {
	w.mu.Lock()
	defer w.mu.Unlock()
	return w.last
}

// c16GatedEngines wraps the batch verifiers so that the verification closures their Done hands to the
// job block until the harness opens the gate (the harness owns this part of the schedule).
type c16GatedEngines struct {
	inner chain.AuthEngines
	gate  chan struct{}
	held  atomic.Int64
}

func (g *c16GatedEngines) GetAuthBatchVerifier(t uint8, cores int, count int) (chain.AuthBatchVerifier, bool) {
	bv, ok := g.inner.GetAuthBatchVerifier(t, cores, count)
	if !ok {
		return nil, false
	}
	return &c16GatedBV{g: g, inner: bv}, true
}

type c16GatedBV struct {
	g     *c16GatedEngines
	inner chain.AuthBatchVerifier
}

func (b *c16GatedBV) wrap(f func() error) func() error {
	if f == nil {
		return nil
	}
	b.g.held.Add(1)
	return func() error {
		<-b.g.gate
		return f()
	}
}

// Only the closures returned by Done (final partial batch / re-check of the last full batch) are
// held: those of Add run while the caller is still adding and could block it on a serial job.
func (b *c16GatedBV) Add(msg []byte, a chain.Auth) func() error { return b.inner.Add(msg, a) }
func (b *c16GatedBV) Done() []func() error {
	fs := b.inner.Done()
	out := make([]func() error, len(fs))
	for i, f := range fs {
		out[i] = b.wrap(f)
	}
	return out
}

// ---- engines map with several batch-verified types, and the harness-owned park of one type's last Add

type c16Sched struct {
	parkType           int // type id whose last Add is parked, -1 none
	flushed            chan struct{}
	flushOnce          sync.Once
	byFlush, byTimeout atomic.Int64
	lateAdds           atomic.Int64 // Adds that reached a verifier after its own flush (only a broken AuthBatch.Done does that)
}

const c16ParkMax = 30 * time.Millisecond

type c16MultiEngines struct {
	ed    chain.AuthEngines // the real engines (ed25519 batch) or an empty map
	extra map[uint8]int     // type id -> harness batch size
	park  int
	mu    sync.Mutex
	sched *c16Sched
}

// reset starts the schedule of a new block.
func (e *c16MultiEngines) reset() *c16Sched {
	e.mu.Lock()
	defer e.mu.Unlock()
	e.sched = &c16Sched{parkType: e.park, flushed: make(chan struct{})}
	return e.sched
}

func (e *c16MultiEngines) GetAuthBatchVerifier(t uint8, cores int, count int) (chain.AuthBatchVerifier, bool) {
	var bv chain.AuthBatchVerifier
	if n, ok := e.extra[t]; ok {
		bv = &c16HarnessBV{n: n}
	} else if b, ok := e.ed.GetAuthBatchVerifier(t, cores, count); ok {
		bv = b
	} else {
		return nil, false
	}
	e.mu.Lock()
	sc := e.sched
	e.mu.Unlock()
	return &c16SchedBV{inner: bv, sched: sc, park: sc.parkType == int(t), total: count}, true
}

// c16SchedBV observes flushes and parks the last Add of the chosen type.
type c16SchedBV struct {
	inner   chain.AuthBatchVerifier
	sched   *c16Sched
	park    bool
	total   int
	adds    int
	flushed atomic.Bool
}

func (b *c16SchedBV) Add(msg []byte, a chain.Auth) func() error {
	b.adds++
	if b.park && b.adds == b.total {
		tm := time.NewTimer(c16ParkMax)
		select {
		case <-b.sched.flushed:
			b.sched.byFlush.Add(1)
		case <-tm.C:
			b.sched.byTimeout.Add(1)
		}
		tm.Stop()
	}
	if b.flushed.Load() {
		b.sched.lateAdds.Add(1)
	}
	return b.inner.Add(msg, a)
}

func (b *c16SchedBV) Done() []func() error {
	b.flushed.Store(true)
	b.sched.flushOnce.Do(func() { close(b.sched.flushed) })
	return b.inner.Done()
}

type c16HarnessItem struct {
	msg []byte
	a   chain.Auth
}

// c16HarnessBV is a plain batch verifier for types that have no real one.
type c16HarnessBV struct {
	n       int
	pending []c16HarnessItem
}

func c16VerifyAll(items []c16HarnessItem) func() error {
	return func() error {
		for _, it := range items {
			if err := it.a.Verify(context.Background(), it.msg); err != nil {
				return err
			}
		}
		return nil
	}
}

func (b *c16HarnessBV) Add(msg []byte, a chain.Auth) func() error {
	b.pending = append(b.pending, c16HarnessItem{msg, a})
	if len(b.pending) >= max(b.n, 1) {
		items := b.pending
		b.pending = nil
		return c16VerifyAll(items)
	}
	return nil
}

func (b *c16HarnessBV) Done() []func() error {
	if len(b.pending) == 0 {
		return nil
	}
	items := b.pending
	b.pending = nil
	return []func() error{c16VerifyAll(items)}
}

var errC16Inconclusive = errors.New("inconclusive: verification did not finish within the deadline but the job was still making progress")

const (
	c16QuiescentFor = 6 * time.Second
	c16Deadline     = 150 * time.Second
)

// c16Await waits for ch. If nothing arrives it distinguishes a deadlock (positive evidence:
// no verification task is running and not a single counter of the job moved for
// c16QuiescentFor, observed over >= 100 polls) from mere slowness (inconclusive).
func c16Await[T any](ch <-chan T, job func() *c16Job, what string) (T, error) {
	var zero T
	start := time.Now()
	var lastSnap [5]int64
	lastChange := time.Now()
	polls := 0
	tick := time.NewTicker(50 * time.Millisecond)
	defer tick.Stop()
	for {
		select {
		case v := <-ch:
			return v, nil
		case <-tick.C:
		}
		j := job()
		var snap [5]int64
		if j != nil {
			snap = j.snapshot()
		}
		if snap != lastSnap {
			lastSnap, lastChange, polls = snap, time.Now(), 0
			continue
		}
		polls++
		running := snap[2] - snap[3]
		if j != nil && running == 0 && polls >= 100 && time.Since(lastChange) >= c16QuiescentFor {
			return zero, fmt.Errorf("%s never completes: the job is quiescent (tasks submitted=%d accepted-by-pool=%d started=%d finished=%d running=0, job.Done called=%v, no change for %s) yet neither fails nor succeeds; live pool worker goroutines=%d",
				what, snap[0], snap[1], snap[2], snap[3], snap[4] > 0, time.Since(lastChange).Round(time.Second), c16CountGoroutines("ParallelWorkers).startWorker"))
		}
		if time.Since(start) > c16Deadline {
			return zero, errC16Inconclusive
		}
	}
}

func c16CountGoroutines(substr string) int {
	buf := make([]byte, 1<<20)
	for {
		n := runtime.Stack(buf, true)
		if n < len(buf) {
			buf = buf[:n]
			break
		}
		buf = make([]byte, 2*len(buf))
	}
	cnt := 0
	for _, g := range strings.Split(string(buf), "\n\n") {
		if strings.Contains(g, substr) {
			cnt++
		}
	}
	return cnt
}

// ------------------------------------------------------------------ the two ways of running the signature job

// c16Direct mirrors Processor.verifySignatures followed by Processor.waitSignatures.
func c16Direct(pool *c16Workers, engines chain.AuthEngines, txs []*chain.Transaction, waitEarly, gate bool) (error, error) {
	type out struct{ got, infra error }
	ch := make(chan out, 1)
	go func() {
		got, infra := c16DirectBody(pool, engines, txs, waitEarly, gate)
		ch <- out{got, infra}
	}()
	o, err := c16Await(ch, pool.lastJob, "signature job (adding transactions)")
	if err != nil {
		return nil, err
	}
	return o.got, o.infra
}

func c16DirectBody(pool *c16Workers, engines chain.AuthEngines, txs []*chain.Transaction, waitEarly, gate bool) (error, error) {
	var gated *c16GatedEngines
	if waitEarly && gate {
		gated = &c16GatedEngines{inner: engines, gate: make(chan struct{})}
		engines = gated
	}
	// --- verifySignatures
	authCounts := make(map[uint8]int) // as chain.NewExecutionBlock
	for _, tx := range txs {
		authCounts[tx.Auth.GetTypeID()]++
	}
	sigJob, err := pool.NewJob(len(txs))
	if err != nil {
		return nil, fmt.Errorf("NewJob: %w", err)
	}
	batchVerifier := chain.NewAuthBatch(logging.NoLog{}, engines, sigJob, authCounts)
	doneCb := make(chan struct{})
	for _, tx := range txs {
		batchVerifier.Add(tx.UnsignedBytes(), tx.Auth)
	}
	go batchVerifier.Done(func() { close(doneCb) })
	// --- the schedule between the two halves is the harness' choice
	if !waitEarly {
		if _, err := c16Await(doneCb, pool.lastJob, "signature job (waiting for the Done callback)"); err != nil {
			return nil, err
		}
	}
	// --- waitSignatures
	res := make(chan error, 1)
	entered := make(chan struct{})
	go func() { close(entered); res <- sigJob.Wait() }()
	if gated != nil {
		// open the gate only once Wait has been entered (a correct Wait is still blocked then)
		<-entered
		time.Sleep(2 * time.Millisecond)
		close(gated.gate)
	}
	got, err := c16Await(res, pool.lastJob, "signature job (Wait)")
	if err != nil {
		return nil, err
	}
	if waitEarly { // let the asynchronous Done finish before the next block reuses the pool
		if _, err := c16Await(doneCb, pool.lastJob, "signature job (Done callback after Wait returned)"); err != nil {
			return nil, err
		}
	}
	return got, nil
}

type c16Chain struct {
	rules   *genesis.Rules
	mm      chain.MetadataManager
	bh      *balance.PrefixBalanceHandler
	proc    *chain.Processor
	parser_ *chain.TxTypeParser
}

func c16NewChain(pool workers.Workers, engines chain.AuthEngines) (*c16Chain, error) {
	rules := genesis.NewDefaultRules()
	rules.ChainID = c16ChainID
	for i := range rules.MaxBlockUnits {
		rules.MaxBlockUnits[i] = 1 << 40
	}
	mm := metadata.NewDefaultManager()
	bh := balance.NewPrefixBalanceHandler([]byte{metadata.DefaultMinimumPrefix})
	metrics, err := chain.NewMetrics(prometheus.NewRegistry())
	if err != nil {
		return nil, err
	}
	proc := chain.NewProcessor(trace.Noop, &logging.NoLog{}, &genesis.ImmutableRuleFactory{Rules: rules}, pool, engines,
		mm, bh, &validitywindowtest.MockTimeValidityWindow[*chain.Transaction]{}, metrics, chain.NewDefaultConfig())
	return &c16Chain{rules: rules, mm: mm, bh: bh, proc: proc, parser_: parser()}, nil
}

// c16Exec wraps the transactions in a block on top of a funded parent state, sends it through
// marshal/parse and executes it with the real processor.
func (cc *c16Chain) exec(pool *c16Workers, txs []*chain.Transaction, inMemory bool) (error, error) {
	ctx := context.Background()
	db, err := merkledb.New(ctx, memdb.New(), merkledb.Config{BranchFactor: merkledb.BranchFactor16, Tracer: trace.Noop})
	if err != nil {
		return nil, err
	}
	kv := map[string][]byte{
		string(chain.HeightKey(cc.mm.HeightPrefix())):       binary.BigEndian.AppendUint64(nil, 0),
		string(chain.TimestampKey(cc.mm.TimestampPrefix())): binary.BigEndian.AppendUint64(nil, 0),
		string(chain.FeeKey(cc.mm.FeePrefix())):             {},
	}
	for _, tx := range txs {
		kv[string(cc.bh.BalanceKey(tx.Auth.Sponsor()))] = binary.BigEndian.AppendUint64(nil, math.MaxUint64)
	}
	keys := make([]string, 0, len(kv))
	for k := range kv {
		keys = append(keys, k)
	}
	sort.Strings(keys)
	for _, k := range keys {
		if err := db.Put([]byte(k), kv[k]); err != nil {
			return nil, err
		}
	}
	root, err := db.GetMerkleRoot(ctx)
	if err != nil {
		return nil, err
	}
	sb, err := chain.NewStatelessBlock(ids.Empty, c16BlockTs, 1, txs, root, &block.Context{})
	if err != nil {
		return nil, err
	}
	eb := chain.NewExecutionBlock(sb) // a block the node built itself from admitted transactions
	if !inMemory {
		parsed, err := chain.UnmarshalBlock(sb.GetBytes(), cc.parser_)
		if err != nil {
			return nil, fmt.Errorf("block does not parse: %w", err)
		}
		eb = chain.NewExecutionBlock(parsed)
	}
	res := make(chan error, 1)
	go func() {
		_, err := cc.proc.Execute(ctx, db, eb, false)
		res <- err
	}()
	return c16Await(res, pool.lastJob, "Processor.Execute")
}

// ------------------------------------------------------------------ run

func c16Run(c c16Case, st *vstat.Stats) error {
	st.Assumption("keys are honestly generated (deterministic seeds through each scheme's own key derivation); secp256r1 signing is randomised, so replays re-sign (verdicts do not depend on the nonce)")
	st.Assumption("faulted transactions are only those whose signed bytes still parse (UnmarshalTx), as in a block received from the network; transactions whose auth object has a history (verified before / taken from another tx) are passed as in-memory objects, as in a block the node built from admitted transactions")
	var base workers.Workers
	if c.Workers <= 0 {
		base = workers.NewSerial()
	} else {
		base = workers.NewParallel(c.Workers, 100)
	}
	pool := &c16Workers{inner: base}
	var realEngines chain.AuthEngines = auth.Engines{}
	if c.BatchEngine {
		realEngines = auth.DefaultEngines()
	}
	batched := map[int]bool{schemeEd: c.BatchEngine}
	multi := &c16MultiEngines{ed: realEngines, extra: map[uint8]int{}, park: -1}
	for _, sch := range c.ExtraBatch {
		if sch >= schemeSecp && sch <= schemeStub {
			multi.extra[uint8(sch)] = max(c.ExtraBatchSize, 1)
			batched[sch] = true
		}
	}
	if c.Park > 0 && batched[c.Park-1] {
		multi.park = c.Park - 1
	}
	multi.reset()
	var engines chain.AuthEngines = multi
	healthy := true
	defer func() {
		if healthy {
			go pool.Stop()
		}
	}()
	var cc *c16Chain
	if c.Exec {
		var err error
		if cc, err = c16NewChain(pool, engines); err != nil {
			return fmt.Errorf("fixture: %w", err)
		}
	}

	cores := max(c.Workers, 1)
	labels := map[string]bool{}
	nontrivial := false
	type blkSummary struct {
		N, Ed, BatchSize int
		Invalid          []int
		Want, Got        string
	}
	var summary []blkSummary
	if c.Workers <= 0 {
		labels["pool=serial"] = true
	} else if c.Workers == 1 {
		labels["pool=1-worker"] = true
	} else {
		labels["pool=multi-worker"] = true
	}
	if c.BatchEngine {
		labels["engines=ed25519-batch"] = true
	} else {
		labels["engines=none"] = true
	}
	if c.Exec {
		labels["via=Processor.Execute"] = true
	} else if c.WaitEarly && c.Gate {
		labels["via=AuthBatch,wait-early,batch-tasks-gated"] = true
	} else if c.WaitEarly {
		labels["via=AuthBatch,wait-early"] = true
	} else {
		labels["via=AuthBatch,wait-after-done"] = true
	}
	if len(c.Blocks) > 1 {
		labels["multi-block-same-pool"] = true
	}

	var firstErr error
	prevFailed := false
	for bi := range c.Blocks {
		specs := c16Expand(c, bi, st)
		txs := make([]*chain.Transaction, len(specs))
		schemes := map[int]int{}
		inMemory := false // some tx of the block is an in-memory object with a history: the block is not re-parsed
		for i, s := range specs {
			tx, applied, err := c16BuildTx(s)
			if err != nil {
				if errors.Is(err, errC16Verdict) {
					return fmt.Errorf("tx %d %+v: %w", i, s, err)
				}
				return fmt.Errorf("fixture: build tx %+v: %w", s, err)
			}
			if c16InMemoryKind(s.Fault) {
				inMemory = true
				switch {
				case s.Scheme == schemeStub:
					labels["stub-auth-object-shared"] = true
				case s.Fault == c16FaultReusedVerified:
					labels["auth-object-reused-after-verify"] = true
					labels["auth-object-reused-after-verify:"+schemeNames[s.Scheme]] = true
					nontrivial = true
				case s.Fault == c16FaultReusedFresh:
					labels["auth-object-reused-fresh-control"] = true
				case s.Fault == c16PreVerified:
					labels["valid-auth-object-preverified"] = true
				default:
					labels["valid-auth-object-preverified-probed-wrong-msg"] = true
				}
			}
			if !applied {
				st.Skip("fault-not-encodable")
			}
			txs[i] = tx
			schemes[s.Scheme]++
		}
		// ---- oracle: one by one, on this goroutine, over the unsigned bytes
		var want error
		var invalid []int
		edIdx := 0
		edCount := schemes[schemeEd]
		bs := max(edCount/cores, ed25519.MinBatchSize)
		nFull, rem := edCount/bs, edCount%bs
		for i, tx := range txs {
			id := tx.GetID()
			c16Mu.Lock()
			verr, ok := c16OracleMem[id]
			c16Mu.Unlock()
			if !ok {
				// the oracle never touches an object the system under test sees: fresh copy from the signed bytes
				fresh, perr := chain.UnmarshalTx(tx.Bytes(), parser())
				if perr != nil {
					return fmt.Errorf("fixture: tx %d does not re-parse: %w", i, perr)
				}
				if fresh.GetID() != id || !bytes.Equal(fresh.UnsignedBytes(), tx.UnsignedBytes()) {
					return fmt.Errorf("fixture: tx %d: re-parsed copy differs", i)
				}
				verr = fresh.Auth.Verify(context.Background(), fresh.UnsignedBytes())
				c16Mu.Lock()
				c16OracleMem[id] = verr
				c16Mu.Unlock()
			}
			if verr != nil {
				invalid = append(invalid, i)
				if want == nil {
					want = verr
				}
				if specs[i].Scheme == schemeEd {
					labels["invalid-ed25519"] = true
					if c.BatchEngine {
						if rem > 0 && edIdx >= nFull*bs {
							labels["invalid-in-last-partial-batch"] = true
							nontrivial = true
						}
						if edIdx < nFull*bs && (edIdx%bs == bs-1 || (edIdx%bs == 0 && edIdx > 0)) {
							labels["invalid-at-batch-boundary"] = true
							nontrivial = true
						}
						if edIdx == edCount-1 {
							labels["invalid-last-ed25519"] = true
						}
					}
				} else {
					labels["invalid-"+schemeNames[specs[i].Scheme]] = true
				}
				labels[fmt.Sprintf("fault-kind=%d", specs[i].Fault)] = true
			} else if specs[i].Fault != c16FaultNone && specs[i].Fault < c16PreVerified && specs[i].Scheme != schemeStub {
				labels["fault-that-still-verifies"] = true
			}
			if specs[i].Scheme == schemeEd {
				edIdx++
			}
		}
		if c.BatchEngine && edCount > 0 {
			switch {
			case edCount < bs:
				labels["ed-count<batch"] = true
			case rem == 0 && nFull == 1:
				labels["ed-count=batch"] = true
			case rem == 0:
				labels["ed-count=k*batch"] = true
			default:
				labels["ed-count=k*batch+r"] = true
			}
		}
		if len(schemes) >= 3 {
			labels["mixed>=3-schemes"] = true
		}
		switch {
		case len(txs) == 0:
			labels["empty-block"] = true
		case len(invalid) == 0:
			labels["all-valid"] = true
		case len(invalid) == 1:
			labels["1-invalid"] = true
		default:
			labels["2+-invalid"] = true
		}
		if prevFailed {
			labels["block-after-failed-block"] = true
		}

		nBatchTypes := 0
		for sch, on := range batched {
			if on && schemes[sch] > 0 {
				nBatchTypes++
			}
		}
		if nBatchTypes >= 2 {
			labels["two-batch-types"] = true
		}
		if nBatchTypes >= 3 {
			labels["three-batch-types"] = true
		}
		parkedLastInvalid := false
		if multi.park >= 0 && nBatchTypes >= 2 && schemes[multi.park] > 0 {
			last := -1
			for i, sp := range specs {
				if sp.Scheme == multi.park {
					last = i
				}
			}
			for _, i := range invalid {
				if i == last {
					parkedLastInvalid = true
				}
			}
		}

		// ---- implementation
		sched := multi.reset()
		var got, infra error
		if c.Exec {
			got, infra = cc.exec(pool, txs, inMemory)
			if inMemory {
				labels["via=Processor.Execute,in-memory-block"] = true
			}
		} else {
			got, infra = c16Direct(pool, engines, txs, c.WaitEarly, c.Gate)
		}
		if nBatchTypes >= 2 && sched.byFlush.Load()+sched.byTimeout.Load() > 0 {
			labels["add-parked-across-done"] = true
			if sched.byFlush.Load() > 0 {
				labels["parked:released-by-observed-flush"] = true
			} else {
				labels["parked:released-by-timeout"] = true
			}
			if parkedLastInvalid {
				labels["parked-last-item-invalid"] = true
				nontrivial = true
			}
		}
		if sched.lateAdds.Load() > 0 {
			labels["observed:add-after-own-flush"] = true
		}
		sum := blkSummary{N: len(txs), Ed: edCount, BatchSize: bs, Invalid: invalid, Want: fmt.Sprint(want), Got: fmt.Sprint(got)}
		summary = append(summary, sum)
		if infra != nil {
			healthy = false
			if errors.Is(infra, errC16Inconclusive) {
				fmt.Fprintf(os.Stderr, "INCONCLUSIVE C16: %v\n", infra)
				labels["inconclusive-timeout"] = true
				break
			}
			firstErr = fmt.Errorf("block %d (%d txs, invalid at %v): %w", bi, len(txs), invalid, infra)
			break
		}
		switch {
		case want != nil && got == nil:
			firstErr = fmt.Errorf("block %d: %d txs, auth of tx %v does not verify one-by-one (%v) but the signature job reported success (workers=%d batchEngine=%v extraBatch=%v park=%d exec=%v waitEarly=%v gate=%v ed25519 count=%d batchSize=%d; adds that reached a batch verifier after its own flush: %d)",
				bi, len(txs), invalid, want, c.Workers, c.BatchEngine, c.ExtraBatch, c.Park, c.Exec, c.WaitEarly, c.Gate, edCount, bs, sched.lateAdds.Load())
		case want == nil && got != nil:
			firstErr = fmt.Errorf("block %d: every auth of the %d txs verifies one-by-one but verification failed: %v (workers=%d batchEngine=%v exec=%v ed25519 count=%d batchSize=%d)",
				bi, len(txs), got, c.Workers, c.BatchEngine, c.Exec, edCount, bs)
		case want != nil && got != nil:
			matches := false
			for _, i := range invalid {
				c16Mu.Lock()
				e := c16OracleMem[txs[i].GetID()]
				c16Mu.Unlock()
				if errors.Is(got, e) {
					matches = true
				}
			}
			if !matches {
				firstErr = fmt.Errorf("block %d: verification failed with %q, which wraps none of the individual auth failures (%v)", bi, got, want)
			}
		}
		if firstErr != nil {
			break
		}
		prevFailed = want != nil
	}

	canon, _ := json.Marshal(c)
	ls := make([]string, 0, len(labels))
	for l := range labels {
		ls = append(ls, l)
	}
	sort.Strings(ls)
	st.Case(nontrivial, string(canon), ls...)
	st.Sample(nontrivial, map[string]any{"workers": c.Workers, "batchEngine": c.BatchEngine, "exec": c.Exec, "waitEarly": c.WaitEarly, "blocks": summary})
	return firstErr
}

const c16Rule = "1-3 blocks verified on one pool (serial or 1..16 parallel workers; engines map with/without the real ed25519 batch engine and with 0-3 further batch-verified types (harness batch verifiers for secp256r1/BLS/stub), optionally with one type's batch worker parked inside Add of its last item until a flush by AuthBatch.Done is observed (<=30 ms); through Processor.Execute or NewAuthBatch+Job as verifySignatures/waitSignatures do, Wait called before or after the Done callback, optionally with the batch tasks held back until Wait is entered); each block mixes 0-40 ed25519, 0-6 secp256r1, 0-4 BLS and 0-6 stub auths (ed25519 counts biased to k*batchSize-1/+0/+1), 0-3 faults (bit flip, signature of another message, wrong key, s+l / n-s / negated, key bit, the valid auth OBJECT of another tx reused in memory after / without a successful Verify over its own tx, and as non-faults a tx whose own object was verified before, optionally probed with a wrong message) at first/last/batch-boundary/last-partial-batch positions; oracle = auth.Verify one by one on freshly parsed copies never shared with the verifier; non-trivial = (batch engine on and an invalid ed25519 signature in the final partial batch or at a batch boundary) or an auth object reused after a successful verify, or an invalid auth as the parked type's last item; distinct by the whole case"

func TestC16(t *testing.T) {
	st := vstat.New(t, "C16", c16Rule)
	rapid.Check(t, func(rt *rapid.T) {
		c := c16Gen(rt)
		vstat.Run(rt, st, c, func() error { return c16Run(c, st) })
	})
}

func TestC16Replay(t *testing.T) {
	vstat.Replay(t, "C16", func(raw []byte) error {
		var c c16Case
		if err := json.Unmarshal(raw, &c); err != nil {
			return err
		}
		return c16Run(c, vstat.New(nil, "C16", ""))
	})
}

// TestC16Regression replays the minimal cases of the two defects this check found on the
// pinned tree (fixed in /repo by "serial verification job reported success before its tasks
// ran" = fixes/F20-serial-job-wait.diff and "verification worker must keep serving tasks after a
// job error" = fixes/F5-workers-continue.diff) plus a few hand-picked boundary blocks.
func TestC16Regression(t *testing.T) {
	st := vstat.New(t, "C16", "regression: hand-written minimal cases (serial pool + ed25519 batch engine with an invalid signature in the only / final batch, Wait entered before the batch tasks ran, directly and through Processor.Execute; 1-worker pool with a failing first signature followed by further tasks and a second block; ed25519 counts exactly k*batchSize with the invalid signature first/last; the verified auth object of another tx reused on this tx for secp256r1 / ed25519 / BLS; two and three batch-verified auth types with one type's worker parked in Add of its last, invalid item across AuthBatch.Done, 8 repetitions each)")
	slots := func(n int) []c16Slot { return make([]c16Slot, n) }
	flt := func(scheme, pos, kind int) c16Fault {
		return c16Fault{Scheme: scheme, PosSel: pos, Kind: kind, Arg: 107}
	}
	cases := []c16Case{
		// F20: serial pool, batch engine, one invalid ed25519 tx, through Execute
		{Workers: 0, BatchEngine: true, Exec: true, Blocks: []c16Block{{Counts: [4]int{1, 0, 0, 0}, Slots: slots(1), Faults: []c16Fault{flt(0, c16PosFirst, c16FaultBitFlip)}}}},
		// F20: same, direct, batch tasks gated until Wait is entered (deterministic)
		{Workers: 0, BatchEngine: true, WaitEarly: true, Gate: true, Blocks: []c16Block{{Counts: [4]int{3, 0, 0, 0}, Slots: slots(3), Faults: []c16Fault{flt(0, c16PosLast, c16FaultBitFlip)}}}},
		{Workers: 0, BatchEngine: true, WaitEarly: true, Gate: true, Blocks: []c16Block{{Counts: [4]int{9, 2, 0, 1}, Slots: slots(12), Faults: []c16Fault{flt(0, c16PosLast, c16FaultAlgebraic)}}}},
		// F5: one worker, the first of five non-batched verifications fails; then a valid block on the same pool
		{Workers: 1, BatchEngine: false, Blocks: []c16Block{
			{Counts: [4]int{0, 0, 0, 5}, Slots: slots(5), Faults: []c16Fault{flt(4, c16PosFirst, c16FaultBitFlip)}},
			{Counts: [4]int{2, 1, 1, 1}, Slots: slots(5)}}},
		{Workers: 2, BatchEngine: true, Exec: true, Blocks: []c16Block{
			{Counts: [4]int{8, 0, 0, 4}, Slots: slots(12), Faults: []c16Fault{flt(0, c16PosFirst, c16FaultOtherMsg)}},
			{Counts: [4]int{8, 0, 0, 4}, Slots: slots(12)}}},
		// exact multiples of the batch size, invalid at the very end / start of a batch
		{Workers: 2, BatchEngine: true, Blocks: []c16Block{{Counts: [4]int{8, 0, 0, 0}, Slots: slots(8), Faults: []c16Fault{flt(0, c16PosLast, c16FaultWrongKey)}}}},
		{Workers: 4, BatchEngine: true, WaitEarly: true, Blocks: []c16Block{{Counts: [4]int{16, 0, 0, 0}, Slots: slots(16), Faults: []c16Fault{flt(0, c16PosStartSecond, c16FaultBitFlip)}}}},
		{Workers: 4, BatchEngine: true, Blocks: []c16Block{{Counts: [4]int{17, 0, 0, 0}, Slots: slots(17), Faults: []c16Fault{flt(0, c16PosFirstOfPartial, c16FaultKeyBit)}}}},
		{Workers: 16, BatchEngine: true, Exec: true, Blocks: []c16Block{{Counts: [4]int{40, 3, 2, 3}, Slots: slots(48)}}},
		// auth object of another tx, already verified over its own bytes, reused on this tx (per scheme; direct and through Execute on an in-memory block)
		{Workers: 2, BatchEngine: true, Blocks: []c16Block{{Counts: [4]int{0, 3, 0, 0}, Slots: slots(3), Faults: []c16Fault{flt(4, c16PosLast, c16FaultReusedVerified)}}}},
		{Workers: 1, BatchEngine: false, Exec: true, Blocks: []c16Block{{Counts: [4]int{0, 2, 0, 0}, Slots: slots(2), Faults: []c16Fault{flt(4, c16PosFirst, c16FaultReusedVerified)}}}},
		{Workers: 0, BatchEngine: true, Exec: true, Blocks: []c16Block{{Counts: [4]int{5, 0, 0, 0}, Slots: slots(5), Faults: []c16Fault{flt(0, c16PosLast, c16FaultReusedVerified)}}}},
		{Workers: 4, BatchEngine: false, Blocks: []c16Block{{Counts: [4]int{0, 0, 2, 0}, Slots: slots(2), Faults: []c16Fault{flt(4, c16PosFirst, c16FaultReusedVerified)}}}},
		{Workers: 3, BatchEngine: true, Exec: true, Blocks: []c16Block{{Counts: [4]int{4, 2, 1, 1}, Slots: slots(8), Faults: []c16Fault{flt(4, c16PosAny, c16PreVerifiedProbed), flt(5, c16PosAny, c16PreVerified), flt(6, c16PosAny, c16FaultReusedFresh)}}}},
	}
	// two batch-verified types, one type's worker parked in Add of its last (invalid) item across AuthBatch.Done;
	// a Done that flushes a verifier whose worker is still adding depends on map iteration order: repeated
	for rep := 0; rep < 8; rep++ {
		cases = append(cases,
			c16Case{Workers: 2, BatchEngine: true, ExtraBatch: []int{schemeStub}, ExtraBatchSize: 2, Park: 1 + schemeEd, Blocks: []c16Block{
				{Counts: [4]int{5, 0, 0, 3}, Slots: slots(8), Faults: []c16Fault{flt(10+schemeEd, c16PosLast, c16FaultBitFlip)}}}},
			c16Case{Workers: 0, BatchEngine: true, Exec: true, ExtraBatch: []int{schemeSecp, schemeBLS}, ExtraBatchSize: 3, Park: 1 + schemeSecp, Blocks: []c16Block{
				{Counts: [4]int{3, 2, 1, 0}, Slots: slots(6), Faults: []c16Fault{flt(10+schemeSecp, c16PosLast, c16FaultOtherMsg)}}}},
		)
	}
	for i := range cases {
		c := cases[i]
		vstat.Run(t, st, c, func() error { return c16Run(c, st) })
	}
}
