package cryptoauth

import (
	"fmt"
	"testing"

	"github.com/ava-labs/hypersdk/verifharness/vstat"
)

func TestProbeSerialExec(t *testing.T) {
	fails := 0
	for n := 1; n <= 40; n++ {
		c := c16Case{Workers: 0, BatchEngine: true, Exec: true, Blocks: []c16Block{{Counts: [4]int{n, 0, 0, 0}, Slots: make([]c16Slot, n), Faults: []c16Fault{{Scheme: 0, PosSel: c16PosLast, Kind: 1, Arg: 3}}}}}
		err := c16Run(c, vstat.New(nil, "C16", ""))
		if err != nil {
			fails++
			if fails < 4 {
				fmt.Println(n, err)
			}
		}
	}
	fmt.Println("exec-mode failures:", fails, "of 40")
}
