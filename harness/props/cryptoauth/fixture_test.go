package cryptoauth

// Shared fixture of the cryptoauth checks (C16, C17): deterministic honest key
// derivation for the three signature schemes, a stub auth type, the tx parser,
// and the curve constants used for algebraic re-encodings.

import (
	"context"
	"crypto/elliptic"
	"crypto/sha256"
	"errors"
	"fmt"
	"math/big"
	"sync"

	stded "crypto/ed25519"

	"github.com/ava-labs/hypersdk/auth"
	"github.com/ava-labs/hypersdk/chain"
	"github.com/ava-labs/hypersdk/chain/chaintest"
	"github.com/ava-labs/hypersdk/codec"
	"github.com/ava-labs/hypersdk/crypto/bls"
	"github.com/ava-labs/hypersdk/crypto/ed25519"
	"github.com/ava-labs/hypersdk/crypto/secp256r1"
)

const (
	schemeEd   = 0
	schemeSecp = 1
	schemeBLS  = 2
	schemeStub = 3 // harness auth type, never batched, no cryptography
)

var schemeNames = [...]string{"ed25519", "secp256r1", "bls", "stub"}

var (
	// group orders
	edL, _   = new(big.Int).SetString("7237005577332262213973186563042994240857116359379907606001950938285454250989", 10) // 2^252 + 27742317777372353535851937790883648493
	edP      = new(big.Int).Sub(new(big.Int).Lsh(big.NewInt(1), 255), big.NewInt(19))
	secpN    = elliptic.P256().Params().N
	secpP    = elliptic.P256().Params().P
	blsR, _  = new(big.Int).SetString("73eda753299d7d483339d80809a1d80553bda402fffe5bfeffffffff00000001", 16)
	two256   = new(big.Int).Lsh(big.NewInt(1), 256)
	bigOne   = big.NewInt(1)
	errNoFit = errors.New("value does not fit the encoding")
)

// ---- honest key derivation (deterministic from a 32-byte seed) ----
//
// ed25519: the seed is the RFC 8032 private seed (exactly what GenerateKey draws).
// secp256r1 / BLS: the private scalar is seed mod (order-1) + 1, i.e. a uniformly
// distributed valid scalar, which is what the schemes' own generators produce.

func edKeyFromSeed(seed [32]byte) ed25519.PrivateKey {
	return ed25519.PrivateKey(stded.NewKeyFromSeed(seed[:]))
}

func scalarFromSeed(seed [32]byte, order *big.Int) []byte {
	x := new(big.Int).SetBytes(seed[:])
	x.Mod(x, new(big.Int).Sub(order, bigOne))
	x.Add(x, bigOne)
	out := make([]byte, 32)
	x.FillBytes(out)
	return out
}

func secpKeyFromSeed(seed [32]byte) secp256r1.PrivateKey {
	return secp256r1.PrivateKey(scalarFromSeed(seed, secpN))
}

func blsKeyFromSeed(seed [32]byte) *bls.PrivateKey {
	k, err := bls.PrivateKeyFromBytes(scalarFromSeed(seed, blsR))
	if err != nil {
		panic(fmt.Sprintf("bls key from seed: %v", err))
	}
	return k
}

func poolSeed(scheme, i int) [32]byte {
	return sha256.Sum256([]byte(fmt.Sprintf("verif-cryptoauth-key-%d-%d", scheme, i)))
}

// factoryFromSeed returns the real auth factory of the scheme for the key derived from seed.
func factoryFromSeed(scheme int, seed [32]byte) chain.AuthFactory {
	switch scheme {
	case schemeEd:
		return auth.NewED25519Factory(edKeyFromSeed(seed))
	case schemeSecp:
		return auth.NewSECP256R1Factory(secpKeyFromSeed(seed))
	case schemeBLS:
		return auth.NewBLSFactory(blsKeyFromSeed(seed))
	}
	panic("no factory for scheme")
}

const poolSize = 8

var (
	poolOnce      sync.Once
	poolFactories [3][poolSize]chain.AuthFactory
)

func pool(scheme, i int) chain.AuthFactory {
	poolOnce.Do(func() {
		for s := 0; s < 3; s++ {
			for k := 0; k < poolSize; k++ {
				poolFactories[s][k] = factoryFromSeed(s, poolSeed(s, k))
			}
		}
	})
	return poolFactories[scheme][((i%poolSize)+poolSize)%poolSize]
}

// ---- stub auth (type id 3): cheap non-batched auth with a distinguishable error ----

const stubAuthID = 3

var errStubVerify = errors.New("stub auth verification error")

type stubAuth struct {
	Addr codec.Address
	Bad  bool
}

var _ chain.Auth = (*stubAuth)(nil)

func (*stubAuth) GetTypeID() uint8                      { return stubAuthID }
func (*stubAuth) ValidRange(chain.Rules) (int64, int64) { return -1, -1 }
func (*stubAuth) ComputeUnits(chain.Rules) uint64       { return 1 }
func (s *stubAuth) Actor() codec.Address                { return s.Addr }
func (s *stubAuth) Sponsor() codec.Address              { return s.Addr }
func (s *stubAuth) Bytes() []byte {
	b := make([]byte, 0, 2+codec.AddressLen)
	b = append(b, stubAuthID)
	b = append(b, s.Addr[:]...)
	if s.Bad {
		return append(b, 1)
	}
	return append(b, 0)
}

func (s *stubAuth) Verify(context.Context, []byte) error {
	if s.Bad {
		return errStubVerify
	}
	return nil
}

func unmarshalStubAuth(b []byte) (chain.Auth, error) {
	if len(b) != 2+codec.AddressLen || b[0] != stubAuthID || b[len(b)-1] > 1 {
		return nil, errors.New("invalid stub auth")
	}
	s := &stubAuth{Bad: b[len(b)-1] == 1}
	copy(s.Addr[:], b[1:])
	return s, nil
}

func stubAddr(i int) codec.Address {
	var a codec.Address
	a[0] = stubAuthID
	h := sha256.Sum256([]byte(fmt.Sprintf("verif-stub-%d", i)))
	copy(a[1:], h[:])
	return a
}

// ---- parser: TestAction + the three real auth types + the stub ----

var (
	parserOnce sync.Once
	txParser   *chain.TxTypeParser
)

func parser() *chain.TxTypeParser {
	parserOnce.Do(func() {
		ac := codec.NewTypeParser[chain.Action]()
		au := codec.NewTypeParser[chain.Auth]()
		err := errors.Join(
			ac.Register(&chaintest.TestAction{}, chaintest.UnmarshalTestAction),
			au.Register(&auth.ED25519{}, auth.UnmarshalED25519),
			au.Register(&auth.SECP256R1{}, auth.UnmarshalSECP256R1),
			au.Register(&auth.BLS{}, auth.UnmarshalBLS),
			au.Register(&stubAuth{}, unmarshalStubAuth),
		)
		if err != nil {
			panic(err)
		}
		txParser = &chain.TxTypeParser{ActionRegistry: ac, AuthRegistry: au}
	})
	return txParser
}

// ---- fixed-width big-endian / little-endian helpers ----

func be32(x *big.Int) ([]byte, error) {
	if x.Sign() < 0 || x.BitLen() > 256 {
		return nil, errNoFit
	}
	out := make([]byte, 32)
	x.FillBytes(out)
	return out, nil
}

func le32(x *big.Int) ([]byte, error) {
	b, err := be32(x)
	if err != nil {
		return nil, err
	}
	for i, j := 0, 31; i < j; i, j = i+1, j-1 {
		b[i], b[j] = b[j], b[i]
	}
	return b, nil
}

func fromLE(b []byte) *big.Int {
	r := make([]byte, len(b))
	for i := range b {
		r[len(b)-1-i] = b[i]
	}
	return new(big.Int).SetBytes(r)
}
