package conc

// TestMain runs the C08 / C26 tests in a supervised child process.
//
// Two kinds of failure of the code under test cannot be turned into a verdict
// from inside the process:
//   - a panic in a goroutine owned by the executor / worker pool (for example
//     "sync: negative WaitGroup counter" or "send on closed channel" after a task
//     was accounted twice) kills the whole test binary;
//   - a report of the race detector only fails the test at its very end.
// The supervisor re-executes the test binary as a child. The child writes every
// case to an "in-flight" file before running it; if the child dies from a panic
// the supervisor publishes that case as the replay file and prints the
// VERIF-FAIL line itself. For race builds the child runs with GORACE=log_path=...
// and checks after every case whether the detector wrote a report.
//
// A test timeout ("test timed out") is never converted into a violation.

import (
	"bytes"
	"encoding/json"
	"fmt"
	"io"
	"os"
	"os/exec"
	"path/filepath"
	"strings"
	"sync"
	"testing"
)

const childEnv = "VERIF_CONC_CHILD"

func supervised() bool {
	run := ""
	for i, a := range os.Args {
		if strings.HasPrefix(a, "-test.run=") {
			run = strings.TrimPrefix(a, "-test.run=")
		} else if a == "-test.run" && i+1 < len(os.Args) {
			run = os.Args[i+1]
		}
	}
	if run == "" || strings.Contains(run, "Replay") || strings.Contains(run, "Dbg") {
		return false
	}
	return strings.Contains(run, "C08") || strings.Contains(run, "C26")
}

func propertyOfRun() string {
	for _, a := range os.Args {
		if strings.Contains(a, "C08") {
			return "C08"
		}
		if strings.Contains(a, "C26") {
			return "C26"
		}
	}
	return "C??"
}

func inflightPath() string {
	if p := os.Getenv("VERIF_CONC_INFLIGHT"); p != "" {
		return p
	}
	return ""
}

// noteInflight is called by the checks before a case is executed.
func noteInflight(c any) {
	p := inflightPath()
	if p == "" {
		return
	}
	b, err := json.Marshal(c)
	if err != nil {
		return
	}
	_ = os.WriteFile(p, b, 0o644)
}

// raceReports returns the number of bytes the race detector has written so far.
func raceReports() (int64, string) {
	base := os.Getenv("VERIF_CONC_RACELOG")
	if base == "" {
		return 0, ""
	}
	p := fmt.Sprintf("%s.%d", base, os.Getpid())
	fi, err := os.Stat(p)
	if err != nil {
		return 0, p
	}
	return fi.Size(), p
}

func raceExcerpt(p string, from int64) string {
	b, err := os.ReadFile(p)
	if err != nil || int64(len(b)) <= from {
		return ""
	}
	b = b[from:]
	if len(b) > 2500 {
		b = b[:2500]
	}
	return string(b)
}

type tailBuf struct {
	mu  sync.Mutex
	buf []byte
}

func (t *tailBuf) Write(p []byte) (int, error) {
	t.mu.Lock()
	t.buf = append(t.buf, p...)
	if len(t.buf) > 1<<20 {
		t.buf = t.buf[len(t.buf)-(1<<19):]
	}
	t.mu.Unlock()
	return len(p), nil
}

func supervise() int {
	dir, err := os.MkdirTemp(os.Getenv("VERIF_WORK"), "conc-sup-")
	if err != nil {
		dir, err = os.MkdirTemp("", "conc-sup-")
		if err != nil {
			return -1
		}
	}
	defer os.RemoveAll(dir)
	inflight := filepath.Join(dir, "inflight.json")
	cmd := exec.Command(os.Args[0], os.Args[1:]...)
	cmd.Env = append(os.Environ(), childEnv+"=1", "VERIF_CONC_INFLIGHT="+inflight)
	if raceEnabled {
		gr := "log_path=" + filepath.Join(dir, "race")
		if old := os.Getenv("GORACE"); old != "" {
			gr = old + " " + gr
		}
		cmd.Env = append(cmd.Env, "GORACE="+gr, "VERIF_CONC_RACELOG="+filepath.Join(dir, "race"))
	}
	var tail tailBuf
	cmd.Stdout = io.MultiWriter(os.Stdout, &tail)
	cmd.Stderr = io.MultiWriter(os.Stderr, &tail)
	cmd.Stdin = nil
	err = cmd.Run()
	if err == nil {
		return 0
	}
	code := 1
	if ee, ok := err.(*exec.ExitError); ok && ee.ExitCode() > 0 {
		code = ee.ExitCode()
	}
	out := tail.buf
	crashed := bytes.Contains(out, []byte("\npanic: ")) || bytes.HasPrefix(out, []byte("panic: ")) || bytes.Contains(out, []byte("\nfatal error: "))
	if bytes.Contains(out, []byte("VERIF-FAIL")) || bytes.Contains(out, []byte("test timed out")) || !crashed {
		return code
	}
	raw, rerr := os.ReadFile(inflight)
	if rerr != nil {
		return code
	}
	// the child died from a panic outside the harness' control while running this case
	msg := "the test process crashed while this case was running"
	if i := bytes.Index(out, []byte("panic: ")); i >= 0 {
		e := out[i:]
		if len(e) > 1800 {
			e = e[:1800]
		}
		msg += ":\n" + string(e)
	} else if i := bytes.Index(out, []byte("fatal error: ")); i >= 0 {
		e := out[i:]
		if len(e) > 1800 {
			e = e[:1800]
		}
		msg += ":\n" + string(e)
	}
	pid := propertyOfRun()
	rp := os.Getenv("VERIF_REPLAY_FILE")
	if rp == "" {
		rp = filepath.Join(os.TempDir(), "verif-replay-"+pid+".json")
	}
	b, _ := json.MarshalIndent(map[string]any{"property": pid, "error": msg, "case": json.RawMessage(raw)}, "", " ")
	_ = os.MkdirAll(filepath.Dir(rp), 0o755)
	_ = os.WriteFile(rp, b, 0o644)
	first := msg
	if i := strings.Index(first, "\ngoroutine "); i > 0 {
		first = first[:i]
	}
	fmt.Printf("VERIF-FAIL property=%s replay=%s: %s\n", pid, rp, strings.ReplaceAll(first, "\n", " "))
	return 1
}

func TestMain(m *testing.M) {
	if os.Getenv(childEnv) == "" && supervised() {
		os.Exit(supervise())
	}
	os.Exit(m.Run())
}
