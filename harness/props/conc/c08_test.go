package conc

// C08: the parallel executor never runs conflicting tasks concurrently or out of
// order; every task runs exactly once unless an earlier task failed / the executor
// was stopped; Wait returns the (first) error and never deadlocks.
//
// Two modes:
//   gated  the harness owns the schedule. Every task body records start(id), parks
//          on its own gate and records end(id) when the op list releases it. The
//          controller interleaves "enqueue next task" with "release parked task #i"
//          (and "release #i and enqueue the next task without waiting in between",
//          which makes a completion race with Run), waiting for the executor to
//          settle between ops.
//   free   bodies spin/yield for generated counts with real goroutine timing; run
//          with the race detector. Bodies touch unsynchronised per-key shadow
//          memory outside the logged start/end region, so a missing
//          happens-before edge between conflicting tasks is a data race even when
//          the tasks did not overlap in time.
//
// The oracle works on the recorded event history only.

import (
	"encoding/json"
	"errors"
	"fmt"
	"runtime"
	"sort"
	"strings"
	"sync/atomic"
	"testing"
	"time"

	"pgregory.net/rapid"

	"github.com/ava-labs/hypersdk/internal/executor"
	"github.com/ava-labs/hypersdk/state"
	"github.com/ava-labs/hypersdk/verifharness/vstat"
)

const executorMarker = "hypersdk/internal/executor."

type c08Key struct {
	K int   `json:"k"`
	P uint8 `json:"p"`
}

type c08Task struct {
	Keys []c08Key `json:"keys"`
	Fail bool     `json:"fail,omitempty"`
	Stop bool     `json:"stop,omitempty"` // body calls Executor.Stop() before it returns
	Spin int      `json:"spin,omitempty"` // free mode: busy iterations
}

type c08Op struct {
	Op string `json:"op"` // enq | rel | relenq (release, then Run) | enqrel (Run in flight, then release) | burst (release all parked, Run the next I+1 tasks back to back) | stop
	I  int    `json:"i,omitempty"`
	Y  int    `json:"y,omitempty"` // relenq: Gosched calls between release and Run
}

type c08Case struct {
	Mode     string    `json:"mode"` // gated | free
	Workers  int       `json:"workers"`
	MaxDeps  int64     `json:"max_deps"`
	Tasks    []c08Task `json:"tasks"`
	Ops      []c08Op   `json:"ops,omitempty"`
	Drain    []int     `json:"drain,omitempty"`
	EnqYield []int     `json:"enq_yield,omitempty"` // free mode: yields after the i-th Run
	StopAt   int       `json:"stop_at,omitempty"`   // free mode: controller calls Stop before enqueueing task StopAt-1 (0 = never)
	Observed *c08Obs   `json:"observed,omitempty"`  // filled by the run; ignored on replay
}

type c08Obs struct {
	Events       []event `json:"events"`
	WaitReturned bool    `json:"wait_returned"`
	WaitErr      string  `json:"wait_err"`
	Note         string  `json:"note,omitempty"`
}

func moreThanRead(p uint8) bool { return p&^uint8(state.Read) != 0 }

// conflict per the property statement: the tasks share a key and at least one of
// them needs more than read access to it.
func c08Conflict(a, b c08Task) bool {
	for _, x := range a.Keys {
		for _, y := range b.Keys {
			if x.K == y.K && (moreThanRead(x.P) || moreThanRead(y.P)) {
				return true
			}
		}
	}
	return false
}

// r reads (exactly Read) a key that w needs more than read access to
func c08ReaderOfWriter(r, w c08Task) bool {
	for _, x := range r.Keys {
		for _, y := range w.Keys {
			if x.K == y.K && x.P == uint8(state.Read) && moreThanRead(y.P) {
				return true
			}
		}
	}
	return false
}

func c08StateKeys(t c08Task) state.Keys {
	ks := make(state.Keys, len(t.Keys))
	for _, k := range t.Keys {
		ks[fmt.Sprintf("k%d", k.K)] |= state.Permissions(k.P)
	}
	return ks
}

// normalise merges duplicate keys of a task the way state.Keys.Add does (union)
func c08Normalise(t c08Task) c08Task {
	m := map[int]uint8{}
	for _, k := range t.Keys {
		m[k.K] |= k.P
	}
	var ks []c08Key
	for k, p := range m {
		ks = append(ks, c08Key{k, p})
	}
	sort.Slice(ks, func(i, j int) bool { return ks[i].K < ks[j].K })
	t.Keys = ks
	return t
}

// ---------------------------------------------------------------- generator

var c08Perms = []uint8{uint8(state.Read), uint8(state.Read), uint8(state.Read), uint8(state.Read),
	uint8(state.Write), uint8(state.Write), uint8(state.Write),
	uint8(state.Allocate), uint8(state.Allocate), uint8(state.All), uint8(state.None)}

func c08GenTasks(rt *rapid.T, free bool) []c08Task {
	n := rapid.IntRange(1, 40).Draw(rt, "ntasks")
	if rapid.IntRange(0, 3).Draw(rt, "small") == 0 {
		n = 1 + n%8
	}
	nk := rapid.IntRange(1, 6).Draw(rt, "nkeys")
	failAt, stopAt := -1, -1
	switch rapid.IntRange(0, 9).Draw(rt, "errkind") {
	case 7, 8:
		failAt = rapid.IntRange(0, n-1).Draw(rt, "failAt")
	case 9:
		stopAt = rapid.IntRange(0, n-1).Draw(rt, "stopTask")
	case 6:
		failAt = rapid.IntRange(0, n-1).Draw(rt, "failAt")
		stopAt = rapid.IntRange(0, n-1).Draw(rt, "failAt2") // second failing task
	}
	readHeavy := rapid.IntRange(0, 4).Draw(rt, "readHeavy") == 0
	if readHeavy && rapid.IntRange(0, 1).Draw(rt, "hotKeys") == 0 {
		nk = 1 + nk%2 // W R R R W R R ... on one or two keys
	}
	tasks := make([]c08Task, n)
	for i := range tasks {
		cnt := rapid.IntRange(0, 3).Draw(rt, "nk")
		if cnt > nk {
			cnt = nk
		}
		var ks []c08Key
		for j := 0; j < cnt; j++ {
			p := rapid.SampledFrom(c08Perms).Draw(rt, "perm")
			if readHeavy && rapid.IntRange(0, 2).Draw(rt, "rh") > 0 {
				p = uint8(state.Read)
			}
			ks = append(ks, c08Key{K: rapid.IntRange(0, nk-1).Draw(rt, "key"), P: p})
		}
		tasks[i] = c08Normalise(c08Task{Keys: ks})
		if free {
			tasks[i].Spin = rapid.SampledFrom([]int{0, 0, 1, 5, 50, 300, 2000}).Draw(rt, "spin")
		}
	}
	if failAt >= 0 {
		tasks[failAt].Fail = true
	}
	if stopAt >= 0 {
		if failAt >= 0 {
			tasks[stopAt].Fail = true
		} else {
			tasks[stopAt].Stop = true
		}
	}
	return tasks
}

func c08Gen(rt *rapid.T) c08Case {
	c := c08Case{Mode: "gated"}
	c.Tasks = c08GenTasks(rt, false)
	n := len(c.Tasks)
	c.Workers = rapid.SampledFrom([]int{1, 2, 2, 3, 4, 4, 8}).Draw(rt, "workers")
	c.MaxDeps = rapid.SampledFrom([]int64{100_000_000, 100_000_000, int64(n), int64(n) + 1}).Draw(rt, "maxdeps")
	nops := rapid.IntRange(0, 3*n).Draw(rt, "nops")
	ctlStop := rapid.IntRange(0, 11).Draw(rt, "ctlStop") == 0
	for i := 0; i < nops; i++ {
		var op c08Op
		switch k := rapid.IntRange(0, 19).Draw(rt, "opk"); {
		case k < 6:
			op.Op = "enq"
		case k < 13:
			op = c08Op{Op: "rel", I: rapid.IntRange(0, 7).Draw(rt, "i")}
		case k < 16:
			op = c08Op{Op: "relenq", I: rapid.IntRange(0, 7).Draw(rt, "i"), Y: rapid.IntRange(0, 3).Draw(rt, "y")}
		case k < 18:
			op = c08Op{Op: "enqrel", I: rapid.IntRange(0, 7).Draw(rt, "i"), Y: rapid.IntRange(0, 3).Draw(rt, "y")}
		case k < 19:
			op = c08Op{Op: "burst", I: rapid.IntRange(0, 2).Draw(rt, "i")}
		default:
			if ctlStop {
				op.Op = "stop"
			} else {
				op.Op = "enq"
			}
		}
		c.Ops = append(c.Ops, op)
	}
	c.Drain = rapid.SliceOfN(rapid.IntRange(0, 7), 1, 8).Draw(rt, "drain")
	return c
}

func c08GenFree(rt *rapid.T) c08Case {
	c := c08Case{Mode: "free"}
	c.Tasks = c08GenTasks(rt, true)
	n := len(c.Tasks)
	c.Workers = rapid.SampledFrom([]int{1, 2, 3, 4, 4, 8, 8}).Draw(rt, "workers")
	c.MaxDeps = rapid.SampledFrom([]int64{100_000_000, 100_000_000, int64(n), int64(n) + 1}).Draw(rt, "maxdeps")
	c.EnqYield = make([]int, n)
	for i := range c.EnqYield {
		c.EnqYield[i] = rapid.SampledFrom([]int{0, 0, 0, 1, 2, 20}).Draw(rt, "ey")
	}
	if rapid.IntRange(0, 11).Draw(rt, "ctlStop") == 0 {
		c.StopAt = rapid.IntRange(1, n).Draw(rt, "stopAt")
	}
	return c
}

// ---------------------------------------------------------------- execution

type c08Harness struct {
	c       *c08Case
	log     evlog
	e       *executor.Executor
	state   []atomic.Int32 // 0 not started, 1 started (parked), 2 ended
	starts  []atomic.Int32
	gates   []chan struct{}
	release []bool // controller side
	errs    []error
	shadow  []int // free mode: one plain word per key
	spinSnk atomic.Int64
	dup     atomic.Int32  // id+1 of a task whose body was entered a second time
	never   chan struct{} // never closed
}

func (h *c08Harness) gatedBody(id int) func() error {
	t := h.c.Tasks[id]
	return func() error {
		if h.starts[id].Add(1) > 1 {
			h.secondStart(id)
		}
		h.state[id].CompareAndSwap(0, 1)
		h.log.rec("start", id, 0, "")
		<-h.gates[id]
		h.state[id].Store(2)
		h.log.rec("end", id, 0, "")
		if t.Stop {
			h.e.Stop()
			h.log.rec("stopped", id, 0, "")
		}
		if t.Fail {
			return h.errs[id]
		}
		return nil
	}
}

// secondStart: the body of a task was entered twice. That is already a violation;
// the body never returns, because letting the executor account a task twice makes
// it panic in its own goroutines (negative WaitGroup counter, send on closed
// channel), which would kill the process before the verdict is written.
func (h *c08Harness) secondStart(id int) {
	h.log.rec("start", id, 0, "second")
	h.dup.CompareAndSwap(0, int32(id+1))
	<-h.never
}

func (h *c08Harness) touchShadow(t c08Task, id int) {
	for _, k := range t.Keys {
		switch {
		case moreThanRead(k.P):
			h.shadow[k.K] = id + 1 // plain write
		case k.P&uint8(state.Read) != 0:
			if h.shadow[k.K] < 0 { // plain read
				h.spinSnk.Add(1)
			}
		}
	}
}

func (h *c08Harness) freeBody(id int) func() error {
	t := h.c.Tasks[id]
	return func() error {
		if h.starts[id].Add(1) > 1 {
			h.secondStart(id)
		}
		h.touchShadow(t, id)
		h.state[id].CompareAndSwap(0, 1)
		h.log.rec("start", id, 0, "")
		x := int64(id)
		for i := 0; i < t.Spin; i++ {
			x = x*6364136223846793005 + 1442695040888963407
			if i%64 == 63 {
				runtime.Gosched()
			}
		}
		h.spinSnk.Add(x & 1)
		h.log.rec("end", id, 0, "")
		h.state[id].Store(2)
		if t.Stop {
			h.e.Stop()
			h.log.rec("stopped", id, 0, "")
		}
		h.touchShadow(t, id)
		if t.Fail {
			return h.errs[id]
		}
		return nil
	}
}

func (h *c08Harness) parked() []int {
	var out []int
	for i := range h.state {
		if h.state[i].Load() == 1 && !h.release[i] {
			out = append(out, i)
		}
	}
	return out
}

// model (property statement, not the implementation): how many tasks may be
// expected to be in flight once the executor has settled. Only used to decide how
// long to wait before the next schedule op (exploration), never for a verdict.
func (h *c08Harness) expectedInFlight(enq int, errSet bool) (int, bool) {
	if errSet {
		return 0, false
	}
	inflight, ready := 0, 0
	for j := 0; j < enq; j++ {
		s := h.state[j].Load()
		if s == 1 {
			inflight++
			continue
		}
		if s == 2 {
			continue
		}
		ok := true
		for i := 0; i < j && ok; i++ {
			if h.state[i].Load() != 2 && c08Conflict(h.c.Tasks[i], h.c.Tasks[j]) {
				ok = false
			}
		}
		if ok {
			ready++
		}
	}
	want := inflight + ready
	if want > h.c.Workers {
		want = h.c.Workers
	}
	return want, true
}

func (h *c08Harness) inFlight() int {
	n := 0
	for i := range h.state {
		if h.state[i].Load() == 1 {
			n++
		}
	}
	return n
}

func c08Run(c *c08Case, st *vstat.Stats) error {
	n := len(c.Tasks)
	h := &c08Harness{c: c}
	h.state = make([]atomic.Int32, n)
	h.starts = make([]atomic.Int32, n)
	h.gates = make([]chan struct{}, n)
	h.release = make([]bool, n)
	h.errs = make([]error, n)
	h.shadow = make([]int, 8)
	h.never = make(chan struct{})
	for i := range h.gates {
		h.gates[i] = make(chan struct{})
		h.errs[i] = fmt.Errorf("task %d failed", i)
	}
	c.Observed = nil
	noteInflight(c)
	race0, _ := raceReports()
	obs := &c08Obs{}
	c.Observed = obs
	deadline := time.Now().Add(caseHardLimit)
	markers := []string{executorMarker, hgoMarker}

	// items = number of tasks, as both callers (chain.Processor, chain.Builder) do
	h.e = executor.New(n, c.Workers, c.MaxDeps, nil)

	var (
		next       int
		errSet     bool // an error source was activated by the controller
		ctlStopped bool
		runPending chan struct{}
		waitDone   atomic.Bool
		waitErr    error
		labels     = map[string]bool{}
		handoff    bool
		multiDep   bool
	)
	runReturned := func() bool {
		if runPending == nil {
			return true
		}
		select {
		case <-runPending:
			runPending = nil
			return true
		default:
			return false
		}
	}
	body := h.gatedBody
	if c.Mode == "free" {
		body = h.freeBody
	}
	var during func()
	doRun := func(id int) {
		// label: depends on >=2 distinct unfinished predecessors at enqueue time
		preds := 0
		for i := 0; i < id; i++ {
			if h.state[i].Load() != 2 && c08Conflict(c.Tasks[i], c.Tasks[id]) {
				preds++
			}
		}
		if preds >= 2 {
			multiDep = true
		}
		done := make(chan struct{})
		keys := c08StateKeys(c.Tasks[id])
		f := body(id)
		h.log.rec("enq", id, 0, "")
		hgo(func() {
			h.e.Run(keys, f)
			close(done)
		})
		runPending = done
		if during != nil {
			during()
			during = nil
		}
		// Run never blocks in a healthy executor (channel capacity = items)
		t0 := time.Now()
		for !runReturned() {
			runtime.Gosched()
			if time.Since(t0) > 5*time.Millisecond {
				break
			}
		}
	}
	doRelease := func(id int) {
		h.release[id] = true
		if c.Tasks[id].Fail || c.Tasks[id].Stop {
			errSet = true
		}
		h.log.rec("rel", id, 0, "")
		close(h.gates[id])
	}
	doStop := func() {
		h.log.rec("stopcall", -1, 0, "")
		h.e.Stop()
		h.log.rec("stopped", -1, 0, "")
		errSet, ctlStopped = true, true
	}
	settleNow := func() {
		settle(&h.log.progress, func() bool {
			want, ok := h.expectedInFlight(next, errSet)
			return ok && h.inFlight() >= want
		})
	}
	fail := func(format string, args ...any) error {
		obs.Events = h.log.snapshot()
		obs.WaitReturned = waitDone.Load()
		if obs.WaitReturned && waitErr != nil {
			obs.WaitErr = waitErr.Error()
		}
		return fmt.Errorf(format, args...)
	}

	dupErr := func() error {
		if d := h.dup.Load(); d != 0 {
			return fail("task %d started twice", d-1)
		}
		return nil
	}
	isDup := func() bool { return h.dup.Load() != 0 }

	if c.Mode == "gated" {
		for _, op := range c.Ops {
			if err := dupErr(); err != nil {
				return err
			}
			switch op.Op {
			case "enq":
				if next >= n || !runReturned() {
					st.Skip("enq-inapplicable")
					continue
				}
				doRun(next)
				next++
			case "rel":
				pl := h.parked()
				if len(pl) == 0 {
					st.Skip("rel-nothing-parked")
					continue
				}
				doRelease(pl[op.I%len(pl)])
			case "burst":
				pl := h.parked()
				if next >= n || !runReturned() {
					st.Skip("burst-inapplicable")
					continue
				}
				for _, id := range pl {
					if c08ReaderOfWriter(c.Tasks[id], c.Tasks[next]) {
						handoff = true
					}
					doRelease(id)
				}
				for b := 0; b <= op.I && next < n && runReturned(); b++ {
					doRun(next)
					next++
				}
				labels["op-burst"] = true
			case "relenq", "enqrel":
				pl := h.parked()
				if len(pl) == 0 || next >= n || !runReturned() {
					st.Skip("relenq-inapplicable")
					continue
				}
				id := pl[op.I%len(pl)]
				if op.I >= 2 {
					// bias: prefer a parked reader of a key the next task needs exclusively
					var cand []int
					for _, p := range pl {
						if c08ReaderOfWriter(c.Tasks[p], c.Tasks[next]) {
							cand = append(cand, p)
						}
					}
					if len(cand) > 0 {
						id = cand[op.I%len(cand)]
					}
				}
				// reader released while a later writer on the same key is being enqueued
				if c08ReaderOfWriter(c.Tasks[id], c.Tasks[next]) {
					handoff = true
				}
				if op.Op == "relenq" {
					doRelease(id)
					for y := 0; y < op.Y; y++ {
						runtime.Gosched()
					}
				} else {
					during = func() {
						for y := 0; y < op.Y; y++ {
							runtime.Gosched()
						}
						doRelease(id)
					}
				}
				doRun(next)
				next++
				labels["op-"+op.Op] = true
			case "stop":
				if ctlStopped {
					st.Skip("stop-twice")
					continue
				}
				doStop()
				labels["controller-stop"] = true
			}
			settleNow()
		}
		if next == n {
			labels["ops-enqueued-everything"] = true
		}
	}

	// ---- enqueue whatever is left (free mode: everything), then Wait
	if c.Mode == "free" {
		enqDone := make(chan struct{})
		hgo(func() {
			for i := 0; i < n; i++ {
				if c.StopAt == i+1 {
					h.log.rec("stopcall", -1, 0, "")
					h.e.Stop()
					h.log.rec("stopped", -1, 0, "")
				}
				h.log.rec("enq", i, 0, "")
				h.e.Run(c08StateKeys(c.Tasks[i]), body(i))
				for y := 0; y < c.EnqYield[i]; y++ {
					runtime.Gosched()
				}
			}
			close(enqDone)
		})
		if c.StopAt > 0 {
			labels["controller-stop"] = true
			ctlStopped = true
		}
		runPending = enqDone
		next = n
	} else {
		for next < n {
			// a blocked Run can only be unblocked by releasing tasks
			for !runReturned() {
				p0 := h.log.progress.Load()
				if err := dupErr(); err != nil {
					return err
				}
				pl := h.parked()
				if len(pl) > 0 {
					doRelease(pl[0])
					settleNow()
					continue
				}
				out, sig := awaitOrHang(&h.log.progress, p0, func() bool { return runReturned() || isDup() }, func() bool { return len(h.parked()) == 0 }, markers, deadline)
				if out == woHung {
					return fail("deadlock: Run(task %d) never returned; every executor goroutine is blocked [%s]", next-1, prettySig(sig))
				}
				if out == woTimeout {
					return errInconclusive("Run did not return within the hard limit")
				}
			}
			doRun(next)
			next++
		}
	}
	// Wait may only be called once Run is no longer executing
	for !runReturned() {
		p0 := h.log.progress.Load()
		if err := dupErr(); err != nil {
			return err
		}
		pl := h.parked()
		if len(pl) > 0 && c.Mode == "gated" {
			doRelease(pl[0])
			settleNow()
			continue
		}
		out, sig := awaitOrHang(&h.log.progress, p0, func() bool { return runReturned() || isDup() }, func() bool { return len(h.parked()) == 0 && h.inFlight() == 0 }, markers, deadline)
		if out == woHung {
			return fail("deadlock: Run never returned; every executor goroutine is blocked [%s]", prettySig(sig))
		}
		if out == woTimeout {
			return errInconclusive("Run did not return within the hard limit")
		}
	}
	hgo(func() {
		err := h.e.Wait()
		waitErr = err
		x := ""
		if err != nil {
			x = err.Error()
		}
		h.log.rec("waitret", -1, 0, x)
		waitDone.Store(true)
		h.log.progress.Add(1) // last action: the controller looks again now that the flag is set
	})
	dk := 0
	for !waitDone.Load() {
		if err := dupErr(); err != nil {
			return err
		}
		if c.Mode == "gated" {
			settleNow()
		}
		p0 := h.log.progress.Load() // read before looking for parked tasks
		if c.Mode == "gated" {
			if waitDone.Load() {
				break
			}
			if pl := h.parked(); len(pl) > 0 {
				doRelease(pl[c.Drain[dk%len(c.Drain)]%len(pl)])
				dk++
				continue
			}
		}
		idle := func() bool { return len(h.parked()) == 0 && h.inFlight() == 0 }
		out, sig := awaitOrHang(&h.log.progress, p0, func() bool { return waitDone.Load() || isDup() }, idle, markers, deadline)
		if out == woHung {
			ran := 0
			for i := range h.starts {
				if h.starts[i].Load() > 0 {
					ran++
				}
			}
			return fail("deadlock: Wait never returned although no task is running or parked (%d of %d tasks ran); every executor goroutine is blocked [%s]", ran, n, prettySig(sig))
		}
		if out == woTimeout {
			return errInconclusive("Wait did not return within the hard limit (no evidence of quiescence)")
		}
	}
	// a short grace period so that a task wrongly started after Wait shows up
	settle(&h.log.progress, nil)
	if err := dupErr(); err != nil {
		return err
	}

	evs := h.log.snapshot()
	obs.Events = evs
	obs.WaitReturned = true
	if waitErr != nil {
		obs.WaitErr = waitErr.Error()
	}

	// ---- evidence bookkeeping
	anyFail, anyStopTask, skipped := false, false, 0
	hasNone, hasAlloc, allRead, sameOwner := false, false, true, false
	lastToucher := map[int]int{}
	for i, t := range c.Tasks {
		anyFail = anyFail || t.Fail
		anyStopTask = anyStopTask || t.Stop
		if h.starts[i].Load() == 0 {
			skipped++
		}
		owners := map[int][2]bool{}
		for _, k := range t.Keys {
			if k.P == 0 {
				hasNone = true
			}
			if k.P == uint8(state.Allocate) {
				hasAlloc = true
			}
			if moreThanRead(k.P) {
				allRead = false
			}
			if o, ok := lastToucher[k.K]; ok {
				x := owners[o]
				if moreThanRead(k.P) {
					x[1] = true
				} else if k.P != 0 {
					x[0] = true
				}
				owners[o] = x
			}
		}
		for _, x := range owners {
			if x[0] && x[1] {
				sameOwner = true
			}
		}
		for _, k := range t.Keys {
			lastToucher[k.K] = i
		}
	}
	if c.Mode == "free" {
		// statically: a task with >= 2 distinct conflicting predecessors
		for j := range c.Tasks {
			p := 0
			for i := 0; i < j; i++ {
				if c08Conflict(c.Tasks[i], c.Tasks[j]) {
					p++
				}
			}
			if p >= 2 {
				multiDep = true
			}
		}
	}
	lbls := []string{"mode-" + c.Mode}
	add := func(b bool, l string) {
		if b {
			lbls = append(lbls, l)
		}
	}
	add(handoff, "reader-released-while-writer-enqueued")
	add(multiDep, "task-with-2+-unfinished-predecessors")
	add(anyFail, "failing-task")
	add(anyStopTask, "stop-from-task")
	add(skipped > 0, "some-task-skipped")
	add(hasNone, "perm-none")
	add(hasAlloc, "perm-allocate")
	add(allRead, "read-only-workload")
	add(sameOwner, "reads-and-writes-keys-of-same-earlier-task")
	add(c.Workers == 1, "single-worker")
	add(c.MaxDeps < 1000, "tight-max-dependencies")
	for l := range labels {
		lbls = append(lbls, l)
	}
	sort.Strings(lbls)
	nt := handoff || multiDep
	cc := *c
	cc.Observed = nil
	canon, _ := json.Marshal(cc)
	st.Case(nt, string(canon), lbls...)
	st.Sample(nt, map[string]any{"mode": c.Mode, "workers": c.Workers, "tasks": c08RenderTasks(c.Tasks), "ops": c08RenderOps(c.Ops)})

	if err := c08Oracle(c, evs, waitErr, h); err != nil {
		return fail("%v", err)
	}
	if r1, p := raceReports(); r1 > race0 {
		return fail("the race detector reported a data race while this case was running:\n%s", raceExcerpt(p, race0))
	}
	return nil
}

func c08RenderTasks(ts []c08Task) string {
	var sb strings.Builder
	for i, t := range ts {
		if i > 0 {
			sb.WriteByte(' ')
		}
		for _, k := range t.Keys {
			fmt.Fprintf(&sb, "%d%s", k.K, map[uint8]string{0: "n", 1: "r", 3: "a", 5: "w", 7: "A"}[k.P])
		}
		if len(t.Keys) == 0 {
			sb.WriteByte('-')
		}
		if t.Fail {
			sb.WriteByte('!')
		}
		if t.Stop {
			sb.WriteByte('S')
		}
	}
	return sb.String()
}

func c08RenderOps(ops []c08Op) string {
	var sb strings.Builder
	for _, o := range ops {
		switch o.Op {
		case "enq":
			sb.WriteByte('e')
		case "rel":
			fmt.Fprintf(&sb, "r%d", o.I)
		case "relenq":
			fmt.Fprintf(&sb, "x%d", o.I)
		case "enqrel":
			fmt.Fprintf(&sb, "y%d", o.I)
		case "burst":
			fmt.Fprintf(&sb, "B%d", o.I)
		case "stop":
			sb.WriteByte('S')
		}
	}
	return sb.String()
}

// ---------------------------------------------------------------- oracle

func c08Oracle(c *c08Case, evs []event, waitErr error, h *c08Harness) error {
	n := len(c.Tasks)
	start := make([]int64, n)
	end := make([]int64, n)
	enq := make([]int64, n)
	starts := make([]int, n)
	var waitret int64
	var firstStopped int64 // seq of the first "Stop() has returned" event
	stopCalled := false
	for _, e := range evs {
		switch e.Ev {
		case "enq":
			enq[e.A] = e.Seq
		case "start":
			starts[e.A]++
			if start[e.A] == 0 {
				start[e.A] = e.Seq
			}
		case "end":
			if end[e.A] == 0 {
				end[e.A] = e.Seq
			}
		case "waitret":
			waitret = e.Seq
		case "stopcall":
			stopCalled = true
		case "stopped":
			stopCalled = true
			if firstStopped == 0 {
				firstStopped = e.Seq
			}
		}
	}
	// 1. no task starts twice
	for i := 0; i < n; i++ {
		if starts[i] > 1 {
			return fmt.Errorf("task %d started %d times", i, starts[i])
		}
	}
	// 2. conflicting tasks run one after the other in queue order
	for j := 0; j < n; j++ {
		if start[j] == 0 {
			continue
		}
		for i := 0; i < j; i++ {
			if !c08Conflict(c.Tasks[i], c.Tasks[j]) {
				continue
			}
			switch {
			case start[i] == 0:
				return fmt.Errorf("task %d started although the earlier conflicting task %d never ran (it was skipped, so %d was a remaining task)", j, i, j)
			case end[i] == 0 || end[i] > start[j]:
				return fmt.Errorf("task %d (seq %d) started before the earlier conflicting task %d finished (start %d, end %d)", j, start[j], i, start[i], end[i])
			}
		}
	}
	// 3. nothing starts after Wait returned; everything that started has ended by then
	for i := 0; i < n; i++ {
		if start[i] > waitret {
			return fmt.Errorf("task %d started (seq %d) after Wait had returned (seq %d)", i, start[i], waitret)
		}
		if start[i] != 0 && (end[i] == 0 || end[i] > waitret) {
			return fmt.Errorf("Wait returned (seq %d) while task %d was still running", waitret, i)
		}
	}
	// error sources that actually happened
	var sources []error
	failedRan := false
	for i, t := range c.Tasks {
		if t.Fail && start[i] != 0 {
			failedRan = true
			// not acceptable as "first error" if Stop() had already returned before the task was released
			if firstStopped != 0 && firstStopped < end[i] {
				continue
			}
			sources = append(sources, h.errs[i])
		}
	}
	if stopCalled {
		sources = append(sources, executor.ErrStopped)
	}
	// 4. exactly once when nothing failed and nobody stopped
	if !failedRan && !stopCalled {
		for i := 0; i < n; i++ {
			if starts[i] != 1 {
				return fmt.Errorf("task %d ran %d times although no task failed and Stop was not called", i, starts[i])
			}
		}
		if waitErr != nil {
			return fmt.Errorf("Wait returned %q although no task failed and Stop was not called", waitErr)
		}
	} else {
		// 5. Wait returns an error iff a run task failed or Stop was called; it is one of those
		if waitErr == nil {
			return fmt.Errorf("Wait returned nil although an error source was activated (failed task ran: %v, stop called: %v)", failedRan, stopCalled)
		}
		ok := false
		for _, s := range sources {
			if errors.Is(waitErr, s) {
				ok = true
			}
		}
		if !ok {
			return fmt.Errorf("Wait returned %q which is not the first error (candidates: %v)", waitErr, sources)
		}
	}
	// 6. remaining tasks are skipped
	for i, t := range c.Tasks {
		if start[i] == 0 {
			continue
		}
		if t.Fail || t.Stop {
			for j := i + 1; j < n; j++ {
				if start[j] != 0 && c08Conflict(t, c.Tasks[j]) {
					return fmt.Errorf("task %d started although the earlier conflicting task %d had failed/stopped the executor", j, i)
				}
			}
		}
	}
	if firstStopped != 0 {
		for j := 0; j < n; j++ {
			if start[j] == 0 {
				continue
			}
			if enq[j] > firstStopped {
				return fmt.Errorf("task %d was queued after Stop() had returned and still ran", j)
			}
			for i := 0; i < j; i++ {
				if c08Conflict(c.Tasks[i], c.Tasks[j]) && end[i] > firstStopped {
					return fmt.Errorf("task %d ran although its predecessor %d finished only after Stop() had returned", j, i)
				}
			}
		}
	}
	return nil
}

// ---------------------------------------------------------------- tests

const c08Rule = "task lists (1-40 tasks, 0-3 of 1-6 keys each, Read/Allocate/Write/All/None) on 1-8 workers with optional failing tasks / Stop (from a task or the controller); gated mode: op list of enqueue / release parked #i / release-and-enqueue-concurrently / stop with gated task bodies; free mode: spinning bodies under the race detector; oracle on the recorded start/end history. Non-trivial = a reader released while a later writer of the same key is being enqueued, or a task enqueued with >=2 distinct unfinished conflicting predecessors; distinct by the whole case (tasks + op list)"

func c08Check(t *testing.T, gen func(*rapid.T) c08Case) {
	st := vstat.New(t, "C08", c08Rule)
	st.Assumption("a deadlock is reported only when a stop-the-world goroutine dump shows every goroutine with an executor frame (and every harness helper) parked in a blocking primitive, unchanged over 4 dumps; goroutines outside the executor package and the harness are assumed not to act on the executor")
	st.Assumption("executor.New is called with items = number of tasks and maxDependencies >= number of tasks, as chain.Processor / chain.Builder do")
	var inconclusive []string
	rapid.Check(t, func(rt *rapid.T) {
		c := gen(rt)
		vstat.Run(rt, st, &c, func() error {
			err := c08Run(&c, st)
			var ie *inconclusiveErr
			if errors.As(err, &ie) {
				inconclusive = append(inconclusive, ie.Error())
				st.Label("inconclusive-timeout")
				return nil
			}
			return err
		})
	})
	if len(inconclusive) > 0 {
		t.Fatalf("%d case(s) without verdict, first: %s", len(inconclusive), inconclusive[0])
	}
}

func TestC08(t *testing.T)     { c08Check(t, c08Gen) }
func TestC08Free(t *testing.T) { c08Check(t, c08GenFree) }

func TestC08Replay(t *testing.T) {
	vstat.Replay(t, "C08", func(raw []byte) error {
		var c c08Case
		if err := json.Unmarshal(raw, &c); err != nil {
			return err
		}
		if c.Observed != nil {
			fmt.Printf("recorded history of the failing run: %d events, wait_err=%q\n", len(c.Observed.Events), c.Observed.WaitErr)
		}
		return c08Run(&c, vstat.New(nil, "C08", ""))
	})
}
