package conc

// Shared machinery of the schedule-quantified checks (C08, C26):
//
//   - evlog: one totally ordered event history per case (sequence numbers are
//     handed out under one mutex, so "a happened-before b" implies seq(a) < seq(b));
//   - hgo: every helper goroutine of the harness is started through hgo so that
//     it is recognisable in a goroutine dump;
//   - quiescence evidence: a hang is reported only if a stop-the-world goroutine
//     dump shows that every goroutine that has a frame of the package under test
//     (or is a harness helper) is parked in a blocking primitive, nothing of the
//     harness is left to do, and that picture is unchanged over several windows.
//     A goroutine that is merely slow (runnable, running, in a syscall, GC assist,
//     sleeping ...) makes the evidence fail, so a loaded machine cannot produce a
//     false "deadlock"; it can only produce INCONCLUSIVE (never a violation).

import (
	"fmt"
	"regexp"
	"runtime"
	"sort"
	"strings"
	"sync"
	"sync/atomic"
	"time"
)

// ---------------------------------------------------------------- event log

type event struct {
	Seq int64  `json:"s"`
	Ev  string `json:"e"`
	A   int    `json:"a"`           // task id (C08) / job index (C26)
	B   int    `json:"b,omitempty"` // task index within the job (C26)
	X   string `json:"x,omitempty"` // error text etc.
}

type evlog struct {
	mu       sync.Mutex
	seq      int64
	evs      []event
	progress atomic.Int64 // bumped on every event; read lock-free by the controller
}

func (l *evlog) rec(ev string, a, b int, x string) int64 {
	l.mu.Lock()
	l.seq++
	s := l.seq
	l.evs = append(l.evs, event{Seq: s, Ev: ev, A: a, B: b, X: x})
	l.mu.Unlock()
	l.progress.Add(1)
	return s
}

func (l *evlog) snapshot() []event {
	l.mu.Lock()
	defer l.mu.Unlock()
	out := make([]event, len(l.evs))
	copy(out, l.evs)
	return out
}

// ---------------------------------------------------------------- helper goroutines

// hgo starts a harness helper goroutine. The wrapper makes the goroutine show
// the frame "props/conc.hgo" in dumps even before it ran its first instruction.
// Helper goroutines must not use timers or sleeps (only the controller does).
func hgo(f func()) {
	go func() { f() }()
}

const hgoMarker = "props/conc.hgo"

// ---------------------------------------------------------------- goroutine dump

var gHeader = regexp.MustCompile(`^goroutine (\d+) \[([^\],]+)`)

// states in which a goroutine cannot make a step unless another goroutine acts
var blockedStates = map[string]bool{
	"chan receive":            true,
	"chan send":               true,
	"select":                  true,
	"semacquire":              true,
	"sync.Mutex.Lock":         true,
	"sync.RWMutex.RLock":      true,
	"sync.RWMutex.Lock":       true,
	"sync.Cond.Wait":          true,
	"sync.WaitGroup.Wait":     true,
	"chan receive (nil chan)": true,
	"chan send (nil chan)":    true,
	"select (no cases)":       true,
}

// blockedPicture takes a goroutine dump and looks at every goroutine whose
// stack mentions one of the markers. It returns a canonical signature of those
// goroutines and whether all of them are in a blocked state.
func blockedPicture(markers []string) (sig string, allBlocked bool, n int) {
	buf := make([]byte, 1<<18)
	for {
		k := runtime.Stack(buf, true)
		if k < len(buf) {
			buf = buf[:k]
			break
		}
		buf = make([]byte, 2*len(buf))
	}
	allBlocked = true
	var parts []string
	for _, g := range strings.Split(string(buf), "\n\n") {
		hit := false
		for _, m := range markers {
			if strings.Contains(g, m) {
				hit = true
				break
			}
		}
		if !hit {
			continue
		}
		m := gHeader.FindStringSubmatch(g)
		if m == nil {
			allBlocked = false
			continue
		}
		state := m[2]
		if !blockedStates[state] {
			allBlocked = false
		}
		top := ""
		if lines := strings.SplitN(g, "\n", 3); len(lines) > 1 {
			top = strings.TrimSpace(lines[1])
		}
		parts = append(parts, m[1]+":"+state+":"+top)
		n++
	}
	sort.Strings(parts)
	return strings.Join(parts, "|"), allBlocked, n
}

// goroutineBlockedIn reports whether some goroutine has a frame containing fn
// and is in a blocked state (used to confirm that a call has reached its
// blocking point, e.g. Stop waiting for the scheduler's acknowledgement).
func goroutineBlockedIn(fn string, topMustContain string) bool {
	buf := make([]byte, 1<<18)
	for {
		k := runtime.Stack(buf, true)
		if k < len(buf) {
			buf = buf[:k]
			break
		}
		buf = make([]byte, 2*len(buf))
	}
	for _, g := range strings.Split(string(buf), "\n\n") {
		if !strings.Contains(g, fn) {
			continue
		}
		m := gHeader.FindStringSubmatch(g)
		if m == nil || !blockedStates[m[2]] {
			continue
		}
		lines := strings.SplitN(g, "\n", 3)
		if len(lines) > 1 && strings.Contains(lines[1], topMustContain) {
			return true
		}
	}
	return false
}

var sigArgs = regexp.MustCompile(`\([^()]*\)$`)

// prettySig renders a blocked picture for messages: goroutine id, state, top frame
func prettySig(sig string) string {
	parts := strings.Split(sig, "|")
	for i, p := range parts {
		p = sigArgs.ReplaceAllString(p, "")
		p = strings.ReplaceAll(p, "github.com/ava-labs/hypersdk/", "")
		parts[i] = p
	}
	out := strings.Join(parts, " | ")
	if len(out) > 900 {
		out = out[:900] + "..."
	}
	return out
}

// ---------------------------------------------------------------- waiting

type waitOutcome int

const (
	woDone     waitOutcome = iota // the awaited condition became true
	woProgress                    // something happened (caller re-evaluates)
	woHung                        // positive evidence of quiescence
	woTimeout                     // no verdict: INCONCLUSIVE
)

// tuning (wall-clock values influence only which schedules are explored and how
// long a hang takes to be confirmed, never a verdict)
var (
	settleQuiet   = 150 * time.Microsecond // no event for this long => the system has settled
	settleSlow    = 1500 * time.Microsecond
	settleCap     = 40 * time.Millisecond
	hangIdle      = 120 * time.Millisecond // no event for this long before a dump is attempted
	hangWindow    = 40 * time.Millisecond
	hangWindows   = 3
	caseHardLimit = 40 * time.Second
)

// confirmQuiescent: harnessIdle must hold, the progress counter must not move
// and the blocked picture must be identical and all-blocked in every window.
func confirmQuiescent(progress *atomic.Int64, harnessIdle func() bool, markers []string) (bool, string) {
	p0 := progress.Load()
	prev := ""
	for w := 0; w <= hangWindows; w++ {
		if !harnessIdle() || progress.Load() != p0 {
			return false, ""
		}
		sig, ok, n := blockedPicture(markers)
		if !ok || n == 0 {
			return false, ""
		}
		if w > 0 && sig != prev {
			return false, ""
		}
		prev = sig
		if w < hangWindows {
			time.Sleep(hangWindow)
		}
	}
	if !harnessIdle() || progress.Load() != p0 {
		return false, ""
	}
	return true, prev
}

// awaitOrHang waits until done() holds, or the progress counter differs from p0 (which
// the caller must have read BEFORE it looked for things to do, otherwise an event
// between that look and this call would be missed), or a hang is proven, or the
// hard limit passes.
func awaitOrHang(progress *atomic.Int64, p0 int64, done func() bool, harnessIdle func() bool, markers []string, deadline time.Time) (waitOutcome, string) {
	last := time.Now()
	spins := 0
	for {
		if done() {
			return woDone, ""
		}
		if progress.Load() != p0 {
			return woProgress, ""
		}
		spins++
		if spins < 200 {
			runtime.Gosched()
		} else {
			time.Sleep(200 * time.Microsecond)
		}
		now := time.Now()
		if now.Sub(last) > hangIdle {
			if harnessIdle() {
				if ok, sig := confirmQuiescent(progress, harnessIdle, markers); ok {
					if done() {
						return woDone, ""
					}
					return woHung, sig
				}
			}
			last = time.Now()
		}
		if now.After(deadline) {
			return woTimeout, ""
		}
	}
}

// settle waits until no event has been recorded for `quiet` (and extra() holds or
// `slow` has passed), capped. Purely exploratory.
func settle(progress *atomic.Int64, extra func() bool) {
	start := time.Now()
	p := progress.Load()
	lastChange := start
	for {
		runtime.Gosched()
		now := time.Now()
		if q := progress.Load(); q != p {
			p = q
			lastChange = now
		}
		idle := now.Sub(lastChange)
		if idle >= settleQuiet && (extra == nil || extra() || idle >= settleSlow) {
			return
		}
		if now.Sub(start) > settleCap {
			return
		}
	}
}

// inconclusive bookkeeping: a case that hit the hard limit without evidence is
// never a violation; the test fails at the end WITHOUT a VERIF-FAIL line, which
// the driver reports as infrastructure trouble (exit 2).
type inconclusiveErr struct{ msg string }

func (e *inconclusiveErr) Error() string { return "INCONCLUSIVE: " + e.msg }

func errInconclusive(format string, args ...any) error {
	return &inconclusiveErr{fmt.Sprintf(format, args...)}
}
