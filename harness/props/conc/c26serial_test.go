package conc

// C26, serial pool driven the way chain.AuthBatch drives it: Go is called on ONE
// job from 2..4 goroutines at the same time (the verifying goroutine and the batch
// workers), Done is called once all of those calls have returned, Wait is called
// by the verifying goroutine at any moment. The ordering is owned by the harness:
// task bodies are gated, the op list says which submitter goroutine calls Go next
// and which parked body returns next, so "a succeeding task that started before a
// failing one was recorded returns after it" is generated, not hoped for.
//
// An implementation may serialise the bodies (Go blocks while another body runs;
// then only one body is ever parked and the other submitters sit inside Go) or run
// them concurrently; the controller copes with both and the oracle is the same.

import (
	"encoding/json"
	"errors"
	"fmt"
	"sort"
	"sync/atomic"
	"time"

	"pgregory.net/rapid"

	"github.com/ava-labs/hypersdk/internal/workers"
	"github.com/ava-labs/hypersdk/verifharness/vstat"
)

func c26GenSerialGated(rt *rapid.T) c26Case {
	c := c26Case{Mode: "serialgated", Workers: 1, MaxJobs: 1}
	nj := rapid.SampledFrom([]int{1, 1, 2, 3}).Draw(rt, "njobs")
	for j := 0; j < nj; j++ {
		subs := rapid.IntRange(2, 4).Draw(rt, "subs")
		nt := rapid.IntRange(1, 8).Draw(rt, "ntasks")
		tasks := make([]c26Task, nt)
		for i := range tasks {
			tasks[i].G = rapid.IntRange(0, subs-1).Draw(rt, "g")
		}
		switch rapid.IntRange(0, 9).Draw(rt, "failkind") {
		case 3, 4, 5, 6, 7:
			tasks[rapid.IntRange(0, nt-1).Draw(rt, "failpos")].Fail = true
		case 8:
			tasks[rapid.IntRange(0, nt-1).Draw(rt, "failpos")].Fail = true
			tasks[rapid.IntRange(0, nt-1).Draw(rt, "failpos2")].Fail = true
		case 9:
			for i := range tasks {
				tasks[i].Fail = rapid.IntRange(0, 2).Draw(rt, "f") == 0
			}
		}
		job := c26Job{Backlog: nt, Tasks: tasks, Subs: subs, Cb: rapid.IntRange(0, 2).Draw(rt, "cb") == 0}
		nops := rapid.IntRange(0, 3*nt).Draw(rt, "nops")
		for i := 0; i < nops; i++ {
			switch k := rapid.IntRange(0, 20).Draw(rt, "opk"); {
			case k < 11:
				job.Ops = append(job.Ops, c26Op{Op: "go", I: rapid.IntRange(0, subs-1).Draw(rt, "g")})
			case k < 20:
				job.Ops = append(job.Ops, c26Op{Op: "rel", I: rapid.IntRange(0, 3).Draw(rt, "i")})
			default:
				job.Ops = append(job.Ops, c26Op{Op: "wait"})
			}
		}
		job.Drain = rapid.SliceOfN(rapid.IntRange(0, 3), 1, 6).Draw(rt, "drain")
		c.Jobs = append(c.Jobs, job)
	}
	return c
}

func c26RunSerialGated(c *c26Case, st *vstat.Stats) error {
	race0, _ := raceReports()
	h := &c26Harness{c: c, never: make(chan struct{}), race0: race0}
	h.jobs = make([]*c26JobH, len(c.Jobs))
	for j := range h.jobs {
		h.jobs[j] = h.newJobH(j)
	}
	obs := &c26Obs{}
	c.Observed = obs
	deadline := time.Now().Add(caseHardLimit)
	markers := []string{workersMarker, hgoMarker}
	fail := func(format string, args ...any) error {
		obs.Events = h.log.snapshot()
		return fmt.Errorf(format, args...)
	}
	pool := workers.NewSerial()
	labels := map[string]bool{}
	nontrivial := false

	for j, jh := range h.jobs {
		spec := jh.spec
		job, err := pool.NewJob(spec.Backlog)
		if err != nil {
			return fail("serial NewJob returned %v", err)
		}
		if w := job.Workers(); w != 1 {
			return fail("serial Job.Workers() = %d", w)
		}
		jh.job = job
		jh.made.Store(true)
		h.log.rec("new", j, 0, "")
		ns := len(jh.subs)
		for _, cmds := range jh.subs {
			cmds := cmds
			hgo(func() {
				for f := range cmds {
					f()
				}
			})
		}
		// tasks of each submitter, in task order
		queue := make([][]int, ns)
		for t := range spec.Tasks {
			g := spec.Tasks[t].G % ns
			queue[g] = append(queue[g], t)
		}
		var goReturned atomic.Int32
		issued := 0
		waiterStarted, doneCalled := false, false
		var doneReturned atomic.Bool

		parkedOf := func() []int {
			var out []int
			for t := range jh.state {
				if jh.state[t].Load() == 1 && !jh.released[t] {
					out = append(out, t)
				}
			}
			return out
		}
		runningOf := func() int {
			n := 0
			for t := range jh.state {
				if jh.state[t].Load() == 1 {
					n++
				}
			}
			return n
		}
		issueGo := func(g int) bool {
			if len(queue[g]) == 0 {
				return false
			}
			t := queue[g][0]
			queue[g] = queue[g][1:]
			issued++
			// the class the seeded defects live in: Go from another goroutine while a body is in flight
			for o := range jh.state {
				if jh.state[o].Load() == 1 && spec.Tasks[o].G%ns != g {
					labels["go-while-another-goroutines-task-is-running"] = true
					if spec.Tasks[t].Fail && !spec.Tasks[o].Fail {
						labels["failing-go-concurrent-with-running-ok-task"] = true
						nontrivial = true
					}
					if !spec.Tasks[t].Fail && spec.Tasks[o].Fail {
						labels["ok-go-concurrent-with-running-failing-task"] = true
					}
				}
			}
			body := h.gatedBody(jh, t)
			jh.subs[g] <- func() {
				h.log.rec("go", j, t, "")
				job.Go(body)
				h.log.rec("goret", j, t, "")
				goReturned.Add(1)
				h.log.progress.Add(1)
			}
			return true
		}
		release := func(t int) {
			jh.released[t] = true
			h.log.rec("rel", j, t, "")
			close(jh.gates[t])
		}
		dupErr := func() error {
			if d := h.dup.Load(); d != 0 {
				return fail("job %d task %d started twice", (d-1)/1000, (d-1)%1000)
			}
			return nil
		}

		for _, op := range spec.Ops {
			if err := dupErr(); err != nil {
				return err
			}
			switch op.Op {
			case "go":
				g := op.I % ns
				if !issueGo(g) {
					ok := false
					for k := 1; k < ns && !ok; k++ {
						ok = issueGo((g + k) % ns)
					}
					if !ok {
						st.Skip("go-everything-submitted")
						continue
					}
				}
			case "rel":
				pl := parkedOf()
				if len(pl) == 0 {
					st.Skip("rel-nothing-parked")
					continue
				}
				if len(pl) > 1 {
					labels["several-bodies-in-flight"] = true
				}
				release(pl[op.I%len(pl)])
			case "wait":
				if waiterStarted {
					st.Skip("wait-twice")
					continue
				}
				waiterStarted = true
				labels["wait-called-before-done"] = true
				h.startWaiter(jh)
			}
			settle(&h.log.progress, nil)
		}

		dk := 0
		for {
			settle(&h.log.progress, nil)
			p0 := h.log.progress.Load()
			if err := dupErr(); err != nil {
				return err
			}
			for g := 0; g < ns; g++ {
				for issueGo(g) {
				}
			}
			if pl := parkedOf(); len(pl) > 0 {
				if len(pl) > 1 {
					labels["several-bodies-in-flight"] = true
				}
				release(pl[spec.Drain[dk%len(spec.Drain)]%len(pl)])
				dk++
				continue
			}
			allGoBack := int(goReturned.Load()) == issued
			if allGoBack {
				if !waiterStarted {
					waiterStarted = true
					h.startWaiter(jh)
					continue
				}
				if !doneCalled {
					// Done only after every Go call has returned, as AuthBatch.Done does
					doneCalled = true
					jh.doneIssued = true
					hgo(func() {
						h.doneCall(jh)
						doneReturned.Store(true)
						h.log.progress.Add(1)
					})
					continue
				}
				if doneReturned.Load() && jh.waitDone.Load() {
					break
				}
			}
			pendingWhat := func() string {
				switch {
				case int(goReturned.Load()) != issued:
					return fmt.Sprintf("%d Go call(s) of serial job %d never returned", issued-int(goReturned.Load()), j)
				case doneCalled && !doneReturned.Load():
					return fmt.Sprintf("Done of serial job %d never returned", j)
				case doneCalled && !jh.waitDone.Load():
					return fmt.Sprintf("Wait of serial job %d never returned although Done was called", j)
				}
				return ""
			}
			what := pendingWhat()
			changed := func() bool { return h.dup.Load() != 0 || pendingWhat() != what }
			idle := func() bool { return what != "" && pendingWhat() == what && len(parkedOf()) == 0 && runningOf() == 0 }
			out, sig := awaitOrHang(&h.log.progress, p0, changed, idle, markers, deadline)
			if out == woHung {
				return fail("deadlock: %s; every pool / helper goroutine is blocked [%s]", what, prettySig(sig))
			}
			if out == woTimeout {
				return errInconclusive("serial job %d did not finish within the hard limit (no evidence of quiescence): %s", j, what)
			}
		}
		for _, cmds := range jh.subs {
			close(cmds)
		}
	}
	pool.Stop()
	settle(&h.log.progress, nil)

	// ---------------------------------------------------------- oracle
	evs := h.log.snapshot()
	obs.Events = evs
	var firstErr error
	bad := func(format string, args ...any) {
		if firstErr == nil {
			firstErr = fmt.Errorf(format, args...)
		}
	}
	failThenNext, prevFailed, anyExecFail, anySkipped, overlap := false, false, false, false, false
	for j, jh := range h.jobs {
		n := len(jh.spec.Tasks)
		start, end, goEv, goret := make([]int64, n), make([]int64, n), make([]int64, n), make([]int64, n)
		starts := make([]int, n)
		var waitret, donecall, cb int64
		cbs := 0
		for _, e := range evs {
			if e.A != j {
				continue
			}
			switch e.Ev {
			case "start":
				starts[e.B]++
				if start[e.B] == 0 {
					start[e.B] = e.Seq
				}
			case "end":
				end[e.B] = e.Seq
			case "go":
				goEv[e.B] = e.Seq
			case "goret":
				goret[e.B] = e.Seq
			case "waitret":
				waitret = e.Seq
			case "donecall":
				donecall = e.Seq
			case "cb":
				cb = e.Seq
				cbs++
			}
		}
		if prevFailed {
			failThenNext = true
		}
		var execFail []int
		for t := 0; t < n; t++ {
			if starts[t] > 1 {
				bad("serial job %d task %d ran %d times", j, t, starts[t])
			}
			if start[t] != 0 {
				if jh.spec.Tasks[t].Fail {
					execFail = append(execFail, t)
				}
				if start[t] > waitret {
					bad("serial job %d task %d started (seq %d) after Wait had returned (seq %d)", j, t, start[t], waitret)
				}
				if end[t] == 0 || end[t] > waitret {
					bad("Wait of serial job %d returned (seq %d) while its task %d was still running", j, waitret, t)
				}
				for o := 0; o < n; o++ {
					if o != t && start[o] != 0 && start[o] < end[t] && start[t] < end[o] {
						overlap = true
					}
				}
			}
		}
		for t := 0; t < n; t++ {
			if goEv[t] == 0 || start[t] != 0 {
				continue
			}
			anySkipped = true
			// skipping is allowed only for a task whose Go call could have seen a recorded failure
			ok := false
			for _, f := range execFail {
				if end[f] != 0 && end[f] < goret[t] {
					ok = true
				}
			}
			if !ok {
				bad("serial job %d: task %d was submitted but never ran although no executed task had failed before its Go call returned", j, t)
			}
		}
		werr := jh.waitErr
		if len(execFail) == 0 {
			if werr != nil {
				bad("Wait of serial job %d returned %q although none of its executed tasks failed", j, werr)
			}
		} else {
			anyExecFail = true
			ok := false
			for _, f := range execFail {
				if errors.Is(werr, jh.errs[f]) {
					ok = true
				}
			}
			if werr == nil {
				bad("Wait of serial job %d returned nil although its executed task %d failed (start %d, end %d)", j, execFail[0], start[execFail[0]], end[execFail[0]])
			} else if !ok {
				bad("Wait of serial job %d returned %q which is not the error of one of its executed failing tasks", j, werr)
			}
		}
		if jh.spec.Cb && (cbs != 1 || cb < donecall) {
			bad("serial job %d: completion callback invoked %d times (Done called at seq %d, callback at %d)", j, cbs, donecall, cb)
		}
		prevFailed = len(execFail) > 0
	}
	if r1, p := raceReports(); firstErr == nil && r1 > race0 {
		firstErr = fmt.Errorf("the race detector reported a data race while this case was running:\n%s", raceExcerpt(p, race0))
	}

	lbls := []string{"mode-serialgated"}
	add := func(b bool, l string) {
		if b {
			lbls = append(lbls, l)
		}
	}
	add(failThenNext, "failing-job-followed-by-another-job")
	add(anyExecFail, "executed-failing-task")
	add(anySkipped, "serial-task-skipped-after-failure")
	add(overlap, "serial-bodies-overlapped")
	for l := range labels {
		lbls = append(lbls, l)
	}
	sort.Strings(lbls)
	cc := *c
	cc.Observed = nil
	canon, _ := json.Marshal(cc)
	nt := nontrivial || failThenNext
	st.Case(nt, string(canon), lbls...)
	st.Sample(nt, map[string]any{"mode": c.Mode, "jobs": c26RenderSerialJobs(c.Jobs)})
	if firstErr != nil {
		return fail("%v", firstErr)
	}
	return nil
}

func c26RenderSerialJobs(js []c26Job) string {
	out := ""
	for i, j := range js {
		if i > 0 {
			out += " | "
		}
		out += fmt.Sprintf("subs%d ", j.Subs)
		for _, t := range j.Tasks {
			if t.Fail {
				out += fmt.Sprintf("F%d", t.G)
			} else {
				out += fmt.Sprintf(".%d", t.G)
			}
		}
		out += " " + c26RenderOps(j.Ops)
	}
	return out
}
