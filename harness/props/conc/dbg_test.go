package conc

import (
	"encoding/json"
	"fmt"
	"os"
	"testing"

	"github.com/ava-labs/hypersdk/verifharness/vstat"
)

func TestDbg(t *testing.T) {
	b, _ := os.ReadFile(os.Getenv("DBG_CASE"))
	var rf struct{ Case json.RawMessage }
	json.Unmarshal(b, &rf)
	var c c26Case
	if err := json.Unmarshal(rf.Case, &c); err != nil {
		t.Fatal(err)
	}
	err := c26Run(&c, vstat.New(nil, "C26", ""))
	fmt.Println("ERR:", err)
	for _, e := range c.Observed.Events {
		fmt.Printf("%d %s %d %d %s\n", e.Seq, e.Ev, e.A, e.B, e.X)
	}
}
