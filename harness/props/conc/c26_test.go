package conc

// C26: a job submitted to the verification worker pool runs each task at most
// once, runs all of them if none fails, reports an error iff an executed task
// failed, and completes before the next job starts. Stopping the pool makes
// pending and future jobs report shutdown and returns once all workers exit.
//
// Call patterns are those of the real callers (chain.Processor.verifySignatures /
// chain.AuthBatch, vm.Shutdown, the package's own tests): NewJob from one
// goroutine; Go calls of a job from a helper goroutine, strictly before that job's
// Done; Done exactly once; Wait once per job; several jobs may be open at once;
// Stop once and never concurrently with NewJob (that would be a send on a closed
// channel in the caller's own goroutine).
//
// Modes: gated (schedule owned by an op list, task bodies park on gates), free
// (spinning bodies, real timing, race detector), serial (SerialWorkers).

import (
	"encoding/json"
	"errors"
	"fmt"
	"os"
	"path/filepath"
	"runtime"
	"sort"
	"strings"
	"sync"
	"sync/atomic"
	"testing"
	"time"

	"pgregory.net/rapid"

	"github.com/ava-labs/hypersdk/internal/workers"
	"github.com/ava-labs/hypersdk/verifharness/vstat"
)

const workersMarker = "hypersdk/internal/workers."

type c26Task struct {
	Fail bool `json:"fail,omitempty"`
	Spin int  `json:"spin,omitempty"`
	G    int  `json:"g,omitempty"` // which of the job's submitter goroutines calls Go for this task
}

type c26Job struct {
	Backlog int       `json:"backlog"`
	Tasks   []c26Task `json:"tasks"`
	Cb      bool      `json:"cb,omitempty"`
	Subs    int       `json:"subs,omitempty"` // goroutines calling Go on this job (0 = 1), as chain.AuthBatch's batch workers do
	Ops     []c26Op   `json:"ops,omitempty"`  // serial-gated mode: per-job schedule (go g | rel i | wait)
	Drain   []int     `json:"drain,omitempty"`
}

type c26Op struct {
	Op string `json:"op"` // new | go | done | rel | stop
	I  int    `json:"i,omitempty"`
}

type c26Case struct {
	Mode     string   `json:"mode"` // gated | free | serial | serialgated
	Workers  int      `json:"workers"`
	MaxJobs  int      `json:"max_jobs"`
	Jobs     []c26Job `json:"jobs"`
	Ops      []c26Op  `json:"ops,omitempty"`
	Drain    []int    `json:"drain,omitempty"`
	StopAt   int      `json:"stop_at,omitempty"` // free mode: Stop before creating job StopAt-1 (0 = only at the end)
	Observed *c26Obs  `json:"observed,omitempty"`
}

type c26Obs struct {
	Events []event `json:"events"`
	Note   string  `json:"note,omitempty"`
}

// ---------------------------------------------------------------- generator

func c26GenJobs(rt *rapid.T, free bool) []c26Job {
	nj := rapid.IntRange(1, 6).Draw(rt, "njobs")
	jobs := make([]c26Job, nj)
	for j := range jobs {
		nt := rapid.SampledFrom([]int{0, 1, 2, 3, 4, 5, 6, 6, 8, 12, 30}).Draw(rt, "ntasks")
		if nt > 8 {
			nt = rapid.IntRange(8, nt).Draw(rt, "ntasksBig")
		}
		tasks := make([]c26Task, nt)
		if nt > 0 {
			switch rapid.IntRange(0, 9).Draw(rt, "failkind") {
			case 6, 7:
				tasks[rapid.IntRange(0, nt-1).Draw(rt, "failpos")].Fail = true
			case 8:
				tasks[0].Fail = true
			case 9:
				for i := range tasks {
					tasks[i].Fail = rapid.IntRange(0, 2).Draw(rt, "f") == 0
				}
			}
		}
		if free {
			for i := range tasks {
				tasks[i].Spin = rapid.SampledFrom([]int{0, 0, 1, 5, 50, 300, 2000}).Draw(rt, "spin")
			}
		}
		backlog := nt // what chain.Processor passes: one slot per potential task
		switch rapid.IntRange(0, 7).Draw(rt, "backlogkind") {
		case 4:
			backlog = nt + 5
		case 5:
			backlog = 0
		case 6:
			backlog = 1
		case 7:
			backlog = nt / 2
		}
		subs := rapid.SampledFrom([]int{1, 1, 2, 3, 4}).Draw(rt, "subs")
		if subs > 1 {
			for i := range tasks {
				tasks[i].G = rapid.IntRange(0, subs-1).Draw(rt, "g")
			}
		}
		jobs[j] = c26Job{Backlog: backlog, Tasks: tasks, Cb: rapid.IntRange(0, 2).Draw(rt, "cb") == 0, Subs: subs}
	}
	return jobs
}

func c26Gen(rt *rapid.T) c26Case {
	if rapid.IntRange(0, 3).Draw(rt, "serialgated") == 0 {
		return c26GenSerialGated(rt)
	}
	c := c26Case{Mode: "gated"}
	c.Jobs = c26GenJobs(rt, false)
	c.Workers = rapid.SampledFrom([]int{1, 2, 2, 3, 4, 8}).Draw(rt, "workers")
	c.MaxJobs = rapid.SampledFrom([]int{100, 100, 8, 3, 2, 1}).Draw(rt, "maxjobs")
	total := len(c.Jobs)
	for _, j := range c.Jobs {
		total += len(j.Tasks)
	}
	nops := rapid.IntRange(0, 3*total).Draw(rt, "nops")
	ctlStop := rapid.IntRange(0, 3).Draw(rt, "ctlStop") == 0
	for i := 0; i < nops; i++ {
		var op c26Op
		switch k := rapid.IntRange(0, 20).Draw(rt, "opk"); {
		case k < 3:
			op.Op = "new"
		case k < 11:
			op = c26Op{Op: "go", I: rapid.IntRange(0, 5).Draw(rt, "i")}
		case k < 14:
			op = c26Op{Op: "done", I: rapid.IntRange(0, 5).Draw(rt, "i")}
		case k < 20:
			op = c26Op{Op: "rel", I: rapid.IntRange(0, 7).Draw(rt, "i")}
		default:
			if ctlStop {
				op.Op = "stop"
			} else {
				op.Op = "new"
			}
		}
		c.Ops = append(c.Ops, op)
	}
	c.Drain = rapid.SliceOfN(rapid.IntRange(0, 7), 1, 8).Draw(rt, "drain")
	return c
}

func c26GenFree(rt *rapid.T) c26Case {
	c := c26Case{Mode: "free"}
	switch rapid.IntRange(0, 6).Draw(rt, "serial") {
	case 0:
		c.Mode = "serial"
	case 1:
		return c26GenSerialGated(rt) // also under the race detector
	}
	c.Jobs = c26GenJobs(rt, c.Mode == "free")
	c.Workers = rapid.SampledFrom([]int{1, 2, 2, 3, 4, 8}).Draw(rt, "workers")
	c.MaxJobs = rapid.SampledFrom([]int{100, 100, 8, 3, 2, 1}).Draw(rt, "maxjobs")
	if rapid.IntRange(0, 3).Draw(rt, "ctlStop") == 0 {
		c.StopAt = rapid.IntRange(1, len(c.Jobs)).Draw(rt, "stopAt")
	}
	return c
}

// ---------------------------------------------------------------- execution

type c26JobH struct {
	idx        int
	spec       c26Job
	job        workers.Job
	made       atomic.Bool // NewJob returned a job
	dead       atomic.Bool // NewJob reported shutdown: there is no job
	subs       []chan func() // command queues of the submitter goroutines
	goWG       sync.WaitGroup // Go calls issued and not yet returned
	goIssued   int
	doneIssued bool
	waitDone   atomic.Bool
	waitErr    error
	cbDone     atomic.Bool
	state      []atomic.Int32 // 0 not started, 1 started, 2 ended
	starts     []atomic.Int32
	gates      []chan struct{}
	released   []bool
	errs       []error
	slots      []int // free mode: one plain word per task
	strict     bool  // definitely still queued when Stop took effect
}

type c26Harness struct {
	c     *c26Case
	log   evlog
	pool  workers.Workers
	jobs  []*c26JobH
	dup   atomic.Int32
	never chan struct{}
	sink  atomic.Int64
	race0 int64
}

func (h *c26Harness) secondStart(j, t int) {
	h.log.rec("start", j, t, "second")
	h.dup.CompareAndSwap(0, int32(j*1000+t+1))
	<-h.never
}

func (h *c26Harness) gatedBody(jh *c26JobH, t int) func() error {
	return func() error {
		if jh.starts[t].Add(1) > 1 {
			h.secondStart(jh.idx, t)
		}
		jh.state[t].CompareAndSwap(0, 1)
		h.log.rec("start", jh.idx, t, "")
		<-jh.gates[t]
		jh.state[t].Store(2)
		h.log.rec("end", jh.idx, t, "")
		if jh.spec.Tasks[t].Fail {
			return jh.errs[t]
		}
		return nil
	}
}

func (h *c26Harness) freeBody(jh *c26JobH, t int) func() error {
	return func() error {
		if jh.starts[t].Add(1) > 1 {
			h.secondStart(jh.idx, t)
		}
		jh.slots[t] = t + 1 // plain write, before the logged region
		jh.state[t].CompareAndSwap(0, 1)
		h.log.rec("start", jh.idx, t, "")
		x := int64(t)
		for i := 0; i < jh.spec.Tasks[t].Spin; i++ {
			x = x*6364136223846793005 + 1442695040888963407
			if i%64 == 63 {
				runtime.Gosched()
			}
		}
		h.log.rec("end", jh.idx, t, "")
		jh.state[t].Store(2)
		// plain reads of everything the previous job wrote: a data race unless the
		// pool really finished that job before starting this one
		if jh.idx > 0 {
			p := h.jobs[jh.idx-1]
			for i := range p.slots {
				x += int64(p.slots[i])
			}
		}
		h.sink.Add(x & 1)
		if jh.spec.Tasks[t].Fail {
			return jh.errs[t]
		}
		return nil
	}
}

func (h *c26Harness) newJobH(idx int) *c26JobH {
	spec := h.c.Jobs[idx]
	n := len(spec.Tasks)
	jh := &c26JobH{idx: idx, spec: spec}
	jh.state = make([]atomic.Int32, n)
	jh.starts = make([]atomic.Int32, n)
	jh.gates = make([]chan struct{}, n)
	jh.released = make([]bool, n)
	jh.errs = make([]error, n)
	jh.slots = make([]int, n)
	for i := 0; i < n; i++ {
		jh.gates[i] = make(chan struct{})
		jh.errs[i] = fmt.Errorf("job %d task %d failed", idx, i)
	}
	ns := spec.Subs
	if ns < 1 {
		ns = 1
	}
	for i := 0; i < ns; i++ {
		jh.subs = append(jh.subs, make(chan func(), n+4))
	}
	return jh
}

func (jh *c26JobH) live() bool { return jh.made.Load() && !jh.dead.Load() }

type parkedRef struct{ j, t int }

func (h *c26Harness) parked() []parkedRef {
	var out []parkedRef
	for _, jh := range h.jobs {
		if !jh.live() {
			continue
		}
		for t := range jh.state {
			if jh.state[t].Load() == 1 && !jh.released[t] {
				out = append(out, parkedRef{jh.idx, t})
			}
		}
	}
	return out
}

func (h *c26Harness) running() int {
	n := 0
	for _, jh := range h.jobs {
		if !jh.live() {
			continue
		}
		for t := range jh.state {
			if jh.state[t].Load() == 1 {
				n++
			}
		}
	}
	return n
}

func errText(err error) string {
	if err == nil {
		return ""
	}
	return err.Error()
}

func (h *c26Harness) startWaiter(jh *c26JobH) {
	hgo(func() {
		err := jh.job.Wait()
		jh.waitErr = err
		h.log.rec("waitret", jh.idx, 0, errText(err))
		jh.waitDone.Store(true)
		h.log.progress.Add(1) // last action: tells the controller to look again now that the flag is set
	})
}

func (h *c26Harness) doneCall(jh *c26JobH) {
	h.log.rec("donecall", jh.idx, 0, "")
	if jh.spec.Cb {
		jh.job.Done(func() {
			h.log.rec("cb", jh.idx, 0, "")
			jh.cbDone.Store(true)
			h.log.progress.Add(1)
		})
	} else {
		jh.job.Done(nil)
	}
	h.log.rec("doneret", jh.idx, 0, "")
}

func c26Run(c *c26Case, st *vstat.Stats) error {
	c.Observed = nil
	noteInflight(c)
	if c.Mode == "serial" {
		return c26RunSerial(c, st)
	}
	if c.Mode == "serialgated" {
		return c26RunSerialGated(c, st)
	}
	race0, _ := raceReports()
	h := &c26Harness{c: c, never: make(chan struct{}), race0: race0}
	h.jobs = make([]*c26JobH, len(c.Jobs))
	for j := range h.jobs {
		h.jobs[j] = h.newJobH(j)
	}
	obs := &c26Obs{}
	c.Observed = obs
	deadline := time.Now().Add(caseHardLimit)
	markers := []string{workersMarker, hgoMarker}
	fail := func(format string, args ...any) error {
		obs.Events = h.log.snapshot()
		return fmt.Errorf(format, args...)
	}
	h.pool = workers.NewParallel(c.Workers, c.MaxJobs)

	labels := map[string]bool{}
	var (
		created       int
		stopInvoked   bool
		stopConfirmed bool
		stopReturned  atomic.Bool
		stopSetSeq    int64
	)

	if c.Mode == "free" {
		allDone := make(chan struct{})
		var inlineErr atomic.Pointer[string]
		hgo(func() {
			defer close(allDone)
			var wg sync.WaitGroup
			stop := func() {
				h.log.rec("stopcall", -1, 0, "")
				h.pool.Stop()
				stopSetSeq = h.log.rec("stopret", -1, 0, "")
			}
			stopped := false
			for j := range c.Jobs {
				if c.StopAt == j+1 {
					stop()
					stopped = true
				}
				jh := h.jobs[j]
				job, err := h.pool.NewJob(jh.spec.Backlog)
				if err != nil {
					jh.dead.Store(true)
					h.log.rec("newshutdown", j, 0, errText(err))
					if !stopped || !errors.Is(err, workers.ErrShutdown) {
						s := fmt.Sprintf("NewJob for job %d returned %q although Stop had not been called", j, err)
						inlineErr.CompareAndSwap(nil, &s)
					}
					continue
				}
				if stopped {
					s := fmt.Sprintf("NewJob for job %d succeeded after Stop had returned", j)
					inlineErr.CompareAndSwap(nil, &s)
				}
				jh.job = job
				jh.made.Store(true)
				h.log.rec("new", j, 0, "")
				wg.Add(1)
				hgo(func() {
					defer wg.Done()
					err := jh.job.Wait()
					jh.waitErr = err
					h.log.rec("waitret", jh.idx, 0, errText(err))
					jh.waitDone.Store(true)
					h.log.progress.Add(1)
				})
				// Go from every submitter goroutine of the job, Done once all of them are through
				ns := len(jh.subs)
				for g := 0; g < ns; g++ {
					g := g
					jh.goWG.Add(1)
					hgo(func() {
						defer jh.goWG.Done()
						for t := range jh.spec.Tasks {
							if jh.spec.Tasks[t].G%ns != g {
								continue
							}
							h.log.rec("go", jh.idx, t, "")
							jh.job.Go(h.freeBody(jh, t))
							h.log.rec("goret", jh.idx, t, "")
						}
					})
				}
				hgo(func() {
					jh.goWG.Wait()
					h.doneCall(jh)
				})
			}
			wg.Wait()
			if !stopped {
				stop()
			}
		})
		stopInvoked = true
		for {
			p0 := h.log.progress.Load()
			closed := func() bool {
				select {
				case <-allDone:
					return true
				default:
					return h.dup.Load() != 0
				}
			}
			out, sig := awaitOrHang(&h.log.progress, p0, closed, func() bool { return h.running() == 0 }, markers, deadline)
			if out == woDone {
				break
			}
			if out == woHung {
				return fail("deadlock: %s; every pool goroutine is blocked [%s]", c26Pending(h, true), shortSig(sig))
			}
			if out == woTimeout {
				return errInconclusive("free-running jobs did not finish within the hard limit")
			}
		}
		if d := h.dup.Load(); d != 0 {
			return fail("job %d task %d started twice", (d-1)/1000, (d-1)%1000)
		}
		if s := inlineErr.Load(); s != nil {
			return fail("%s", *s)
		}
		settle(&h.log.progress, nil)
		return c26Finish(c, h, st, obs, labels, stopSetSeq != 0)
	}

	// ------------------------------------------------------------ gated mode
	type newRes struct {
		job workers.Job
		err error
	}
	var newPending chan newRes
	var newPendingJH *c26JobH
	finishNew := func(r newRes) error {
		jh := newPendingJH
		newPending, newPendingJH = nil, nil
		if r.err != nil {
			jh.dead.Store(true)
			h.log.rec("newshutdown", jh.idx, 0, errText(r.err))
			if !stopInvoked || !errors.Is(r.err, workers.ErrShutdown) {
				return fail("NewJob for job %d returned %q although Stop had not been called", jh.idx, r.err)
			}
			labels["newjob-after-stop-reports-shutdown"] = true
			return nil
		}
		if stopConfirmed {
			return fail("NewJob for job %d succeeded although Stop had already taken effect", jh.idx)
		}
		jh.job = r.job
		jh.made.Store(true)
		if w := r.job.Workers(); w != c.Workers {
			return fail("Job.Workers() = %d, pool has %d workers", w, c.Workers)
		}
		h.log.rec("new", jh.idx, 0, "")
		for _, cmds := range jh.subs {
			cmds := cmds
			hgo(func() {
				for f := range cmds {
					f()
				}
			})
		}
		if len(jh.subs) > 1 && len(jh.spec.Tasks) > 1 {
			labels["go-from-several-goroutines"] = true
		}
		h.startWaiter(jh)
		return nil
	}
	pollNew := func() error {
		if newPending == nil {
			return nil
		}
		select {
		case r := <-newPending:
			return finishNew(r)
		default:
			return nil
		}
	}
	doNew := func() error {
		jh := h.jobs[created]
		created++
		ch := make(chan newRes, 1)
		newPending, newPendingJH = ch, jh
		backlog := jh.spec.Backlog
		h.log.rec("newcall", jh.idx, 0, "")
		hgo(func() {
			job, err := h.pool.NewJob(backlog)
			h.log.rec("newret", jh.idx, 0, errText(err))
			ch <- newRes{job, err} // buffered
			h.log.progress.Add(1)  // last action: tells the controller to look again
		})
		t0 := time.Now()
		for time.Since(t0) < 3*time.Millisecond {
			select {
			case r := <-ch:
				return finishNew(r)
			default:
				runtime.Gosched()
			}
		}
		labels["newjob-blocked-on-full-queue"] = true
		return nil
	}
	live := func(f func(*c26JobH) bool) []*c26JobH {
		var out []*c26JobH
		for _, jh := range h.jobs {
			if jh.live() && f(jh) {
				out = append(out, jh)
			}
		}
		return out
	}
	issueGo := func(jh *c26JobH) {
		t := jh.goIssued
		jh.goIssued++
		// another job is still incomplete in front of this one
		for _, o := range h.jobs[:jh.idx] {
			if o.live() && !o.waitDone.Load() {
				labels["go-on-job-behind-an-open-job"] = true
			}
		}
		body := h.gatedBody(jh, t)
		jh.goWG.Add(1)
		jh.subs[jh.spec.Tasks[t].G%len(jh.subs)] <- func() {
			h.log.rec("go", jh.idx, t, "")
			jh.job.Go(body)
			h.log.rec("goret", jh.idx, t, "")
			jh.goWG.Done()
		}
	}
	// Done is called once every Go call issued so far has returned (AuthBatch.Done
	// waits for its batch workers before calling job.Done)
	issueDone := func(jh *c26JobH) {
		jh.doneIssued = true
		hgo(func() {
			jh.goWG.Wait()
			h.doneCall(jh)
		})
	}
	doRelease := func(p parkedRef) {
		jh := h.jobs[p.j]
		jh.released[p.t] = true
		h.log.rec("rel", p.j, p.t, "")
		close(jh.gates[p.t])
	}
	doStop := func() {
		stopInvoked = true
		// jobs that are definitely still queued behind an unfinished job when the flag is set
		var firstOpen *c26JobH
		for _, jh := range h.jobs {
			if !jh.live() {
				continue
			}
			unfinished := !jh.doneIssued
			for t := range jh.state {
				if jh.state[t].Load() == 1 && !jh.released[t] {
					unfinished = true
				}
			}
			if unfinished {
				firstOpen = jh
				break
			}
		}
		h.log.rec("stopcall", -1, 0, "")
		hgo(func() {
			h.pool.Stop()
			h.log.rec("stopret", -1, 0, "")
			stopReturned.Store(true)
			h.log.progress.Add(1)
		})
		t0 := time.Now()
		for time.Since(t0) < 150*time.Millisecond {
			if stopReturned.Load() || goroutineBlockedIn("workers.(*ParallelWorkers).Stop", "workers.(*ParallelWorkers).Stop") {
				stopConfirmed = true
				break
			}
			for i := 0; i < 50; i++ {
				runtime.Gosched()
			}
		}
		if stopConfirmed {
			stopSetSeq = h.log.rec("stopset", -1, 0, "")
			labels["stop-confirmed"] = true
			if firstOpen != nil {
				labels["stop-during-open-job"] = true
				for _, jh := range h.jobs[firstOpen.idx+1:] {
					if jh.live() {
						jh.strict = true
						labels["stop-with-jobs-queued-behind"] = true
					}
				}
			}
		} else {
			labels["stop-unconfirmed"] = true
		}
	}
	dupErr := func() error {
		if d := h.dup.Load(); d != 0 {
			return fail("job %d task %d started twice", (d-1)/1000, (d-1)%1000)
		}
		return nil
	}

	for _, op := range c.Ops {
		if err := dupErr(); err != nil {
			return err
		}
		if err := pollNew(); err != nil {
			return err
		}
		switch op.Op {
		case "new":
			if created >= len(c.Jobs) || newPending != nil || (stopInvoked && !stopConfirmed) {
				st.Skip("new-inapplicable")
				continue
			}
			if err := doNew(); err != nil {
				return err
			}
		case "go":
			open := live(func(j *c26JobH) bool { return !j.doneIssued && j.goIssued < len(j.spec.Tasks) })
			if len(open) == 0 {
				st.Skip("go-no-open-job")
				continue
			}
			issueGo(open[op.I%len(open)])
		case "done":
			open := live(func(j *c26JobH) bool { return !j.doneIssued })
			if len(open) == 0 {
				st.Skip("done-no-open-job")
				continue
			}
			jh := open[op.I%len(open)]
			if jh.goIssued < len(jh.spec.Tasks) && op.I%2 == 1 {
				issueGo(jh) // not yet: submit one more task instead
			} else {
				if jh.goIssued < len(jh.spec.Tasks) {
					labels["job-truncated-by-early-done"] = true
				}
				issueDone(jh)
			}
		case "rel":
			pl := h.parked()
			if len(pl) == 0 {
				st.Skip("rel-nothing-parked")
				continue
			}
			doRelease(pl[op.I%len(pl)])
		case "stop":
			if stopInvoked || newPending != nil {
				st.Skip("stop-inapplicable")
				continue
			}
			doStop()
			labels["stop-from-op-list"] = true
		}
		settle(&h.log.progress, nil)
	}

	// ---- drain: create the remaining jobs, submit everything, release everything, Stop
	dk := 0
	for {
		settle(&h.log.progress, nil)
		p0 := h.log.progress.Load() // read before looking for things to do
		if err := dupErr(); err != nil {
			return err
		}
		if err := pollNew(); err != nil {
			return err
		}
		if stopInvoked && !stopConfirmed && stopReturned.Load() {
			stopConfirmed = true // Stop has returned, so the flag is certainly set
		}
		if newPending == nil && created < len(c.Jobs) && !(stopInvoked && !stopConfirmed) {
			if err := doNew(); err != nil {
				return err
			}
			continue
		}
		for _, jh := range live(func(j *c26JobH) bool { return !j.doneIssued }) {
			for jh.goIssued < len(jh.spec.Tasks) {
				issueGo(jh)
			}
			issueDone(jh)
		}
		if pl := h.parked(); len(pl) > 0 {
			doRelease(pl[c.Drain[dk%len(c.Drain)]%len(pl)])
			dk++
			continue
		}
		if newPending == nil && created == len(c.Jobs) && c26Pending(h, false) == "" {
			if !stopInvoked {
				doStop()
				continue
			}
			if stopReturned.Load() {
				break
			}
		}
		// Nothing is left for the harness to do. pendingWhat is evaluated afresh every
		// time it is needed: a helper goroutine may deliver its result (NewJob's
		// return value in the channel, a waitDone / cbDone / stopReturned flag) at any
		// moment, and such a delivery must end the wait, never count as a hang.
		pendingWhat := func() string {
			what := c26Pending(h, false)
			if newPending != nil && len(newPending) == 0 {
				what = strings.TrimPrefix(what+fmt.Sprintf("; NewJob for job %d never returned", newPendingJH.idx), "; ")
			}
			if stopInvoked && !stopReturned.Load() {
				if what == "" {
					what = "Stop never returned although every job has completed"
				} else {
					what += "; Stop has not returned"
				}
			}
			return what
		}
		what := pendingWhat()
		changed := func() bool { return h.dup.Load() != 0 || pendingWhat() != what }
		idle := func() bool { return what != "" && pendingWhat() == what && len(h.parked()) == 0 && h.running() == 0 }
		out, sig := awaitOrHang(&h.log.progress, p0, changed, idle, markers, deadline)
		if out == woHung {
			return fail("deadlock: %s; every pool goroutine is blocked [%s]", what, shortSig(sig))
		}
		if out == woTimeout {
			sig, ok, n := blockedPicture(markers)
			return errInconclusive("jobs / Stop did not finish within the hard limit (no evidence of quiescence): pending=%q parked=%d running=%d allBlocked=%v n=%d picture=%s", what, len(h.parked()), h.running(), ok, n, shortSig(sig))
		}
	}
	settle(&h.log.progress, nil)
	for _, jh := range h.jobs {
		if jh.live() {
			for _, cmds := range jh.subs {
				close(cmds)
			}
		}
	}
	return c26Finish(c, h, st, obs, labels, stopConfirmed)
}

func shortSig(sig string) string { return prettySig(sig) }

// c26Pending describes the observable calls that have not returned yet ("" if none)
func c26Pending(h *c26Harness, free bool) string {
	var parts []string
	for _, jh := range h.jobs {
		if !jh.live() {
			continue
		}
		if !jh.waitDone.Load() {
			parts = append(parts, fmt.Sprintf("Wait of job %d never returned", jh.idx))
		} else if jh.spec.Cb && !jh.cbDone.Load() && !errors.Is(jh.waitErr, workers.ErrShutdown) && (free || jh.doneIssued) {
			parts = append(parts, fmt.Sprintf("completion callback of job %d was never invoked", jh.idx))
		}
	}
	return strings.Join(parts, "; ")
}

// ---------------------------------------------------------------- oracle + evidence

func c26Finish(c *c26Case, h *c26Harness, st *vstat.Stats, obs *c26Obs, labels map[string]bool, _ bool) error {
	evs := h.log.snapshot()
	obs.Events = evs

	type jobEv struct {
		start, end, goEv     []int64
		starts               []int
		donecall, waitret, cb int64
		waitErr              string
	}
	je := make([]*jobEv, len(c.Jobs))
	for j := range je {
		n := len(c.Jobs[j].Tasks)
		je[j] = &jobEv{start: make([]int64, n), end: make([]int64, n), goEv: make([]int64, n), starts: make([]int, n)}
	}
	var stopcall, stopret int64
	for _, e := range evs {
		switch e.Ev {
		case "start":
			je[e.A].starts[e.B]++
			if je[e.A].start[e.B] == 0 {
				je[e.A].start[e.B] = e.Seq
			}
		case "end":
			je[e.A].end[e.B] = e.Seq
		case "go":
			je[e.A].goEv[e.B] = e.Seq
		case "donecall":
			je[e.A].donecall = e.Seq
		case "waitret":
			je[e.A].waitret = e.Seq
			je[e.A].waitErr = e.X
		case "cb":
			je[e.A].cb = e.Seq
		case "stopcall":
			stopcall = e.Seq
		case "stopret":
			stopret = e.Seq
		}
	}

	var firstErr error
	bad := func(format string, args ...any) {
		if firstErr == nil {
			firstErr = fmt.Errorf(format, args...)
		}
	}
	failThenNext, anyFailExec, anyShutdownJob, zeroTaskJob, smallBacklog := false, false, false, false, false
	prevLiveFailed := false
	for j, jh := range h.jobs {
		if !jh.live() {
			continue
		}
		e := je[j]
		spec := c.Jobs[j]
		if len(spec.Tasks) == 0 {
			zeroTaskJob = true
		}
		if spec.Backlog < len(spec.Tasks) {
			smallBacklog = true
		}
		if prevLiveFailed {
			failThenNext = true
		}
		prevLiveFailed = false
		// each task at most once
		for t := range spec.Tasks {
			if e.starts[t] > 1 {
				bad("job %d task %d started %d times", j, t, e.starts[t])
			}
		}
		// completes before the next job starts
		for k := j + 1; k < len(h.jobs); k++ {
			if !h.jobs[k].live() {
				continue
			}
			for b, sb := range je[k].start {
				if sb == 0 {
					continue
				}
				if e.donecall == 0 || e.donecall > sb {
					bad("job %d task %d started (seq %d) before Done had even been called on the earlier job %d", k, b, sb, j)
				}
				for a, sa := range e.start {
					if sa == 0 {
						continue
					}
					if e.end[a] == 0 || e.end[a] > sb {
						bad("job %d task %d started (seq %d) before task %d of the earlier job %d finished (start %d, end %d)", k, b, sb, a, j, sa, e.end[a])
					}
				}
			}
		}
		if e.waitret == 0 {
			bad("internal: job %d has no Wait result", j)
			continue
		}
		started := 0
		var execFail []error
		for t := range spec.Tasks {
			if e.start[t] != 0 {
				started++
				if e.start[t] > e.waitret {
					bad("job %d task %d started (seq %d) after the job's Wait had returned (seq %d)", j, t, e.start[t], e.waitret)
				}
				if e.end[t] == 0 || e.end[t] > e.waitret {
					bad("Wait of job %d returned (seq %d) while its task %d was still running", j, e.waitret, t)
				}
				if spec.Tasks[t].Fail {
					execFail = append(execFail, jh.errs[t])
				}
				if e.cb != 0 && (e.end[t] == 0 || e.end[t] > e.cb) {
					bad("completion callback of job %d ran (seq %d) before its task %d finished", j, e.cb, t)
				}
			}
		}
		werr := jh.waitErr
		shutdown := errors.Is(werr, workers.ErrShutdown)
		switch {
		case jh.strict && (!shutdown || started > 0):
			bad("job %d was still queued behind an unfinished job when Stop took effect, but it ran %d tasks and Wait returned %q instead of reporting shutdown", j, started, errText(werr))
		case shutdown:
			anyShutdownJob = true
			if stopcall == 0 || stopcall > e.waitret {
				bad("job %d reports shutdown although Stop had not been called", j)
			}
			if started > 0 {
				bad("job %d reports shutdown but %d of its tasks ran", j, started)
			}
		case len(execFail) == 0:
			if werr != nil {
				bad("Wait of job %d returned %q although none of its executed tasks failed", j, werr)
			}
			for t := range spec.Tasks {
				if e.goEv[t] != 0 && e.start[t] == 0 {
					bad("job %d: task %d was submitted but never ran although no task of the job failed (Wait returned nil)", j, t)
				}
			}
		default:
			anyFailExec = true
			prevLiveFailed = true
			ok := false
			for _, fe := range execFail {
				if errors.Is(werr, fe) {
					ok = true
				}
			}
			if werr == nil {
				bad("Wait of job %d returned nil although %d executed task(s) failed", j, len(execFail))
			} else if !ok {
				bad("Wait of job %d returned %q which is not the error of one of its executed failing tasks", j, werr)
			}
		}
		if stopret != 0 {
			for t := range spec.Tasks {
				if e.start[t] > stopret {
					bad("job %d task %d started after Stop had returned", j, t)
				}
			}
		}
	}

	lbls := []string{"mode-" + c.Mode}
	add := func(b bool, l string) {
		if b {
			lbls = append(lbls, l)
		}
	}
	add(failThenNext, "failing-job-followed-by-another-job")
	add(anyFailExec, "executed-failing-task")
	add(anyShutdownJob, "job-reported-shutdown")
	add(zeroTaskJob, "job-with-zero-tasks")
	add(smallBacklog, "backlog-smaller-than-tasks")
	add(c.Workers == 1, "single-worker")
	add(c.MaxJobs <= len(c.Jobs), "small-job-queue")
	for l := range labels {
		lbls = append(lbls, l)
	}
	sort.Strings(lbls)
	cc := *c
	cc.Observed = nil
	canon, _ := json.Marshal(cc)
	st.Case(failThenNext, string(canon), lbls...)
	st.Sample(failThenNext, map[string]any{"mode": c.Mode, "workers": c.Workers, "max_jobs": c.MaxJobs, "jobs": c26RenderJobs(c.Jobs), "ops": c26RenderOps(c.Ops)})
	if r1, p := raceReports(); firstErr == nil && r1 > h.race0 {
		firstErr = fmt.Errorf("the race detector reported a data race while this case was running:\n%s", raceExcerpt(p, h.race0))
	}
	return firstErr
}

func c26RenderJobs(js []c26Job) string {
	var sb strings.Builder
	for i, j := range js {
		if i > 0 {
			sb.WriteByte(' ')
		}
		fmt.Fprintf(&sb, "b%d:", j.Backlog)
		for _, t := range j.Tasks {
			if t.Fail {
				sb.WriteByte('F')
			} else {
				sb.WriteByte('.')
			}
		}
	}
	return sb.String()
}

func c26RenderOps(ops []c26Op) string {
	var sb strings.Builder
	for _, o := range ops {
		switch o.Op {
		case "new":
			sb.WriteByte('N')
		case "go":
			fmt.Fprintf(&sb, "g%d", o.I)
		case "done":
			fmt.Fprintf(&sb, "d%d", o.I)
		case "rel":
			fmt.Fprintf(&sb, "r%d", o.I)
		case "stop":
			sb.WriteByte('S')
		case "wait":
			sb.WriteByte('W')
		}
	}
	return sb.String()
}

// ---------------------------------------------------------------- serial pool

// SerialWorkers runs Go inline in the caller. chaintest uses it from one goroutine,
// one job after the other, which is the only pattern generated here. Stop is a
// documented no-op for this pool (it has no workers and no pending jobs), so the
// shutdown clause is not asserted for it.
func c26RunSerial(c *c26Case, st *vstat.Stats) error {
	obs := &c26Obs{}
	c.Observed = obs
	var log evlog
	pool := workers.NewSerial()
	var firstErr error
	bad := func(format string, args ...any) {
		if firstErr == nil {
			firstErr = fmt.Errorf(format, args...)
		}
	}
	failThenNext, prevFailed := false, false
	for j, spec := range c.Jobs {
		job, err := pool.NewJob(spec.Backlog)
		if err != nil {
			bad("serial NewJob returned %v", err)
			break
		}
		if job.Workers() != 1 {
			bad("serial Job.Workers() = %d", job.Workers())
		}
		if prevFailed {
			failThenNext = true
		}
		runs := make([]int, len(spec.Tasks))
		errs := make([]error, len(spec.Tasks))
		var want error
		for t := range spec.Tasks {
			t := t
			errs[t] = fmt.Errorf("job %d task %d failed", j, t)
			job.Go(func() error {
				runs[t]++
				log.rec("start", j, t, "")
				log.rec("end", j, t, "")
				if spec.Tasks[t].Fail {
					return errs[t]
				}
				return nil
			})
			if runs[t] == 1 && spec.Tasks[t].Fail && want == nil {
				want = errs[t]
			}
		}
		cb := 0
		if spec.Cb {
			job.Done(func() { cb++; log.rec("cb", j, 0, "") })
		} else {
			job.Done(nil)
		}
		werr := job.Wait()
		log.rec("waitret", j, 0, errText(werr))
		for t := range spec.Tasks {
			if runs[t] > 1 {
				bad("serial job %d task %d ran %d times", j, t, runs[t])
			}
			if want == nil && runs[t] != 1 {
				bad("serial job %d task %d ran %d times although no task failed", j, t, runs[t])
			}
		}
		if want == nil && werr != nil {
			bad("serial job %d: Wait returned %q although no executed task failed", j, werr)
		}
		if want != nil && !errors.Is(werr, want) {
			bad("serial job %d: Wait returned %q, first failure was %q", j, errText(werr), want)
		}
		if spec.Cb && cb != 1 {
			bad("serial job %d: completion callback invoked %d times", j, cb)
		}
		prevFailed = want != nil
	}
	pool.Stop()
	obs.Events = log.snapshot()
	cc := *c
	cc.Observed = nil
	canon, _ := json.Marshal(cc)
	lbls := []string{"mode-serial"}
	if failThenNext {
		lbls = append(lbls, "failing-job-followed-by-another-job")
	}
	st.Case(failThenNext, string(canon), lbls...)
	st.Sample(failThenNext, map[string]any{"mode": c.Mode, "jobs": c26RenderJobs(c.Jobs)})
	return firstErr
}

// ---------------------------------------------------------------- tests

const c26Rule = "1-6 jobs of 0-30 tasks (failing tasks at generated positions, task backlog = / > / < number of tasks, optional completion callback, Go called from 1-4 submitter goroutines per job, Done once all Go calls returned) on a pool of 1-8 workers with job queue 1-100; gated mode: op list of NewJob / Go on an open job / Done / release parked task #i / Stop with gated task bodies, then a drain that submits and releases everything and calls Stop; serial-gated mode (1 in 4 gated cases, 1 in 7 race-stage cases): SerialWorkers jobs of 1-8 tasks whose Go calls come from 2-4 goroutines concurrently, op list of go-by-submitter g / release parked body #i / Wait, gated bodies, so that which tasks are in flight when a failure is recorded and the order in which bodies return are generated; free mode: spinning bodies under the race detector; serial pool also with sequential jobs. Oracle on the recorded history. Non-trivial = a job in which a failing task executed is followed by another job, or (serial-gated) a failing task submitted from another goroutine while a succeeding task body is in flight; distinct by the whole case (jobs + op lists)"

func c26Check(t *testing.T, gen func(*rapid.T) c26Case) {
	st := vstat.New(t, "C26", c26Rule)
	st.Assumption("a hang is reported only when a stop-the-world goroutine dump shows every goroutine with a frame of internal/workers (and every harness helper) parked in a blocking primitive, with nothing left for the harness to submit or release, unchanged over 4 dumps")
	st.Assumption("call patterns as in chain.Processor/AuthBatch and vm: Go strictly before Done of the same job, Done and Wait once per job, Stop once and never concurrently with NewJob; for SerialWorkers (Stop is a no-op by design) the shutdown clause is not asserted")
	var inconclusive []string
	rapid.Check(t, func(rt *rapid.T) {
		c := gen(rt)
		vstat.Run(rt, st, &c, func() error {
			err := c26Run(&c, st)
			var ie *inconclusiveErr
			if errors.As(err, &ie) {
				inconclusive = append(inconclusive, ie.Error())
				st.Label("inconclusive-timeout")
				return nil
			}
			return err
		})
	})
	if len(inconclusive) > 0 {
		t.Fatalf("%d case(s) without verdict, first: %s", len(inconclusive), inconclusive[0])
	}
}

func TestC26(t *testing.T)     { c26Check(t, c26Gen) }
func TestC26Free(t *testing.T) { c26Check(t, c26GenFree) }

func TestC26Replay(t *testing.T) {
	vstat.Replay(t, "C26", func(raw []byte) error {
		var c c26Case
		if err := json.Unmarshal(raw, &c); err != nil {
			return err
		}
		if c.Observed != nil {
			fmt.Printf("recorded history of the failing run: %d events\n", len(c.Observed.Events))
		}
		return c26Run(&c, vstat.New(nil, "C26", ""))
	})
}

// TestC26Seeds / TestC08Seeds replay the hand-written regression cases in
// testdata/seeds (among them the scenarios of the repaired finding F5).
func runSeeds(t *testing.T, id string, run func(raw []byte, st *vstat.Stats) error) {
	st := vstat.New(t, id, "regression seeds in testdata/seeds (hand-written schedules, incl. the scenarios of repaired findings)")
	files, _ := filepath.Glob(filepath.Join("testdata", "seeds", id+"-*.json"))
	sort.Strings(files)
	if len(files) == 0 {
		t.Fatalf("no seed files for %s", id)
	}
	for _, f := range files {
		b, err := os.ReadFile(f)
		if err != nil {
			t.Fatalf("%s: %v", f, err)
		}
		var rf struct {
			Case json.RawMessage `json:"case"`
		}
		if err := json.Unmarshal(b, &rf); err != nil {
			t.Fatalf("%s: %v", f, err)
		}
		for rep := 0; rep < 5; rep++ {
			var keep any
			err := run(rf.Case, st)
			var ie *inconclusiveErr
			if errors.As(err, &ie) {
				t.Fatalf("%s: %v", f, err)
			}
			_ = json.Unmarshal(rf.Case, &keep)
			vstat.Run(t, st, keep, func() error { return err })
		}
	}
}

func TestC26Seeds(t *testing.T) {
	runSeeds(t, "C26", func(raw []byte, st *vstat.Stats) error {
		var c c26Case
		if err := json.Unmarshal(raw, &c); err != nil {
			return err
		}
		return c26Run(&c, st)
	})
}

func TestC08Seeds(t *testing.T) {
	runSeeds(t, "C08", func(raw []byte, st *vstat.Stats) error {
		var c c08Case
		if err := json.Unmarshal(raw, &c); err != nil {
			return err
		}
		return c08Run(&c, st)
	})
}
