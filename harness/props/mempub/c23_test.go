package mempub

import (
	"context"
	"encoding/binary"
	"encoding/json"
	"errors"
	"fmt"
	"sort"
	"strings"
	"testing"
	"time"

	"github.com/ava-labs/avalanchego/ids"
	"github.com/ava-labs/avalanchego/trace"
	"pgregory.net/rapid"

	"github.com/ava-labs/hypersdk/codec"
	"github.com/ava-labs/hypersdk/internal/mempool"
	"github.com/ava-labs/hypersdk/verifharness/vstat"
)

// C23: the mempool keeps its bounds and its hand-out order under any sequence
// of add / remove / expire / pop / top / streaming operations.
//
// The oracle is the reference model `mpModel` below: a list of groups. Every
// added item is a singleton group appended at the back (arrival order); a batch
// given back (FinishStreaming's restorable items together with the prefetched
// but unconsumed items, or the items Top restores) is ONE unordered group put in
// front. Whatever is handed out (PeekNext, PopNext, Top, Stream, PrepareStream)
// must belong to the front group at that moment.

// ---------------------------------------------------------------- item type

type mpItem struct {
	idx     int
	id      ids.ID
	sponsor codec.Address
	size    int
	expiry  int64
}

func (i *mpItem) GetID() ids.ID             { return i.id }
func (i *mpItem) GetExpiry() int64          { return i.expiry }
func (i *mpItem) GetSponsor() codec.Address { return i.sponsor }
func (i *mpItem) Size() int                 { return i.size }

type c23Item struct {
	Sponsor int   `json:"sp"`
	Size    int   `json:"sz"`
	Expiry  int64 `json:"ex"`
}

// c23Op is one abstract operation.
//
//	add, remove : Items = universe indices (duplicates allowed)
//	expire      : N = timestamp
//	peek, pop, start
//	prepare, stream : N = count
//	finish      : Items = indices (mod len) into the list of items handed to the
//	              caller by Stream during this stream; de-duplicated, order kept
//	top         : N = number of items after which the callback says stop (>=1),
//	              Mask bit k = restore the k-th visited item
type c23Op struct {
	Kind  string `json:"k"`
	Items []int  `json:"i,omitempty"`
	N     int    `json:"n,omitempty"`
	Mask  uint32 `json:"m,omitempty"`
	// gated stage only: the call is started Early ops before its position (parked
	// at its span start); a FinishStreaming call is additionally let run up to
	// SetAttributes (its last gate before the lock) EarlyAttr ops before its position
	Early     int `json:"e,omitempty"`
	EarlyAttr int `json:"ea,omitempty"`
}

type c23Case struct {
	MaxSize    int       `json:"max"`
	MaxSponsor int       `json:"max_sponsor"`
	Items      []c23Item `json:"items"`
	Ops        []c23Op   `json:"ops"`
}

const c23Sponsors = 3

func c23Universe(items []c23Item) []*mpItem {
	out := make([]*mpItem, len(items))
	for i, it := range items {
		var id ids.ID
		binary.BigEndian.PutUint64(id[:8], uint64(i)+1)
		id[31] = byte(0xA0 + i)
		var sid ids.ID
		sid[0] = byte(it.Sponsor + 1)
		out[i] = &mpItem{idx: i, id: id, sponsor: codec.CreateAddress(1, sid), size: it.Size, expiry: it.Expiry}
	}
	return out
}

// ---------------------------------------------------------------- reference model

type mpModel struct {
	max, maxSponsor int
	items           []c23Item
	groups          [][]int // front group first; order inside a group is not significant
	in              map[int]bool

	streaming   bool
	streamed    map[int]bool // handed out (or prefetched) during the current stream
	handed      []int        // returned to the caller by Stream during the current stream
	hasPrefetch bool
	prefetched  []int
	prefSnap    [][]int // groups as they were when the prefetch was taken
}

func newMpModel(c c23Case) *mpModel {
	return &mpModel{max: c.MaxSize, maxSponsor: c.MaxSponsor, items: c.Items, in: map[int]bool{}}
}

func (m *mpModel) length() int { return len(m.in) }

func (m *mpModel) size() int {
	s := 0
	for i := range m.in {
		s += m.items[i].Size
	}
	return s
}

func (m *mpModel) owned(sp int) int {
	n := 0
	for i := range m.in {
		if m.items[i].Sponsor == sp {
			n++
		}
	}
	return n
}

func (m *mpModel) front() []int {
	if len(m.groups) == 0 {
		return nil
	}
	return m.groups[0]
}

func (m *mpModel) drop(idx int) {
	if !m.in[idx] {
		return
	}
	delete(m.in, idx)
	m.groups = dropFromGroups(m.groups, idx)
}

func dropFromGroups(groups [][]int, idx int) [][]int {
	for gi, g := range groups {
		for k, x := range g {
			if x == idx {
				ng := append(append([]int{}, g[:k]...), g[k+1:]...)
				if len(ng) == 0 {
					return append(append([][]int{}, groups[:gi]...), groups[gi+1:]...)
				}
				out := append([][]int{}, groups...)
				out[gi] = ng
				return out
			}
		}
	}
	return groups
}

func inGroup(g []int, idx int) bool {
	for _, x := range g {
		if x == idx {
			return true
		}
	}
	return false
}

// addBack applies the documented rule of Add to one item (arrival order = slice order).
func (m *mpModel) addBack(idx int) (added bool, why string) {
	switch {
	case m.streaming && m.streamed[idx]:
		return false, "streamed"
	case m.in[idx]:
		return false, "dup"
	case m.owned(m.items[idx].Sponsor) >= m.maxSponsor:
		return false, "sponsor-full"
	case m.length() >= m.max:
		return false, "full"
	}
	m.in[idx] = true
	m.groups = append(m.groups, []int{idx})
	return true, ""
}

// popFrom checks that idx may be handed out next from groups (it belongs to the
// front group) and returns the groups without it.
func popFrom(groups [][]int, idx int) ([][]int, error) {
	if len(groups) == 0 {
		return groups, fmt.Errorf("item %d handed out but the model is empty", idx)
	}
	if !inGroup(groups[0], idx) {
		return groups, fmt.Errorf("item %d handed out but the front group is %v (groups %v)", idx, groups[0], groups)
	}
	return dropFromGroups(groups, idx), nil
}

func (m *mpModel) pop(idx int) error {
	g, err := popFrom(m.groups, idx)
	if err != nil {
		return err
	}
	m.groups = g
	delete(m.in, idx)
	return nil
}

// giveBack validates what the implementation kept of a batch that is given back
// (restored = the candidates now present) and puts it in front as one group.
// The property does not say which items of a batch lose when the batch no longer
// fits, so any choice is accepted provided the limits hold and every loser is
// justified by a limit that is reached in the resulting state.
func (m *mpModel) giveBack(cands []int, present func(int) bool) error {
	var grp []int
	seen := map[int]bool{}
	for _, c := range cands {
		if seen[c] {
			continue
		}
		seen[c] = true
		if m.in[c] {
			continue // already held (cannot happen for sound callers); nothing to restore
		}
		if present(c) {
			grp = append(grp, c)
		}
	}
	for _, c := range grp {
		m.in[c] = true
	}
	if len(grp) > 0 {
		m.groups = append([][]int{grp}, m.groups...)
	}
	if m.length() > m.max {
		return fmt.Errorf("after give-back the pool holds %d items, limit %d", m.length(), m.max)
	}
	for sp := 0; sp < c23Sponsors; sp++ {
		if o := m.owned(sp); o > m.maxSponsor {
			return fmt.Errorf("after give-back sponsor %d holds %d items, limit %d", sp, o, m.maxSponsor)
		}
	}
	for _, c := range cands {
		if m.in[c] {
			continue
		}
		if m.length() < m.max && m.owned(m.items[c].Sponsor) < m.maxSponsor {
			return fmt.Errorf("item %d given back was not restored although the pool (%d/%d) and its sponsor (%d/%d) have room",
				c, m.length(), m.max, m.owned(m.items[c].Sponsor), m.maxSponsor)
		}
	}
	return nil
}

// ---------------------------------------------------------------- run

type c23Flags struct {
	finishRestoreThenStream bool // NT (a)
	addStreamedID           bool // NT (b)
	restoreWithRest         bool
	restoreDropped          bool
	expireNonEmpty          bool
	sponsorFullReject       bool
	fullReject              bool
	prefetchRestored        bool
	prefetchConsumed        bool
	topRestore              bool
	addDuringStream         bool
	pendingRestoreStream    bool
}

func c23Run(c c23Case, st *vstat.Stats) error { return c23RunMode(c, st, false) }

// c23RunMode interprets the op list. gated=false: every call is made inline.
// gated=true (TestC23Gated): every mutating call runs on its own goroutine and
// is parked by the tracer test double at its span start (and FinishStreaming
// again at SetAttributes); the op list order is the order in which the calls
// are let through to the mempool lock, op.Early / op.EarlyAttr say how many
// ops before its own position a call is started / let run up to its last gate
// before the lock. Exactly one goroutine runs at a time, so the execution is
// deterministic and its linearisation is the op list order: the same model
// and the same per-op comparisons apply.
func c23RunMode(c c23Case, st *vstat.Stats, gated bool) error {
	ctx := context.Background()
	univ := c23Universe(c.Items)
	var tracer trace.Tracer = trace.Noop
	if gated {
		tracer = c23GateTracer{}
	}
	mp := mempool.New[*mpItem](tracer, c.MaxSize, c.MaxSponsor)
	m := newMpModel(c)
	var fl c23Flags
	var trace_ []string
	executed := 0

	pick := func(idxs []int) []*mpItem {
		out := make([]*mpItem, 0, len(idxs))
		for _, i := range idxs {
			out = append(out, univ[((i%len(univ))+len(univ))%len(univ)])
		}
		return out
	}
	norm := func(idxs []int) []int {
		out := make([]int, len(idxs))
		for k, i := range idxs {
			out[k] = ((i % len(univ)) + len(univ)) % len(univ)
		}
		return out
	}

	observe := func(after string) error {
		if got, want := mp.Len(ctx), m.length(); got != want {
			return fmt.Errorf("after %s: Len=%d, model %d (groups %v)", after, got, want, m.groups)
		}
		if got, want := mp.Size(ctx), m.size(); got != want {
			return fmt.Errorf("after %s: Size=%d, model sum of sizes %d", after, got, want)
		}
		for i, it := range univ {
			if got, want := mp.Has(ctx, it.id), m.in[i]; got != want {
				return fmt.Errorf("after %s: Has(item %d)=%v, model %v (groups %v, streamed %v)", after, i, got, want, m.groups, m.streamed)
			}
		}
		if m.length() > c.MaxSize {
			return fmt.Errorf("after %s: %d items held, limit %d", after, m.length(), c.MaxSize)
		}
		for sp := 0; sp < c23Sponsors; sp++ {
			if o := m.owned(sp); o > c.MaxSponsor {
				return fmt.Errorf("after %s: sponsor %d holds %d items, limit %d", after, sp, o, c.MaxSponsor)
			}
		}
		nxt, ok := mp.PeekNext(ctx)
		if ok != (m.length() > 0) {
			return fmt.Errorf("after %s: PeekNext ok=%v with %d items in the model", after, ok, m.length())
		}
		if ok && !inGroup(m.front(), nxt.idx) {
			return fmt.Errorf("after %s: PeekNext=item %d, front group %v (groups %v)", after, nxt.idx, m.front(), m.groups)
		}
		return nil
	}

	// takeStreamed validates a batch popped by streamItems (at Stream or at
	// PrepareStream time) against groups and moves it out of the model.
	takeBatch := func(what string, got []*mpItem, count int) error {
		want := count
		if m.length() < want {
			want = m.length()
		}
		if want < 0 {
			want = 0
		}
		if len(got) != want {
			return fmt.Errorf("%s(%d) returned %d items with %d held", what, count, len(got), m.length())
		}
		for _, it := range got {
			if m.streamed[it.idx] {
				return fmt.Errorf("%s handed out item %d twice within one stream", what, it.idx)
			}
			if err := m.pop(it.idx); err != nil {
				return fmt.Errorf("%s: %w", what, err)
			}
			m.streamed[it.idx] = true
		}
		return nil
	}

	// ---- call plumbing
	pend := make([]*c23Pending, len(c.Ops))
	abort := make(chan struct{})
	defer close(abort) // lets every parked goroutine run off on any exit path
	restorableNow := func(op c23Op) []int {
		var restorable []int
		if len(m.handed) > 0 {
			seen := map[int]bool{}
			for _, k := range op.Items {
				i := m.handed[((k%len(m.handed))+len(m.handed))%len(m.handed)]
				if !seen[i] {
					seen[i] = true
					restorable = append(restorable, i)
				}
			}
		}
		return restorable
	}
	// launch evaluates the arguments of op oi NOW and (gated) starts the call,
	// which parks at its span start
	launch := func(oi int) (*c23Pending, error) {
		op := c.Ops[oi]
		p := &c23Pending{}
		switch op.Kind {
		case "add":
			its := pick(norm(op.Items))
			p.f = func(ctx context.Context) { mp.Add(ctx, its) }
		case "remove":
			its := pick(norm(op.Items))
			p.f = func(ctx context.Context) { mp.Remove(ctx, its) }
		case "expire":
			p.f = func(ctx context.Context) { p.items = mp.SetMinTimestamp(ctx, int64(op.N)) }
		case "pop":
			p.f = func(ctx context.Context) { p.item, p.ok = mp.PopNext(ctx) }
		case "top":
			p.f = func(ctx context.Context) {
				// topFn is set when the call is let through (it works on the model)
				p.err = mp.Top(ctx, time.Hour, func(c context.Context, it *mpItem) (bool, bool, error) {
					if p.topFn == nil { // the case was abandoned (abort): run off harmlessly
						return false, false, nil
					}
					return p.topFn(c, it)
				})
			}
		case "prepare":
			p.f = func(ctx context.Context) { mp.PrepareStream(ctx, op.N) }
		case "stream":
			p.f = func(ctx context.Context) { p.items = mp.Stream(ctx, op.N) }
		case "finish":
			p.restorable = restorableNow(op)
			its := pick(p.restorable)
			p.f = func(ctx context.Context) { mp.FinishStreaming(ctx, its) }
		default:
			return nil, fmt.Errorf("op %d %s cannot be launched", oi, op.Kind)
		}
		pend[oi] = p
		if gated {
			p.gate = newC23Gate(abort)
			gctx := context.WithValue(ctx, c23GateKey{}, p.gate)
			go func() {
				defer close(p.gate.done)
				p.f(gctx)
			}()
			if _, err := p.gate.waitParked(); err != nil {
				return nil, err
			}
		}
		return p, nil
	}
	// do lets the call of op oi (launched earlier or now) run to completion
	do := func(oi int) (*c23Pending, error) {
		p := pend[oi]
		if p == nil {
			var err error
			if p, err = launch(oi); err != nil {
				return nil, err
			}
		}
		if !gated {
			p.f(ctx)
			return p, nil
		}
		for {
			finished, err := p.gate.step()
			if err != nil {
				return nil, err
			}
			if finished {
				return p, nil
			}
		}
	}
	// structural pre-pass (gated): which ops will be applicable, and where the
	// stream of a prepare/stream/finish op started
	applicable := make([]bool, len(c.Ops))
	streamStart := make([]int, len(c.Ops))
	{
		streaming, prefetch, startedAt := false, false, -1
		for i, op := range c.Ops {
			streamStart[i] = startedAt
			switch op.Kind {
			case "start":
				applicable[i] = !streaming
				if !streaming {
					streaming, startedAt = true, i
				}
			case "prepare":
				applicable[i] = streaming && !prefetch
				if applicable[i] {
					prefetch = true
				}
			case "stream":
				applicable[i] = streaming
				prefetch = false
			case "finish":
				applicable[i] = streaming
				streaming, prefetch = false, false
			default:
				applicable[i] = true
			}
		}
	}
	earlyLaunched, earlyAttr, finishAheadOfPrepare := 0, 0, false

	for oi, op := range c.Ops {
		name := fmt.Sprintf("op %d %s", oi, op.Kind)
		if gated {
			// start the calls that are due ahead of their position, then let the due
			// FinishStreaming calls run up to their last gate before the lock
			for j := oi + 1; j < len(c.Ops) && j <= oi+c23MaxEarly; j++ {
				oj := c.Ops[j]
				if !applicable[j] || oj.Kind == "start" || oj.Kind == "peek" {
					continue
				}
				inStreamOp := oj.Kind == "prepare" || oj.Kind == "stream" || oj.Kind == "finish"
				if inStreamOp && streamStart[j] >= oi {
					continue // never before the StartStreaming of its own stream has returned
				}
				if pend[j] == nil && j-oj.Early <= oi {
					if _, err := launch(j); err != nil {
						return c23GateErr(name, err)
					}
					earlyLaunched++
				}
				if p := pend[j]; p != nil && oj.Kind == "finish" && !p.atAttr && oj.EarlyAttr > 0 && j-oj.EarlyAttr <= oi {
					if _, err := p.gate.step(); err != nil {
						return c23GateErr(name, err)
					}
					p.atAttr = true
					earlyAttr++
				}
			}
		}
		if pend[oi] != nil && !applicable[oi] {
			return fmt.Errorf("harness error: %s was launched but is not applicable", name)
		}
		switch op.Kind {
		case "add":
			idxs := norm(op.Items)
			for _, i := range idxs {
				added, why := m.addBack(i)
				switch why {
				case "streamed":
					fl.addStreamedID = true
				case "sponsor-full":
					fl.sponsorFullReject = true
				case "full":
					fl.fullReject = true
				}
				if added && m.streaming {
					fl.addDuringStream = true
				}
			}
			if _, err := do(oi); err != nil {
				return c23GateErr(name, err)
			}
		case "remove":
			idxs := norm(op.Items)
			for _, i := range idxs {
				m.drop(i)
			}
			if _, err := do(oi); err != nil {
				return c23GateErr(name, err)
			}
		case "expire":
			t := int64(op.N)
			var want []int
			for i := range m.in {
				if c.Items[i].Expiry < t {
					want = append(want, i)
				}
			}
			sort.Ints(want)
			p, err := do(oi)
			if err != nil {
				return c23GateErr(name, err)
			}
			gotItems := p.items
			got := make([]int, 0, len(gotItems))
			for _, it := range gotItems {
				got = append(got, it.idx)
			}
			sort.Ints(got)
			if fmt.Sprint(got) != fmt.Sprint(want) {
				return fmt.Errorf("%s: SetMinTimestamp(%d) returned items %v, held items with expiry below it are %v", name, t, got, want)
			}
			for _, i := range want {
				m.drop(i)
			}
			if len(want) > 0 {
				fl.expireNonEmpty = true
			}
		case "peek":
			// observe() below checks PeekNext
		case "pop":
			p, err := do(oi)
			if err != nil {
				return c23GateErr(name, err)
			}
			it, ok := p.item, p.ok
			if ok != (m.length() > 0) {
				return fmt.Errorf("%s: PopNext ok=%v with %d items in the model", name, ok, m.length())
			}
			if ok {
				if err := m.pop(it.idx); err != nil {
					return fmt.Errorf("%s: %w", name, err)
				}
			}
		case "top":
			stopAfter := op.N
			if stopAfter < 1 {
				stopAfter = 1
			}
			var visited, restore []int
			var ferr error
			if pend[oi] == nil {
				if _, err := launch(oi); err != nil {
					return c23GateErr(name, err)
				}
			}
			pend[oi].topFn = func(_ context.Context, it *mpItem) (bool, bool, error) {
				k := len(visited)
				visited = append(visited, it.idx)
				if e := m.pop(it.idx); e != nil && ferr == nil {
					ferr = e
				}
				r := op.Mask&(1<<uint(k%32)) != 0
				if r {
					restore = append(restore, it.idx)
				}
				return len(visited) < stopAfter, r, nil
			}
			p, err := do(oi)
			if err != nil {
				return c23GateErr(name, err)
			}
			if p.err != nil {
				return fmt.Errorf("%s: Top returned %v", name, p.err)
			}
			if ferr != nil {
				return fmt.Errorf("%s: %w", name, ferr)
			}
			if len(restore) > 0 {
				fl.topRestore = true
			}
			if err := m.giveBack(restore, func(i int) bool { return mp.Has(ctx, univ[i].id) }); err != nil {
				return fmt.Errorf("%s: %w", name, err)
			}
		case "start":
			if m.streaming {
				st.Skip("start-while-streaming")
				continue
			}
			mp.StartStreaming(ctx)
			m.streaming = true
			m.streamed = map[int]bool{}
			m.handed = nil
		case "prepare":
			if !m.streaming {
				st.Skip("prepare-outside-stream")
				continue
			}
			if m.hasPrefetch {
				// the builder serialises PrepareStream and Stream with one lock and
				// prepares at most once per streamed batch
				st.Skip("prepare-twice")
				continue
			}
			snap := append([][]int{}, m.groups...)
			before := map[int]bool{}
			for i := range m.in {
				before[i] = true
			}
			if gated {
				for j := oi + 1; j < len(c.Ops); j++ {
					if pend[j] != nil && pend[j].atAttr {
						finishAheadOfPrepare = true
					}
				}
			}
			if _, err := do(oi); err != nil {
				return c23GateErr(name, err)
			}
			// what was taken is visible only through Has; its order is checked when
			// Stream returns it
			var taken []int
			for i := range univ {
				if before[i] && !mp.Has(ctx, univ[i].id) {
					taken = append(taken, i)
				}
			}
			want := op.N
			if len(before) < want {
				want = len(before)
			}
			if len(taken) != want {
				return fmt.Errorf("%s: PrepareStream(%d) removed items %v with %d held", name, op.N, taken, len(before))
			}
			// the taken set must be a front segment: all groups before the last touched one fully taken
			rest := snap
			remaining := map[int]bool{}
			for _, i := range taken {
				remaining[i] = true
			}
			for len(remaining) > 0 {
				progressed := false
				if len(rest) == 0 {
					return fmt.Errorf("%s: PrepareStream took %v, not all of it was held (%v)", name, taken, snap)
				}
				for _, i := range append([]int{}, rest[0]...) {
					if remaining[i] {
						delete(remaining, i)
						rest = dropFromGroups(rest, i)
						progressed = true
						break
					}
				}
				if !progressed {
					return fmt.Errorf("%s: PrepareStream took %v which is not a front segment of %v", name, taken, snap)
				}
			}
			for _, i := range taken {
				if m.streamed[i] {
					return fmt.Errorf("%s: item %d taken twice within one stream", name, i)
				}
				m.streamed[i] = true
				m.drop(i)
			}
			m.hasPrefetch = true
			m.prefetched = taken
			m.prefSnap = snap
		case "stream":
			if !m.streaming {
				st.Skip("stream-outside-stream")
				continue
			}
			sp, err := do(oi)
			if err != nil {
				return c23GateErr(name, err)
			}
			got := sp.items
			if m.hasPrefetch {
				// the prefetched batch is returned whatever the count
				gotIdx := make([]int, 0, len(got))
				for _, it := range got {
					gotIdx = append(gotIdx, it.idx)
				}
				a, b := append([]int{}, gotIdx...), append([]int{}, m.prefetched...)
				sort.Ints(a)
				sort.Ints(b)
				if fmt.Sprint(a) != fmt.Sprint(b) {
					return fmt.Errorf("%s: Stream returned %v, the prefetched batch was %v", name, gotIdx, m.prefetched)
				}
				g := m.prefSnap
				var err error
				for _, i := range gotIdx {
					if g, err = popFrom(g, i); err != nil {
						return fmt.Errorf("%s (prefetched batch order): %w", name, err)
					}
				}
				m.hasPrefetch, m.prefetched, m.prefSnap = false, nil, nil
				if len(got) > 0 {
					fl.prefetchConsumed = true
				}
			} else if err := takeBatch(name, got, op.N); err != nil {
				return err
			}
			for _, it := range got {
				m.handed = append(m.handed, it.idx)
			}
			if len(got) > 0 && fl.pendingRestoreStream {
				fl.finishRestoreThenStream = true
			}
		case "finish":
			if !m.streaming {
				st.Skip("finish-outside-stream")
				continue
			}
			if pend[oi] == nil {
				if _, err := launch(oi); err != nil {
					return c23GateErr(name, err)
				}
			}
			restorable := pend[oi].restorable // fixed when the call was made
			cands := append(append([]int{}, restorable...), m.prefetched...)
			restBefore := m.length()
			if _, err := do(oi); err != nil {
				return c23GateErr(name, err)
			}
			m.streaming = false
			m.streamed = nil
			m.handed = nil
			hadPrefetch := len(m.prefetched) > 0
			m.hasPrefetch, m.prefetched, m.prefSnap = false, nil, nil
			lenBefore := m.length()
			if err := m.giveBack(cands, func(i int) bool { return mp.Has(ctx, univ[i].id) }); err != nil {
				return fmt.Errorf("%s: %w", name, err)
			}
			restoredN := m.length() - lenBefore
			if restoredN > 0 {
				fl.pendingRestoreStream = true
				if restBefore > 0 {
					fl.restoreWithRest = true
				}
				if hadPrefetch {
					fl.prefetchRestored = true
				}
			}
			if restoredN < len(cands) {
				fl.restoreDropped = true
			}
		default:
			return fmt.Errorf("unknown op kind %q", op.Kind)
		}
		executed++
		if len(trace_) < 40 {
			trace_ = append(trace_, op.Kind)
		}
		if err := observe(name); err != nil {
			return err
		}
	}

	// close an open stream (nothing given back explicitly), then drain: the full
	// remaining order must be consistent with the model
	if m.streaming {
		cands := append([]int{}, m.prefetched...)
		mp.FinishStreaming(ctx, nil)
		m.streaming, m.streamed, m.handed = false, nil, nil
		m.hasPrefetch, m.prefetched, m.prefSnap = false, nil, nil
		if err := m.giveBack(cands, func(i int) bool { return mp.Has(ctx, univ[i].id) }); err != nil {
			return fmt.Errorf("final finish: %w", err)
		}
		if err := observe("final finish"); err != nil {
			return err
		}
	}
	for m.length() > 0 {
		it, ok := mp.PopNext(ctx)
		if !ok {
			return fmt.Errorf("final drain: PopNext empty with %d items in the model", m.length())
		}
		if err := m.pop(it.idx); err != nil {
			return fmt.Errorf("final drain: %w", err)
		}
	}
	if err := observe("final drain"); err != nil {
		return err
	}

	nt := fl.finishRestoreThenStream || fl.addStreamedID
	if gated {
		nt = finishAheadOfPrepare
	}
	labels := []string{}
	add := func(b bool, l string) {
		if b {
			labels = append(labels, l)
		}
	}
	add(fl.finishRestoreThenStream, "restore-then-stream")
	add(fl.addStreamedID, "add-of-streamed-id")
	add(fl.restoreWithRest, "restore-while-others-held")
	add(fl.restoreDropped, "restore-partly-dropped")
	add(fl.expireNonEmpty, "expiry-removed-items")
	add(fl.sponsorFullReject, "add-rejected-sponsor-limit")
	add(fl.fullReject, "add-rejected-total-limit")
	add(fl.prefetchRestored, "prefetch-restored-at-finish")
	add(fl.prefetchConsumed, "prefetch-consumed")
	add(fl.topRestore, "top-restored")
	add(fl.addDuringStream, "add-during-stream")
	add(c.MaxSize == 1, "limit-1")
	add(c.MaxSponsor == c.MaxSize, "sponsor-limit-eq-total")
	add(nt && !gated, "nontrivial")
	add(gated, "gated")
	add(earlyLaunched > 0, "gated-call-started-early")
	add(earlyAttr > 0, "gated-finish-entered-early")
	add(finishAheadOfPrepare, "gated-prepare-completes-inside-finish")
	canon, _ := json.Marshal(c)
	st.Case(nt, string(canon), labels...)
	st.Sample(nt, map[string]any{"max": c.MaxSize, "max_sponsor": c.MaxSponsor, "items": len(c.Items),
		"ops": strings.Join(trace_, " "), "executed": executed, "gated": gated})
	return nil
}

// ---------------------------------------------------------------- generator

func c23GenIdxs(rt *rapid.T, n, lo, hi int, label string) []int {
	return rapid.SliceOfN(rapid.IntRange(0, n-1), lo, hi).Draw(rt, label)
}

func c23Gen(rt *rapid.T) c23Case {
	var c c23Case
	c.MaxSize = rapid.SampledFrom([]int{1, 2, 3, 3, 4, 5, 6}).Draw(rt, "max")
	if rapid.IntRange(0, 3).Draw(rt, "sponsorEq") == 0 {
		c.MaxSponsor = c.MaxSize
	} else {
		c.MaxSponsor = rapid.IntRange(1, c.MaxSize).Draw(rt, "maxSponsor")
	}
	n := rapid.IntRange(8, 12).Draw(rt, "nItems")
	for i := 0; i < n; i++ {
		c.Items = append(c.Items, c23Item{
			Sponsor: rapid.IntRange(0, c23Sponsors-1).Draw(rt, "sponsor"),
			Size:    rapid.SampledFrom([]int{1, 1, 2, 7, 100, 499, 500}).Draw(rt, "size"),
			Expiry:  int64(rapid.IntRange(1, 20).Draw(rt, "expiry")),
		})
	}
	// the generator follows the stream state so that most ops are applicable
	// (ops made inapplicable by shrinking are skipped and counted by the interpreter)
	idle := []string{"add", "add", "add", "add", "add", "add", "remove", "expire", "peek", "pop", "top", "start", "start", "start", "start"}
	inStream := []string{"add", "add", "add", "add", "remove", "expire", "pop", "top", "prepare", "prepare", "stream", "stream", "stream", "stream", "stream", "finish", "finish", "finish"}
	anyKind := append(append([]string{}, idle...), inStream...)
	nOps := rapid.IntRange(1, 40).Draw(rt, "nOps")
	streaming := false
	for i := 0; i < nOps; i++ {
		menu := idle
		if streaming {
			menu = inStream
		}
		if rapid.IntRange(0, 19).Draw(rt, "anyKind") == 0 {
			menu = anyKind
		}
		op := c23Op{Kind: rapid.SampledFrom(menu).Draw(rt, "kind")}
		switch op.Kind {
		case "start":
			streaming = true
		case "finish":
			streaming = false
		}
		switch op.Kind {
		case "add":
			op.Items = c23GenIdxs(rt, n, 1, 5, "addItems")
		case "remove":
			op.Items = c23GenIdxs(rt, n, 1, 3, "removeItems")
		case "expire":
			op.N = rapid.IntRange(0, 21).Draw(rt, "t")
		case "prepare", "stream":
			op.N = rapid.SampledFrom([]int{0, 1, 1, 2, 2, 3, 6}).Draw(rt, "count")
		case "finish":
			if rapid.IntRange(0, 3).Draw(rt, "restoreNone") != 0 {
				op.Items = c23GenIdxs(rt, 8, 1, 4, "restorable")
			}
		case "top":
			op.N = rapid.IntRange(1, 4).Draw(rt, "stopAfter")
			op.Mask = rapid.Uint32Range(0, 15).Draw(rt, "restoreMask")
		}
		c.Ops = append(c.Ops, op)
	}
	return c
}

const c23Rule = "op lists (1..40 ops: add batch with duplicates / remove / set-min-timestamp / peek / pop / top / start-stream / prepare-stream(n) / stream(n) / finish-stream(subset of what Stream returned)) over 8..12 items (3 sponsors, sizes 1..500, expiries 1..20), limits total 1..6 and per-sponsor 1..total, executed against internal/mempool and the group-list reference model, every observable (Len, Size, Has of every item, PeekNext) compared after every op, final drain; non-trivial = a finish-stream that restored at least one item followed by a Stream that returned items, or an Add of an id handed out in the running stream; distinct by the whole case"

func TestC23(t *testing.T) {
	st := vstat.New(t, "C23", c23Rule)
	st.Assumption("op sequences are those a real caller makes: StartStreaming only when no stream is open, PrepareStream/Stream/FinishStreaming only inside a stream, at most one PrepareStream between two Streams (chain/builder.go serialises them with prepareStreamLock), FinishStreaming restores only items that Stream returned in this stream, each at most once")
	st.Assumption("which items of a given-back batch are dropped when the batch no longer fits is not fixed by the property: any choice is accepted if the limits hold and each dropped item is justified by a reached limit")
	rapid.Check(t, func(rt *rapid.T) {
		c := c23Gen(rt)
		vstat.Run(rt, st, c, func() error { return c23Run(c, st) })
	})
}

func TestC23Replay(t *testing.T) {
	vstat.Replay(t, "C23", func(raw []byte) error {
		var probe struct {
			Conc bool `json:"conc"`
		}
		if err := json.Unmarshal(raw, &probe); err != nil {
			return err
		}
		var c c23Case
		if err := json.Unmarshal(raw, &c); err != nil {
			return err
		}
		if probe.Conc {
			// a replay file of the concurrent mode
			var cc c23ConcCase
			if err := json.Unmarshal(raw, &cc); err != nil {
				return err
			}
			_, err := c23ConcRun(cc, vstat.New(nil, "C23", ""))
			return err
		}
		gated := false
		for _, op := range c.Ops {
			if op.Early > 0 {
				gated = true
			}
		}
		err := c23RunMode(c, vstat.New(nil, "C23", ""), gated)
		if errors.Is(err, errC23GateTimeout) {
			fmt.Println("INCONCLUSIVE: a gated call neither parked nor returned in time (not a verdict)")
			return nil
		}
		return err
	})
}
