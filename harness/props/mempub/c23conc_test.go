package mempub

import (
	"context"
	"encoding/json"
	"errors"
	"fmt"
	"sync"
	"testing"
	"time"

	"github.com/ava-labs/avalanchego/trace"
	"pgregory.net/rapid"

	"github.com/ava-labs/hypersdk/internal/mempool"
	"github.com/ava-labs/hypersdk/verifharness/vstat"
)

// C23, concurrent mode (built with -race): adder / remover / expirer goroutines
// run freely against one goroutine that streams the way chain/builder.go does
// (StartStreaming, Stream, PrepareStream in a side goroutine serialised with the
// next Stream, FinishStreaming). Verdicts use only schedule-independent facts:
// what each goroutine itself observed and the state at quiescence.

type c23Step struct {
	N       int  `json:"n"`    // Stream(N)
	Prepare bool `json:"prep"` // afterwards spawn PrepareStream(PrepN)
	PrepN   int  `json:"prep_n"`
}

type c23Cycle struct {
	Steps   []c23Step `json:"steps"`
	Restore []int     `json:"restore"` // indices (mod len) into what Stream returned in this cycle
}

type c23ConcCase struct {
	Conc       bool       `json:"conc"`
	MaxSize    int        `json:"max"`
	MaxSponsor int        `json:"max_sponsor"`
	Items      []c23Item  `json:"items"`
	Adders     [][][]int  `json:"adders"`
	Removes    [][]int    `json:"removes"`
	Expires    []int      `json:"expires"`
	Cycles     []c23Cycle `json:"cycles"`
}

var errC23Inconclusive = errors.New("INCONCLUSIVE: goroutines did not finish in time")

type c23ConcInfo struct {
	restoreThenStream bool
	streamedTotal     int
	restoredTotal     int
	finalLen          int
}

func c23ConcRun(c c23ConcCase, st *vstat.Stats) (c23ConcInfo, error) {
	var info c23ConcInfo
	ctx := context.Background()
	univ := c23Universe(c.Items)
	mp := mempool.New[*mpItem](trace.Noop, c.MaxSize, c.MaxSponsor)
	pick := func(idxs []int) []*mpItem {
		out := make([]*mpItem, 0, len(idxs))
		for _, i := range idxs {
			out = append(out, univ[((i%len(univ))+len(univ))%len(univ)])
		}
		return out
	}

	var (
		mu    sync.Mutex
		first error
	)
	fail := func(e error) {
		mu.Lock()
		if first == nil {
			first = e
		}
		mu.Unlock()
	}
	checkLen := func(who string) {
		if l := mp.Len(ctx); l > c.MaxSize || l < 0 {
			fail(fmt.Errorf("%s observed Len=%d, limit %d", who, l, c.MaxSize))
		}
		if s := mp.Size(ctx); s < 0 {
			fail(fmt.Errorf("%s observed Size=%d", who, s))
		}
	}

	var wg sync.WaitGroup
	for ai, batches := range c.Adders {
		wg.Add(1)
		go func() {
			defer wg.Done()
			for _, b := range batches {
				mp.Add(ctx, pick(b))
				checkLen(fmt.Sprintf("adder %d", ai))
			}
		}()
	}
	wg.Add(1)
	go func() {
		defer wg.Done()
		for _, b := range c.Removes {
			mp.Remove(ctx, pick(b))
			checkLen("remover")
		}
	}()
	wg.Add(1)
	go func() {
		defer wg.Done()
		for _, t := range c.Expires {
			got := mp.SetMinTimestamp(ctx, int64(t))
			seen := map[int]bool{}
			for _, it := range got {
				if it.expiry >= int64(t) {
					fail(fmt.Errorf("SetMinTimestamp(%d) returned item %d with expiry %d", t, it.idx, it.expiry))
				}
				if seen[it.idx] {
					fail(fmt.Errorf("SetMinTimestamp(%d) returned item %d twice", t, it.idx))
				}
				seen[it.idx] = true
			}
			checkLen("expirer")
		}
	}()
	wg.Add(1)
	go func() {
		defer wg.Done()
		prevRestored := false
		for ci, cyc := range c.Cycles {
			mp.StartStreaming(ctx)
			handedSet := map[int]bool{}
			var handed []int
			var prep chan struct{}
			waitPrep := func() {
				if prep != nil {
					<-prep
					prep = nil
				}
			}
			for si, s := range cyc.Steps {
				waitPrep() // the builder's prepareStreamLock
				got := mp.Stream(ctx, s.N)
				for _, it := range got {
					if handedSet[it.idx] {
						fail(fmt.Errorf("cycle %d step %d: item %d handed out twice within one stream", ci, si, it.idx))
					}
					handedSet[it.idx] = true
					handed = append(handed, it.idx)
				}
				// an id handed out in this stream cannot be (re-)added before the stream finishes
				for _, i := range handed {
					if mp.Has(ctx, univ[i].id) {
						fail(fmt.Errorf("cycle %d step %d: item %d was handed out in the running stream and is held again", ci, si, i))
					}
				}
				if len(got) > 0 && prevRestored {
					info.restoreThenStream = true
				}
				info.streamedTotal += len(got)
				if s.Prepare {
					ch := make(chan struct{})
					prep = ch
					n := s.PrepN
					go func() {
						defer close(ch)
						mp.PrepareStream(ctx, n)
					}()
				}
			}
			waitPrep()
			for _, i := range handed {
				if mp.Has(ctx, univ[i].id) {
					fail(fmt.Errorf("cycle %d before finish: item %d was handed out in the running stream and is held again", ci, i))
				}
			}
			var restorable []int
			if len(handed) > 0 {
				seen := map[int]bool{}
				for _, k := range cyc.Restore {
					i := handed[((k%len(handed))+len(handed))%len(handed)]
					if !seen[i] {
						seen[i] = true
						restorable = append(restorable, i)
					}
				}
			}
			mp.FinishStreaming(ctx, pick(restorable))
			prevRestored = len(restorable) > 0
			info.restoredTotal += len(restorable)
			checkLen("streamer")
		}
	}()

	done := make(chan struct{})
	go func() { wg.Wait(); close(done) }()
	select {
	case <-done:
	case <-time.After(120 * time.Second):
		return c23ConcInfo{}, errC23Inconclusive
	}
	if first != nil {
		return info, first
	}

	// ---- quiescence
	held := []int{}
	size := 0
	owned := make([]int, c23Sponsors)
	for i, it := range univ {
		if mp.Has(ctx, it.id) {
			held = append(held, i)
			size += it.size
			owned[c.Items[i].Sponsor]++
		}
	}
	info.finalLen = len(held)
	if l := mp.Len(ctx); l != len(held) {
		return info, fmt.Errorf("quiescent: Len=%d but Has holds for %v", l, held)
	}
	if len(held) > c.MaxSize {
		return info, fmt.Errorf("quiescent: %d items held, limit %d", len(held), c.MaxSize)
	}
	for sp, o := range owned {
		if o > c.MaxSponsor {
			return info, fmt.Errorf("quiescent: sponsor %d holds %d items, limit %d", sp, o, c.MaxSponsor)
		}
	}
	if s := mp.Size(ctx); s != size {
		return info, fmt.Errorf("quiescent: Size=%d, sum of held item sizes %d (%v)", s, size, held)
	}
	popped := map[int]bool{}
	for k := 0; k <= len(univ); k++ {
		it, ok := mp.PopNext(ctx)
		if !ok {
			break
		}
		if popped[it.idx] {
			return info, fmt.Errorf("quiescent drain: item %d popped twice", it.idx)
		}
		popped[it.idx] = true
	}
	if len(popped) != len(held) {
		return info, fmt.Errorf("quiescent drain: popped %d items, Has held for %v", len(popped), held)
	}
	for _, i := range held {
		if !popped[i] {
			return info, fmt.Errorf("quiescent drain: held item %d never popped", i)
		}
	}
	if l, s := mp.Len(ctx), mp.Size(ctx); l != 0 || s != 0 {
		return info, fmt.Errorf("after drain: Len=%d Size=%d", l, s)
	}
	// the drained pool must behave like a fresh one (owned counts back to zero)
	m := newMpModel(c23Case{MaxSize: c.MaxSize, MaxSponsor: c.MaxSponsor, Items: c.Items})
	for i := range univ {
		m.addBack(i)
		mp.Add(ctx, []*mpItem{univ[i]})
	}
	for i, it := range univ {
		if got, want := mp.Has(ctx, it.id), m.in[i]; got != want {
			return info, fmt.Errorf("after drain, refilling item by item: Has(item %d)=%v, a fresh pool gives %v", i, got, want)
		}
	}
	return info, nil
}

func c23ConcGen(rt *rapid.T) c23ConcCase {
	c := c23ConcCase{Conc: true}
	c.MaxSize = rapid.SampledFrom([]int{1, 2, 3, 4, 6}).Draw(rt, "max")
	if rapid.IntRange(0, 3).Draw(rt, "sponsorEq") == 0 {
		c.MaxSponsor = c.MaxSize
	} else {
		c.MaxSponsor = rapid.IntRange(1, c.MaxSize).Draw(rt, "maxSponsor")
	}
	n := rapid.IntRange(8, 12).Draw(rt, "nItems")
	for i := 0; i < n; i++ {
		c.Items = append(c.Items, c23Item{
			Sponsor: rapid.IntRange(0, c23Sponsors-1).Draw(rt, "sponsor"),
			Size:    rapid.SampledFrom([]int{1, 2, 7, 100, 500}).Draw(rt, "size"),
			Expiry:  int64(rapid.IntRange(1, 20).Draw(rt, "expiry")),
		})
	}
	batch := rapid.SliceOfN(rapid.IntRange(0, n-1), 1, 5)
	nAdders := rapid.IntRange(1, 3).Draw(rt, "nAdders")
	for a := 0; a < nAdders; a++ {
		c.Adders = append(c.Adders, rapid.SliceOfN(batch, 1, 12).Draw(rt, "adds"))
	}
	c.Removes = rapid.SliceOfN(rapid.SliceOfN(rapid.IntRange(0, n-1), 1, 3), 0, 8).Draw(rt, "removes")
	c.Expires = rapid.SliceOfN(rapid.IntRange(0, 21), 0, 6).Draw(rt, "expires")
	nCycles := rapid.IntRange(1, 4).Draw(rt, "nCycles")
	for k := 0; k < nCycles; k++ {
		var cyc c23Cycle
		nSteps := rapid.IntRange(1, 4).Draw(rt, "nSteps")
		for s := 0; s < nSteps; s++ {
			cyc.Steps = append(cyc.Steps, c23Step{
				N:       rapid.IntRange(0, 3).Draw(rt, "n"),
				Prepare: rapid.Bool().Draw(rt, "prep"),
				PrepN:   rapid.IntRange(0, 3).Draw(rt, "prepN"),
			})
		}
		cyc.Restore = rapid.SliceOfN(rapid.IntRange(0, 7), 0, 4).Draw(rt, "restore")
		c.Cycles = append(c.Cycles, cyc)
	}
	return c
}

const c23ConcRule = "concurrent mode under the race detector: 1..3 adder goroutines, a remover, an expirer and one builder-like streaming goroutine (PrepareStream in a side goroutine serialised with the next Stream) run freely over 8..12 items; checked: per-goroutine observations (Len within the limit, expiry results below the timestamp, no id twice within a stream, an id handed out in the running stream is never held before the stream finishes) and the quiescent state (Len = number of held ids, Size = sum, limits, drain yields each held id once, the drained pool refills like a fresh one); non-trivial = a cycle that gave items back followed by a cycle that streamed items"

func TestC23Conc(t *testing.T) {
	st := vstat.New(t, "C23", c23ConcRule)
	st.Assumption("concurrent mode samples lock-level interleavings (free-running goroutines, -race); it does not enumerate them")
	rapid.Check(t, func(rt *rapid.T) {
		c := c23ConcGen(rt)
		var info c23ConcInfo
		var inconclusive bool
		vstat.Run(rt, st, c, func() error {
			var err error
			info, err = c23ConcRun(c, st)
			if errors.Is(err, errC23Inconclusive) {
				inconclusive = true
				return nil
			}
			return err
		})
		if inconclusive {
			st.Label("conc-inconclusive-timeout")
			rt.Log("INCONCLUSIVE: goroutines did not finish within 120 s")
			rt.SkipNow()
		}
		labels := []string{"conc"}
		if info.restoreThenStream {
			labels = append(labels, "conc-restore-then-stream")
		}
		if info.streamedTotal > 0 {
			labels = append(labels, "conc-streamed")
		}
		if info.finalLen > 0 {
			labels = append(labels, "conc-final-nonempty")
		}
		canon, _ := json.Marshal(c)
		st.Case(info.restoreThenStream, string(canon), labels...)
		st.Sample(info.restoreThenStream, map[string]any{"mode": "concurrent", "max": c.MaxSize, "max_sponsor": c.MaxSponsor,
			"adders": len(c.Adders), "cycles": len(c.Cycles), "streamed": info.streamedTotal, "restored": info.restoredTotal, "final_len": info.finalLen})
	})
}
