package mempub

import (
	"encoding/binary"
	"encoding/json"
	"errors"
	"fmt"
	"net/http/httptest"
	"strings"
	"sync"
	"testing"
	"time"

	"github.com/ava-labs/avalanchego/utils/logging"
	"github.com/gorilla/websocket"
	"pgregory.net/rapid"

	"github.com/ava-labs/hypersdk/pubsub"
	"github.com/ava-labs/hypersdk/verifharness/vstat"
)

// C32, server-level stage: a real pubsub.Server behind httptest, 1..3 websocket
// clients owned by the harness (each starts reading only after a drawn number of
// publishes and pauses between frames), bursts of Publish calls whose sizes make
// consecutive Sends flush by size. What a client receives per websocket frame is
// "an emitted batch": it must encode to at most MaxWriteMessageSize, parse, and
// the concatenation of the frames must be the sequence published to that
// connection (exactly when the connection's queue cannot fill up, else an
// in-order duplicate-free subsequence).
//
// Timing only changes how many batches pile up behind the write loop, never
// what a frame may contain. A case is ended by sentinel messages: everything
// that arrives before the first sentinel seen is compared with what was
// published before that sentinel.

type c32SrvSize struct {
	Kind string `json:"k"` // frac: V percent of the maximum | small: V bytes | over: maximum+9+V bytes (never accepted)
	V    int    `json:"v"`
}

type c32SrvPub struct {
	Size c32SrvSize `json:"size"`
	To   []int      `json:"to,omitempty"` // connection indices (mod n); empty = Server.Connections()
}

type c32SrvClient struct {
	StartAfter int   `json:"start_after"` // publishes made before this client reads its first frame
	PausesUs   []int `json:"pauses_us,omitempty"`
}

type c32SrvCase struct {
	Srv     bool           `json:"srv"`
	Max     int            `json:"max"`
	Cap     int            `json:"cap"`
	WaitMs  int            `json:"wait_ms"`
	Clients []c32SrvClient `json:"clients"`
	Pubs    []c32SrvPub    `json:"pubs"`
}

var errC32SrvInconclusive = errors.New("INCONCLUSIVE: server-level case did not settle in time")

type c32SrvReader struct {
	mu     sync.Mutex
	frames [][]byte
	err    error
	start  chan struct{}
	once   sync.Once
}

func (r *c32SrvReader) begin() { r.once.Do(func() { close(r.start) }) }

func c32SrvRun(c c32SrvCase, st *vstat.Stats) error {
	cfg := pubsub.NewDefaultServerConfig()
	cfg.MaxWriteMessageSize = c.Max
	cfg.MaxPendingMessages = c.Cap
	cfg.MaxMessageWait = time.Duration(c.WaitMs) * time.Millisecond
	// no verdict may depend on the machine being fast: the server never gives up on a slow client
	cfg.WriteWait = 10 * time.Minute
	cfg.PongWait = 20 * time.Minute
	cfg.PingPeriod = 18 * time.Minute
	handler := pubsub.New(logging.NoLog{}, cfg, nil)
	srv := httptest.NewServer(handler)
	defer srv.Close()
	url := "ws" + strings.TrimPrefix(srv.URL, "http")

	n := len(c.Clients)
	conns := make([]*pubsub.Connection, n)
	socks := make([]*websocket.Conn, n)
	readers := make([]*c32SrvReader, n)
	defer func() {
		for _, s := range socks {
			if s != nil {
				_ = s.Close()
			}
		}
		for _, r := range readers {
			if r != nil {
				r.begin()
			}
		}
	}()
	known := map[*pubsub.Connection]bool{}
	for i := 0; i < n; i++ {
		sock, resp, err := websocket.DefaultDialer.Dial(url, nil)
		if err != nil {
			return errC32SrvInconclusive
		}
		resp.Body.Close()
		socks[i] = sock
		deadline := time.Now().Add(20 * time.Second)
		for handler.Connections().Len() != i+1 {
			if time.Now().After(deadline) {
				return errC32SrvInconclusive
			}
			time.Sleep(200 * time.Microsecond)
		}
		for _, cn := range handler.Connections().Conns() {
			if !known[cn] {
				known[cn] = true
				conns[i] = cn
			}
		}
		if conns[i] == nil {
			return fmt.Errorf("harness error: connection %d not found in Server.Connections()", i)
		}
		r := &c32SrvReader{start: make(chan struct{})}
		readers[i] = r
		pauses := c.Clients[i].PausesUs
		go func() {
			<-r.start
			for k := 0; ; k++ {
				_, frame, err := sock.ReadMessage()
				r.mu.Lock()
				if err != nil {
					r.err = err
					r.mu.Unlock()
					return
				}
				r.frames = append(r.frames, frame)
				r.mu.Unlock()
				if len(pauses) > 0 {
					if p := pauses[k%len(pauses)]; p > 0 {
						time.Sleep(time.Duration(p) * time.Microsecond)
					}
				}
			}
		}()
	}

	// ---- publish
	expected := make([][][]byte, n)
	modelPending := make([]int, n) // encoded bytes pending per connection (label only)
	modelFlushes := make([]int, n) // size-triggered flushes so far (label only)
	flushesBeforeRead := make([]int, n)
	var resolved []int
	lblOver, lblSubset := false, false
	for pi, p := range c.Pubs {
		for i, cl := range c.Clients {
			if cl.StartAfter == pi {
				flushesBeforeRead[i] = modelFlushes[i]
				readers[i].begin()
			}
		}
		var size int
		switch p.Size.Kind {
		case "frac":
			size = c.Max * p.Size.V / 100
		case "small":
			size = p.Size.V
		case "over":
			size = c.Max + 9 + p.Size.V
			lblOver = true
		default:
			return fmt.Errorf("unknown size kind %q", p.Size.Kind)
		}
		if size < 5 {
			size = 5
		}
		resolved = append(resolved, size)
		msg := make([]byte, size)
		msg[0] = 0x01
		binary.BigEndian.PutUint32(msg[1:], uint32(pi))
		for j := 5; j < size; j += 97 {
			msg[j] = byte(pi + j)
		}
		targets := map[int]bool{}
		set := handler.Connections()
		if len(p.To) > 0 {
			lblSubset = true
			set = pubsub.NewConnections()
			for _, t := range p.To {
				i := ((t % n) + n) % n
				if !targets[i] {
					targets[i] = true
					set.Add(conns[i])
				}
			}
		} else {
			for i := 0; i < n; i++ {
				targets[i] = true
			}
		}
		if inactive := handler.Publish(msg, set); len(inactive) != 0 {
			return fmt.Errorf("publish %d: %d live connections reported inactive", pi, len(inactive))
		}
		entry := c32EntrySize(size)
		if size <= c.Max && entry > c.Max {
			return fmt.Errorf("harness error: size %d falls between the raw and the encoded limit", size)
		}
		if entry <= c.Max {
			for i := 0; i < n; i++ {
				if targets[i] {
					expected[i] = append(expected[i], msg)
					if modelPending[i]+entry > c.Max {
						modelFlushes[i]++
						modelPending[i] = 0
					}
					modelPending[i] += entry
				}
			}
		}
	}
	for i, cl := range c.Clients {
		if cl.StartAfter >= len(c.Pubs) {
			flushesBeforeRead[i] = modelFlushes[i]
		}
		readers[i].begin()
	}

	// ---- settle: sentinels mark the end of what is compared
	type clientState struct {
		consumed int // frames processed
		emitted  [][]byte
		sentinel int // first sentinel round seen, -1 = none
		frames   int
		maxFrame int
		multi    bool
	}
	states := make([]*clientState, n)
	for i := range states {
		states[i] = &clientState{sentinel: -1}
	}
	process := func() error {
		for i, r := range readers {
			s := states[i]
			r.mu.Lock()
			fresh := r.frames[s.consumed:]
			s.consumed = len(r.frames)
			r.mu.Unlock()
			for _, f := range fresh {
				s.frames++
				if len(f) > s.maxFrame {
					s.maxFrame = len(f)
				}
				msgs, err := pubsub.ParseBatchMessage(f)
				if err != nil {
					return fmt.Errorf("client %d frame %d (%d bytes) does not parse: %v", i, s.frames, len(f), err)
				}
				if len(f) > c.Max {
					return fmt.Errorf("client %d frame %d encodes to %d bytes, MaxWriteMessageSize %d (%d messages, sizes %v)", i, s.frames, len(f), c.Max, len(msgs), c32Lens(msgs))
				}
				if len(msgs) > 1 {
					s.multi = true
				}
				for _, m := range msgs {
					if s.sentinel >= 0 {
						break // only what precedes the first sentinel is compared
					}
					s.emitted = append(s.emitted, m)
					if len(m) == 2 && m[0] == 0xFF {
						s.sentinel = int(m[1])
					}
				}
			}
		}
		return nil
	}
	allSettled := func() bool {
		for _, s := range states {
			if s.sentinel < 0 {
				return false
			}
		}
		return true
	}
	rounds := 0
	for ; rounds < 20; rounds++ {
		sentinel := []byte{0xFF, byte(rounds)}
		handler.Publish(sentinel, handler.Connections())
		for i := 0; i < n; i++ {
			expected[i] = append(expected[i], sentinel)
		}
		deadline := time.Now().Add(3 * time.Second)
		for {
			if err := process(); err != nil {
				return err
			}
			if allSettled() || time.Now().After(deadline) {
				break
			}
			time.Sleep(300 * time.Microsecond)
		}
		if allSettled() {
			rounds++
			break
		}
	}
	if !allSettled() {
		return errC32SrvInconclusive
	}

	// ---- compare
	strictAll := true
	dropped := false
	for i, s := range states {
		// expected up to and including the sentinel that was seen first
		var want [][]byte
		for _, m := range expected[i] {
			want = append(want, m)
			if len(m) == 2 && m[0] == 0xFF && int(m[1]) == s.sentinel {
				break
			}
		}
		strict := c.Cap >= len(expected[i])+2 // one batch per message at most: the queue cannot fill up
		if !strict {
			strictAll = false
		}
		if strict {
			if len(s.emitted) != len(want) {
				return fmt.Errorf("client %d: queue of %d cannot fill up, %d messages published before the sentinel but %d received (sizes %v vs %v)", i, c.Cap, len(want), len(s.emitted), c32Lens(want), c32Lens(s.emitted))
			}
			for k := range want {
				if string(want[k]) != string(s.emitted[k]) {
					return fmt.Errorf("client %d: received message %d differs from published message %d", i, k, k)
				}
			}
		} else {
			if !c32IsSubsequence(s.emitted, want) {
				return fmt.Errorf("client %d: received messages (sizes %v) are not an in-order duplicate-free subsequence of the published ones (sizes %v)", i, c32Lens(s.emitted), c32Lens(want))
			}
			if len(s.emitted) < len(want) {
				dropped = true
			}
		}
	}

	nt := false
	late := false
	multi := false
	for i := range c.Clients {
		if flushesBeforeRead[i] >= 2 {
			nt = true
		}
		if c.Clients[i].StartAfter > 0 {
			late = true
		}
		if states[i].multi {
			multi = true
		}
	}
	labels := []string{"server-level"}
	add := func(b bool, l string) {
		if b {
			labels = append(labels, l)
		}
	}
	add(nt, "srv-2+-batches-queued-before-first-read")
	add(late, "srv-client-starts-late")
	add(n > 1, "srv-multi-connection")
	add(lblSubset, "srv-publish-to-subset")
	add(lblOver, "srv-oversize-publish")
	add(strictAll, "srv-exactly-once-demanded")
	add(dropped, "srv-messages-dropped")
	add(multi, "srv-frame-with-several-messages")
	add(rounds > 1, "srv-extra-sentinel-rounds")
	canon, _ := json.Marshal(map[string]any{"max": c.Max, "cap": c.Cap, "w": c.WaitMs, "cl": c.Clients, "sizes": resolved, "pubs": c.Pubs})
	st.Case(nt, string(canon), labels...)
	fr := make([]int, n)
	for i, s := range states {
		fr[i] = s.frames
	}
	st.Sample(nt, map[string]any{"mode": "server", "max": c.Max, "cap": c.Cap, "wait_ms": c.WaitMs, "clients": n, "sizes": resolved,
		"frames": fr, "model_flushes_before_first_read": flushesBeforeRead})
	return nil
}

func c32SrvGen(rt *rapid.T) c32SrvCase {
	c := c32SrvCase{Srv: true}
	c.Max = rapid.SampledFrom([]int{4, 4, 8, 8, 16, 32, 64}).Draw(rt, "maxKiB")*1024 + rapid.IntRange(-3, 3).Draw(rt, "maxOff")
	c.WaitMs = rapid.IntRange(1, 5).Draw(rt, "waitMs")
	nPubs := rapid.IntRange(1, 24).Draw(rt, "nPubs")
	nClients := rapid.IntRange(1, 3).Draw(rt, "nClients")
	for i := 0; i < nClients; i++ {
		cl := c32SrvClient{}
		switch rapid.IntRange(0, 3).Draw(rt, "startKind") {
		case 0:
			cl.StartAfter = 0
		case 1:
			cl.StartAfter = rapid.IntRange(0, nPubs).Draw(rt, "startAfter")
		default:
			cl.StartAfter = nPubs // only after the whole burst
		}
		if rapid.Bool().Draw(rt, "pauses") {
			cl.PausesUs = rapid.SliceOfN(rapid.SampledFrom([]int{0, 0, 50, 300, 1500}), 1, 4).Draw(rt, "pausesUs")
		}
		c.Clients = append(c.Clients, cl)
	}
	for i := 0; i < nPubs; i++ {
		var p c32SrvPub
		switch k := rapid.IntRange(0, 19).Draw(rt, "sizeKind"); {
		case k == 0:
			p.Size = c32SrvSize{"over", rapid.IntRange(0, 40).Draw(rt, "over")}
		case k <= 4:
			p.Size = c32SrvSize{"small", rapid.IntRange(5, 200).Draw(rt, "small")}
		default:
			p.Size = c32SrvSize{"frac", rapid.IntRange(30, 90).Draw(rt, "frac")}
		}
		if nClients > 1 && rapid.IntRange(0, 3).Draw(rt, "subset") == 0 {
			p.To = rapid.SliceOfN(rapid.IntRange(0, nClients-1), 1, nClients).Draw(rt, "to")
		}
		c.Pubs = append(c.Pubs, p)
	}
	if rapid.IntRange(0, 3).Draw(rt, "smallCap") == 0 {
		c.Cap = rapid.IntRange(1, 3).Draw(rt, "cap")
	} else {
		c.Cap = nPubs + 24 // room for every message and every sentinel round
	}
	return c
}

const c32SrvRule = "server-level stage: real pubsub.Server behind httptest, MaxWriteMessageSize 4..64 KiB (+-3), MaxMessageWait 1..5 ms, MaxPendingMessages 1..3 or publishes+24, 1..3 websocket clients that start reading after a drawn number of publishes (often only after the whole burst) and pause 0..1.5 ms between frames, 1..24 Publish calls (to all connections or to a drawn subset) of 0.3..0.9 x the maximum, 5..200 bytes, or oversize; oracle per received websocket frame: len <= MaxWriteMessageSize and it parses; per client: frames concatenated = what was published to that connection before the first sentinel seen, exactly if the queue cannot fill up, else an in-order duplicate-free subsequence; non-trivial = by the size rule at least two batches had been flushed to a connection's queue before its client read anything"

func TestC32Server(t *testing.T) {
	st := vstat.New(t, "C32", c32SrvRule)
	st.Assumption("server-level stage: an emitted batch is what the server writes as one websocket frame; WriteWait/PongWait are set to minutes so that a slow machine cannot make the server drop a connection; a case that does not settle (no sentinel within 20 rounds of 3 s) is inconclusive")
	rapid.Check(t, func(rt *rapid.T) {
		c := c32SrvGen(rt)
		inconclusive := false
		vstat.Run(rt, st, c, func() error {
			err := c32SrvRun(c, st)
			if errors.Is(err, errC32SrvInconclusive) {
				inconclusive = true
				return nil
			}
			return err
		})
		if inconclusive {
			st.Label("srv-inconclusive-timeout")
			rt.Log("INCONCLUSIVE: server-level case did not settle in time")
			rt.SkipNow()
		}
	})
}
