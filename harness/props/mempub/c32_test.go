package mempub

import (
	"bytes"
	"encoding/json"
	"errors"
	"fmt"
	"runtime"
	"strings"
	"sync"
	"sync/atomic"
	"testing"
	"time"

	"github.com/ava-labs/avalanchego/utils/logging"
	"go.uber.org/zap"
	"pgregory.net/rapid"

	"github.com/ava-labs/hypersdk/pubsub"
	"github.com/ava-labs/hypersdk/verifharness/vstat"
)

// C32: every message accepted by MessageBuffer.Send is emitted exactly once and
// in order unless the outgoing queue is full, and every emitted batch encodes
// to at most the configured maximum size and decodes back to its messages.
//
// The flush timer is real. Nothing in the oracle depends on when (or whether)
// it fires:
//   - every batch taken from Queue must be <= maxSize bytes and must parse;
//   - consumer that never reads before the end: the queue only fills up, so the
//     emitted messages must be a PREFIX of the accepted ones, at most `cap`
//     batches exist, and if fewer than `cap` batches exist nothing can have been
//     dropped, so every accepted message must be there;
//   - consumer that empties the queue after every operation: the emitted
//     messages are an in-order subsequence of the accepted ones; they must be
//     exactly the accepted ones when no drop is possible (the timer cannot fire
//     during the case, so every flush happens inside Send/Close right before the
//     harness empties the queue, or the queue has room for one batch per accepted
//     message plus the closing one);
//   - Send after Close fails, Send of a message longer than maxSize fails, Send of
//     a message that fits a batch of maxSize on an open buffer succeeds.

// c32Size describes a message size relative to the limit / the estimated fill.
//
//	abs  : K bytes
//	lim  : maxSize + K
//	fill : (maxSize - estimated pending raw bytes) + K        (the raw-sum accounting)
//	fille: the size whose batch entry exactly fills a batch of maxSize given the
//	       estimated pending encoded bytes, + K                 (the encoded accounting)
type c32Size struct {
	Kind string `json:"k"`
	K    int    `json:"v"`
}

type c32Op struct {
	Kind string  `json:"op"` // send | wait | close | drain
	Size c32Size `json:"size,omitempty"`
	N    int     `json:"n,omitempty"` // drain: take up to N batches from Queue, 0 = all that are there
}

type c32Case struct {
	Max     int     `json:"max"`
	Cap     int     `json:"cap"`
	TimerMs int     `json:"timer_ms"`         // 1 (fires during the case) or 3_600_000 (never fires)
	Drain   bool    `json:"drain"`            // the consumer empties the queue after every op / never before the end
	Manual  bool    `json:"manual,omitempty"` // the consumer reads only at the generated `drain` ops (Drain is ignored)
	Ops     []c32Op `json:"ops"`
}

const c32Hour = 3_600_000

const c32CloseWait = 20 * time.Second

// uvarintLen is the length of the protobuf/canoto varint of n.
func uvarintLen(n int) int {
	l := 1
	for n >= 0x80 {
		n >>= 7
		l++
	}
	return l
}

// c32EntrySize is the size of one message inside an encoded batch: field tag
// (1 byte: field 1, wire type LEN), varint length, payload. Derived from the
// wire format, not from the code under test.
func c32EntrySize(l int) int { return 1 + uvarintLen(l) + l }

// c32MaxPayload is the largest payload whose batch entry is <= room bytes (or -1).
func c32MaxPayload(room int) int {
	best := -1
	for l := room - 2; l >= 0 && l >= room-12; l-- {
		if c32EntrySize(l) <= room {
			best = l
			break
		}
	}
	return best
}

// errC32Inconclusive: an operation did not return in time and there is no
// positive evidence of a deadlock (slow machine): never a violation.
var errC32Inconclusive = errors.New("INCONCLUSIVE: operation did not return in time")

const c32FindingCloseDeadlock = "C32-close-timer-deadlock"

// c32DeadlockEvidence looks for positive evidence that MessageBuffer.Close is
// deadlocked with the flush timer: one goroutine inside Close waiting for the
// timer's dispatch goroutine to end, and the timer's handler waiting for the
// buffer's mutex that Close holds. Neither can ever proceed.
func c32DeadlockEvidence(mb *pubsub.MessageBuffer) (bool, string) {
	self := fmt.Sprintf("pubsub.(*MessageBuffer).Close(%p", mb) // this buffer, not one leaked by an earlier case
	buf := make([]byte, 1<<20)
	buf = buf[:runtime.Stack(buf, true)]
	var closer, handler string
	for _, g := range strings.Split(string(buf), "\n\n") {
		switch {
		case strings.Contains(g, self) && strings.Contains(g, "timer.(*Timer).Stop") && strings.Contains(g, "sync.(*WaitGroup).Wait"):
			closer = g
		case strings.Contains(g, "pubsub.NewMessageBuffer.func1") && strings.Contains(g, "sync.(*Mutex).Lock"):
			handler = g
		}
	}
	if closer != "" && handler != "" {
		return true, closer + "\n\n" + handler
	}
	return false, ""
}

// c32Close calls Close with a deadline. hung=true: it did not return; deadlock
// tells whether there is positive evidence that it never will.
func c32Close(mb *pubsub.MessageBuffer, wait time.Duration) (err error, hung bool, deadlock bool, evidence string) {
	done := make(chan error, 1)
	go func() { done <- mb.Close() }()
	// poll once a second; two consecutive looks showing the mutual wait are
	// positive evidence of a deadlock (the cycle cannot resolve itself), a Close
	// that is merely slow shows no such evidence and is waited for until `wait`
	prev := false
	for waited := time.Duration(0); waited < wait; waited += time.Second {
		select {
		case err = <-done:
			return err, false, false, ""
		case <-time.After(time.Second):
		}
		d, ev := c32DeadlockEvidence(mb)
		if d && prev {
			select {
			case err = <-done:
				return err, false, false, ""
			default:
			}
			return nil, true, true, ev
		}
		prev = d
	}
	return nil, true, false, ""
}

func c32HangError(st *vstat.Stats, what string, deadlock bool, evidence string) error {
	if !deadlock {
		return errC32Inconclusive
	}
	if st.Known(c32FindingCloseDeadlock) {
		st.Exclude(c32FindingCloseDeadlock)
		return errC32Inconclusive
	}
	return fmt.Errorf("%s: Close never returns: it holds the buffer lock while waiting for the flush timer's goroutine, whose handler waits for that lock; every later Send blocks forever and Queue is never closed\n%s", what, evidence)
}

type c32CountLog struct {
	logging.NoLog
	drops atomic.Int64
}

func (c *c32CountLog) Debug(msg string, _ ...zap.Field) {
	if msg == "dropped pending message" || strings.HasPrefix(msg, "unable to flush") {
		c.drops.Add(1)
	}
}

func c32Payload(i, size int) []byte {
	b := make([]byte, size)
	for j := range b {
		b[j] = byte(i*37 + j*11 + 1)
	}
	if size >= 2 {
		b[0], b[1] = byte(i), byte(i>>8)
	}
	return b
}

func c32IsSubsequence(sub, full [][]byte) bool {
	j := 0
	for _, s := range sub {
		for j < len(full) && !bytes.Equal(full[j], s) {
			j++
		}
		if j == len(full) {
			return false
		}
		j++
	}
	return true
}

func c32Lens(x [][]byte) []int {
	out := make([]int, len(x))
	for i, b := range x {
		out[i] = len(b)
	}
	return out
}

func c32Run(c c32Case, st *vstat.Stats) error {
	log := &c32CountLog{}
	mb := pubsub.NewMessageBuffer(log, c.Cap, c.Max, time.Duration(c.TimerMs)*time.Millisecond)
	closed := false
	defer func() {
		if !closed {
			go func() { _ = mb.Close() }() // error path: never wait for it
		}
	}()

	var (
		accepted, emitted [][]byte
		nBatches          int
		queueClosed       bool
		nearLimit         bool
		maxBatch          int
		resolved          []int
		lblOversize       bool
		lblGap            bool
		lblAfterClose     bool
		lblAtLimit        bool
		waits             int
		fullBeforeOp      bool // Queue was seen full right before a send/close (a flush inside it may drop)
		lblDrainedFull    bool // a drain op emptied (part of) a full queue while the buffer was open
		lblFailedFlushGap bool // ... and a flush had already hit the full queue before that drain
	)
	checkBatch := func(b []byte) error {
		nBatches++
		if len(b) > maxBatch {
			maxBatch = len(b)
		}
		msgs, err := pubsub.ParseBatchMessage(b)
		if err != nil {
			return fmt.Errorf("batch %d (%d bytes) does not parse: %v", nBatches, len(b), err)
		}
		raw := 0
		for _, m := range msgs {
			raw += len(m)
		}
		if raw >= c.Max-8 {
			nearLimit = true
		}
		emitted = append(emitted, msgs...)
		if len(b) > c.Max {
			return fmt.Errorf("batch %d encodes to %d bytes, maximum %d (message sizes %v)", nBatches, len(b), c.Max, c32Lens(msgs))
		}
		return nil
	}
	collect := func() error {
		for !queueClosed {
			select {
			case b, ok := <-mb.Queue:
				if !ok {
					queueClosed = true
					return nil
				}
				if err := checkBatch(b); err != nil {
					return err
				}
			default:
				return nil
			}
		}
		return nil
	}

	estRaw, estEnc := 0, 0 // generator-side estimates of the pending fill (timer ignored)
	sendIdx := 0
	for oi, op := range c.Ops {
		if (op.Kind == "send" || op.Kind == "close") && !closed && len(mb.Queue) >= c.Cap {
			fullBeforeOp = true
		}
		switch op.Kind {
		case "send":
			var size int
			switch op.Size.Kind {
			case "abs":
				size = op.Size.K
			case "lim":
				size = c.Max + op.Size.K
			case "fill":
				size = c.Max - estRaw + op.Size.K
			case "fille":
				size = c32MaxPayload(c.Max-estEnc) + op.Size.K
			default:
				return fmt.Errorf("unknown size kind %q", op.Size.Kind)
			}
			if size < 0 {
				size = 0
			}
			if size > 2*c.Max+16 {
				size = 2*c.Max + 16
			}
			resolved = append(resolved, size)
			msg := c32Payload(sendIdx, size)
			sendIdx++
			err := mb.Send(msg)
			enc := c32EntrySize(size)
			switch {
			case closed:
				lblAfterClose = true
				if err == nil {
					return fmt.Errorf("op %d: Send after Close succeeded", oi)
				}
			case size > c.Max:
				lblOversize = true
				if err == nil {
					return fmt.Errorf("op %d: Send of %d bytes succeeded with maximum %d", oi, size, c.Max)
				}
			case enc <= c.Max:
				if err != nil {
					return fmt.Errorf("op %d: Send of %d bytes (batch entry %d bytes, maximum %d) on an open buffer failed: %v", oi, size, enc, c.Max, err)
				}
			default:
				// size <= max < size + framing: can never be emitted within the limit;
				// the batch-size check decides
				lblGap = true
			}
			if size == c.Max {
				lblAtLimit = true
			}
			if err == nil {
				accepted = append(accepted, msg)
				if estRaw+size > c.Max {
					estRaw = 0
				}
				estRaw += size
				if estEnc+enc > c.Max {
					estEnc = 0
				}
				estEnc += enc
			}
		case "drain":
			if !c.Manual {
				st.Skip("drain-op-in-fixed-consumer-mode")
				continue
			}
			wasFull := len(mb.Queue) == c.Cap
			took := 0
			for !queueClosed && (op.N <= 0 || took < op.N) {
				select {
				case b, ok := <-mb.Queue:
					if !ok {
						queueClosed = true
						break
					}
					took++
					if err := checkBatch(b); err != nil {
						return err
					}
					continue
				default:
				}
				break
			}
			if wasFull && took > 0 && !closed {
				lblDrainedFull = true
				if log.drops.Load() > 0 {
					lblFailedFlushGap = true
				}
			}
		case "wait":
			if c.TimerMs != c32Hour && waits < 3 {
				waits++
				time.Sleep(3 * time.Millisecond)
			}
		case "close":
			// (both pumps of a connection deactivate it: a second Close must be harmless)
			err, hung, deadlock, ev := c32Close(mb, c32CloseWait)
			if hung {
				closed = true // nothing more can be done with this buffer
				return c32HangError(st, fmt.Sprintf("op %d", oi), deadlock, ev)
			}
			if !closed && err != nil {
				return fmt.Errorf("op %d: first Close failed: %v", oi, err)
			}
			closed = true
		default:
			return fmt.Errorf("unknown op %q", op.Kind)
		}
		if c.Drain && !c.Manual {
			if err := collect(); err != nil {
				return err
			}
		}
	}
	if !closed {
		if len(mb.Queue) >= c.Cap {
			fullBeforeOp = true
		}
		err, hung, deadlock, ev := c32Close(mb, c32CloseWait)
		closed = true
		if hung {
			return c32HangError(st, "final Close", deadlock, ev)
		}
		if err != nil {
			return fmt.Errorf("final Close failed: %v", err)
		}
	}
	// after Close the queue is closed: read what is left
	deadline := time.After(60 * time.Second)
	for !queueClosed {
		select {
		case b, ok := <-mb.Queue:
			if !ok {
				queueClosed = true
				break
			}
			if err := checkBatch(b); err != nil {
				return err
			}
		case <-deadline:
			return fmt.Errorf("Queue not closed after Close")
		}
	}

	strict := false
	if c.Manual {
		// drops are legitimate whenever a flush meets a full queue. None is possible if
		// the queue has room for every batch, or if the timer cannot fire (every flush
		// then happens inside a Send/Close) and the queue was never full before one
		strict = c.Cap >= len(accepted)+1 || (c.TimerMs == c32Hour && !fullBeforeOp)
	}
	if c.Drain && !c.Manual {
		strict = c.TimerMs == c32Hour || c.Cap >= len(accepted)+1
	}
	if c.Manual || c.Drain {
		if strict {
			if len(emitted) != len(accepted) {
				return fmt.Errorf("no drop possible, accepted %d messages (sizes %v) but %d were emitted (sizes %v)", len(accepted), c32Lens(accepted), len(emitted), c32Lens(emitted))
			}
			for i := range accepted {
				if !bytes.Equal(accepted[i], emitted[i]) {
					return fmt.Errorf("emitted message %d differs from accepted message %d (sizes %d vs %d)", i, i, len(emitted[i]), len(accepted[i]))
				}
			}
		} else if !c32IsSubsequence(emitted, accepted) {
			return fmt.Errorf("emitted messages (sizes %v) are not an in-order duplicate-free subsequence of the accepted ones (sizes %v)", c32Lens(emitted), c32Lens(accepted))
		}
	} else {
		if nBatches > c.Cap {
			return fmt.Errorf("%d batches came out of a queue of capacity %d that was never read before the end", nBatches, c.Cap)
		}
		if len(emitted) > len(accepted) {
			return fmt.Errorf("%d messages emitted, %d accepted", len(emitted), len(accepted))
		}
		for i := range emitted {
			if !bytes.Equal(accepted[i], emitted[i]) {
				return fmt.Errorf("queue never read before the end: emitted message %d differs from accepted message %d, emitted must be a prefix (sizes %v vs %v)", i, i, c32Lens(emitted), c32Lens(accepted))
			}
		}
		if nBatches < c.Cap {
			strict = true
			if len(emitted) != len(accepted) {
				return fmt.Errorf("queue of capacity %d holds %d batches (never full) but only %d of %d accepted messages were emitted", c.Cap, nBatches, len(emitted), len(accepted))
			}
		}
	}

	nt := nearLimit
	labels := []string{}
	add := func(b bool, l string) {
		if b {
			labels = append(labels, l)
		}
	}
	add(nearLimit, "batch-near-limit")
	add(maxBatch == c.Max, "batch-exactly-at-limit")
	add(c.Drain && !c.Manual, "consumer-drains")
	add(!c.Drain && !c.Manual, "consumer-never-reads")
	add(c.Manual, "consumer-drain-ops")
	add(lblDrainedFull, "full-queue-drained-then-flush")
	add(lblFailedFlushGap, "flush-hit-full-queue-then-drain-then-flush")
	add(c.TimerMs != c32Hour, "timer-live")
	add(strict, "exactly-once-demanded")
	add(log.drops.Load() > 0, "drop-logged")
	add(len(emitted) < len(accepted), "messages-dropped")
	add(lblOversize, "send-oversize")
	add(lblGap, "send-fits-only-without-framing")
	add(lblAtLimit, "send-exactly-max")
	add(lblAfterClose, "send-after-close")
	add(waits > 0, "waited-for-timer")
	canon, _ := json.Marshal(map[string]any{"max": c.Max, "cap": c.Cap, "t": c.TimerMs, "d": c.Drain, "m": c.Manual, "sizes": resolved, "ops": c32OpString(c.Ops)})
	st.Case(nt, string(canon), labels...)
	st.Sample(nt, map[string]any{"max": c.Max, "cap": c.Cap, "timer_ms": c.TimerMs, "drain": c.Drain, "manual": c.Manual, "ops": c32OpString(c.Ops), "sizes": resolved,
		"accepted": len(accepted), "emitted": len(emitted), "batches": nBatches, "largest_batch": maxBatch})
	return nil
}

// c32OpString renders the op kinds compactly: s(end) w(ait) c(lose) d<n>(rain).
func c32OpString(ops []c32Op) string {
	var b strings.Builder
	for _, op := range ops {
		switch op.Kind {
		case "drain":
			fmt.Fprintf(&b, "d%d", op.N)
		default:
			b.WriteByte(op.Kind[0])
		}
	}
	return b.String()
}

// c32GenBigSize: sizes that make (almost) every Send overflow the pending batch.
func c32GenBigSize(rt *rapid.T, max int) c32Size {
	switch rapid.IntRange(0, 9).Draw(rt, "bigSizeKind") {
	case 0, 1, 2, 3:
		return c32Size{"lim", rapid.IntRange(-6, 0).Draw(rt, "limK")}
	case 4, 5:
		return c32Size{"fill", rapid.IntRange(-1, 2).Draw(rt, "fillK")}
	case 6, 7:
		return c32Size{"fille", rapid.IntRange(-1, 2).Draw(rt, "filleK")}
	default:
		return c32GenSize(rt, max)
	}
}

func c32GenSize(rt *rapid.T, max int) c32Size {
	switch rapid.IntRange(0, 9).Draw(rt, "sizeKind") {
	case 0:
		return c32Size{"abs", rapid.SampledFrom([]int{0, 0, 1, 1, 2, 3}).Draw(rt, "abs")}
	case 1, 2:
		return c32Size{"abs", rapid.IntRange(0, max/2+1).Draw(rt, "absSmall")}
	case 3, 4:
		return c32Size{"lim", rapid.IntRange(-4, 2).Draw(rt, "limK")}
	case 5, 6:
		return c32Size{"fill", rapid.IntRange(-3, 1).Draw(rt, "fillK")}
	case 7, 8:
		return c32Size{"fille", rapid.IntRange(-2, 1).Draw(rt, "filleK")}
	default:
		return c32Size{"abs", rapid.IntRange(0, max+2).Draw(rt, "absAny")}
	}
}

func c32Gen(rt *rapid.T) c32Case {
	var c c32Case
	c.Max = rapid.OneOf(
		rapid.SampledFrom([]int{16, 17, 100, 127, 128, 129, 130, 131, 255, 256, 4096}),
		rapid.IntRange(16, 4096),
	).Draw(rt, "max")
	switch rapid.IntRange(0, 2).Draw(rt, "consumer") {
	case 0:
		c.Drain = true
	case 1:
		c.Manual = true
	}
	if rapid.Bool().Draw(rt, "timerLive") {
		c.TimerMs = 1
	} else {
		c.TimerMs = c32Hour
	}
	nOps := rapid.IntRange(1, 14).Draw(rt, "nOps")
	if c.Manual {
		nOps = rapid.IntRange(3, 20).Draw(rt, "nOpsManual")
	}
	closeAt := -1
	if rapid.IntRange(0, 2).Draw(rt, "closeEarly") == 0 {
		closeAt = rapid.IntRange(0, nOps).Draw(rt, "closeAt")
	}
	sends := 0
	for i := 0; i < nOps; i++ {
		if i == closeAt {
			c.Ops = append(c.Ops, c32Op{Kind: "close"})
		}
		if c.Manual {
			switch k := rapid.IntRange(0, 19).Draw(rt, "opKindManual"); {
			case k == 0:
				c.Ops = append(c.Ops, c32Op{Kind: "wait"})
			case k <= 4:
				c.Ops = append(c.Ops, c32Op{Kind: "drain", N: rapid.SampledFrom([]int{0, 0, 1, 1, 2}).Draw(rt, "drainN")})
			default:
				c.Ops = append(c.Ops, c32Op{Kind: "send", Size: c32GenBigSize(rt, c.Max)})
				sends++
			}
			continue
		}
		switch rapid.IntRange(0, 11).Draw(rt, "opKind") {
		case 0:
			c.Ops = append(c.Ops, c32Op{Kind: "wait"})
		case 1:
			if closeAt >= 0 && i > closeAt {
				c.Ops = append(c.Ops, c32Op{Kind: "close"})
				continue
			}
			fallthrough
		default:
			c.Ops = append(c.Ops, c32Op{Kind: "send", Size: c32GenSize(rt, c.Max)})
			sends++
		}
	}
	if c.Manual {
		c.Cap = rapid.SampledFrom([]int{1, 1, 2, 2, 3, 8}).Draw(rt, "capManual")
	} else if rapid.IntRange(0, 3).Draw(rt, "capBig") == 0 {
		c.Cap = sends + 1
	} else {
		c.Cap = rapid.IntRange(1, 8).Draw(rt, "cap")
	}
	return c
}

const c32Rule = "op lists (1..14 of send(size) / wait 3 ms / close, close always last) against pubsub.MessageBuffer with maximum 16..4096, queue capacity 1..8 or sends+1, a real flush timer of 1 ms or 1 h, a consumer that empties Queue after every op, never before the end, or at generated `drain k` / `drain all` ops (then capacity 1..3 or 8, 3..20 ops, mostly batch-overflowing sizes); sizes are 0,1,small, max-4..max+2, sizes that exactly fill / overfill the pending batch by raw length and by encoded length; oracle: each batch <= max bytes and parses, emitted = accepted (no drop possible) / prefix (never read) / in-order duplicate-free subsequence (otherwise), Send after Close and of len > max fails, Send of a message whose batch entry fits succeeds; non-trivial = some emitted batch carries raw payload >= max-8; distinct by parameters and resolved sizes"

func TestC32(t *testing.T) {
	st := vstat.New(t, "C32", c32Rule)
	st.Assumption("a message 'accepted for sending' is one for which Send returned nil; Send calls are made from one goroutine in this stage (concurrent senders are covered by TestC32Conc)")
	st.Assumption("a drop is permitted only when Queue is full: with a consumer that never reads, fewer than `cap` batches at the end means nothing was dropped; with a consumer that empties Queue after every op, no drop is possible if the timer cannot fire or if cap >= accepted+1; with generated drain ops, no drop is possible if cap >= accepted+1, or if the timer cannot fire and Queue was never full right before a Send/Close (one flush per Send/Close)")
	rapid.Check(t, func(rt *rapid.T) {
		c := c32Gen(rt)
		inconclusive := false
		vstat.Run(rt, st, c, func() error {
			err := c32Run(c, st)
			if errors.Is(err, errC32Inconclusive) {
				inconclusive = true
				return nil
			}
			return err
		})
		if inconclusive {
			st.Label("inconclusive-timeout")
			rt.Log("INCONCLUSIVE: an operation did not return in time")
			rt.SkipNow()
		}
	})
}

func TestC32Replay(t *testing.T) {
	vstat.Replay(t, "C32", func(raw []byte) error {
		var probe struct {
			Conc bool `json:"conc"`
			Srv  bool `json:"srv"`
		}
		if err := json.Unmarshal(raw, &probe); err != nil {
			return err
		}
		if probe.Srv {
			var sc c32SrvCase
			if err := json.Unmarshal(raw, &sc); err != nil {
				return err
			}
			err := c32SrvRun(sc, vstat.New(nil, "C32", ""))
			if errors.Is(err, errC32SrvInconclusive) {
				fmt.Println("INCONCLUSIVE: server-level case did not settle in time (not a verdict)")
				return nil
			}
			return err
		}
		if probe.Conc {
			var cc c32ConcCase
			if err := json.Unmarshal(raw, &cc); err != nil {
				return err
			}
			return c32NotInconclusive(c32ConcRun(cc, vstat.New(nil, "C32", "")))
		}
		var c c32Case
		if err := json.Unmarshal(raw, &c); err != nil {
			return err
		}
		return c32NotInconclusive(c32Run(c, vstat.New(nil, "C32", "")))
	})
}

func c32NotInconclusive(err error) error {
	if errors.Is(err, errC32Inconclusive) {
		fmt.Println("INCONCLUSIVE: an operation did not return in time (not a verdict)")
		return nil
	}
	return err
}

// ---------------------------------------------------------------- concurrent senders

// c32ConcCase: several goroutines Send concurrently (as Server.Publish callers
// do) while the timer fires, a consumer goroutine reads eagerly and Close comes
// after a generated number of sends. The queue has room for every batch, so
// every accepted message must come out exactly once, and per sender in order.
type c32ConcCase struct {
	Conc       bool    `json:"conc"`
	Max        int     `json:"max"`
	Senders    [][]int `json:"senders"` // per sender: payload sizes (>= 3, first bytes identify sender and sequence)
	CloseAfter int     `json:"close_after"`
}

func c32ConcRun(c c32ConcCase, st *vstat.Stats) error {
	total := 0
	for _, s := range c.Senders {
		total += len(s)
	}
	mb := pubsub.NewMessageBuffer(&logging.NoLog{}, total+2, c.Max, time.Millisecond)
	var (
		sent      atomic.Int64
		closeOnce sync.Once
		wg        sync.WaitGroup
		accepted  = make([][]int, len(c.Senders)) // per sender: accepted sequence numbers
		mu        sync.Mutex
		firstErr  error
	)
	doClose := func() { closeOnce.Do(func() { _ = mb.Close() }) }
	var batches [][]byte
	consumerDone := make(chan struct{})
	go func() {
		defer close(consumerDone)
		for b := range mb.Queue {
			batches = append(batches, b)
		}
	}()
	for si, sizes := range c.Senders {
		wg.Add(1)
		go func() {
			defer wg.Done()
			for seq, size := range sizes {
				msg := make([]byte, size)
				msg[0], msg[1], msg[2] = byte(si), byte(seq), byte(seq>>8)
				err := mb.Send(msg)
				if err == nil {
					accepted[si] = append(accepted[si], seq)
				}
				if err == nil && size > c.Max {
					mu.Lock()
					if firstErr == nil {
						firstErr = fmt.Errorf("sender %d: Send of %d bytes succeeded with maximum %d", si, size, c.Max)
					}
					mu.Unlock()
				}
				if int(sent.Add(1)) == c.CloseAfter {
					doClose()
				}
			}
		}()
	}
	allDone := make(chan struct{})
	go func() {
		wg.Wait()
		doClose()
		<-consumerDone
		close(allDone)
	}()
	select {
	case <-allDone:
	case <-time.After(3 * time.Second):
		prev := false
		for waited := time.Duration(0); ; waited += time.Second {
			select {
			case <-allDone:
			case <-time.After(time.Second):
				d, ev := c32DeadlockEvidence(mb)
				if d && prev {
					return c32HangError(st, "concurrent senders", true, ev)
				}
				prev = d
				if waited > c32CloseWait {
					return c32HangError(st, "concurrent senders", false, "")
				}
				continue
			}
			break
		}
	}
	if firstErr != nil {
		return firstErr
	}
	got := make([][]int, len(c.Senders))
	near := false
	for bi, b := range batches {
		msgs, err := pubsub.ParseBatchMessage(b)
		if err != nil {
			return fmt.Errorf("batch %d (%d bytes) does not parse: %v", bi, len(b), err)
		}
		if len(b) > c.Max {
			return fmt.Errorf("batch %d encodes to %d bytes, maximum %d (message sizes %v)", bi, len(b), c.Max, c32Lens(msgs))
		}
		if len(b) >= c.Max-8 {
			near = true
		}
		for _, m := range msgs {
			if len(m) < 3 || int(m[0]) >= len(c.Senders) {
				return fmt.Errorf("batch %d carries a message nobody sent (len %d)", bi, len(m))
			}
			si, seq := int(m[0]), int(m[1])|int(m[2])<<8
			if seq >= len(c.Senders[si]) || len(m) != c.Senders[si][seq] {
				return fmt.Errorf("batch %d carries a corrupted message of sender %d seq %d (len %d)", bi, si, seq, len(m))
			}
			got[si] = append(got[si], seq)
		}
	}
	nAcc := 0
	for si := range c.Senders {
		nAcc += len(accepted[si])
		if fmt.Sprint(got[si]) != fmt.Sprint(accepted[si]) {
			return fmt.Errorf("sender %d: accepted sequence numbers %v, emitted %v (queue capacity %d cannot fill up)", si, accepted[si], got[si], total+2)
		}
	}
	canon, _ := json.Marshal(c)
	lbls := []string{"conc-senders"}
	if near {
		lbls = append(lbls, "batch-near-limit")
	}
	if nAcc < total {
		lbls = append(lbls, "conc-some-send-not-accepted")
	}
	st.Case(near, string(canon), lbls...)
	st.Sample(near, map[string]any{"mode": "concurrent senders", "max": c.Max, "senders": len(c.Senders), "sent": total, "accepted": nAcc, "batches": len(batches)})
	return nil
}

func c32ConcGen(rt *rapid.T) c32ConcCase {
	c := c32ConcCase{Conc: true}
	c.Max = rapid.SampledFrom([]int{16, 64, 100, 128, 131, 300, 1024}).Draw(rt, "max")
	n := rapid.IntRange(2, 4).Draw(rt, "senders")
	total := 0
	size := rapid.OneOf(
		rapid.IntRange(3, 8),
		rapid.IntRange(3, c.Max/2+3),
		rapid.IntRange(max(3, c.Max-6), c.Max+1),
	)
	for i := 0; i < n; i++ {
		s := rapid.SliceOfN(size, 1, 12).Draw(rt, "sizes")
		total += len(s)
		c.Senders = append(c.Senders, s)
	}
	c.CloseAfter = rapid.IntRange(1, 3*total).Draw(rt, "closeAfter")
	return c
}

func TestC32Conc(t *testing.T) {
	st := vstat.New(t, "C32", "concurrent mode under the race detector: 2..4 goroutines Send 1..12 tagged messages each (sizes 3..max+1) while the 1 ms timer fires, a consumer goroutine reads eagerly, Close after a generated number of sends; queue capacity = sends+2 so no drop is possible; oracle: each batch <= max and parses, per sender the emitted sequence numbers equal the accepted ones in order; non-trivial = some batch within 8 bytes of the maximum")
	rapid.Check(t, func(rt *rapid.T) {
		c := c32ConcGen(rt)
		inconclusive := false
		vstat.Run(rt, st, c, func() error {
			err := c32ConcRun(c, st)
			if errors.Is(err, errC32Inconclusive) {
				inconclusive = true
				return nil
			}
			return err
		})
		if inconclusive {
			st.Label("inconclusive-timeout")
			rt.Log("INCONCLUSIVE: an operation did not return in time")
			rt.SkipNow()
		}
	})
}
