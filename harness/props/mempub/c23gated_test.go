package mempub

import (
	"context"
	"errors"
	"fmt"
	"testing"
	"time"

	"go.opentelemetry.io/otel/attribute"
	oteltrace "go.opentelemetry.io/otel/trace"
	"go.opentelemetry.io/otel/trace/noop"
	"pgregory.net/rapid"

	"github.com/ava-labs/hypersdk/verifharness/vstat"
)

// C23, gated concurrent stage. The mempool takes a trace.Tracer; a tracer test
// double is a schedule-control point that needs no hook in /repo: every call
// made with a context that carries a gate parks at its span start and at every
// span.SetAttributes until the schedule lets it go on. All of these points are
// outside the mempool lock (span.End is deferred before the lock is taken, so it
// runs after the unlock), hence a released call always reaches its next gate or
// returns, and the harness runs exactly one goroutine at a time.

const c23MaxEarly = 3

var errC23GateTimeout = errors.New("INCONCLUSIVE: a gated call neither parked nor returned in time")

type c23GateKey struct{}

type c23Gate struct {
	parked  chan string
	release chan struct{}
	done    chan struct{}
	abort   chan struct{}
}

func newC23Gate(abort chan struct{}) *c23Gate {
	return &c23Gate{parked: make(chan string), release: make(chan struct{}), done: make(chan struct{}), abort: abort}
}

// arrive is called on the call's goroutine.
func (g *c23Gate) arrive(point string) {
	select {
	case g.parked <- point:
	case <-g.abort:
		return
	}
	select {
	case <-g.release:
	case <-g.abort:
	}
}

// waitParked waits until the call is parked at a gate (or has returned).
func (g *c23Gate) waitParked() (finished bool, err error) {
	select {
	case <-g.parked:
		return false, nil
	case <-g.done:
		return true, nil
	case <-time.After(120 * time.Second):
		return false, errC23GateTimeout
	}
}

// step releases the parked call and waits until it parks again or returns.
func (g *c23Gate) step() (finished bool, err error) {
	select {
	case g.release <- struct{}{}:
	case <-g.done:
		return true, nil
	case <-time.After(120 * time.Second):
		return false, errC23GateTimeout
	}
	return g.waitParked()
}

type c23Pending struct {
	f          func(ctx context.Context)
	gate       *c23Gate
	atAttr     bool
	restorable []int
	topFn      func(context.Context, *mpItem) (bool, bool, error)
	// results
	items []*mpItem
	item  *mpItem
	ok    bool
	err   error
}

func c23GateErr(op string, err error) error {
	if errors.Is(err, errC23GateTimeout) {
		return err
	}
	return fmt.Errorf("%s: %w", op, err)
}

type c23GateTracer struct{ noop.Tracer }

func (c23GateTracer) Close() error { return nil }

func (c23GateTracer) Start(ctx context.Context, name string, _ ...oteltrace.SpanStartOption) (context.Context, oteltrace.Span) {
	g, _ := ctx.Value(c23GateKey{}).(*c23Gate)
	if g != nil {
		g.arrive("start " + name)
	}
	return ctx, c23GateSpan{g: g}
}

type c23GateSpan struct {
	noop.Span
	g *c23Gate
}

func (s c23GateSpan) SetAttributes(...attribute.KeyValue) {
	if s.g != nil {
		s.g.arrive("attributes")
	}
}

func c23GatedGen(rt *rapid.T) c23Case {
	c := c23Gen(rt)
	if rapid.IntRange(0, 2).Draw(rt, "builderTail") == 0 {
		// bias: end with the builder-style pair (start is skipped if a stream is open)
		c.Ops = append(c.Ops,
			c23Op{Kind: "start"},
			c23Op{Kind: "prepare", N: rapid.IntRange(1, 2).Draw(rt, "tailPrepareN")},
			c23Op{Kind: "finish"})
	}
	for i := range c.Ops {
		op := &c.Ops[i]
		switch op.Kind {
		case "start", "peek":
			continue
		}
		if rapid.IntRange(0, 2).Draw(rt, "early") != 0 {
			op.Early = rapid.IntRange(1, c23MaxEarly).Draw(rt, "earlyBy")
		}
		if op.Kind == "finish" && op.Early > 0 && rapid.IntRange(0, 3).Draw(rt, "enterEarly") != 0 {
			op.EarlyAttr = rapid.IntRange(1, op.Early).Draw(rt, "enterEarlyBy")
		}
		// the builder-style pair: a PrepareStream shortly before a FinishStreaming
		if op.Kind == "finish" {
			for d := 1; d <= c23MaxEarly && i-d >= 0; d++ {
				if c.Ops[i-d].Kind == "prepare" && rapid.IntRange(0, 3).Draw(rt, "overlapPrepare") != 0 {
					op.Early, op.EarlyAttr = max(op.Early, d), max(op.EarlyAttr, d)
					break
				}
			}
		}
	}
	return c
}

const c23GatedRule = "gated concurrent stage: the op lists of TestC23, each mutating call on its own goroutine parked by a tracer test double at its span start (FinishStreaming also at SetAttributes); a call is started 0..3 ops before its position and FinishStreaming is let run up to its last gate before the lock 0..3 ops early, so that later-started calls (PrepareStream, Stream, Add, ...) run to completion while it is parked; one goroutine runs at a time, the op list order is the linearisation, and the sequential model with all its per-op comparisons is the oracle; in-stream calls are never started before the StartStreaming of their stream returned; non-trivial = a PrepareStream ran to completion while a FinishStreaming was parked between its entry and the lock"

func TestC23Gated(t *testing.T) {
	st := vstat.New(t, "C23", c23GatedRule)
	st.Assumption("gated stage: chain/builder.go never lets PrepareStream overlap FinishStreaming (FinishStreaming is called only after prepareStreamLock is acquired, which the PrepareStream goroutine holds until it returns); the overlap is explored because the property quantifies over concurrent prepare/stream/finish calls. Only overlaps whose lock order is a legal sequential history are produced (PrepareStream takes the lock before the overlapping FinishStreaming does); the opposite order is a PrepareStream outside a stream, a caller error")
	rapid.Check(t, func(rt *rapid.T) {
		c := c23GatedGen(rt)
		inconclusive := false
		vstat.Run(rt, st, c, func() error {
			err := c23RunMode(c, st, true)
			if errors.Is(err, errC23GateTimeout) {
				inconclusive = true
				return nil
			}
			return err
		})
		if inconclusive {
			st.Label("gated-inconclusive-timeout")
			rt.Log("INCONCLUSIVE: a gated call neither parked nor returned within 120 s")
			rt.SkipNow()
		}
	})
}
