package snowlife

import (
	"encoding/json"
	"fmt"
	"runtime"
	"sort"
	"strings"
	"testing"
	"time"

	"github.com/ava-labs/avalanchego/ids"
	"pgregory.net/rapid"

	"github.com/ava-labs/hypersdk/verifharness/vstat"
)

// C21: dynamic state sync hands over to normal operation consistently.

// findingF20: StatefulBlock.Reject is not serialised with FinishStateSync. A processing block
// rejected while the hand-over re-verifies its snapshot of the processing set is either missed
// by the unresolved-block health check's subscription (registered only afterwards) and stays
// "unresolved" forever, or makes FinishStateSync fail because a child no longer finds it.
const findingF20 = "C21-reject-races-finish"

// findingF31: rejection is transitive but one Reject call at a time. A hand-over that runs
// between Reject(parent) and Reject(child) finds the child in the processing set, cannot fetch
// its (rejected, hence forgotten) parent and FinishStateSync fails: the node never becomes ready.
const findingF31 = "C21-finish-between-rejections"

type c21Case struct {
	ParsedW   int  `json:"parsedW"`
	AcceptedW int  `json:"acceptedW"`
	InitReady bool `json:"initReady"` // the node had a valid (old) state when it decided to sync
	TargetH   int  `json:"targetH"`   // height of the first sync target on the canonical chain (0 = genesis)
	Sync      []op `json:"sync"`      // engine ops while the state is not ready
	FinishSel int  `json:"finishSel"` // which accepted height the syncer finishes on (0 = tip, 1 = tip-1, ...)
	// RaceAt > 0: the last sync op is an accept whose sibling rejections are still pending when the
	// syncer finishes; the engine performs them while FinishStateSync is inside its RaceAt-th
	// VerifyBlock callback (Reject does not take the chain lock, and the syncer does not hold the
	// engine's context lock, so this interleaving exists).
	RaceAt int `json:"raceAt,omitempty"`
	// Park > 0: the syncer calls FinishStateSync while the engine is parked inside a call that
	// holds the chain lock: 1 = inside the last sync Accept (in the pre-ready accepted
	// subscriber, before the new tip is published), 2 = inside the first sibling rejection owed
	// for that accept (in the pre-rejected subscriber). The engine call only continues once the
	// syncer's goroutine is seen waiting on the lock (goroutine dump), then both run to the end.
	Park int `json:"park,omitempty"`
	Post   []op `json:"post"` // engine ops in normal operation
}

func c21SyncOpGen() *rapid.Generator[op] {
	return rapid.Custom(func(rt *rapid.T) op {
		switch k := rapid.IntRange(0, 99).Draw(rt, "kind"); {
		case k < 34:
			return op{K: "pv", A: recencyGen.Draw(rt, "parent")}
		case k < 52:
			return op{K: "pv", A: recencyGen.Draw(rt, "parent"), Inv: true}
		case k < 62:
			return op{K: "pref", A: recencyGen.Draw(rt, "pref")}
		case k < 80:
			return op{K: "accP", A: rapid.SampledFrom([]int{0, 1, 1, 2}).Draw(rt, "n")}
		case k < 90:
			return op{K: "accB", A: recencyGen.Draw(rt, "branch"), B: rapid.SampledFrom([]int{0, 1, 1, 2}).Draw(rt, "n")}
		case k < 97:
			return op{K: "pk", A: rapid.IntRange(0, 12).Draw(rt, "known")}
		default:
			return op{K: "future"}
		}
	})
}

func c21PostOpGen() *rapid.Generator[op] {
	return rapid.Custom(func(rt *rapid.T) op {
		switch k := rapid.IntRange(0, 99).Draw(rt, "kind"); {
		case k < 18:
			return op{K: "pv", A: recencyGen.Draw(rt, "parent")}
		case k < 24:
			return op{K: "pv", A: recencyGen.Draw(rt, "parent"), Inv: true}
		case k < 31:
			return op{K: "build", A: rapid.SampledFrom([]int{0, 0, 1}).Draw(rt, "ctx")}
		case k < 40:
			return op{K: "pref", A: recencyGen.Draw(rt, "pref")}
		case k < 51:
			return op{K: "accP", A: rapid.SampledFrom([]int{0, 1, 1, 2}).Draw(rt, "n")}
		case k < 60:
			return op{K: "accB", A: recencyGen.Draw(rt, "branch"), B: rapid.SampledFrom([]int{0, 1, 1, 2}).Draw(rt, "n")}
		case k < 64:
			return op{K: "pk", A: rapid.IntRange(0, 12).Draw(rt, "known")}
		case k < 78:
			return op{K: "accInv", A: recencyGen.Draw(rt, "which")}
		case k < 83:
			return op{K: "finish2", A: rapid.IntRange(0, 1).Draw(rt, "same")}
		case k < 90:
			return op{K: "sweepacc"}
		case k < 93:
			return op{K: "hold"}
		case k < 96:
			return op{K: "release"}
		default:
			return op{K: "drain"}
		}
	})
}

func c21Gen(rt *rapid.T) c21Case {
	c := c21Case{
		ParsedW:   rapid.IntRange(1, 3).Draw(rt, "parsedW"),
		AcceptedW: rapid.IntRange(1, 3).Draw(rt, "acceptedW"),
		InitReady: rapid.Bool().Draw(rt, "initReady"),
		TargetH:   rapid.SampledFrom([]int{0, 0, 1, 1, 2, 3}).Draw(rt, "targetH"),
		FinishSel: rapid.SampledFrom([]int{0, 0, 1, 1, 2, 3, 5}).Draw(rt, "finishSel"),
	}
	ns := rapid.SampledFrom([]int{0, 1, 2, 4, 6, 8, 12, 16, 20}).Draw(rt, "nsync")
	c.Sync = rapid.SliceOfN(c21SyncOpGen(), ns, ns).Draw(rt, "sync")
	if mode := rapid.IntRange(0, 11).Draw(rt, "schedule") - 2; mode >= 4 {
		// the syncer finishes while the engine is parked inside the last accept or inside
		// the first sibling rejection owed for it
		c.Park = 1
		if mode >= 7 {
			c.Park = 2
		}
		if rapid.Bool().Draw(rt, "parkBranch") {
			c.Sync = append(c.Sync, op{K: "accB", A: recencyGen.Draw(rt, "branch"), B: 1})
		} else {
			c.Sync = append(c.Sync, op{K: "accP", A: 1})
		}
	} else if mode >= 1 {
		// the engine's last action before the syncer finishes is an accept (of one block) whose
		// sibling rejections are still owed
		c.RaceAt = rapid.IntRange(1, 4).Draw(rt, "raceAt")
		if rapid.Bool().Draw(rt, "raceBranch") {
			c.Sync = append(c.Sync, op{K: "accB", A: recencyGen.Draw(rt, "branch"), B: 1})
		} else {
			c.Sync = append(c.Sync, op{K: "accP", A: 1})
		}
	}
	np := rapid.SampledFrom([]int{0, 1, 2, 4, 6, 8, 12, 16}).Draw(rt, "npost")
	c.Post = rapid.SliceOfN(c21PostOpGen(), np, np).Draw(rt, "post")
	return c
}

// startSync: the syncer picks the canonical block at height targetH as its first target.
func (e *eng) startSync(targetH int) error {
	g := e.blocks[e.last]
	cur := g.b
	for h := 1; h <= targetH; h++ {
		b := newBlk(cur.id, cur.Hght+1, cur.Tm+1, 1_000_000+uint64(h), false, 0)
		m := e.learn(b, nil, false)
		m.st = sAccepted // accepted by the network; this node never sees the ones below the target
		cur = b
	}
	if err := e.vm.StartStateSync(e.ctx, cur); err != nil {
		return fmt.Errorf("StartStateSync(%s) failed: %w", cur, err)
	}
	e.ready = false
	for _, m := range e.blocks {
		m.verified = false
	}
	switch targetH {
	case 0:
	case 1:
		e.chain = append(e.chain, cur.id)
	default:
		e.chain, e.baseH = []ids.ID{cur.id}, cur.Hght
	}
	e.last, e.pref = cur.id, cur.id
	e.blocks[cur.id].h = e.vm.LastAcceptedBlock(e.ctx)
	if err := e.setPref(cur.id); err != nil {
		return err
	}
	s := e.rec.snap()
	e.curIdx = len(s.idxUpds)
	if _, err := e.checkVerCalls(s, map[ids.ID]bool{}, "StartStateSync"); err != nil {
		return err
	}
	return e.checkAccepts(s, false)
}

// finish: the syncer hands over the state of the accepted block `sel` heights below the tip.
// pending are rejections the engine still owes for its last accept; they are performed from
// inside FinishStateSync's raceAt-th VerifyBlock callback (or right after it returned).
// parkedFinish is a FinishStateSync started by the syncer's goroutine while the engine thread was
// parked inside Accept / Reject.
type parkedFinish struct {
	tIdx int
	done chan error
	err  error // inconclusive: the goroutine was never seen waiting
}

// syncerWaitsOnChainLock: positive evidence from a goroutine dump that the syncer's goroutine is
// inside FinishStateSync and inside the mutex Lock call (so whatever it reads before taking the
// lock has been read).
func syncerWaitsOnChainLock() bool {
	buf := make([]byte, 1<<20)
	n := runtime.Stack(buf, true)
	for _, g := range strings.Split(string(buf[:n]), "\n\n") {
		if strings.Contains(g, ").FinishStateSync(") && strings.Contains(g, "sync.(*Mutex).Lock") {
			return true
		}
	}
	return false
}

// launchParked runs on the engine thread from inside a subscriber (chain lock held by the
// engine call in flight). The syncer finishes on the accepted block sel below the tip it knows.
func (e *eng) launchParked(sel int) *parkedFinish {
	n := len(e.chain)
	tIdx := n - 1 - sel%n
	tID := e.chain[tIdx]
	tb := e.blocks[tID].b
	o := &out{blk: tb, Digest: e.D[tID], Src: "sync"}
	a := &acc{out: o, AccDigest: e.AD[tID]}
	pf := &parkedFinish{tIdx: tIdx, done: make(chan error, 1)}
	vm, ctx := e.vm, e.ctx
	e.ch.onVerify = func(_ *out, _ *blk) (bool, error) {
		_, herr := vm.HealthCheck(ctx)
		return true, herr
	}
	go func() { pf.done <- vm.FinishStateSync(ctx, tb, o, a) }()
	deadline := time.Now().Add(awaitBound)
	for !syncerWaitsOnChainLock() {
		select {
		case err := <-pf.done: // it did not have to wait (the engine call holds no lock): also a valid schedule
			pf.done <- err
			return pf
		default:
		}
		if time.Now().After(deadline) {
			pf.err = errInconclusive{"the syncer's goroutine was never seen waiting on the chain lock"}
			return pf
		}
		time.Sleep(50 * time.Microsecond)
	}
	return pf
}

func (e *eng) finish(sel int, pending []ids.ID, raceAt int, pf *parkedFinish) error {
	// lowest height h such that the node holds every accepted block in [h, tip]
	n := len(e.chain)
	k := sel % n
	if pf != nil {
		k, raceAt = n-1-pf.tIdx, 0
	}
	tIdx := n - 1 - k
	tID := e.chain[tIdx]
	tb := e.blocks[tID].b
	o := &out{blk: tb, Digest: e.D[tID], Src: "sync"}
	a := &acc{out: o, AccDigest: e.AD[tID]}
	if k == 0 {
		e.label("finish-at-tip")
	} else {
		e.label("finish-behind-tip")
	}

	// model of the hand-over: everything above the target is executed and accepted in order ...
	e.expAcc = append([]ids.ID(nil), e.chain[tIdx+1:]...)
	// ... and the engine's pending rejections may land anywhere relative to the re-verification
	pendSet := map[ids.ID]bool{}
	var markPending func(id ids.ID)
	markPending = func(id ids.ID) {
		pendSet[id] = true
		for _, c := range e.blocks[id].children {
			if e.blocks[c].st == sProcessing {
				markPending(c)
			}
		}
	}
	for _, id := range pending {
		markPending(id)
	}
	anyInvalid := false
	for _, id := range e.processing {
		if !pendSet[id] && e.blocks[id].b.Invalid {
			anyInvalid = true
		}
	}

	// number of VerifyBlock callbacks the hand-over will make (re-execution + re-verification)
	if raceAt > 0 {
		expect := len(e.expAcc)
		ver := map[ids.ID]bool{}
		byH := append([]ids.ID(nil), e.processing...)
		sort.SliceStable(byH, func(i, j int) bool { return e.blocks[byH[i]].b.Hght < e.blocks[byH[j]].b.Hght })
		for _, id := range byH {
			m := e.blocks[id]
			if pendSet[id] {
				continue
			}
			pv := m.b.Prnt == e.last || ver[m.b.Prnt]
			if pv {
				expect++
			}
			ver[id] = pv && !m.b.Invalid
		}
		if expect > 0 {
			raceAt = 1 + (raceAt-1)%expect
		}
	}
	nCalls, raced := 0, false
	order := e.rejectOrder(pending)
	handles := make([]*sblk, len(order))
	for i, id := range order {
		handles[i] = e.blocks[id].h
	}
	raceDone := make(chan struct{})
	var raceErr error
	hook := func(_ *out, _ *blk) (bool, error) {
		nCalls++
		if raceAt > 0 && nCalls == raceAt && !raced && len(order) > 0 {
			// the engine thread, between its Accept and the sibling rejections, gets to run now.
			// It runs on its own goroutine: if the wrapper serialises Reject with the hand-over
			// it simply blocks until FinishStateSync returns.
			raced = true
			go func() {
				defer close(raceDone)
				for _, h := range handles {
					if err := h.Reject(e.ctx); err != nil && raceErr == nil {
						raceErr = fmt.Errorf("Reject(%s) failed: %w", h, err)
					}
				}
			}()
			select {
			case <-raceDone:
			case <-time.After(25 * time.Millisecond):
			}
		}
		_, herr := e.vm.HealthCheck(e.ctx)
		return true, herr
	}
	if pf == nil {
		e.ch.onVerify = hook
	}
	var ferr error
	if pf != nil {
		if pf.err != nil {
			return pf.err
		}
		select {
		case ferr = <-pf.done:
		case <-time.After(awaitBound):
			return errInconclusive{"the parked FinishStateSync did not return"}
		}
	} else {
		ferr = e.vm.FinishStateSync(e.ctx, tb, o, a)
	}
	e.ch.onVerify = nil
	if raced {
		select {
		case <-raceDone:
		case <-time.After(awaitBound):
			return errInconclusive{"the engine's pending rejections did not return"}
		}
		if raceErr != nil {
			return raceErr
		}
		for _, id := range order {
			e.markRejected(id)
		}
		e.label("reject-raced-with-finish")
	}
	if ferr != nil {
		return fmt.Errorf("FinishStateSync(%s) failed: %w", tb, ferr)
	}
	e.ready, e.finished = true, true
	for _, id := range e.chain[tIdx:] {
		e.blocks[id].verified = true
	}

	// 1. last accepted state = state of a node that executed the chain
	la, err := e.ch.ci.GetLastAccepted(e.ctx)
	if err != nil {
		return fmt.Errorf("after FinishStateSync ConsensusIndex.GetLastAccepted failed: %w", err)
	}
	if la == nil || la.out == nil || la.blk == nil || la.id != e.last {
		return fmt.Errorf("after FinishStateSync(%s) GetLastAccepted = %s, engine's last accepted block is %s", tb, la, e.blocks[e.last].b)
	}
	if la.Digest != e.D[e.last] || la.AccDigest != e.AD[e.last] {
		return fmt.Errorf("after FinishStateSync(%s) the last accepted state %s is not the state of a node that executed the chain (want d=%s a=%s)", tb, la, e.D[e.last], e.AD[e.last])
	}

	// 2. trace: target+1..tip executed and accepted once each in order, then the processing blocks
	s := e.rec.snap()
	calls, err := e.checkVerCalls(s, nil, "FinishStateSync")
	if err != nil {
		return err
	}
	if err := e.checkAccepts(s, true); err != nil {
		return fmt.Errorf("FinishStateSync(%s): %w", tb, err)
	}
	if len(calls) < len(e.expAcc) {
		return fmt.Errorf("FinishStateSync(%s): %d blocks above the target, only %d VerifyBlock calls", tb, len(e.expAcc), len(calls))
	}
	for i, id := range e.expAcc {
		if calls[i].b.id != id || !calls[i].ok {
			return fmt.Errorf("FinishStateSync(%s): re-execution #%d verified %s (ok=%t), accepted chain has %s", tb, i, calls[i].b, calls[i].ok, e.blocks[id].b)
		}
	}
	for _, n := range s.nVer[e.curNVer:] {
		if n != nil && n.blk != nil {
			e.nVerCount[n.id]++
		}
	}
	e.curNVer = len(s.nVer)

	// 3. every still-processing block is re-verified against its parent's output: the ones
	// whose whole processing ancestry is valid end verified, the others do not.
	procCalls := map[ids.ID]int{}
	for _, c := range calls[len(e.expAcc):] {
		procCalls[c.b.id]++
	}
	still := append([]ids.ID(nil), e.processing...)
	sort.SliceStable(still, func(i, j int) bool { return e.blocks[still[i]].b.Hght < e.blocks[still[j]].b.Hght })
	for _, id := range still {
		m := e.blocks[id]
		if pendSet[id] {
			// conflicts with the accepted chain and is rejected right below: nothing is demanded
			// of it except that it is not re-verified more than once
			if procCalls[id] > 1 {
				return fmt.Errorf("FinishStateSync(%s): %s was re-verified %d times", tb, m.b, procCalls[id])
			}
			delete(procCalls, id)
			m.verified = false
			e.doomed[id] = true
			continue
		}
		pv := e.blocks[m.b.Prnt].verified
		m.verified = pv && !m.b.Invalid
		if !m.verified {
			e.unresolved[id] = true
			if !m.b.Invalid {
				e.label("inherited-invalid")
			}
		}
		want := 0
		if pv {
			want = 1
		}
		if procCalls[id] != want {
			return fmt.Errorf("FinishStateSync(%s): processing block %s (parent verified=%t) was re-verified %d times, want %d", tb, m.b, pv, procCalls[id], want)
		}
		delete(procCalls, id)
	}
	for id, n := range procCalls {
		m := e.blocks[id]
		if m != nil && pendSet[id] && n == 1 {
			continue // rejected while the hand-over ran: re-verifying it first is harmless
		}
		return fmt.Errorf("FinishStateSync(%s): re-verified %v %d times, which is not a processing block", tb, m.b, n)
	}
	if len(e.unresolved) > 0 {
		e.label("unresolved-at-finish")
		if k > 0 {
			e.label("NT-behind-tip-with-invalid")
		}
	}
	// in-callback health probes: while a block that cannot pass re-verification is waiting
	// (not rejected), the node must not call itself healthy
	if anyInvalid {
		for _, c := range calls {
			if c.probed && c.health == nil {
				return fmt.Errorf("FinishStateSync(%s): HealthCheck was healthy while the hand-over was still re-verifying (at VerifyBlock(%s)) with an invalid processing block outstanding", tb, c.b)
			}
		}
	}
	if !raced {
		for _, id := range pending {
			if e.blocks[id].st == sProcessing {
				if err := e.reject(id); err != nil {
					return err
				}
			}
		}
	}
	// observable verified status of every processing block
	if err := e.probeVerified(); err != nil {
		return err
	}
	// 4. health
	return e.checkHealth(fmt.Sprintf("after FinishStateSync(%s)", tb))
}

// probeVerified reads the verified status of every processing block through the documented
// behaviour of ConsensusIndex.GetPreferredBlock (errors iff the preference is not verified).
func (e *eng) probeVerified() error {
	old := e.pref
	for _, id := range e.processing {
		m := e.blocks[id]
		if err := e.vm.SetPreference(e.ctx, id); err != nil {
			return err
		}
		o, err := e.ch.ci.GetPreferredBlock(e.ctx)
		switch {
		case m.verified && err != nil:
			return fmt.Errorf("processing block %s is valid on a valid ancestry but is not verified after the hand-over: %w", m.b, err)
		case m.verified && (o == nil || o.blk == nil || o.id != id || o.Digest != e.D[id]):
			return fmt.Errorf("processing block %s was re-verified to %s, want digest %s", m.b, o, e.D[id])
		case !m.verified && err == nil:
			return fmt.Errorf("processing block %s (invalid or on an invalid ancestry) counts as verified after the hand-over: %s", m.b, o)
		}
	}
	return e.vm.SetPreference(e.ctx, old)
}

// stepPost: the ops that only exist after the hand-over.
func (e *eng) stepPost(o op, c c21Case) (bool, error) {
	switch o.K {
	case "accInv":
		var cands []ids.ID
		for _, id := range e.processing {
			if e.unresolved[id] && e.blocks[id].b.Prnt == e.last {
				cands = append(cands, id)
			}
		}
		if len(cands) == 0 {
			// any block that failed re-verification: the refusal comes before anything else
			for _, id := range e.processing {
				if e.unresolved[id] {
					cands = append(cands, id)
				}
			}
		}
		if len(cands) == 0 {
			return true, nil
		}
		m := e.blocks[pickRecent(cands, o.A)]
		if err := m.h.Accept(e.ctx); err == nil {
			return false, fmt.Errorf("Accept(%s) succeeded in normal operation on a block that failed re-verification", m.b)
		}
		e.label("accept-unverified-refused")
		return false, nil
	case "finish2":
		id := e.last
		if o.A == 1 {
			id = e.chain[0]
		}
		b := e.blocks[id].b
		oo := &out{blk: b, Digest: e.D[id], Src: "sync"}
		if err := e.vm.FinishStateSync(e.ctx, b, oo, &acc{out: oo, AccDigest: e.AD[id]}); err == nil {
			return false, fmt.Errorf("second FinishStateSync(%s) succeeded", b)
		}
		e.label("finish-twice-refused")
		return false, nil
	case "sweepacc":
		if !e.blocks[e.last].verified {
			return true, nil
		}
		m, err := e.parseNew(e.last, false)
		if err != nil {
			return false, err
		}
		if err := e.verify(m, 0); err != nil {
			return false, err
		}
		if m.st != sProcessing {
			return true, nil
		}
		if err := e.acceptPath([]ids.ID{m.b.id}); err != nil {
			return false, err
		}
		return false, e.setPref(e.last)
	}
	return e.step(o)
}

func c21Run(c c21Case, st *vstat.Stats) error {
	if c.ParsedW < 1 || c.AcceptedW < 1 || c.TargetH < 0 || c.TargetH > 8 || c.FinishSel < 0 {
		return fmt.Errorf("harness: malformed case")
	}
	e, err := newEngine(st, c.ParsedW, c.AcceptedW, c.InitReady, true)
	if err != nil {
		return err
	}
	defer e.shutdown()
	nt := false
	record := func() {
		canon := fmt.Sprintf("%d/%d r=%t t=%d f=%d race=%d park=%d | %s | %s", c.ParsedW, c.AcceptedW, c.InitReady, c.TargetH, c.FinishSel, c.RaceAt, c.Park, renderOps(c.Sync), renderOps(c.Post))
		ls := sortedLabels(e.labels)
		if e.healthSeen.healthy {
			ls = append(ls, "unhealthy-then-resolved")
		}
		if c.InitReady {
			ls = append(ls, "init-ready")
		}
		st.Case(nt, canon, ls...)
		st.Sample(nt, map[string]any{"cfg": fmt.Sprintf("w=%d/%d ready=%t target=%d finishSel=%d raceAt=%d park=%d", c.ParsedW, c.AcceptedW, c.InitReady, c.TargetH, c.FinishSel, c.RaceAt, c.Park),
			"sync": renderOps(c.Sync), "post": renderOps(c.Post), "labels": ls})
	}
	defer record()

	if err := e.startSync(c.TargetH); err != nil {
		return err
	}
	if err := e.sweep(); err != nil {
		return fmt.Errorf("after StartStateSync: %w", err)
	}
	if c.RaceAt > 0 && st.Known(findingF20) {
		// known finding: exclude exactly the schedule in which the engine's pending rejections
		// overlap FinishStateSync (they are then performed right after it returned)
		st.Exclude(findingF20)
		c.RaceAt = 0
	}
	var (
		pending []ids.ID
		pf      *parkedFinish
	)
	if c.Park > 0 {
		c.RaceAt = 0
	}
	for i, o := range c.Sync {
		last := i == len(c.Sync)-1
		oneBlockAccept := (o.K == "accP" && o.A == 1) || (o.K == "accB" && o.B == 1)
		if last && c.RaceAt > 0 && (o.K == "accP" || o.K == "accB") {
			e.deferRejects = true
		}
		if last && c.Park > 0 && oneBlockAccept {
			e.deferRejects = true
			if c.Park == 1 {
				// the syncer finishes while this Accept is parked in the pre-ready accepted subscriber
				e.skipTrace = true
				e.ch.onPreAcc = func(*blk) {
					if pf == nil {
						pf = e.launchParked(c.FinishSel)
					}
				}
			}
		}
		skipped, serr := e.step(o)
		e.ch.onPreAcc, e.skipTrace = nil, false
		if serr != nil {
			return wrapStep(i, o, fmt.Errorf("(sync) %w", serr))
		}
		pending, e.deferred, e.deferRejects = e.deferred, nil, false
		if skipped {
			st.Skip("sync-" + o.K)
			continue
		}
		if len(pending) > 0 || pf != nil {
			// the engine is between Accept and the sibling rejections: no observation here
			continue
		}
		if err := e.checkAccepts(e.rec.snap(), false); err != nil {
			return wrapStep(i, o, fmt.Errorf("(sync) %w", err))
		}
		if err := e.sweep(); err != nil {
			return wrapStep(i, o, fmt.Errorf("(sync) %w", err))
		}
	}
	if pf != nil {
		e.label("finish-parked-in-accept")
	}
	if c.Park == 2 && pf == nil && len(pending) > 0 {
		// the syncer finishes while the first owed rejection is parked in the pre-rejected subscriber
		first := e.rejectOrder(pending)[0]
		if st.Known(findingF31) {
			// known finding: exclude exactly "hand-over between the rejection of a block and of its
			// processing child": park in the rejection of a childless sibling, or not at all
			first = ids.Empty
			for _, id := range pending {
				leaf := e.blocks[id].st == sProcessing
				for _, cid := range e.blocks[id].children {
					leaf = leaf && e.blocks[cid].st != sProcessing
				}
				if leaf {
					first = id
					break
				}
			}
			if first != e.rejectOrder(pending)[0] {
				st.Exclude(findingF31)
			}
		}
		if first == ids.Empty {
			goto noPark
		}
		fm := e.blocks[first]
		e.ch.onPreRej = func(*blk) {
			if pf == nil {
				pf = e.launchParked(c.FinishSel)
			}
		}
		rerr := fm.h.Reject(e.ctx)
		e.ch.onPreRej = nil
		if rerr != nil {
			return fmt.Errorf("Reject(%s) failed: %w", fm.b, rerr)
		}
		e.markRejected(first)
		var rest []ids.ID
		for _, id := range pending {
			if id != first {
				rest = append(rest, id)
			}
		}
		for _, cid := range fm.children {
			if e.blocks[cid].st == sProcessing {
				rest = append(rest, cid)
			}
		}
		pending = rest
		if pf != nil {
			e.label("finish-parked-in-reject")
		}
	}
noPark:
	if len(e.chain) > 1 || c.TargetH > 1 {
		e.label("accepted-during-sync")
	}
	if err := e.finish(c.FinishSel, pending, c.RaceAt, pf); err != nil {
		return err
	}
	nt = e.labels["NT-behind-tip-with-invalid"]
	if err := e.sweep(); err != nil {
		return fmt.Errorf("after FinishStateSync: %w", err)
	}
	for i, o := range c.Post {
		skipped, serr := e.stepPost(o, c)
		if serr != nil {
			return wrapStep(i, o, fmt.Errorf("(post) %w", serr))
		}
		if skipped {
			st.Skip("post-" + o.K)
			continue
		}
		if err := e.checkAccepts(e.rec.snap(), false); err != nil {
			return wrapStep(i, o, fmt.Errorf("(post) %w", err))
		}
		if err := e.checkHealth(fmt.Sprintf("after %s", o)); err != nil {
			return wrapStep(i, o, fmt.Errorf("(post) %w", err))
		}
		if err := e.sweep(); err != nil {
			return wrapStep(i, o, fmt.Errorf("(post) %w", err))
		}
	}
	if e.held {
		e.ch.release()
		e.held = false
	}
	if err := e.await(); err != nil {
		return wrapStep(len(c.Post), op{K: "final-drain"}, err)
	}
	if err := e.sweep(); err != nil {
		return wrapStep(len(c.Post), op{K: "final"}, err)
	}
	if err := e.checkHealth("at the end"); err != nil {
		return err
	}
	return e.awaitExecutedTip()
}

const c21Rule = "a node in dynamic state sync (started ready or not, first target at canonical height 0..3), 0..20 engine ops while syncing (vacuous verify of valid/invalid blocks on a forking tree, preference changes, accepts of valid chains with transitive rejection), the syncer finishing on the tip or on an accepted block up to 5 below it (optionally racing with the engine's pending sibling rejections), then 0..16 ops of normal operation incl. accepting a block that failed re-verification and finishing twice; non-trivial = finish strictly behind the tip with at least one processing block that fails (or inherits failure of) re-verification; distinct by the whole case"

func TestC21(t *testing.T) {
	st := vstat.New(t, "C21", c21Rule)
	st.Assumption("while syncing the network only accepts chains of valid blocks (honest majority); invalid blocks may be processing and even preferred")
	st.Assumption("engine calls are sequential; FinishStateSync comes from the syncer's goroutine and may interleave with the engine only where the wrapper does not serialise them (Reject); that interleaving is owned by the harness through the VerifyBlock callback")
	rapid.Check(t, func(rt *rapid.T) {
		c := c21Gen(rt)
		runGuarded(rt, st, c, func() error { return c21Run(c, st) })
	})
}

func TestC21Replay(t *testing.T) {
	vstat.Replay(t, "C21", func(raw []byte) error {
		var c c21Case
		if err := json.Unmarshal(raw, &c); err != nil {
			return err
		}
		return c21Run(c, vstat.New(nil, "C21", ""))
	})
}
